(* C11: retry_interval_irrelevant.  In a time-indexed environment (the fd becomes ready at time tau, spurious
   readiness at arbitrary instants, zero processing time) the outcome of _retry, the timeout it hands back and
   the time it takes depend only on (tau, T), not on retry_interval. *)
From Coq Require Import ZArith List Bool Lia.
From EN Require Import IO.Retry IO.RetryEnv Proofs.C11_retry.
Import ListNotations.
Open Scope Z_scope.

(* ---- retry_loop (answer lists) is retry_w at the world (callback state, answer list) *)
Section ListInstance.
  Variables St R : Type.
  Variable cb : St -> cbres R * St * Z.

  Definition cb_list (w : St * list selans) : cbres R * (St * list selans) * Z :=
    let '(r, st1, c) := cb (fst w) in (r, (st1, snd w), c).
  Definition sel_list (w : St * list selans) (_ : tmo) : selans * (St * list selans) :=
    let '(a, sels1) := next_sel (snd w) in (a, (fst w, sels1)).

  Lemma retry_w_list_instance : forall fuel ri T st sels,
    let r := retry_loop cb fuel ri T st sels in
    let r' := retry_w cb_list sel_list fuel ri T (st, sels) in
    rr_out r' = rr_out r /\ rr_st r' = (rr_st r, rr_sels r) /\ rr_dt r' = rr_dt r
    /\ rr_waits r' = rr_waits r /\ rr_calls r' = rr_calls r.
  Proof.
    induction fuel as [|f IH]; intros ri T st sels; simpl.
    - repeat split.
    - assert (Hcb : cb_list (st, sels) = let '(r, st1, c) := cb st in (r, (st1, sels), c)) by reflexivity.
      rewrite Hcb. clear Hcb. destruct (cb st) as [[r st1] cost].
      destruct r as [v|w|c]; simpl; try (repeat split; reflexivity).
      destruct (tmo_le0 T); simpl; [repeat split; reflexivity|].
      assert (Hsel : forall wt, sel_list (st1, sels) wt = let '(a, sels1) := next_sel sels in (a, (st1, sels1)))
        by reflexivity.
      rewrite Hsel. clear Hsel. destruct (next_sel sels) as [a sels1].
      destruct (if negb (tmo_leb T ri) then ri else T) as [wz|].
      + destruct (negb (sa_ready a) && negb (negb (tmo_leb T ri))); simpl; [repeat split; reflexivity|].
        destruct (IH ri (recompute T (sa_el a)) st1 sels1) as (A & B & C & D & E).
        rewrite A, B, C, D, E. repeat split; reflexivity.
      + destruct (sa_ready a); simpl; [|repeat split; reflexivity].
        destruct (IH ri T st1 sels1) as (A & B & C & D & E).
        rewrite A, B, C, D, E. repeat split; reflexivity.
  Qed.
End ListInstance.

(* ---- the time-indexed environment *)
Lemma next_event_bounds : forall now e, now < e_tau e -> now < next_event now e <= e_tau e.
Proof.
  intros now [tau spur]. unfold next_event. simpl. intro H.
  induction spur as [|s spur IH]; simpl; [lia|].
  destruct ((now <? s) && (s <? fold_right (fun s0 m => if (now <? s0) && (s0 <? m) then s0 else m) tau spur)) eqn:E.
  - apply andb_true_iff in E. destruct E as [E1 E2]. apply Z.ltb_lt in E1. apply Z.ltb_lt in E2. lia.
  - exact IH.
Qed.

Lemma sel_env_some : forall e now wz,
  sel_env e now (Some wz) =
  if next_event now e <=? now + wz then ({| sa_ready := true; sa_el := next_event now e - now |}, next_event now e)
  else ({| sa_ready := false; sa_el := wz |}, now + wz).
Proof. reflexivity. Qed.

Lemma sel_env_none : forall e now,
  sel_env e now None = ({| sa_ready := true; sa_el := next_event now e - now |}, next_event now e).
Proof. reflexivity. Qed.

(* what _retry does in environment e, whatever the retry interval:
     with a finite timeout t >= 0 started at `now`:
        tau <= now + t : returns after max(0, tau - now) with the timeout left
        otherwise      : TimeoutError after exactly t
     with an infinite timeout: returns after max(0, tau - now).                                      *)
Definition env_spec (e : env) (T : tmo) (now : Z) (r : rres Z unit) : Prop :=
  match T with
  | Some t =>
      if e_tau e <=? now + t
      then rr_out r = ROk tt (Some (t - Z.max 0 (e_tau e - now))) /\ rr_dt r = Z.max 0 (e_tau e - now)
      else rr_out r = RTimeout /\ rr_dt r = t
  | None => rr_out r = ROk tt None /\ rr_dt r = Z.max 0 (e_tau e - now)
  end.

Lemma retry_w_env_spec : forall e fuel ri T now,
  ri_ok ri -> (match T with Some t => 0 <= t | None => True end) ->
  rr_out (retry_w (cb_env e) (sel_env e) fuel ri T now) <> RFuel ->
  env_spec e T now (retry_w (cb_env e) (sel_env e) fuel ri T now).
Proof.
  intros e fuel. induction fuel as [|f IH]; intros ri T now Hri HT; simpl; [intro H; contradiction H; reflexivity|].
  unfold cb_env at 1. simpl.
  destruct (e_tau e <=? now) eqn:Etau; simpl.
  - (* ready at once *)
    apply Z.leb_le in Etau. intros _. unfold env_spec. destruct T as [t|]; simpl.
    + assert (E : (e_tau e <=? now + t) = true) by (apply Z.leb_le; lia). rewrite E.
      replace (Z.max 0 (e_tau e - now)) with 0 by lia. replace (t - 0) with t by lia. split; reflexivity.
    + replace (Z.max 0 (e_tau e - now)) with 0 by lia. split; reflexivity.
  - apply Z.leb_gt in Etau.
    pose proof (next_event_bounds now e Etau) as [Hev1 Hev2].
    destruct T as [t|]; simpl.
    + (* finite timeout *)
      destruct (t <=? 0) eqn:Et; simpl.
      { apply Z.leb_le in Et. intros _. unfold env_spec.
        assert (E : (e_tau e <=? now + t) = false) by (apply Z.leb_gt; lia). rewrite E. simpl. split; [reflexivity|lia]. }
      apply Z.leb_gt in Et.
      (* the wait requested: wz with 0 < wz <= t, and wz = t unless it is a retry-interval wait *)
      assert (Hgen : forall wz (isri : bool), 0 < wz <= t -> (isri = false -> wz = t) -> (isri = true -> wz < t) ->
        rr_out (let '(a, w2) := sel_env e now (Some wz) in
                if negb (sa_ready a) && negb isri
                then mk_rres RTimeout w2 [] (0 + sa_el a)
                       [{| w_write := false; w_req := Some wz; w_ready := sa_ready a; w_el := sa_el a |}] 1
                else rr_add (0 + sa_el a)
                       [{| w_write := false; w_req := Some wz; w_ready := sa_ready a; w_el := sa_el a |}]
                       (retry_w (cb_env e) (sel_env e) f ri (recompute (Some t) (sa_el a)) w2)) <> RFuel ->
        env_spec e (Some t) now
               (let '(a, w2) := sel_env e now (Some wz) in
                if negb (sa_ready a) && negb isri
                then mk_rres RTimeout w2 [] (0 + sa_el a)
                       [{| w_write := false; w_req := Some wz; w_ready := sa_ready a; w_el := sa_el a |}] 1
                else rr_add (0 + sa_el a)
                       [{| w_write := false; w_req := Some wz; w_ready := sa_ready a; w_el := sa_el a |}]
                       (retry_w (cb_env e) (sel_env e) f ri (recompute (Some t) (sa_el a)) w2))).
      { intros wz isri Hwz Hnri Hisri. rewrite !sel_env_some.
        destruct (next_event now e <=? now + wz) eqn:Eev; simpl.
        - (* ready at the next event *)
          apply Z.leb_le in Eev. intro Hfuel.
          set (ev := next_event now e) in *.
          assert (Hrec : Z.max 0 (t - (ev - now)) = t - (ev - now)) by lia. rewrite Hrec in *.
          specialize (IH ri (Some (t - (ev - now))) ev Hri). simpl in IH.
          assert (H0 : 0 <= t - (ev - now)) by lia.
          specialize (IH H0 Hfuel). unfold env_spec in *.
          replace (ev + (t - (ev - now))) with (now + t) in IH by lia.
          destruct (e_tau e <=? now + t) eqn:Ed.
          + destruct IH as [A B]. simpl. rewrite A, B. split; [f_equal; f_equal; lia | lia].
          + destruct IH as [A B]. simpl. rewrite A, B. split; [reflexivity | lia].
        - (* not ready after the full wait *)
          apply Z.leb_gt in Eev. destruct isri; simpl.
          + (* retry-interval wake-up: go on *)
            intro Hfuel. specialize (Hisri eq_refl).
            assert (Hrec : Z.max 0 (t - wz) = t - wz) by lia. rewrite Hrec in *.
            specialize (IH ri (Some (t - wz)) (now + wz) Hri). simpl in IH.
            assert (H0 : 0 <= t - wz) by lia. specialize (IH H0 Hfuel). unfold env_spec in *.
            replace (now + wz + (t - wz)) with (now + t) in IH by lia.
            destruct (e_tau e <=? now + t) eqn:Ed.
            * destruct IH as [A B]. simpl. rewrite A, B. split; [f_equal; f_equal; lia | lia].
            * destruct IH as [A B]. simpl. rewrite A, B. split; [reflexivity | lia].
          + (* the whole timeout was waited *)
            intros _. specialize (Hnri eq_refl). subst wz. unfold env_spec.
            assert (E : (e_tau e <=? now + t) = false) by (apply Z.leb_gt; lia). rewrite E. simpl. split; [reflexivity|lia]. }
      destruct ri as [x|]; simpl in *.
      * destruct (t <=? x) eqn:Ex; simpl.
        -- apply (Hgen t false); [lia | reflexivity | discriminate].
        -- apply Z.leb_gt in Ex. apply (Hgen x true); [lia | discriminate | intros; lia].
      * apply (Hgen t false); [lia | reflexivity | discriminate].
    + (* infinite timeout *)
      destruct ri as [x|]; simpl in *.
      * destruct (next_event now e <=? now + x) eqn:Eev; simpl.
        -- intro Hfuel. specialize (IH (Some x) None (next_event now e) Hri I Hfuel). unfold env_spec in *.
           destruct IH as [A B]. rewrite A, B. split; [reflexivity | lia].
        -- apply Z.leb_gt in Eev. intro Hfuel.
           specialize (IH (Some x) None (now + x) Hri I Hfuel). unfold env_spec in *.
           destruct IH as [A B]. rewrite A, B. split; [reflexivity | lia].
      * intro Hfuel.
        specialize (IH None None (next_event now e) I I Hfuel). unfold env_spec in *.
        destruct IH as [A B]. rewrite A, B. split; [reflexivity | lia].
Qed.

Lemma retry_interval_irrelevant_proof : forall e T now ri1 ri2 fuel1 fuel2,
  ri_ok ri1 -> ri_ok ri2 ->
  rr_out (retry_env e fuel1 ri1 T now) <> RFuel ->
  rr_out (retry_env e fuel2 ri2 T now) <> RFuel ->
  rr_out (retry_env e fuel1 ri1 T now) = rr_out (retry_env e fuel2 ri2 T now)
  /\ rr_dt (retry_env e fuel1 ri1 T now) = rr_dt (retry_env e fuel2 ri2 T now).
Proof.
  intros e T now ri1 ri2 fuel1 fuel2 H1 H2. unfold retry_env.
  destruct (tmo_neg T) eqn:En; [intros; split; reflexivity|].
  assert (HT : match T with Some t => 0 <= t | None => True end).
  { destruct T as [t|]; [|exact I]. simpl in En. apply Z.ltb_ge in En. exact En. }
  intros F1 F2.
  pose proof (retry_w_env_spec e fuel1 ri1 T now H1 HT F1) as S1.
  pose proof (retry_w_env_spec e fuel2 ri2 T now H2 HT F2) as S2.
  unfold env_spec in *. destruct T as [t|].
  - destruct (e_tau e <=? now + t); destruct S1 as [A1 B1]; destruct S2 as [A2 B2]; rewrite A1, A2, B1, B2; split; reflexivity.
  - destruct S1 as [A1 B1]; destruct S2 as [A2 B2]; rewrite A1, A2, B1, B2; split; reflexivity.
Qed.

(* ------------------------------------------------------------------------------------------------------------ *)
(* retry_interval with NON-ZERO call costs.  With costs the outcome does depend on retry_interval inside the
   window now+T < tau <= now+T+(total cost): every wake-up buys another attempt.  What holds for every retry
   interval (W = time spent in select(), rr_dt = W + the costs of the callback invocations):
     success  =>  max(0, tau-now) <= rr_dt   and   W <= max(0, tau-now)
     timeout  =>  tau > now + T              and   W = T
   hence tau <= now+T always succeeds, tau beyond now+T+cost total always times out, and the elapsed times of two
   runs differ by at most the call costs of the longer one. *)
Definition envc_spec (e : envc) (T : tmo) (now : Z) (r : rres Z unit) : Prop :=
  match rr_out r with
  | ROk _ _ => Z.max 0 (e_tau (ec_env e) - now) <= rr_dt r
               /\ 0 <= sum_wait_el (rr_waits r) <= Z.max 0 (e_tau (ec_env e) - now)
  | RTimeout => match T with
                | Some t => now + t < e_tau (ec_env e) /\ sum_wait_el (rr_waits r) = t
                | None => False
                end
  | _ => False
  end.

Lemma sel_envc_ready_now : forall e now wt,
  e_tau (ec_env e) <= now -> sel_envc e now wt = ({| sa_ready := true; sa_el := 0 |}, now).
Proof. intros e now wt H. unfold sel_envc. apply Z.leb_le in H. rewrite H. reflexivity. Qed.

Lemma sel_envc_later : forall e now wt,
  now < e_tau (ec_env e) -> sel_envc e now wt = sel_env (ec_env e) now wt.
Proof. intros e now wt H. unfold sel_envc. apply Z.leb_gt in H. rewrite H. reflexivity. Qed.

Lemma retry_w_envc_spec : forall e fuel ri T now,
  0 <= ec_cost e -> ri_ok ri -> (match T with Some t => 0 <= t | None => True end) ->
  rr_out (retry_w (cb_envc e) (sel_envc e) fuel ri T now) <> RFuel ->
  envc_spec e T now (retry_w (cb_envc e) (sel_envc e) fuel ri T now).
Proof.
  intros e fuel. induction fuel as [|f IH]; intros ri T now Hc Hri HT; simpl; [intro H; contradiction H; reflexivity|].
  unfold cb_envc at 1. simpl.
  set (tau := e_tau (ec_env e)) in *. set (c := ec_cost e) in *.
  destruct (tau <=? now) eqn:Etau; simpl.
  - apply Z.leb_le in Etau. intros _. unfold envc_spec. simpl. fold tau. lia.
  - apply Z.leb_gt in Etau.
    (* one step: after the wait (elapsed el, 0 <= el, now2 = now + c + el <= max tau (now+c)) the rest of the run *)
    assert (Hstep : forall (a : selans) (w2 : Z) (T1 : tmo) req,
      0 <= sa_el a -> w2 = now + c + sa_el a ->
      (tau <= now + c -> sa_el a = 0) -> (now + c < tau -> w2 <= tau) ->
      (match T, T1 with
       | Some t, Some t1 => t1 = t - sa_el a /\ 0 <= t1
       | None, None => True
       | _, _ => False
       end) ->
      rr_out (retry_w (cb_envc e) (sel_envc e) f ri T1 w2) <> RFuel ->
      envc_spec e T now
        (rr_add (c + sa_el a) [{| w_write := false; w_req := req; w_ready := sa_ready a; w_el := sa_el a |}]
                (retry_w (cb_envc e) (sel_envc e) f ri T1 w2))).
    { intros a w2 T1 req Hel Hw2 Hz Hle HTT Hfuel.
      assert (HT1 : match T1 with Some t => 0 <= t | None => True end).
      { destruct T as [t|], T1 as [t1|]; try contradiction; [lia|exact I]. }
      specialize (IH ri T1 w2 Hc Hri HT1 Hfuel). unfold envc_spec in *. simpl. fold tau in IH |- *.
      destruct (rr_out (retry_w (cb_envc e) (sel_envc e) f ri T1 w2)) as [v T'| |code|]; try contradiction.
      - destruct IH as (A & B1 & B2). split; [lia|]. split; [lia|].
        destruct (Z_le_gt_dec tau (now + c)) as [L|G]; [specialize (Hz L); lia | specialize (Hle ltac:(lia)); lia].
      - destruct T as [t|], T1 as [t1|]; try contradiction.
        destruct HTT as [E1 E2]. destruct IH as [A B]. split; lia. }
    destruct T as [t|]; simpl.
    + destruct (t <=? 0) eqn:Et; simpl.
      { apply Z.leb_le in Et. intros _. unfold envc_spec. simpl. fold tau. split; lia. }
      apply Z.leb_gt in Et.
      assert (Hgen : forall wz (isri : bool), 0 < wz <= t -> (isri = false -> wz = t) -> (isri = true -> wz < t) ->
        rr_out (let '(a, w2) := sel_envc e (now + c) (Some wz) in
                if negb (sa_ready a) && negb isri
                then mk_rres RTimeout w2 [] (c + sa_el a)
                       [{| w_write := false; w_req := Some wz; w_ready := sa_ready a; w_el := sa_el a |}] 1
                else rr_add (c + sa_el a)
                       [{| w_write := false; w_req := Some wz; w_ready := sa_ready a; w_el := sa_el a |}]
                       (retry_w (cb_envc e) (sel_envc e) f ri (recompute (Some t) (sa_el a)) w2)) <> RFuel ->
        envc_spec e (Some t) now
               (let '(a, w2) := sel_envc e (now + c) (Some wz) in
                if negb (sa_ready a) && negb isri
                then mk_rres RTimeout w2 [] (c + sa_el a)
                       [{| w_write := false; w_req := Some wz; w_ready := sa_ready a; w_el := sa_el a |}] 1
                else rr_add (c + sa_el a)
                       [{| w_write := false; w_req := Some wz; w_ready := sa_ready a; w_el := sa_el a |}]
                       (retry_w (cb_envc e) (sel_envc e) f ri (recompute (Some t) (sa_el a)) w2))).
      { intros wz isri Hwz Hnri Hisri.
        destruct (Z_le_gt_dec tau (now + c)) as [L|G].
        - (* the fd became ready while the callback was running: select() returns at once *)
          rewrite !(sel_envc_ready_now e (now + c) (Some wz) L). simpl. intro Hfuel.
          apply (Hstep {| sa_ready := true; sa_el := 0 |} (now + c) (Some (Z.max 0 (t - 0))) (Some wz)); simpl;
            try lia; try assumption; try (split; lia).
        - rewrite !(sel_envc_later e (now + c) (Some wz) ltac:(lia)). rewrite !sel_env_some.
          pose proof (next_event_bounds (now + c) (ec_env e) ltac:(fold tau; lia)) as [Hev1 Hev2]. fold tau in Hev2.
          set (ev := next_event (now + c) (ec_env e)) in *.
          destruct (ev <=? now + c + wz) eqn:Eev; simpl.
          + apply Z.leb_le in Eev. intro Hfuel.
            apply (Hstep {| sa_ready := true; sa_el := ev - (now + c) |} ev (Some (Z.max 0 (t - (ev - (now + c))))) (Some wz));
              simpl; try lia; try assumption; try (split; lia).
          + apply Z.leb_gt in Eev. destruct isri; simpl.
            * intro Hfuel. specialize (Hisri eq_refl).
              apply (Hstep {| sa_ready := false; sa_el := wz |} (now + c + wz) (Some (Z.max 0 (t - wz))) (Some wz));
                simpl; try lia; try assumption; try (split; lia).
            * intros _. specialize (Hnri eq_refl). subst wz. unfold envc_spec. simpl. fold tau. split; lia. }
      destruct ri as [x|]; simpl in *.
      * destruct (t <=? x) eqn:Ex; simpl.
        -- apply (Hgen t false); [lia | reflexivity | discriminate].
        -- apply Z.leb_gt in Ex. apply (Hgen x true); [lia | discriminate | intros; lia].
      * apply (Hgen t false); [lia | reflexivity | discriminate].
    + (* infinite timeout *)
      destruct (Z_le_gt_dec tau (now + c)) as [L|G].
      * destruct ri as [x|]; simpl in *; rewrite !(sel_envc_ready_now e (now + c) _ L); simpl; intro Hfuel.
        -- apply (Hstep {| sa_ready := true; sa_el := 0 |} (now + c) None (Some x)); simpl; try lia; try assumption; try exact I.
        -- apply (Hstep {| sa_ready := true; sa_el := 0 |} (now + c) None None); simpl; try lia; try assumption; try exact I.
      * pose proof (next_event_bounds (now + c) (ec_env e) ltac:(fold tau; lia)) as [Hev1 Hev2]. fold tau in Hev2.
        destruct ri as [x|]; simpl in *; rewrite !(sel_envc_later e (now + c) _ ltac:(lia)).
        -- rewrite !sel_env_some. set (ev := next_event (now + c) (ec_env e)) in *.
           destruct (ev <=? now + c + x) eqn:Eev; simpl; intro Hfuel.
           ++ apply (Hstep {| sa_ready := true; sa_el := ev - (now + c) |} ev None (Some x)); simpl; try lia; try assumption; try exact I.
           ++ apply Z.leb_gt in Eev.
              apply (Hstep {| sa_ready := false; sa_el := x |} (now + c + x) None (Some x)); simpl; try lia; try assumption; try exact I.
        -- rewrite !sel_env_none. simpl. intro Hfuel.
           set (ev := next_event (now + c) (ec_env e)) in *.
           apply (Hstep {| sa_ready := true; sa_el := ev - (now + c) |} ev None None); simpl; try lia; try assumption; try exact I.
Qed.

Definition is_ok (r : rres Z unit) : Prop := exists v T', rr_out r = ROk v T'.

Lemma retry_envc_facts : forall e fuel ri T now,
  0 <= ec_cost e -> ri_ok ri -> (match T with Some t => 0 <= t | None => True end) ->
  let r := retry_w (cb_envc e) (sel_envc e) fuel ri T now in
  rr_out r <> RFuel ->
  (* success / TimeoutError are the only outcomes, with these bounds *)
  ((is_ok r /\ Z.max 0 (e_tau (ec_env e) - now) <= rr_dt r
    /\ 0 <= sum_wait_el (rr_waits r) <= Z.max 0 (e_tau (ec_env e) - now))
   \/ (rr_out r = RTimeout /\ exists t, T = Some t /\ now + t < e_tau (ec_env e) /\ sum_wait_el (rr_waits r) = t))
  (* ready within T (costs not counted): success whatever the retry interval *)
  /\ (match T with Some t => e_tau (ec_env e) <= now + t | None => True end -> is_ok r).
Proof.
  intros e fuel ri T now Hc Hri HT r Hf.
  pose proof (retry_w_envc_spec e fuel ri T now Hc Hri HT Hf) as S. fold r in S. unfold envc_spec in S.
  destruct (rr_out r) as [v T'| |code|] eqn:E; try contradiction.
  - split; [left; split; [exists v, T'; first [exact E | reflexivity] | exact S] | intros _; exists v, T'; first [exact E | reflexivity]].
  - destruct T as [t|]; [|contradiction]. destruct S as [A B].
    split; [right; split; [first [exact E | reflexivity] | exists t; repeat split; assumption] | intro H; lia].
Qed.

(* two runs with different retry intervals: where both succeed, the elapsed times differ by at most the call costs
   (rr_dt - time in select) of the slower one *)
Lemma retry_envc_elapsed_gap : forall e T now ri1 ri2 fuel1 fuel2,
  0 <= ec_cost e -> ri_ok ri1 -> ri_ok ri2 -> (match T with Some t => 0 <= t | None => True end) ->
  let r1 := retry_w (cb_envc e) (sel_envc e) fuel1 ri1 T now in
  let r2 := retry_w (cb_envc e) (sel_envc e) fuel2 ri2 T now in
  is_ok r1 -> is_ok r2 ->
  rr_dt r1 - rr_dt r2 <= rr_dt r1 - sum_wait_el (rr_waits r1).
Proof.
  intros e T now ri1 ri2 fuel1 fuel2 Hc H1 H2 HT r1 r2 (v1 & T1 & O1) (v2 & T2 & O2).
  assert (F1 : rr_out r1 <> RFuel) by (rewrite O1; discriminate).
  assert (F2 : rr_out r2 <> RFuel) by (rewrite O2; discriminate).
  pose proof (retry_w_envc_spec e fuel1 ri1 T now Hc H1 HT F1) as S1.
  pose proof (retry_w_envc_spec e fuel2 ri2 T now Hc H2 HT F2) as S2.
  fold r1 in S1. fold r2 in S2. unfold envc_spec in *. rewrite O1 in S1. rewrite O2 in S2. lia.
Qed.
