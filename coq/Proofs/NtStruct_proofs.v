From Coq Require Import List NArith Arith Bool Lia.
From EN Require Import Lib.Bytes Frame.Framer Frame.NtStruct.
Import ListNotations.
Local Open Scope N_scope.

Lemma rstrip0_zeros k : rstrip0 (repeat 0 k) = [].
Proof. induction k as [|k IH]; [reflexivity|]. cbn [repeat rstrip0]. rewrite IH. reflexivity. Qed.

Lemma rstrip0_app_zeros l k : rstrip0 (l ++ repeat 0 k) = rstrip0 l.
Proof.
  induction l as [|b l IH]; cbn [app rstrip0]; [apply rstrip0_zeros|]. rewrite IH. reflexivity.
Qed.

Lemma nt_serialize_length n name x : (length name <= n)%nat -> length (nt_serialize n name x) = S n.
Proof.
  intros H. unfold nt_serialize. rewrite !app_length, repeat_length, firstn_length. cbn [length]. lia.
Qed.

Lemma nt_parts (n : nat) (name : list N) (x : N) :
  (length name <= n)%nat ->
  firstn n ((name ++ repeat 0 (n - length name)) ++ [x]) = name ++ repeat 0 (n - length name)
  /\ nth n ((name ++ repeat 0 (n - length name)) ++ [x]) 0 = x.
Proof.
  intros Hl.
  assert (Hlen : length (name ++ repeat 0 (n - length name)) = n) by (rewrite app_length, repeat_length; lia).
  split.
  - rewrite firstn_app, Hlen, Nat.sub_diag, firstn_O, app_nil_r. apply firstn_all2. lia.
  - rewrite app_nth2 by lia. rewrite Hlen, Nat.sub_diag. reflexivity.
Qed.

(* a field value that fits and does not end with a NUL (what trailing-NUL stripping can preserve) comes back unchanged *)
Theorem nt_roundtrip n strip ascii name x :
  (length name <= n)%nat ->
  (strip = true -> rstrip0 name = name) -> (strip = false -> length name = n) ->
  (ascii = true -> forallb (fun b => b <? 128) name = true) ->
  nt_deserialize n strip ascii (nt_serialize n name x) = Some (name, x).
Proof.
  intros Hl Hs Hs' Ha. unfold nt_deserialize. rewrite (nt_serialize_length n name x Hl), Nat.eqb_refl.
  cbv zeta. unfold nt_serialize. unfold bytes, byte in *. rewrite (firstn_all2 (n:=n) name Hl). rewrite app_assoc.
  destruct (nt_parts n name x Hl) as (Hf & Hn). rewrite Hf, Hn.
  assert (Hv : rstrip0 (name ++ repeat 0 (n - length name)) = rstrip0 name) by apply rstrip0_app_zeros.
  destruct strip.
  - rewrite Hv, (Hs eq_refl). destruct ascii; cbn [andb]; [|reflexivity]. rewrite (Ha eq_refl). reflexivity.
  - rewrite (Hs' eq_refl), Nat.sub_diag. cbn [repeat]. rewrite app_nil_r.
    destruct ascii; cbn [andb]; [|reflexivity]. rewrite (Ha eq_refl). reflexivity.
Qed.

(* and what stripping cannot preserve: a value ending with a NUL comes back shorter *)
Example nt_trailing_nul_is_padding : nt_deserialize 3 true false (nt_serialize 3 [97; 0] 7) = Some ([97], 7).
Proof. reflexivity. Qed.
Example nt_interior_nul_kept : nt_deserialize 5 true false (nt_serialize 5 [97; 0; 98] 7) = Some ([97; 0; 98], 7).
Proof. reflexivity. Qed.
