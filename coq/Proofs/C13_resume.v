(* C13: resumption discipline of the shield-free world, and "a cancellation on its way is never lost":
   while the task is suspended with _must_cancel set or with its awaited future cancelled, no step of the machine resumes
   it normally -- the next resumption is by CancelledError (all shield-free programs, all schedules, all code states).
   This is the delivery half of interrupt_on_time / external_cancel_propagates. *)
From Coq Require Import ZArith List Bool Arith Lia.
From EN Require Import Conc.CancelScope Conc.CancelScopeDomain Proofs.C13_core Proofs.C13_inv Proofs.C13_more
  Proofs.C13_floor Proofs.C13_sf.
Import ListNotations.

Definition is_resk (k : hkind) : bool := match k with HStep => true | HFutCb _ CbWake => true | _ => false end.
Definition is_res (h : handle) : bool := is_resk (h_kind h).
Definition cres (l : list handle) : nat := length (filter is_res l).
Definition is_wake (c : cb) : bool := match c with CbWake => true | _ => false end.
Definition nwake (cbs : list cb) : nat := length (filter is_wake cbs).
Fixpoint cw (l : list fut) : nat := match l with [] => 0 | x :: l' => nwake (f_cbs x) + cw l' end.

Lemma cres_app : forall a b, cres (a ++ b) = cres a + cres b.
Proof. intros. unfold cres. rewrite filter_app, app_length. reflexivity. Qed.
Lemma cres_mark : forall c l, cres (map (mark_h c) l) = cres l.
Proof.
  intros c l. unfold cres. induction l as [|a l IH]; simpl; [reflexivity|].
  assert (E : is_res (mark_h c a) = is_res a) by (unfold mark_h, is_res; destruct (h_id a =? c); reflexivity).
  rewrite E. destruct (is_res a); simpl; rewrite IH; reflexivity.
Qed.
Lemma nwake_app : forall a b, nwake (a ++ b) = nwake a + nwake b.
Proof. intros. unfold nwake. rewrite filter_app, app_length. reflexivity. Qed.
Lemma cw_app : forall a b, cw (a ++ b) = cw a + cw b.
Proof. induction a; intros; simpl; [reflexivity|rewrite IHa; lia]. Qed.
Lemma cw_upd : forall l f x, f < length l -> cw (upd l f x) + nwake (f_cbs (nth f l dummy_f)) = cw l + nwake (f_cbs x).
Proof.
  induction l as [|a l IH]; intros f x Hf; simpl in Hf; [lia|].
  destruct f; simpl; [lia|]. specialize (IH f x ltac:(lia)). lia.
Qed.
Lemma upd_oob_f : forall (l : list fut) k x, length l <= k -> upd l k x = l.
Proof.
  induction l as [|a l IH]; intros k x Hk; simpl; [reflexivity|].
  destruct k; simpl in Hk; [lia|]. rewrite IH by lia. reflexivity.
Qed.
Lemma nwake_in : forall cbs, In CbWake cbs <-> 0 < nwake cbs.
Proof.
  induction cbs as [|c cbs IH]; simpl; [split; [intros []|unfold nwake; simpl; lia]|].
  unfold nwake in *. simpl. destruct c; simpl; split; intros H; try lia; try (left; reflexivity).
  - destruct H as [H|H]; [discriminate|]. apply IH. exact H.
  - right. apply IH. exact H.
  - destruct H as [H|H]; [discriminate|]. apply IH. exact H.
  - right. apply IH. exact H.
Qed.

Definition nr_t (t : timer) : Prop := is_res (tm_h t) = false.
Lemma nr_dummy : nr_t dummy_t. Proof. reflexivity. Qed.

(* ---------------- internal operations *)
Record rrel (st st' : state) : Prop := mkRR {
  rr_tot : cres (ready st') + cw (futs st') = cres (ready st) + cw (futs st);
  rr_waiter : t_waiter st' = t_waiter st;
  rr_md : md st' = md st;
  rr_frames : frames st' = frames st;
  rr_new : forall h, In h (ready st') ->
           (exists h0, In h0 (ready st) /\ h_kind h0 = h_kind h) \/
           (h_kind h <> HStep /\ forall g, h_kind h = HFutCb g CbWake -> In CbWake (f_cbs (get_fut st g)));
  rr_cbs : forall g, In CbWake (f_cbs (get_fut st' g)) -> In CbWake (f_cbs (get_fut st g));
  rr_must : t_must st = true -> t_must st' = true;
  rr_canc : forall g m, f_st (get_fut st g) = FCanc m -> exists m', f_st (get_fut st' g) = FCanc m';
  rr_heap : Forall nr_t (heap st) -> Forall nr_t (heap st') }.

Lemma rrel_refl : forall st, rrel st st.
Proof. intros; constructor; auto. - intros h Hh. left. exists h. auto. - intros g m H. eauto. Qed.

Lemma rrel_trans : forall a b c, rrel a b -> rrel b c -> rrel a c.
Proof.
  intros a b c [t1 w1 m1 f1 n1 c1 u1 k1 hp1] [t2 w2 m2 f2 n2 c2 u2 k2 hp2]. constructor; try congruence; auto.
  - intros h Hh. destruct (n2 h Hh) as [[h0 [Hin Hk]]|[Hs Hw]].
    + destruct (n1 h0 Hin) as [[h00 [Hin0 Hk0]]|[Hs0 Hw0]].
      * left. exists h00. split; [exact Hin0|congruence].
      * right. rewrite <- Hk. split; [exact Hs0|exact Hw0].
    + right. split; [exact Hs|]. intros g Hg. apply c1. apply Hw. exact Hg.
  - intros g m H. destruct (k1 g m H) as [m' H']. eapply k2. exact H'.
Qed.

Record same5 (st st' : state) : Prop := mkS5 {
  s5_ready : ready st' = ready st; s5_futs : futs st' = futs st; s5_waiter : t_waiter st' = t_waiter st;
  s5_md : md st' = md st; s5_frames : frames st' = frames st; s5_must : t_must st = true -> t_must st' = true;
  s5_heap : heap st' = heap st }.
Ltac sm5 := constructor; first [reflexivity | (intros; assumption) | (intros; reflexivity)].
Lemma same5_rrel : forall st st', same5 st st' -> rrel st st'.
Proof.
  intros st st' [r f w m fr mu hp]. constructor; auto.
  - rewrite r, f. reflexivity.
  - intros h Hh. left. exists h. rewrite r in Hh. auto.
  - intros g. unfold get_fut. rewrite f. auto.
  - intros g m0. unfold get_fut. rewrite f. eauto.
  - rewrite hp. auto.
Qed.
Ltac r5 := apply same5_rrel; sm5.

Lemma rrel_cancel_handle : forall st c, rrel st (cancel_handle st c).
Proof.
  intros. constructor; auto.
  - cbn [ready futs cancel_handle set_heap set_ready]. rewrite cres_mark. reflexivity.
  - intros h Hh. cbn [ready cancel_handle set_heap set_ready] in Hh. apply in_map_iff in Hh.
    destruct Hh as [h0 [E Hin]]. left. exists h0. split; [exact Hin|]. subst h. unfold mark_h. destruct (_ =? _); reflexivity.
  - intros g m H. eauto.
  - intros H. cbn [heap cancel_handle set_heap set_ready]. apply Forall_forall. intros t Ht. apply in_map_iff in Ht.
    destruct Ht as [t0 [E Hin]]. rewrite Forall_forall in H. specialize (H t0 Hin). subst t.
    unfold nr_t, is_res, mark_t, mark_h in *. simpl. destruct (_ =? _); exact H.
Qed.
Lemma rrel_cancel_ohandle : forall st h, rrel st (cancel_ohandle st h).
Proof. intros st [h|]; [apply rrel_cancel_handle|apply rrel_refl]. Qed.

Lemma rrel_call_soon : forall st k, is_resk k = false -> rrel st (fst (call_soon st k)).
Proof.
  intros st k Hk. constructor; auto.
  - cbn [ready futs call_soon fst set_nexth set_ready]. rewrite cres_app. unfold cres at 2. simpl. unfold is_res. simpl.
    rewrite Hk. simpl. lia.
  - intros h Hh. change (In h (ready st ++ [mkH (nexth st) k false])) in Hh.
    apply in_app_or in Hh. destruct Hh as [Hh|[E|[]]]; [left; exists h; auto|]. subst h. right. cbn [h_kind].
    split; [intro E; rewrite E in Hk; discriminate|]. intros g Hg. rewrite Hg in Hk. discriminate.
  - intros g m H. eauto.
Qed.
Lemma rrel_call_at : forall st w k, is_resk k = false -> rrel st (fst (call_at st w k)).
Proof.
  intros st w k Hk. constructor; auto.
  - intros h Hh. left. exists h. auto.
  - intros g m H. eauto.
  - intros H. cbn [heap call_at fst set_nexth set_heap]. apply (FP_heappush nr_t nr_dummy); [exact H|exact Hk].
Qed.

(* scheduling the callbacks of a future that has just been completed: they leave its list (already emptied) and become
   handles *)
Lemma schedule_cbs_spec : forall cbs st f,
  cres (ready (schedule_cbs st f cbs)) = cres (ready st) + nwake cbs /\
  futs (schedule_cbs st f cbs) = futs st /\ t_waiter (schedule_cbs st f cbs) = t_waiter st /\
  md (schedule_cbs st f cbs) = md st /\ frames (schedule_cbs st f cbs) = frames st /\
  t_must (schedule_cbs st f cbs) = t_must st /\
  (forall h, In h (ready (schedule_cbs st f cbs)) -> In h (ready st) \/ exists c, In c cbs /\ h_kind h = HFutCb f c).
Proof.
  induction cbs as [|c cbs IH]; intros st f; cbn [schedule_cbs].
  - unfold nwake. simpl. repeat split; auto.
  - destruct (IH (fst (call_soon st (HFutCb f c))) f) as (A & B & C & D & E & F & G).
    repeat split; try (rewrite ?A, ?B, ?C, ?D, ?E, ?F; reflexivity).
    + rewrite A. cbn [ready call_soon fst set_nexth set_ready]. rewrite cres_app. unfold cres at 2. simpl.
      unfold is_res. simpl. unfold nwake. simpl. destruct c; simpl; lia.
    + intros h Hh. destruct (G h Hh) as [Hin|[c' [Hc Hk]]].
      * change (In h (ready st ++ [mkH (nexth st) (HFutCb f c) false])) in Hin.
        apply in_app_or in Hin. destruct Hin as [Hin|[E0|[]]]; [left; exact Hin|].
        subst h. right. exists c. split; [left; reflexivity|reflexivity].
      * right. exists c'. split; [right; exact Hc|exact Hk].
Qed.

Lemma get_put_fut : forall st f x g,
  get_fut (put_fut st f x) g = if (g =? f) && (f <? length (futs st)) then x else get_fut st g.
Proof.
  intros. unfold get_fut, put_fut. cbn [futs set_futs].
  revert f g. induction (futs st) as [|a l IH]; intros f g.
  - simpl. rewrite andb_false_r. destruct g; reflexivity.
  - destruct f; destruct g; simpl; try reflexivity. rewrite IH. reflexivity.
Qed.

Lemma rrel_fut_finish : forall st f s, rrel st (fst (fut_finish st f s)).
Proof.
  intros st f s. unfold fut_finish. destruct (f_st (get_fut st f)) eqn:Ef; cbn [fst]; try apply rrel_refl.
  set (x := get_fut st f) in *.
  assert (L : f < length (futs st)).
  { destruct (lt_dec f (length (futs st))) as [L|L]; [exact L|]. unfold x, get_fut in Ef.
    rewrite nth_overflow in Ef by lia. discriminate. }
  set (st1 := put_fut st f (mkFut s [])).
  destruct (schedule_cbs_spec (f_cbs x) st1 f) as (A & B & C & D & E & F & G).
  constructor.
  - rewrite A, B. unfold st1, put_fut. cbn [ready futs set_futs].
    pose proof (cw_upd (futs st) f (mkFut s []) L) as U. fold (get_fut st f) in U. fold x in U.
    cbn [f_cbs] in U. unfold nwake at 2 in U. simpl in U. lia.
  - rewrite C. reflexivity.
  - rewrite D. reflexivity.
  - rewrite E. reflexivity.
  - intros h Hh. destruct (G h Hh) as [Hin|[c [Hc Hk]]]; [left; exists h; auto|].
    right. rewrite Hk. split; [discriminate|]. intros g Hg. inversion Hg; subst. exact Hc.
  - intros g Hg. unfold get_fut in Hg. rewrite B in Hg. fold (get_fut st1 g) in Hg. unfold st1 in Hg.
    rewrite get_put_fut in Hg. destruct ((g =? f) && (f <? length (futs st))); [destruct Hg|exact Hg].
  - intros Hm. rewrite F. exact Hm.
  - intros g m Hg. unfold get_fut. rewrite B. fold (get_fut st1 g). unfold st1. rewrite get_put_fut.
    destruct ((g =? f) && (f <? length (futs st))) eqn:E0; [|eauto].
    apply andb_prop in E0. destruct E0 as [E0 _]. apply Nat.eqb_eq in E0. subst g. fold x in Hg. congruence.
  - intros H. destruct (same_schedule_cbs (f_cbs x) st1 f). clear - H. revert H.
    assert (Eh : forall cbs s0, heap (schedule_cbs s0 f cbs) = heap s0).
    { induction cbs as [|c cbs IH]; intros s0; cbn [schedule_cbs]; [reflexivity|]. rewrite IH. reflexivity. }
    rewrite Eh. auto.
Qed.

Lemma rrel_task_cancel : forall st m, rrel st (task_cancel st m).
Proof.
  intros. unfold task_cancel. destruct (task_done st); [apply rrel_refl|].
  set (st1 := set_t_cnt st (S (t_cnt st))).
  assert (Q1 : rrel st st1) by (unfold st1; r5).
  destruct (t_waiter st1) as [f|].
  - unfold fut_cancel. pose proof (rrel_fut_finish st1 f (FCanc m)) as Q2.
    destruct (fut_finish st1 f (FCanc m)) as [st2 ok]. cbn [fst] in Q2.
    destruct ok; [exact (rrel_trans _ _ _ Q1 Q2)|].
    eapply rrel_trans; [exact (rrel_trans _ _ _ Q1 Q2)|]. apply same5_rrel. constructor; try reflexivity; intros; reflexivity.
  - eapply rrel_trans; [exact Q1|]. apply same5_rrel. constructor; try reflexivity; intros; reflexivity.
Qed.
Lemma rrel_upd_scope : forall st k f, rrel st (upd_scope st k f). Proof. intros; r5. Qed.
Lemma rrel_deliver_arm : forall st k r, rrel st (deliver_arm st k r).
Proof.
  intros st k [|]; unfold deliver_arm; [|apply rrel_upd_scope].
  eapply rrel_trans; [apply (rrel_call_soon st (HDeliver k)); reflexivity|apply rrel_upd_scope].
Qed.
Lemma rrel_deliver : forall st k, rrel st (deliver st k).
Proof.
  intros. unfold deliver. destruct (negb (s_host (get_scope st k))); [apply rrel_refl|].
  destruct (delayed st) as [[h m]|]; [apply rrel_deliver_arm|].
  destruct (negb (t_must st) && negb (task_is_current st)); [|apply rrel_deliver_arm].
  eapply rrel_trans; [|apply rrel_deliver_arm]. unfold deliver_issue.
  eapply rrel_trans; [apply rrel_task_cancel|apply rrel_upd_scope].
Qed.
Lemma rrel_scope_cancel : forall st k, rrel st (scope_cancel st k).
Proof.
  intros. unfold scope_cancel. destruct (s_called (get_scope st k)); [apply rrel_refl|].
  eapply rrel_trans; [|apply rrel_deliver]. eapply rrel_trans; [apply rrel_cancel_ohandle|apply rrel_upd_scope].
Qed.
Lemma rrel_setup_timeout : forall st k, rrel st (setup_timeout st k).
Proof.
  intros. unfold setup_timeout. destruct (s_deadline (get_scope st k)) as [dl|]; [|apply rrel_refl].
  destruct (dl <=? time st); [apply rrel_scope_cancel|].
  eapply rrel_trans; [apply (rrel_call_at st dl (HScopeCancel k)); reflexivity|apply rrel_upd_scope].
Qed.
Lemma rrel_scope_reschedule : forall st k w, rrel st (scope_reschedule st k w).
Proof.
  intros. unfold scope_reschedule.
  assert (Q1 : rrel st (upd_scope (cancel_ohandle st (s_th (get_scope st k))) k (sc_set_deadline w)))
    by (eapply rrel_trans; [apply rrel_cancel_ohandle|apply rrel_upd_scope]).
  destruct (s_state (get_scope st k)); try exact Q1. destruct (s_called (get_scope st k)); [exact Q1|].
  eapply rrel_trans; [exact Q1|apply rrel_setup_timeout].
Qed.
Lemma rrel_check_pending : forall st, rrel st (check_pending st).
Proof.
  intros. unfold check_pending. destruct (first_called st (sstack st)) as [k|]; [|apply rrel_refl].
  destruct (s_ch (get_scope st k)); [apply rrel_refl|apply rrel_deliver].
Qed.
Lemma rrel_scope_enter : forall st pre dl, rrel st (fst (scope_enter st pre dl)).
Proof.
  intros. unfold scope_enter. cbn [fst]. destruct pre.
  - eapply rrel_trans; [|apply rrel_deliver]. r5.
  - eapply rrel_trans; [|apply rrel_setup_timeout]. r5.
Qed.
Lemma same5_exit_called : forall st k s exc, same5 st (fst (fst (exit_called st k s exc))).
Proof.
  intros. unfold exit_called. destruct exc as [[m| |]|]; try (cbn [fst]; sm5).
  destruct (uncancel_loop _ _ _ _) as [[[c cnt] fl] hit]. cbn [fst]. sm5.
Qed.
Lemma rrel_scope_exit : forall st k exc, rrel st (fst (scope_exit st k exc)).
Proof.
  intros. unfold scope_exit. destruct (negb (s_host (get_scope st k))); [cbn [fst]; r5|].
  set (s := get_scope st k). set (st2 := set_sstack _ _).
  assert (Q2 : rrel st st2).
  { unfold st2. eapply rrel_trans; [apply rrel_cancel_ohandle|]. eapply rrel_trans; [apply rrel_cancel_ohandle|r5]. }
  set (r := if s_called s then exit_called st2 k s exc else (st2, s_calls s, s_caught s)).
  set (st4 := if s_called s then exit_drop_delayed (fst (fst r)) k else fst (fst r)).
  assert (Q4 : rrel st2 st4).
  { unfold st4, r. destruct (s_called s); [|apply rrel_refl].
    apply (rrel_trans _ (fst (fst (exit_called st2 k s exc)))).
    - apply same5_rrel. apply same5_exit_called.
    - unfold exit_drop_delayed. destruct (delayed _) as [[h m]|]; [|apply rrel_refl].
      destruct (msg_eqb m (Some k)); [|apply rrel_refl]. eapply rrel_trans; [|apply rrel_cancel_handle]. r5. }
  destruct (exit_takeback st4 (s_called s) (snd (fst r))) as [st4b calls'] eqn:ET.
  assert (Q4b : rrel st4 st4b).
  { unfold exit_takeback in ET. destruct (fixF st4 && s_called s); inversion ET; subst; [r5|apply rrel_refl]. }
  cbn [fst]. eapply rrel_trans; [exact Q2|]. eapply rrel_trans; [exact Q4|]. eapply rrel_trans; [exact Q4b|].
  eapply rrel_trans; [|apply rrel_check_pending]. r5.
Qed.

(* ---------------- the invariant *)
Record rinv (st : state) : Prop := mkRI {
  r_run : forall c, md st = MRun c -> cres (ready st) + cw (futs st) = 0 /\ t_waiter st = None /\ t_must st = false;
  r_one : cres (ready st) + cw (futs st) <= 1;
  r_step : forall h, In h (ready st) -> h_kind h = HStep -> t_waiter st = None;
  r_wake : forall h g, In h (ready st) -> h_kind h = HFutCb g CbWake -> t_waiter st = Some g;
  r_cb : forall g, In CbWake (f_cbs (get_fut st g)) -> t_waiter st = Some g;
  r_heap : Forall nr_t (heap st) }.

(* an internal operation performed while the task is running or suspended *)
Lemma rrel_rinv_loop : forall st st', rrel st st' -> rinv st -> md st = MLoop -> rinv st'.
Proof.
  intros st st' [t w m f n c u k hp] [Rr Ro Rs Rw Rc Rh] Hm. constructor; [| | | | |auto].
  - intros c0 Hc. rewrite m, Hm in Hc. discriminate.
  - lia.
  - intros h Hh Hk. rewrite w. destruct (n h Hh) as [[h0 [Hin Hk0]]|[Hs _]]; [|congruence].
    apply (Rs h0 Hin). congruence.
  - intros h g Hh Hk. rewrite w. destruct (n h Hh) as [[h0 [Hin Hk0]]|[_ Hw]].
    + apply (Rw h0 g Hin). congruence.
    + apply Rc. apply Hw. exact Hk.
  - intros g Hg. rewrite w. apply Rc. apply c. exact Hg.
Qed.

(* the same while the task is running, provided the operation did not set _must_cancel (it never does: the current task
   is not cancelled by its own scopes) *)
Lemma rrel_rinv_run : forall st st' c0, rrel st st' -> rinv st -> md st = MRun c0 -> t_must st' = false -> rinv st'.
Proof.
  intros st st' c0 [t w m f n c u k hp] [Rr Ro Rs Rw Rc Rh] Hm Hmu.
  destruct (Rr c0 Hm) as (Z & Wn & Mu).
  assert (Z' : cres (ready st') + cw (futs st') = 0) by lia.
  constructor; [| | | | |auto].
  - intros c1 Hc. repeat split; [exact Z'|congruence|exact Hmu].
  - lia.
  - intros h Hh Hk. congruence.
  - intros h g Hh Hk. exfalso.
    assert (0 < cres (ready st')); [|lia].
    unfold cres. apply in_split in Hh. destruct Hh as [l1 [l2 E]]. rewrite E, filter_app, app_length. simpl.
    unfold is_res at 2. rewrite Hk. simpl. lia.
  - intros g Hg. exfalso. assert (0 < cw (futs st')); [|lia].
    unfold get_fut in Hg. clear - Hg. revert g Hg. induction (futs st') as [|a l IH]; intros g Hg.
    + destruct g; simpl in Hg; destruct Hg.
    + destruct g; simpl in *.
      * apply nwake_in in Hg. lia.
      * specialize (IH g Hg). lia.
Qed.

(* ---------------- while the task is the current task its own scopes never call task.cancel() *)
Definition cur (st : state) : Prop := task_is_current st = true.
Lemma cur_rrel : forall st st', rrel st st' -> cur st -> cur st'.
Proof. intros st st' R H. unfold cur, task_is_current in *. rewrite (rr_md _ _ R). exact H. Qed.

Lemma must_deliver_cur : forall st k, cur st -> t_must (deliver st k) = t_must st.
Proof.
  intros st k H. unfold deliver. destruct (negb (s_host (get_scope st k))); [reflexivity|].
  destruct (delayed st) as [[h m]|]; [destruct (msg_eqb m (Some k)); reflexivity|].
  unfold cur in H. rewrite H. rewrite andb_false_r. reflexivity.
Qed.
Lemma must_cancel_ohandle : forall st h, t_must (cancel_ohandle st h) = t_must st.
Proof. intros st [h|]; reflexivity. Qed.
Lemma must_scope_cancel_cur : forall st k, cur st -> t_must (scope_cancel st k) = t_must st.
Proof.
  intros st k H. unfold scope_cancel. destruct (s_called (get_scope st k)); [reflexivity|].
  rewrite must_deliver_cur.
  - cbn [t_must upd_scope put_scope set_scopes]. apply must_cancel_ohandle.
  - unfold cur, task_is_current in *. destruct (s_th (get_scope st k)); exact H.
Qed.
Lemma must_setup_timeout_cur : forall st k, cur st -> t_must (setup_timeout st k) = t_must st.
Proof.
  intros st k H. unfold setup_timeout. destruct (s_deadline (get_scope st k)); [|reflexivity].
  destruct (_ <=? _); [apply must_scope_cancel_cur; exact H|reflexivity].
Qed.
Lemma must_scope_reschedule_cur : forall st k w, cur st -> t_must (scope_reschedule st k w) = t_must st.
Proof.
  intros st k w H. unfold scope_reschedule.
  set (st1 := upd_scope (cancel_ohandle st (s_th (get_scope st k))) k (sc_set_deadline w)).
  assert (E1 : t_must st1 = t_must st) by (unfold st1; cbn [t_must upd_scope put_scope set_scopes]; apply must_cancel_ohandle).
  assert (C1 : cur st1) by (unfold cur, task_is_current, st1 in *; destruct (s_th (get_scope st k)); exact H).
  destruct (s_state (get_scope st k)); try exact E1. destruct (s_called (get_scope st k)); [exact E1|].
  rewrite must_setup_timeout_cur by exact C1. exact E1.
Qed.
Lemma must_check_pending_cur : forall st, cur st -> t_must (check_pending st) = t_must st.
Proof.
  intros st H. unfold check_pending. destruct (first_called st (sstack st)); [|reflexivity].
  destruct (s_ch (get_scope st n)); [reflexivity|apply must_deliver_cur; exact H].
Qed.
Lemma must_scope_enter_cur : forall st pre dl, cur st -> t_must (fst (scope_enter st pre dl)) = t_must st.
Proof.
  intros st pre dl H. unfold scope_enter. cbn [fst]. destruct pre.
  - rewrite must_deliver_cur; [reflexivity|exact H].
  - rewrite must_setup_timeout_cur; [reflexivity|exact H].
Qed.
Lemma must_scope_exit_cur : forall st k exc, cur st -> t_must (fst (scope_exit st k exc)) = t_must st.
Proof.
  intros st k exc H. unfold scope_exit. destruct (negb (s_host (get_scope st k))); [reflexivity|].
  set (s := get_scope st k). set (st2 := set_sstack _ _).
  assert (E2 : t_must st2 = t_must st /\ cur st2).
  { unfold st2, cur, task_is_current in *. destruct (s_ch s), (s_th s); split; first [reflexivity|exact H]. }
  destruct E2 as [E2 C2].
  set (r := if s_called s then exit_called st2 k s exc else (st2, s_calls s, s_caught s)).
  set (st4 := if s_called s then exit_drop_delayed (fst (fst r)) k else fst (fst r)).
  assert (E4 : t_must st4 = t_must st /\ cur st4).
  { unfold st4, r. destruct (s_called s); [|split; assumption].
    assert (A : t_must (fst (fst (exit_called st2 k s exc))) = t_must st2 /\ cur (fst (fst (exit_called st2 k s exc)))).
    { unfold exit_called. destruct exc as [[m| |]|]; try (cbn [fst]; split; [reflexivity|exact C2]).
      destruct (uncancel_loop _ _ _ _) as [[[c cnt] fl] hit]. cbn [fst]. split; [reflexivity|exact C2]. }
    destruct A as [A1 A2]. unfold exit_drop_delayed.
    destruct (delayed _) as [[h m]|]; [destruct (msg_eqb m (Some k))|]; (split; [|first [exact A2]]); try (rewrite <- E2, <- A1; reflexivity). }
  destruct E4 as [E4 C4].
  destruct (exit_takeback st4 (s_called s) (snd (fst r))) as [st4b calls'] eqn:ET.
  assert (E5 : t_must st4b = t_must st /\ cur st4b).
  { unfold exit_takeback in ET. destruct (fixF st4 && s_called s); inversion ET; subst; split; assumption. }
  destruct E5 as [E5 C5]. cbn [fst]. rewrite must_check_pending_cur; [exact E5|exact C5].
Qed.

(* ---------------- the machine *)
Lemma cres_zero : forall l, cres l = 0 -> forall h, In h l -> is_res h = false.
Proof.
  intros l H h Hh. unfold cres in H. apply in_split in Hh. destruct Hh as [l1 [l2 E]]. subst l.
  rewrite filter_app, app_length in H. simpl in H. destruct (is_res h); [simpl in H; lia|reflexivity].
Qed.
Lemma cw_zero : forall l, cw l = 0 -> forall g, ~ In CbWake (f_cbs (nth g l dummy_f)).
Proof.
  induction l as [|a l IH]; intros H g Hg; [destruct g; destruct Hg|].
  simpl in H. destruct g; simpl in Hg.
  - apply nwake_in in Hg. lia.
  - apply (IH ltac:(lia) g Hg).
Qed.

Lemma rinv_same : forall st X, rinv st ->
  ready X = ready st -> futs X = futs st -> heap X = heap st -> t_waiter X = t_waiter st ->
  (forall c, md X = MRun c -> exists c', md st = MRun c' /\ t_must X = false) -> rinv X.
Proof.
  intros st X [Rr Ro Rs Rw Rc Rh] Er Ef Eh Ew Hm. constructor; rewrite ?Er, ?Ef, ?Eh, ?Ew; auto.
  - intros c Hc. destruct (Hm c Hc) as [c' [Hc' Mu]]. destruct (Rr c' Hc') as (Z & W & _). auto.
  - intros g. unfold get_fut. rewrite Ef. apply Rc.
Qed.

Lemma rinv_do_yield : forall st wt y c0, sfw st -> rinv st -> md st = MRun c0 -> (forall id, wt <> WShYield id) ->
  (y = YNone \/ exists f, y = YFut f /\ f < length (futs st)) -> rinv (do_yield st wt y).
Proof.
  intros st wt y c0 W R Hm Hw Hy. unfold do_yield.
  assert (Hf : forallb frame_sf (FWait wt :: frames st) = true).
  { cbn [forallb]. rewrite (w_frames _ W). destruct wt; try reflexivity. exfalso. eapply Hw. reflexivity. }
  rewrite yield_out_sf by exact Hf.
  destruct R as [Rr Ro Rs Rw Rc Rh]. destruct (Rr c0 Hm) as (Z & Wn & Mu).
  assert (Zr : cres (ready st) = 0) by lia. assert (Zc : cw (futs st) = 0) by lia.
  destruct Hy as [->|[f [-> Lf]]].
  - unfold task_yield. constructor.
    + intros c Hc. discriminate.
    + cbn [ready futs set_md call_soon fst set_nexth set_ready set_frames]. rewrite cres_app, Zr, Zc.
      unfold cres. simpl. lia.
    + intros h Hh Hk. exact Wn.
    + intros h g Hh Hk. exfalso. change (In h (ready st ++ [mkH (nexth st) HStep false])) in Hh.
      apply in_app_or in Hh. destruct Hh as [Hh|[E|[]]].
      * pose proof (cres_zero _ Zr h Hh) as Z0. unfold is_res in Z0. rewrite Hk in Z0. discriminate.
      * subst h. discriminate.
    + intros g Hg. exfalso. exact (cw_zero _ Zc g Hg).
    + exact Rh.
  - unfold task_yield. set (S0 := set_frames st (FWait wt :: frames st)).
    assert (Mu0 : t_must (set_t_waiter (add_cb S0 f CbWake) (Some f)) = false) by exact Mu.
    rewrite Mu0. constructor.
    + intros c Hc. discriminate.
    + change (cres (ready st) + cw (upd (futs st) f (mkFut (f_st (get_fut st f)) (f_cbs (get_fut st f) ++ [CbWake]))) <= 1).
      rewrite Zr.
      pose proof (cw_upd (futs st) f (mkFut (f_st (get_fut st f)) (f_cbs (get_fut st f) ++ [CbWake])) Lf) as U.
      cbn [f_cbs] in U. rewrite nwake_app in U. change (nwake [CbWake]) with 1 in U.
      unfold get_fut in *. lia.
    + intros h Hh Hk. exfalso. pose proof (cres_zero _ Zr h Hh) as Z0. unfold is_res in Z0. rewrite Hk in Z0. discriminate.
    + intros h g Hh Hk. exfalso. pose proof (cres_zero _ Zr h Hh) as Z0. unfold is_res in Z0. rewrite Hk in Z0. discriminate.
    + intros g Hg. cbn [t_waiter set_md set_t_waiter].
      change (In CbWake (f_cbs (get_fut (add_cb S0 f CbWake) g))) in Hg. unfold add_cb in Hg. rewrite get_put_fut in Hg.
      destruct ((g =? f) && (f <? length (futs S0))) eqn:E.
      * apply andb_prop in E. destruct E as [E _]. apply Nat.eqb_eq in E. subst g. reflexivity.
      * exfalso. exact (cw_zero _ Zc g Hg).
    + exact Rh.
Qed.

(* after an internal operation performed by the running task *)
Lemma rinv_run_op : forall st st1 c0, rrel st st1 -> rinv st -> md st = MRun c0 -> t_must st1 = t_must st ->
  forall X, ready X = ready st1 -> futs X = futs st1 -> heap X = heap st1 -> t_waiter X = t_waiter st1 ->
            t_must X = t_must st1 -> rinv X.
Proof.
  intros st st1 c0 Q R Hm Mu X Er Ef Eh Ew Em.
  assert (M0 : t_must st = false) by (destruct R as [Rr _ _ _ _ _]; destruct (Rr c0 Hm) as (_ & _ & M); exact M).
  assert (R1 : rinv st1) by (eapply rrel_rinv_run; eauto; congruence).
  eapply rinv_same; [exact R1|exact Er|exact Ef|exact Eh|exact Ew|].
  intros c Hc. exists c0. split; [rewrite (rr_md _ _ Q); exact Hm|congruence].
Qed.

Lemma rinv_exec : forall st p, sfw st -> rinv st -> md st = MRun (CExec p) -> rinv (exec st p).
Proof.
  intros st p W R Hm.
  assert (Hp : shield_free p = true) by (pose proof (w_ctl _ W) as C; rewrite Hm in C; exact C).
  assert (Cu : cur st) by (unfold cur, task_is_current; rewrite Hm; reflexivity).
  assert (Keep : forall X, ready X = ready st -> futs X = futs st -> heap X = heap st -> t_waiter X = t_waiter st ->
                           t_must X = t_must st -> rinv X)
    by (intros X; apply (rinv_run_op st st _ (rrel_refl st) R Hm eq_refl)).
  assert (WK : forall X, ready X = ready st -> heap X = heap st -> frames X = frames st -> md X = md st -> sfw X).
  { intros X Er Eh Ef Em. destruct W as [a b c d]. constructor; congruence. }
  destruct p; unfold exec; try (apply Keep; reflexivity); try discriminate.
  - destruct d.
    + eapply rinv_do_yield; [apply WK; reflexivity|apply Keep; reflexivity|exact Hm|intros i E; discriminate|left; reflexivity].
    + destruct (new_fut (emit st (EvStart id (time st)))) as [st1 f] eqn:E1.
      assert (Q1 : rrel st st1) by (unfold new_fut in E1; inversion E1; constructor; auto;
        [cbn [ready futs set_futs emit set_trace]; rewrite cw_app; simpl; unfold nwake; simpl; lia
        |intros h Hh; left; exists h; auto
        |intros g Hg; unfold get_fut in *; cbn [futs set_futs emit set_trace] in Hg;
         destruct (lt_dec g (length (futs st))) as [L|L];
         [rewrite app_nth1 in Hg by exact L; exact Hg
         |rewrite app_nth2 in Hg by lia; destruct (g - length (futs st)) as [|[|n]]; simpl in Hg; destruct Hg]
        |intros g m Hg; unfold get_fut in *; cbn [futs set_futs emit set_trace];
         destruct (lt_dec g (length (futs st))) as [L|L];
         [rewrite app_nth1 by exact L; eauto|rewrite nth_overflow in Hg by lia; discriminate]]).
      assert (Ef1 : f = length (futs st) /\ length (futs st1) = S (length (futs st)) /\ t_must st1 = t_must st).
      { unfold new_fut in E1. inversion E1; subst. cbn [futs set_futs emit set_trace]. rewrite app_length. simpl.
        repeat split; lia. }
      destruct Ef1 as (Ef & El & Em1).
      pose proof (rrel_call_at st1 (time st1 + S d) (HSetRes f) eq_refl) as Q2.
      destruct (call_at st1 (time st1 + S d) (HSetRes f)) as [st2 h] eqn:E2. cbn [fst] in Q2.
      assert (Em2 : t_must st2 = t_must st1 /\ futs st2 = futs st1 /\ frames st2 = frames st /\ md st2 = md st).
      { unfold call_at in E2. inversion E2; subst. unfold new_fut in E1. inversion E1; subst. repeat split. }
      destruct Em2 as (Em2 & Ef2 & Efr2 & Emd2).
      pose proof (rrel_trans _ _ _ Q1 Q2) as Q.
      assert (R2 : rinv st2) by (eapply (rinv_run_op st st2 _ Q R Hm); try reflexivity; congruence).
      assert (W2 : sfw st2).
      { pose proof (krel_call_at st1 (time st1 + S d) (HSetRes f) eq_refl) as K2. rewrite E2 in K2. cbn [fst] in K2.
        assert (K1 : krel st st1) by (unfold new_fut in E1; inversion E1; k3).
        eapply sfw_of_krel_loop; [exact (krel_trans _ _ _ K1 K2)|exact W]. }
      eapply rinv_do_yield; [exact W2|exact R2|rewrite Emd2; exact Hm|intros i E; discriminate|].
      right. exists f. split; [reflexivity|]. rewrite Ef2, El. lia.
  - destruct (new_fut (emit st (EvStart id (time st)))) as [st1 f] eqn:E1.
    assert (Q1 : rrel st st1) by (unfold new_fut in E1; inversion E1; constructor; auto;
      [cbn [ready futs set_futs emit set_trace]; rewrite cw_app; simpl; unfold nwake; simpl; lia
      |intros h Hh; left; exists h; auto
      |intros g Hg; unfold get_fut in *; cbn [futs set_futs emit set_trace] in Hg;
       destruct (lt_dec g (length (futs st))) as [L|L];
       [rewrite app_nth1 in Hg by exact L; exact Hg
       |rewrite app_nth2 in Hg by lia; destruct (g - length (futs st)) as [|[|n]]; simpl in Hg; destruct Hg]
      |intros g m Hg; unfold get_fut in *; cbn [futs set_futs emit set_trace];
       destruct (lt_dec g (length (futs st))) as [L|L];
       [rewrite app_nth1 by exact L; eauto|rewrite nth_overflow in Hg by lia; discriminate]]).
    assert (Ef1 : f = length (futs st) /\ length (futs st1) = S (length (futs st)) /\ t_must st1 = t_must st).
    { unfold new_fut in E1. inversion E1; subst. cbn [futs set_futs emit set_trace]. rewrite app_length. simpl.
      repeat split; lia. }
    destruct Ef1 as (Ef & El & Em1).
    pose proof (rrel_call_at st1 (time st1 + d) (HSetExc f) eq_refl) as Q2.
    destruct (call_at st1 (time st1 + d) (HSetExc f)) as [st2 h] eqn:E2. cbn [fst] in Q2.
    assert (Em2 : t_must st2 = t_must st1 /\ futs st2 = futs st1 /\ frames st2 = frames st /\ md st2 = md st).
    { unfold call_at in E2. inversion E2; subst. unfold new_fut in E1. inversion E1; subst. repeat split. }
    destruct Em2 as (Em2 & Ef2 & Efr2 & Emd2).
    pose proof (rrel_trans _ _ _ Q1 Q2) as Q.
    assert (R2 : rinv st2) by (eapply (rinv_run_op st st2 _ Q R Hm); try reflexivity; congruence).
    assert (W2 : sfw st2).
    { pose proof (krel_call_at st1 (time st1 + d) (HSetExc f) eq_refl) as K2. rewrite E2 in K2. cbn [fst] in K2.
      assert (K1 : krel st st1) by (unfold new_fut in E1; inversion E1; k3).
      eapply sfw_of_krel_loop; [exact (krel_trans _ _ _ K1 K2)|exact W]. }
    eapply rinv_do_yield; [exact W2|exact R2|rewrite Emd2; exact Hm|intros i E; discriminate|].
    right. exists f. split; [reflexivity|]. rewrite Ef2, El. lia.
  - eapply rinv_do_yield; [apply WK; reflexivity|apply Keep; reflexivity|exact Hm|intros i E; discriminate|left; reflexivity].
  - pose proof (rrel_scope_enter st pre (match delay with Some d => Some (time st + d) | None => None end)) as Q.
    pose proof (must_scope_enter_cur st pre (match delay with Some d => Some (time st + d) | None => None end) Cu) as Mu.
    destruct (scope_enter st pre _) as [st1 sid]. cbn [fst] in Q, Mu.
    eapply (rinv_run_op st st1 _ Q R Hm Mu); reflexivity.
  - destruct (nth_scope st k) as [sid|]; [|apply Keep; reflexivity].
    eapply (rinv_run_op st _ _ (rrel_scope_cancel st sid) R Hm (must_scope_cancel_cur st sid Cu)); reflexivity.
  - destruct (nth_scope st k) as [sid|]; [|apply Keep; reflexivity].
    eapply (rinv_run_op st _ _ (rrel_scope_reschedule st sid _) R Hm (must_scope_reschedule_cur st sid _ Cu)); reflexivity.
Qed.

Lemma rinv_ret : forall st, rinv st -> md st = MRun CRet -> rinv (ret st).
Proof.
  intros st R Hm.
  assert (Cu : cur st) by (unfold cur, task_is_current; rewrite Hm; reflexivity).
  assert (Keep : forall X, ready X = ready st -> futs X = futs st -> heap X = heap st -> t_waiter X = t_waiter st ->
                           t_must X = t_must st -> rinv X)
    by (intros X; apply (rinv_run_op st st _ (rrel_refl st) R Hm eq_refl)).
  unfold ret. destruct (frames st) as [|fr k].
  - unfold finish.
    assert (M0 : t_must st = false) by (destruct R as [Rr _ _ _ _ _]; destruct (Rr _ Hm) as (_ & _ & M); exact M).
    rewrite M0. apply Keep; reflexivity.
  - destruct fr; try (apply Keep; reflexivity).
    + pose proof (rrel_scope_exit (set_frames st k) sid None) as Q.
      pose proof (must_scope_exit_cur (set_frames st k) sid None Cu) as Mu.
      destruct (scope_exit (set_frames st k) sid None) as [st1 sw]. cbn [fst] in Q, Mu.
      assert (R0 : rinv (set_frames st k)) by (apply Keep; reflexivity).
      destruct kind; [|destruct (s_caught (get_scope st1 sid))];
        (eapply (rinv_run_op (set_frames st k) st1 _ Q R0 Hm Mu); reflexivity).
    + destruct y; [|apply Keep; reflexivity].
      assert (R0 : rinv (set_frames st k)) by (apply Keep; reflexivity).
      eapply (rinv_run_op (set_frames st k) _ _ (rrel_check_pending _) R0 Hm (must_check_pending_cur (set_frames st k) Cu)); reflexivity.
Qed.

Lemma rinv_raise : forall st e, rinv st -> md st = MRun (CRaise e) -> rinv (raise_ st e).
Proof.
  intros st e R Hm.
  assert (Cu : cur st) by (unfold cur, task_is_current; rewrite Hm; reflexivity).
  assert (Keep : forall X, ready X = ready st -> futs X = futs st -> heap X = heap st -> t_waiter X = t_waiter st ->
                           t_must X = t_must st -> rinv X)
    by (intros X; apply (rinv_run_op st st _ (rrel_refl st) R Hm eq_refl)).
  unfold raise_. destruct (frames st) as [|fr k].
  - unfold finish. apply Keep; reflexivity.
  - destruct fr; try (apply Keep; reflexivity).
    + pose proof (rrel_scope_exit (set_frames st k) sid (Some e)) as Q.
      pose proof (must_scope_exit_cur (set_frames st k) sid (Some e) Cu) as Mu.
      destruct (scope_exit (set_frames st k) sid (Some e)) as [st1 sw]. cbn [fst] in Q, Mu.
      assert (R0 : rinv (set_frames st k)) by (apply Keep; reflexivity).
      destruct kind; [destruct sw|destruct (s_caught (get_scope st1 sid))];
        (eapply (rinv_run_op (set_frames st k) st1 _ Q R0 Hm Mu); reflexivity).
    + destruct y; [|apply Keep; reflexivity].
      assert (R0 : rinv (set_frames st k)) by (apply Keep; reflexivity).
      eapply (rinv_run_op (set_frames st k) _ _ (rrel_check_pending _) R0 Hm (must_check_pending_cur (set_frames st k) Cu)); reflexivity.
    + destruct (catches c e); apply Keep; reflexivity.
Qed.

(* the task is resumed: the handle that resumes it has just been taken from the queue *)
Lemma rinv_task_step : forall st v, sfw st -> rinv st -> md st = MLoop ->
  cres (ready st) + cw (futs st) = 0 -> rinv (task_step st v).
Proof.
  intros st v W R Hm Z. unfold task_step.
  set (p := if t_must st then _ else _).
  assert (P : ready (fst p) = ready st /\ futs (fst p) = futs st /\ heap (fst p) = heap st /\ frames (fst p) = frames st /\
              t_must (fst p) = false).
  { unfold p. destruct (t_must st) eqn:E; repeat split; auto. }
  destruct p as [st0 v0]. cbn [fst] in P. destruct P as (Pr & Pf & Ph & Pfr & Pm).
  set (st1 := set_md (set_t_waiter st0 None) (MRun CRet)).
  rewrite (eq_trans (eq_refl : frames st1 = frames st0) Pfr).
  rewrite resume_in_no_shield by (apply frames_no_shield; exact (w_frames _ W)).
  set (st2 := observe_resumption (set_frames st1 (frames st)) (frames st) v0).
  pose proof (same3_observe (set_frames st1 (frames st)) (frames st) v0) as SO. fold st2 in SO.
  assert (Fo : futs st2 = futs st /\ t_waiter st2 = None /\ t_must st2 = false).
  { unfold st2, observe_resumption.
    repeat match goal with |- context [match ?x with _ => _ end] => destruct x end; repeat split; assumption. }
  destruct Fo as (Fo1 & Fo2 & Fo3). destruct SO as [SOr SOh SOf SOm].
  assert (Zr2 : cres (ready st2) = 0) by (rewrite SOr; cbn [ready set_frames set_md set_t_waiter st1]; rewrite Pr; lia).
  assert (Hh2 : Forall nr_t (heap st2)).
  { rewrite SOh. cbn [heap set_frames set_md set_t_waiter st1]. rewrite Ph. exact (r_heap _ R). }
  assert (R2 : forall X, cres (ready X) = 0 -> futs X = futs st2 -> Forall nr_t (heap X) -> t_waiter X = None ->
                         t_must X = false -> rinv X).
  { intros X Zr Ef Eh Ew Em.
    assert (Zc : cw (futs X) = 0) by (rewrite Ef, Fo1; lia).
    constructor.
    - intros c Hc. repeat split; [lia|exact Ew|exact Em].
    - lia.
    - intros h Hh Hk. exact Ew.
    - intros h g Hh Hk. exfalso. pose proof (cres_zero _ Zr h Hh) as Z0. unfold is_res in Z0. rewrite Hk in Z0. discriminate.
    - intros g Hg. exfalso. exact (cw_zero _ Zc g Hg).
    - exact Eh. }
  pose proof (w_frames _ W) as Hfr.
  clearbody st2.
  destruct (frames st) as [|fr k'].
  - apply R2; [exact Zr2|reflexivity|exact Hh2|exact Fo2|exact Fo3].
  - destruct fr; try (apply R2; [exact Zr2|reflexivity|exact Hh2|exact Fo2|exact Fo3]).
    + destruct v0; (apply R2; [exact Zr2|reflexivity|exact Hh2|exact Fo2|exact Fo3]).
    + unfold wake. destruct w as [i|i|i f h].
      * destruct v0; (apply R2; [exact Zr2|reflexivity|exact Hh2|exact Fo2|exact Fo3]).
      * cbn in Hfr. discriminate.
      * pose proof (rrel_cancel_handle (set_frames st2 k') h) as Q.
        assert (Zr3 : cres (ready (cancel_handle (set_frames st2 k') h)) = 0)
          by (cbn [ready cancel_handle set_heap set_ready set_frames]; rewrite cres_mark; exact Zr2).
        assert (Hh3 : Forall nr_t (heap (cancel_handle (set_frames st2 k') h))) by (apply (rr_heap _ _ Q); exact Hh2).
        destruct v0; (apply R2; [exact Zr3|reflexivity|exact Hh3|exact Fo2|exact Fo3]).
Qed.

Lemma nwake_filter_inner : forall c cbs, is_wake c = false ->
  nwake (filter (fun c' => negb (cb_eqb c c')) cbs) = nwake cbs.
Proof.
  intros c cbs Hc. unfold nwake. induction cbs as [|a l IH]; simpl; [reflexivity|].
  destruct (cb_eqb c a) eqn:E; simpl.
  - assert (is_wake a = false) by (destruct c, a; simpl in *; try discriminate; reflexivity). rewrite H. exact IH.
  - destruct (is_wake a); simpl; rewrite IH; reflexivity.
Qed.

Lemma rrel_remove_cb_inner : forall st inner f, rrel st (remove_cb st inner (CbInner f)).
Proof.
  intros. unfold remove_cb.
  set (x := get_fut st inner).
  destruct (lt_dec inner (length (futs st))) as [L|L].
  - constructor.
    + cbn [ready futs put_fut set_futs].
      pose proof (cw_upd (futs st) inner (mkFut (f_st x) (filter (fun c' => negb (cb_eqb (CbInner f) c')) (f_cbs x))) L) as U.
      cbn [f_cbs] in U. rewrite nwake_filter_inner in U by reflexivity. fold (get_fut st inner) in U. fold x in U. lia.
    + reflexivity.
    + reflexivity.
    + reflexivity.
    + intros h Hh. left. exists h. auto.
    + intros g Hg. rewrite get_put_fut in Hg. destruct ((g =? inner) && (inner <? length (futs st))) eqn:E; [|exact Hg].
      apply andb_prop in E. destruct E as [E _]. apply Nat.eqb_eq in E. subst g. cbn [f_cbs] in Hg.
      apply filter_In in Hg. destruct Hg as [Hg _]. exact Hg.
    + auto.
    + intros g m Hg. rewrite get_put_fut. destruct ((g =? inner) && (inner <? length (futs st))) eqn:E; [|eauto].
      apply andb_prop in E. destruct E as [E _]. apply Nat.eqb_eq in E. subst g. cbn [f_st]. fold x in Hg. eauto.
    + auto.
  - apply same5_rrel. unfold put_fut. rewrite upd_oob_f by lia. constructor; try reflexivity; auto.
Qed.


Lemma rinv_pop : forall st n h rd, rinv st -> md st = MLoop -> ready st = h :: rd ->
  rinv (set_ready (set_todo st n) rd) /\
  (is_res h = true -> cres rd + cw (futs st) = 0).
Proof.
  intros st n h rd [Rr Ro Rs Rw Rc Rh] Hm Er.
  assert (Ec : cres (ready st) = (if is_res h then 1 else 0) + cres rd).
  { rewrite Er. unfold cres. simpl. destruct (is_res h); reflexivity. }
  split.
  - constructor.
    + intros c Hc. cbn in Hc. rewrite Hm in Hc. discriminate.
    + cbn [ready futs set_ready set_todo]. destruct (is_res h); lia.
    + intros x Hx. apply Rs. rewrite Er. right. exact Hx.
    + intros x g Hx. apply Rw. rewrite Er. right. exact Hx.
    + exact Rc.
    + exact Rh.
  - intros E. rewrite E in Ec. lia.
Qed.

Lemma sfw_pop : forall st n h rd, sfw st -> ready st = h :: rd -> sfw (set_ready (set_todo st n) rd).
Proof.
  intros st n h rd [a b c d] Er. constructor; try assumption. cbn [ready set_ready]. rewrite Er in c. inversion c; assumption.
Qed.

Lemma rinv_run_handle : forall st n h rd, sfw st -> rinv st -> md st = MLoop -> ready st = h :: rd ->
  rinv (run_handle (set_ready (set_todo st n) rd) (h_kind h)).
Proof.
  intros st n h rd W R Hm Er.
  destruct (rinv_pop st n h rd R Hm Er) as [R1 Z1].
  pose proof (sfw_pop st n h rd W Er) as W1.
  set (st1 := set_ready (set_todo st n) rd) in *.
  assert (Hm1 : md st1 = MLoop) by exact Hm.
  assert (L : forall st', rrel st1 st' -> rinv st') by (intros st' Q; exact (rrel_rinv_loop _ _ Q R1 Hm1)).
  destruct (h_kind h) eqn:Ek; cbn [run_handle].
  - apply rinv_task_step; try assumption. apply Z1. unfold is_res. rewrite Ek. reflexivity.
  - unfold run_cb. destruct c as [|outer|inner].
    + apply rinv_task_step; try assumption. apply Z1. unfold is_res. rewrite Ek. reflexivity.
    + destruct (f_st (get_fut st1 outer)); try exact R1;
        (destruct (f_st (get_fut st1 f)); apply L; apply rrel_fut_finish).
    + destruct (fut_done st1 inner); [exact R1|]. apply L. apply rrel_remove_cb_inner.
  - destruct (f_st (get_fut st1 f)); try exact R1; (apply L; apply rrel_fut_finish).
  - apply L. apply rrel_fut_finish.
  - apply L. apply rrel_scope_cancel.
  - apply L. apply rrel_deliver.
  - destruct (task_done st1); [exact R1|]. apply L. eapply rrel_trans; [|apply rrel_task_cancel].
    unfold task_uncancel. destruct (t_cnt st1); r5.
  - apply L. r5.
  - destruct (task_done st1); [exact R1|]. apply L. eapply rrel_trans; [|apply rrel_task_cancel].
    unfold note_ext. destruct (in_shield _); r5.
  - destruct (nth_scope st1 k) as [sid|]; [|exact R1]. apply L. eapply rrel_trans; [apply rrel_scope_cancel|r5].
Qed.

Lemma inject_nr : forall it c rd nh, cres (fst (inject it c rd nh)) = cres rd /\
  (forall h, In h (fst (inject it c rd nh)) -> In h rd \/ is_res h = false).
Proof.
  induction c as [|[[n front] act] c IH]; intros rd nh; cbn [inject fst]; [split; auto|].
  destruct (n =? it); [|apply IH].
  set (hn := mkH nh (match act with 0 => HExt | S k => HActor k end) false).
  assert (Hn : is_res hn = false) by (unfold hn, is_res; destruct act; reflexivity).
  destruct front.
  - destruct (IH (hn :: rd) (S nh)) as [A B]. split.
    + rewrite A. unfold cres. simpl. rewrite Hn. reflexivity.
    + intros h Hh. destruct (B h Hh) as [[E|Hin]|Hk]; [subst h; right; exact Hn|left; exact Hin|right; exact Hk].
  - destruct (IH (rd ++ [hn]) (S nh)) as [A B]. split.
    + rewrite A, cres_app. unfold cres at 2. simpl. rewrite Hn. simpl. lia.
    + intros h Hh. destruct (B h Hh) as [Hin|Hk]; [|right; exact Hk].
      apply in_app_or in Hin. destruct Hin as [Hin|[E|[]]]; [left; exact Hin|subst h; right; exact Hn].
Qed.

Lemma move_due_nr : forall fuel now hp rd, Forall nr_t hp ->
  Forall nr_t (fst (move_due fuel now hp rd)) /\ cres (snd (move_due fuel now hp rd)) = cres rd /\
  (forall h, In h (snd (move_due fuel now hp rd)) -> In h rd \/ is_res h = false).
Proof.
  induction fuel as [|fu IH]; intros now hp rd Hh; simpl; [repeat split; auto|].
  destruct hp as [|t hp0]; [repeat split; auto|]. destruct (tm_when t <=? now); [|repeat split; auto].
  destruct (heappop (t :: hp0)) as [[t' hp']|] eqn:E; [|repeat split; auto].
  destruct (FP_heappop nr_t nr_dummy _ _ _ Hh E) as [Ht Hh'].
  destruct (IH now hp' (rd ++ [tm_h t']) Hh') as (A & B & C). repeat split; [exact A| |].
  - rewrite B, cres_app. unfold cres at 2. simpl. unfold nr_t in Ht. rewrite Ht. simpl. lia.
  - intros h Hx. destruct (C h Hx) as [Hin|Hn]; [|right; exact Hn].
    apply in_app_or in Hin. destruct Hin as [Hin|[E0|[]]]; [left; exact Hin|subst h; right; exact Ht].
Qed.

Lemma rinv_begin_iter : forall st, rinv st -> md st = MLoop -> rinv (begin_iter st).
Proof.
  intros st [Rr Ro Rs Rw Rc Rh] Hm. unfold begin_iter.
  set (st0 := set_iter st (S (iter st))).
  destruct (inject_nr (S (iter st)) (ctrl st0) (ready st0) (nexth st0)) as [Ic Ii].
  destruct (inject (S (iter st)) (ctrl st0) (ready st0) (nexth st0)) as [rd nh]. cbn [fst] in Ic, Ii.
  pose proof (FP_drop_cancelled_heads nr_t nr_dummy (length (heap (set_nexth (set_ready st0 rd) nh)))
                (heap (set_nexth (set_ready st0 rd) nh)) Rh) as Hdrop.
  set (hp := drop_cancelled_heads _ _) in *.
  set (st1 := set_heap (set_nexth (set_ready st0 rd) nh) hp).
  assert (Base : forall X rdX, ready X = rdX -> futs X = futs st -> t_waiter X = t_waiter st -> md X <> MRun CRet ->
            (forall c, md X <> MRun c) -> cres rdX = cres (ready st) ->
            (forall h, In h rdX -> In h (ready st) \/ is_res h = false) -> Forall nr_t (heap X) -> rinv X).
  { intros X rdX Er Ef Ew _ Hnr Ec Hin Hh. constructor.
    - intros c Hc. exfalso. exact (Hnr c Hc).
    - rewrite Er, Ef, Ec. exact Ro.
    - intros h Hx Hk. rewrite Ew. rewrite Er in Hx. destruct (Hin h Hx) as [Hi|Hn]; [exact (Rs h Hi Hk)|].
      unfold is_res in Hn. rewrite Hk in Hn. discriminate.
    - intros h g Hx Hk. rewrite Ew. rewrite Er in Hx. destruct (Hin h Hx) as [Hi|Hn]; [exact (Rw h g Hi Hk)|].
      unfold is_res in Hn. rewrite Hk in Hn. discriminate.
    - intros g Hg. rewrite Ew. apply Rc. unfold get_fut in *. rewrite Ef in Hg. exact Hg.
    - exact Hh. }
  assert (Hin1 : forall h, In h rd -> In h (ready st) \/ is_res h = false).
  { intros h Hh. destruct (Ii h Hh) as [Hi|Hk]; [left; exact Hi|right; exact Hk]. }
  assert (Fin : forall st2, ready st2 = rd -> futs st2 = futs st -> t_waiter st2 = t_waiter st -> md st2 = md st -> rinv
     (let '(hp', rd') := move_due (length hp) (time st2) hp (ready st2) in
      set_todo (set_ready (set_heap st2 hp') rd') (length rd'))).
  { intros st2 r2 f2 w2 m2.
    destruct (move_due_nr (length hp) (time st2) hp (ready st2) Hdrop) as (Mh & Mc & Mi).
    destruct (move_due (length hp) (time st2) hp (ready st2)) as [hp' rd']. cbn [fst snd] in Mh, Mc, Mi.
    apply (Base _ rd'); try reflexivity; try assumption.
    - cbn [md set_todo set_ready set_heap]. rewrite m2, Hm. discriminate.
    - intros c. cbn [md set_todo set_ready set_heap]. rewrite m2, Hm. discriminate.
    - rewrite Mc, r2. exact Ic.
    - intros h Hx. destruct (Mi h Hx) as [Hi|Hn]; [|right; exact Hn]. rewrite r2 in Hi. apply Hin1. exact Hi. }
  destruct (ready st1) as [|h0 rd0] eqn:Er; destruct hp as [|t0 hp0] eqn:Eh.
  - apply (Base _ rd); try reflexivity; try assumption; try discriminate.
  - apply Fin; reflexivity.
  - apply Fin; reflexivity.
  - destruct (negb (spinK st1 =? 0) && (spinK st1 <=? S (spin st1))); apply Fin; reflexivity.
Qed.

(* ---- the joint invariant of the shield-free world *)
Definition jinv (st : state) : Prop := sfw st /\ rinv st.

Theorem jinv_step : forall st, jinv st -> jinv (step st).
Proof.
  intros st [W R]. split; [apply sfw_step; exact W|].
  unfold step. destruct (md st) as [c| |r|] eqn:Hm; try exact R.
  - destruct c as [p| |e]; [apply rinv_exec|apply rinv_ret|apply rinv_raise]; assumption.
  - destruct (todo st) as [|n]; [apply rinv_begin_iter; assumption|].
    unfold run_next. cbn [ready set_todo]. destruct (ready st) as [|h rd] eqn:Er.
    + eapply rinv_same; [exact R| | | | |]; try reflexivity. intros c Hc. cbn in Hc. rewrite Hm in Hc. discriminate.
    + destruct (h_canc h); [exact (proj1 (rinv_pop st n h rd R Hm Er))|].
      apply (rinv_run_handle st n h rd W R Hm Er).
Qed.

Lemma jinv_init : forall fx fb p timers turns k, shield_free p = true -> jinv (init fx fb p timers turns k).
Proof.
  intros fx fb p timers turns k Hp. split; [apply sfw_init; exact Hp|].
  unfold init.
  set (st0 := mkState _ _ _ _ _ _ _ _ _ _ _ _ _ _ _ _ _ _ _ _ _ _ _ _ _ _ _ _ _ _).
  assert (R0 : rinv st0).
  { constructor.
    - intros c Hc. discriminate.
    - cbn. lia.
    - intros h Hh Hk. reflexivity.
    - intros h g [E|[]] Hk. subst h. discriminate.
    - intros g Hg. cbn in Hg. destruct g; destruct Hg.
    - constructor. }
  assert (M0 : md st0 = MLoop) by reflexivity.
  clearbody st0. revert st0 R0 M0. induction timers as [|t ts IH]; intros st0 R0 M0; simpl; [exact R0|].
  apply IH; [|exact M0]. exact (rrel_rinv_loop _ _ (rrel_call_at st0 t HExt eq_refl) R0 M0).
Qed.

Lemma jinv_reachable : forall fx fb p timers turns k fuel, shield_free p = true ->
  jinv (run_steps fuel (init fx fb p timers turns k)).
Proof.
  intros fx fb p timers turns k fuel Hp.
  assert (G : forall fuel st, jinv st -> jinv (run_steps fuel st)).
  { clear. induction fuel as [|fu IH]; intros st J; simpl; [exact J|].
    destruct (md st); try exact J; apply IH; apply jinv_step; exact J. }
  apply G. apply jinv_init. exact Hp.
Qed.

(* ======== a cancellation on its way is never lost ======== *)
Definition doomed (st : state) : Prop :=
  t_must st = true \/ exists f m, t_waiter st = Some f /\ f_st (get_fut st f) = FCanc m.

Lemma doomed_rrel : forall st st', rrel st st' -> doomed st -> doomed st'.
Proof.
  intros st st' Q [H|[f [m [Hw Hf]]]]; [left; apply (rr_must _ _ Q); exact H|].
  right. destruct (rr_canc _ _ Q f m Hf) as [m' H']. exists f, m'. split; [rewrite (rr_waiter _ _ Q); exact Hw|exact H'].
Qed.

Lemma task_step_doomed : forall st v, sfw st -> (t_must st = true \/ exists m, v = Some (ECancel m)) ->
  (exists m, md (task_step st v) = MRun (CRaise (ECancel m))) \/ md (task_step st v) = MDead.
Proof.
  intros st v W H. unfold task_step.
  set (p := if t_must st then _ else _).
  assert (P : frames (fst p) = frames st /\ exists m, snd p = Some (ECancel m)).
  { unfold p. destruct (t_must st) eqn:E.
    - split; [reflexivity|]. cbn [snd]. destruct v as [[m| |]|]; eexists; reflexivity.
    - destruct H as [H|[m ->]]; [discriminate|]. split; [reflexivity|]. cbn [snd]. eexists; reflexivity. }
  destruct p as [st0 v0]. cbn [fst snd] in P. destruct P as [Pf [m ->]].
  set (st1 := set_md (set_t_waiter st0 None) (MRun CRet)).
  rewrite (eq_trans (eq_refl : frames st1 = frames st0) Pf).
  rewrite resume_in_no_shield by (apply frames_no_shield; exact (w_frames _ W)).
  pose proof (w_frames _ W) as Hfr.
  destruct (frames st) as [|fr k']; [right; reflexivity|].
  destruct fr; try (right; reflexivity).
  - left. exists m. reflexivity.
  - destruct w as [i|i|i f h]; [left; exists m; reflexivity|cbn in Hfr; discriminate|left; exists m; reflexivity].
Qed.

Theorem doom_step : forall st, jinv st -> md st = MLoop -> doomed st ->
  (md (step st) = MLoop /\ doomed (step st)) \/
  (exists m, md (step st) = MRun (CRaise (ECancel m))) \/ md (step st) = MDead.
Proof.
  intros st [W R] Hm D. unfold step. rewrite Hm.
  destruct (todo st) as [|n].
  - (* begin_iter: only queues and the clock move *)
    assert (B : (md (begin_iter st) = MLoop \/ md (begin_iter st) = MDead) /\ t_must (begin_iter st) = t_must st /\
                t_waiter (begin_iter st) = t_waiter st /\ futs (begin_iter st) = futs st).
    { unfold begin_iter.
      repeat match goal with |- context [match ?x with _ => _ end] => destruct x end;
        cbn; rewrite ?Hm; repeat split; auto. }
    destruct B as ([Bm|Bm] & B1 & B2 & B3); [left|right; right; exact Bm].
    split; [exact Bm|]. destruct D as [D|[f [m [Dw Df]]]]; [left; congruence|].
    right. exists f, m. split; [congruence|]. unfold get_fut in *. rewrite B3. exact Df.
  - unfold run_next. cbn [ready set_todo]. destruct (ready st) as [|h rd] eqn:Er; [left; split; [exact Hm|exact D]|].
    set (st1 := set_ready (set_todo st n) rd).
    assert (D1 : doomed st1) by exact D.
    assert (Hm1 : md st1 = MLoop) by exact Hm.
    pose proof (sfw_pop st n h rd W Er) as W1. fold st1 in W1.
    destruct (h_canc h); [left; split; [exact Hm1|exact D1]|].
    assert (L : forall st', rrel st1 st' -> (md st' = MLoop /\ doomed st') \/
                 (exists m, md st' = MRun (CRaise (ECancel m))) \/ md st' = MDead).
    { intros st' Q. left. split; [rewrite (rr_md _ _ Q); exact Hm1|exact (doomed_rrel _ _ Q D1)]. }
    destruct (h_kind h) eqn:Ek; cbn [run_handle].
    + right. apply task_step_doomed; [exact W1|]. left.
      destruct D as [D|[f [m [Dw _]]]]; [exact D|].
      pose proof (r_step _ R h ltac:(rewrite Er; left; reflexivity) Ek) as Wn. congruence.
    + unfold run_cb. destruct c as [|outer|inner].
      * right. apply task_step_doomed; [exact W1|].
        pose proof (r_wake _ R h f ltac:(rewrite Er; left; reflexivity) Ek) as Wf.
        destruct D as [D|[g [m [Dw Df]]]]; [left; exact D|].
        right. assert (g = f) by congruence. subst g. change (get_fut st1 f) with (get_fut st f). rewrite Df. eauto.
      * destruct (f_st (get_fut st1 outer)); try (left; split; [exact Hm1|exact D1]);
          (destruct (f_st (get_fut st1 f)); apply L; apply rrel_fut_finish).
      * destruct (fut_done st1 inner); [left; split; [exact Hm1|exact D1]|]. apply L. apply rrel_remove_cb_inner.
    + destruct (f_st (get_fut st1 f)); try (left; split; [exact Hm1|exact D1]); (apply L; apply rrel_fut_finish).
    + apply L. apply rrel_fut_finish.
    + apply L. apply rrel_scope_cancel.
    + apply L. apply rrel_deliver.
    + destruct (task_done st1); [left; split; [exact Hm1|exact D1]|]. apply L. eapply rrel_trans; [|apply rrel_task_cancel].
      unfold task_uncancel. destruct (t_cnt st1); r5.
    + apply L. r5.
    + destruct (task_done st1); [left; split; [exact Hm1|exact D1]|]. apply L. eapply rrel_trans; [|apply rrel_task_cancel].
      unfold note_ext. destruct (in_shield _); r5.
    + destruct (nth_scope st1 k) as [sid|]; [|left; split; [exact Hm1|exact D1]].
      apply L. eapply rrel_trans; [apply rrel_scope_cancel|r5].
Qed.
