(* C13: complete enumeration of the finite domain of Conc/CancelScopeDomain.v (3 x 285 x 25 = 21 375 runs of the
   machine), lifted to universally quantified statements with forallb_forall. *)
From Coq Require Import List Arith Bool.
From EN Require Import Conc.CancelScope Conc.CancelScopeDomain Proofs.C13_core Proofs.C13_inv.
Import ListNotations.

Definition all9 (b1 b2 b3 b4 b5 b6 b7 b8 b9 : bool) : bool := b1 && b2 && b3 && b4 && b5 && b6 && b7 && b8 && b9.
Lemma all9_true : forall b1 b2 b3 b4 b5 b6 b7 b8 b9, all9 b1 b2 b3 b4 b5 b6 b7 b8 b9 = true ->
  b1 = true /\ b2 = true /\ b3 = true /\ b4 = true /\ b5 = true /\ b6 = true /\ b7 = true /\ b8 = true /\ b9 = true.
Proof. intros [] [] [] [] [] [] [] [] []; simpl; intro H; try discriminate; repeat split. Qed.

Definition check_state (fx fb : bool) (p : prog) (st : state) : bool :=
  all9 (finished st && no_active_scope st) (negb (g_abort st))
       (negb (g_late st))
       (negb (g_shbroken st))
       (fb || negb (g_lost st))
       (negb (shield_free p && catch_free p && (1 <=? g_ext st) && never_called st) || cancelled_out st)
       (fb || negb (shield_free p && catch_free p && (1 <=? g_ext st)) || cancelled_out st)
       (Nat.eqb (g_floor st) 0)
       (negb fx || Nat.eqb (g_leak st) 0).
Definition check_run (fl : bool * bool) (p : prog) (pos : list (nat * bool * nat)) : bool :=
  check_state (fst fl) (snd fl) p (bounded_run (fst fl) (snd fl) p pos).

(* the statements are spelled out (no intermediate constant) so that the kernel compares them syntactically instead of
   evaluating them with its lazy machine *)
Lemma check_all_true :
  forallb (fun fl => forallb (fun p => forallb (fun pos => check_run fl p pos) bounded_positions) bounded_programs)
          bounded_flags = true.
Proof. vm_compute. reflexivity. Qed.

Lemma check_flags_true : forall fl, In fl bounded_flags ->
  forallb (fun p => forallb (fun pos => check_run fl p pos) bounded_positions) bounded_programs = true.
Proof. intros fl Hf. exact (proj1 (forallb_forall _ _) check_all_true fl Hf). Qed.
Lemma check_progs_true : forall fl p, In fl bounded_flags -> In p bounded_programs ->
  forallb (fun pos => check_run fl p pos) bounded_positions = true.
Proof. intros fl p Hf Hp. exact (proj1 (forallb_forall _ _) (check_flags_true fl Hf) p Hp). Qed.
Lemma check_run_true : forall fl p pos,
  In fl bounded_flags -> In p bounded_programs -> In pos bounded_positions -> check_run fl p pos = true.
Proof. intros fl p pos Hf Hp Hpos. exact (proj1 (forallb_forall _ _) (check_progs_true fl p Hf Hp) pos Hpos). Qed.

Lemma check_run_unfold : forall fl p pos,
  check_run fl p pos = check_state (fst fl) (snd fl) p (bounded_run (fst fl) (snd fl) p pos).
Proof. intros. unfold check_run. reflexivity. Qed.

Lemma check_state_facts : forall fx fb p st, check_state fx fb p st = true ->
  (finished st = true /\ no_active_scope st = true /\ g_abort st = false) /\
  g_late st = false /\ g_shbroken st = false /\ (fb = false -> g_lost st = false) /\
  (shield_free p = true -> catch_free p = true -> 1 <= g_ext st -> never_called st = true -> cancelled_out st = true) /\
  (fb = false -> shield_free p = true -> catch_free p = true -> 1 <= g_ext st -> cancelled_out st = true) /\
  g_floor st = 0 /\ (fx = true -> g_leak st = 0).
Proof.
  intros fx fb p st H. unfold check_state in H. apply all9_true in H.
  destruct H as (H1 & H2 & H3 & H4 & H5 & H6 & H7 & H8 & H9).
  repeat split.
  - apply andb_prop in H1. apply H1.
  - apply andb_prop in H1. apply H1.
  - apply negb_true_iff. exact H2.
  - apply negb_true_iff. exact H3.
  - apply negb_true_iff. exact H4.
  - intros F. apply orb_prop in H5. destruct H5 as [X|X]; [congruence|apply negb_true_iff; exact X].
  - intros A B E N. apply orb_prop in H6. destruct H6 as [X|X]; [|exact X].
    apply negb_true_iff in X. apply Nat.leb_le in E. rewrite A, B, E, N in X. discriminate.
  - intros F A B E. apply orb_prop in H7. destruct H7 as [X|X]; [|exact X].
    apply orb_prop in X. destruct X as [X|X]; [congruence|].
    apply negb_true_iff in X. apply Nat.leb_le in E. rewrite A, B, E in X. discriminate.
  - apply Nat.eqb_eq. exact H8.
  - intros F. apply orb_prop in H9. destruct H9 as [X|X]; [rewrite F in X; discriminate|apply Nat.eqb_eq; exact X].
Qed.

Lemma bounded_facts : forall fx fb p pos,
  In (fx, fb) bounded_flags -> In p bounded_programs -> In pos bounded_positions ->
  (finished (bounded_run fx fb p pos) = true /\ no_active_scope (bounded_run fx fb p pos) = true /\
   g_abort (bounded_run fx fb p pos) = false) /\
  g_late (bounded_run fx fb p pos) = false /\ g_shbroken (bounded_run fx fb p pos) = false /\
  (fb = false -> g_lost (bounded_run fx fb p pos) = false) /\
  (shield_free p = true -> catch_free p = true -> 1 <= g_ext (bounded_run fx fb p pos) ->
   never_called (bounded_run fx fb p pos) = true -> cancelled_out (bounded_run fx fb p pos) = true) /\
  (fb = false -> shield_free p = true -> catch_free p = true -> 1 <= g_ext (bounded_run fx fb p pos) ->
   cancelled_out (bounded_run fx fb p pos) = true) /\
  g_floor (bounded_run fx fb p pos) = 0 /\ (fx = true -> g_leak (bounded_run fx fb p pos) = 0).
Proof.
  intros fx fb p pos Hf Hp Hpos.
  pose proof (check_run_true (fx, fb) p pos Hf Hp Hpos) as H.
  rewrite check_run_unfold in H. cbn [fst snd] in H.
  exact (check_state_facts _ _ _ _ H).
Qed.

Lemma acct_bounded_run : forall fx fb p pos, acct (bounded_run fx fb p pos).
Proof. intros. unfold bounded_run. apply acct_reachable. Qed.

Local Opaque bounded_run.

(* on the enumerated domain, with the repair of F1: cancelling() at the end = controller cancels that were accepted *)
Lemma bounded_no_leftover : forall fb p pos,
  In (true, fb) bounded_flags -> In p bounded_programs -> In pos bounded_positions ->
  t_cnt (bounded_run true fb p pos) = g_ext (bounded_run true fb p pos).
Proof.
  intros fb p pos Hf Hp Hpos.
  destruct (bounded_facts true fb p pos Hf Hp Hpos) as ((_ & Hn & _) & _ & _ & _ & _ & _ & Hfl & Hlk).
  pose proof (acct_bounded_run true fb p pos) as A. unfold acct in A.
  assert (Hz : owed_sum (scopes (bounded_run true fb p pos)) = 0).
  { apply owed_sum_zero. intros s Hs. unfold no_active_scope in Hn.
    pose proof (proj1 (forallb_forall _ _) Hn s Hs) as Hx. apply negb_true_iff. exact Hx. }
  rewrite Hz, Hfl, (Hlk eq_refl) in A. rewrite A. rewrite !Nat.add_0_r. reflexivity.
Qed.
