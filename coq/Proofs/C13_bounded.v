(* C13: complete enumeration of the finite domain of Conc/CancelScopeDomain.v (3 x 669 x 29 = 58 203 runs of the
   machine), lifted to universally quantified statements with forallb_forall. *)
From Coq Require Import List Arith Bool.
From EN Require Import Conc.CancelScope Conc.CancelScopeDomain.
Import ListNotations.

Definition check_run (fl : bool * bool) (p : prog) (pos : list (nat * bool)) : bool :=
  let st := bounded_run (fst fl) (snd fl) p pos in
  finished st && negb (g_abort st)
  && negb (g_late st)
  && negb (g_shbroken st)
  && negb (g_lost st)
  && (negb (shield_free p && catch_free p && (1 <=? g_ext st) && never_called st) || cancelled_out st)
  && (snd fl || negb (shield_free p && catch_free p && (1 <=? g_ext st)) || cancelled_out st)
  && Nat.eqb (g_floor st) 0
  && (negb (fst fl) || Nat.eqb (g_leak st) 0).

Definition check_all : bool :=
  forallb (fun fl => forallb (fun p => forallb (fun pos => check_run fl p pos) bounded_positions) bounded_programs)
          bounded_flags.

Lemma check_all_true : check_all = true.
Proof. vm_compute. reflexivity. Qed.

Lemma check_run_true : forall fl p pos,
  In fl bounded_flags -> In p bounded_programs -> In pos bounded_positions -> check_run fl p pos = true.
Proof.
  intros fl p pos Hf Hp Hpos. pose proof check_all_true as H. unfold check_all in H.
  rewrite forallb_forall in H. specialize (H fl Hf).
  rewrite forallb_forall in H. specialize (H p Hp).
  rewrite forallb_forall in H. exact (H pos Hpos).
Qed.

Ltac split_check H :=
  unfold check_run in H; repeat (apply andb_prop in H; let H' := fresh "C" in destruct H as [H H']).

Lemma bounded_facts : forall fx fb p pos,
  In (fx, fb) bounded_flags -> In p bounded_programs -> In pos bounded_positions ->
  let st := bounded_run fx fb p pos in
  (finished st = true /\ g_abort st = false) /\
  g_late st = false /\ g_shbroken st = false /\ g_lost st = false /\
  (shield_free p = true -> catch_free p = true -> 1 <= g_ext st -> never_called st = true -> cancelled_out st = true) /\
  (fb = false -> shield_free p = true -> catch_free p = true -> 1 <= g_ext st -> cancelled_out st = true) /\
  g_floor st = 0 /\ (fx = true -> g_leak st = 0).
Proof.
  intros fx fb p pos Hf Hp Hpos st. pose proof (check_run_true (fx, fb) p pos Hf Hp Hpos) as H.
  cbn [fst snd] in H. fold st in H.
  repeat (apply andb_prop in H; let C := fresh "C" in destruct H as [H C]).
  repeat split.
  - exact H.
  - apply negb_true_iff. assumption.
  - apply negb_true_iff. assumption.
  - apply negb_true_iff. assumption.
  - apply negb_true_iff. assumption.
  - intros A B E N. apply orb_prop in C3. destruct C3 as [X|X]; [|exact X].
    apply negb_true_iff in X. apply Nat.leb_le in E. rewrite A, B, E, N in X. discriminate.
  - intros F A B E. apply orb_prop in C2. destruct C2 as [X|X]; [|exact X].
    apply orb_prop in X. destruct X as [X|X]; [congruence|].
    apply negb_true_iff in X. apply Nat.leb_le in E. rewrite A, B, E in X. discriminate.
  - apply Nat.eqb_eq. assumption.
  - intros F. apply orb_prop in C0. destruct C0 as [X|X]; [rewrite F in X; discriminate|apply Nat.eqb_eq; exact X].
Qed.
