(* C06 (i) parse_total and (ii) no_crash_if_declared: where Crash can come from, and that it cannot arise when every
   library call answers inside the exception set its except clause names. *)
From Coq Require Import ZArith List Bool Lia Arith.
From EN Require Import Lib.Bytes Frame.Framer Frame.ReadUntil Frame.BufReadUntil Frame.JsonRaw Frame.ErrSites Frame.Generic
  Stream.Consumer.
Import ListNotations.

(* ---- the hand-written scanners never crash by themselves ---- *)
Lemma ru_feed_no_crash {P} sep limit ke (dec : decoder P) st chunk : ru_feed sep limit ke dec st chunk <> Crash.
Proof.
  unfold ru_feed, ru_scan, ru_finish. destruct st as [[b o]|]; [|destruct chunk; [congruence|]];
    repeat (match goal with |- context [if ?x then _ else _] => destruct x
                       | |- context [match ?x with _ => _ end] => destruct x end); congruence.
Qed.

Lemma rx_feed_no_crash {P} size (dec : decoder P) st chunk : rx_feed size dec st chunk <> Crash.
Proof.
  unfold rx_feed, rx_check. destruct st as [b|]; [|destruct chunk; [congruence|]];
    repeat (match goal with |- context [if ?x then _ else _] => destruct x
                       | |- context [match ?x with _ => _ end] => destruct x end); congruence.
Qed.

Lemma jsplit_no_crash limit doc consumed : jsplit limit doc consumed <> Crash.
Proof.
  unfold jsplit. repeat (match goal with |- context [if ?x then _ else _] => destruct x
                                  | |- context [match ?x with _ => _ end] => destruct x end); congruence.
Qed.

Lemma jplain_no_crash limit doc : jplain limit doc <> Crash.
Proof.
  unfold jplain. destruct (find_nonvalue doc); [apply jsplit_no_crash|]. destruct (Nat.ltb _ _); congruence.
Qed.

Lemma jraw_feed_no_crash limit st chunk : jraw_feed limit st chunk <> Crash.
Proof.
  unfold jraw_feed, jenc. destruct st; try apply jplain_no_crash;
    (destruct (jscan _ _ _); [destruct (Nat.ltb _ _); congruence|apply jsplit_no_crash|apply jplain_no_crash]).
Qed.

Lemma json_feed_no_crash {P} limit (dec : decoder P) st chunk : json_feed limit dec st chunk <> Crash.
Proof.
  unfold json_feed. pose proof (jraw_feed_no_crash limit st chunk).
  destruct (jraw_feed limit st chunk); try congruence. destruct (dec p); congruence.
Qed.

Lemma bru_feed_no_crash {P} sep ke (dec : decoder P) st mem n : bru_feed sep ke dec st mem n <> BCrash.
Proof.
  unfold bru_feed, bru_scan. destruct st as [buflen off].
  repeat (match goal with |- context [if ?x then _ else _] => destruct x
                     | |- context [match ?x with _ => _ end] => destruct x end); congruence.
Qed.

Lemma bfx_feed_no_crash {P} size (dec : decoder P) st mem n : bfx_feed size dec st mem n <> BCrash.
Proof.
  unfold bfx_feed. repeat (match goal with |- context [if ?x then _ else _] => destruct x
                                    | |- context [match ?x with _ => _ end] => destruct x end); congruence.
Qed.

(* ---- packets of these framers are values of the one-shot codec ---- *)
Lemma ru_done_from_dec {P} sep limit ke (dec : decoder P) st chunk p rest :
  ru_feed sep limit ke dec st chunk = Done p rest -> exists x, dec x = Some p.
Proof.
  unfold ru_feed, ru_scan, ru_finish. destruct st as [[b o]|]; [|destruct chunk; [congruence|]];
    repeat (match goal with
            | |- context [match dec ?x with _ => _ end] => destruct (dec x) eqn:?
            | |- context [if ?x then _ else _] => destruct x
            | |- context [match ?x with _ => _ end] => destruct x end);
    intros H; inversion H; subst; eauto.
Qed.

Lemma rx_done_from_dec {P} size (dec : decoder P) st chunk p rest :
  rx_feed size dec st chunk = Done p rest -> exists x, dec x = Some p.
Proof.
  unfold rx_feed, rx_check. destruct st as [b|]; [|destruct chunk; [congruence|]];
    repeat (match goal with
            | |- context [match dec ?x with _ => _ end] => destruct (dec x) eqn:?
            | |- context [if ?x then _ else _] => destruct x end);
    intros H; inversion H; subst; eauto.
Qed.

Lemma json_done_from_dec {P} limit (dec : decoder P) st chunk p rest :
  json_feed limit dec st chunk = Done p rest -> exists x, dec x = Some p.
Proof.
  unfold json_feed. destruct (jraw_feed limit st chunk); try congruence.
  destruct (dec p0) eqn:E; intros H; inversion H; subst; eauto.
Qed.

Lemma bru_done_from_dec {P} sep ke (dec : decoder P) st mem n p rest :
  bru_feed sep ke dec st mem n = BDone p rest -> exists x, dec x = Some p.
Proof.
  unfold bru_feed, bru_scan. destruct st as [buflen off].
  repeat (match goal with
          | |- context [match dec ?x with _ => _ end] => destruct (dec x) eqn:?
          | |- context [if ?x then _ else _] => destruct x
          | |- context [match ?x with _ => _ end] => destruct x end);
    intros H; inversion H; subst; eauto.
Qed.

Lemma bfx_done_from_dec {P} size (dec : decoder P) st mem n p rest :
  bfx_feed size dec st mem n = BDone p rest -> exists x, dec x = Some p.
Proof.
  unfold bfx_feed.
  repeat (match goal with
          | |- context [match dec ?x with _ => _ end] => destruct (dec x) eqn:?
          | |- context [if ?x then _ else _] => destruct x end);
    intros H; inversion H; subst; eauto.
Qed.

(* ---- the except-clause layer ---- *)
Definition all_declared {P} (declared : list Z) (g : bytes -> ores P) : Prop :=
  forall x k, g x = ORaise k -> memZ k declared = true.

Lemma dec_of_ores_escape {P} declared (g : bytes -> ores P) x k :
  dec_of_ores declared g x = Some (inr k) -> g x = ORaise k /\ memZ k declared = false.
Proof.
  unfold dec_of_ores. destruct (g x) as [p|k']; [congruence|].
  destruct (memZ k' declared) eqn:E; [congruence|]. intros H; inversion H; subst; auto.
Qed.

Lemma dec_of_ores_no_escape {P} declared (g : bytes -> ores P) :
  all_declared declared g -> forall x k, dec_of_ores declared g x <> Some (inr k).
Proof.
  intros Hd x k H. apply dec_of_ores_escape in H as [H1 H2]. specialize (Hd _ _ H1). congruence.
Qed.

(* Crash of a lifted framer: either the framer crashed itself or the codec let a class escape *)
Lemma lift_crash_inv {P} (F : framer (epkt P)) s c :
  ffeed (lift_framer F) s c = Crash -> ffeed F s c = Crash \/ exists k rest, ffeed F s c = Done (inr k) rest.
Proof.
  simpl. destruct (ffeed F s c) as [s'|[p|k] rest|e rest|]; simpl; try congruence; eauto.
Qed.

Lemma lift_bcrash_inv {P} (F : bframer (epkt P)) s m n :
  bfeed (lift_bframer F) s m n = BCrash -> bfeed F s m n = BCrash \/ exists k rest, bfeed F s m n = BDone (inr k) rest.
Proof.
  simpl. destruct (bfeed F s m n) as [s' st|[p|k] rest|e rest|]; simpl; try congruence; eauto.
Qed.

Section Generic.
  Context {P : Type}.
  Variable declared : list Z.
  Variable g : bytes -> ores P.

  (* a framer family parameterised by its one-shot codec, which never crashes by itself and only returns codec values *)
  Variable mk : decoder (epkt P) -> framer (epkt P).
  Hypothesis mk_no_crash : forall dec s c, ffeed (mk dec) s c <> Crash.
  Hypothesis mk_done : forall dec s c p rest, ffeed (mk dec) s c = Done p rest -> exists x, dec x = Some p.

  (* (i) a Crash means the codec answered with an undeclared class *)
  Lemma crash_only_from_escape s c :
    ffeed (lift_framer (mk (dec_of_ores declared g))) s c = Crash ->
    exists x k, g x = ORaise k /\ memZ k declared = false.
  Proof.
    intros H. apply lift_crash_inv in H as [H|[k [rest H]]].
    - exfalso; eapply mk_no_crash; eauto.
    - apply mk_done in H as [x Hx]. apply dec_of_ores_escape in Hx. eauto.
  Qed.

  (* (ii) *)
  Lemma no_crash_if_all_declared : all_declared declared g ->
    forall s c, ffeed (lift_framer (mk (dec_of_ores declared g))) s c <> Crash.
  Proof.
    intros Hd s c H. apply crash_only_from_escape in H as [x [k [H1 H2]]]. specialize (Hd _ _ H1). congruence.
  Qed.
End Generic.

Section GenericB.
  Context {P : Type}.
  Variable declared : list Z.
  Variable g : bytes -> ores P.
  Variable mk : decoder (epkt P) -> bframer (epkt P).
  Hypothesis mk_no_crash : forall dec s m n, bfeed (mk dec) s m n <> BCrash.
  Hypothesis mk_done : forall dec s m n p rest, bfeed (mk dec) s m n = BDone p rest -> exists x, dec x = Some p.

  Lemma bcrash_only_from_escape s m n :
    bfeed (lift_bframer (mk (dec_of_ores declared g))) s m n = BCrash ->
    exists x k, g x = ORaise k /\ memZ k declared = false.
  Proof.
    intros H. apply lift_bcrash_inv in H as [H|[k [rest H]]].
    - exfalso; eapply mk_no_crash; eauto.
    - apply mk_done in H as [x Hx]. apply dec_of_ores_escape in Hx. eauto.
  Qed.

  Lemma no_bcrash_if_all_declared : all_declared declared g ->
    forall s m n, bfeed (lift_bframer (mk (dec_of_ores declared g))) s m n <> BCrash.
  Proof.
    intros Hd s m n H. apply bcrash_only_from_escape in H as [x [k [H1 H2]]]. specialize (Hd _ _ H1). congruence.
  Qed.
End GenericB.

(* instances *)
Section Instances.
  Context {P : Type}.
  Variable declared : list Z.
  Variable g : bytes -> ores P.
  Let escapes := exists x k, g x = ORaise k /\ memZ k declared = false.

  Lemma ru_crash_origin sep limit ke st chunk :
    ffeed (lift_framer (ru_framer sep limit ke (dec_of_ores declared g))) st chunk = Crash -> escapes.
  Proof.
    apply (crash_only_from_escape declared g (fun d => ru_framer sep limit ke d)); intros;
      [apply ru_feed_no_crash | simpl in *; eapply ru_done_from_dec; eassumption].
  Qed.
  Lemma rx_crash_origin size st chunk :
    ffeed (lift_framer (rx_framer size (dec_of_ores declared g))) st chunk = Crash -> escapes.
  Proof.
    apply (crash_only_from_escape declared g (fun d => rx_framer size d)); intros;
      [apply rx_feed_no_crash | simpl in *; eapply rx_done_from_dec; eassumption].
  Qed.
  Lemma json_crash_origin limit st chunk :
    ffeed (lift_framer (json_framer limit (dec_of_ores declared g))) st chunk = Crash -> escapes.
  Proof.
    apply (crash_only_from_escape declared g (fun d => json_framer limit d)); intros;
      [apply json_feed_no_crash | simpl in *; eapply json_done_from_dec; eassumption].
  Qed.
  Lemma bru_crash_origin sep limit ke st mem n :
    bfeed (lift_bframer (bru_framer sep limit ke (dec_of_ores declared g))) st mem n = BCrash -> escapes.
  Proof.
    apply (bcrash_only_from_escape declared g (fun d => bru_framer sep limit ke d)); intros;
      [apply bru_feed_no_crash | simpl in *; eapply bru_done_from_dec; eassumption].
  Qed.
  Lemma bfx_crash_origin size st mem n :
    bfeed (lift_bframer (bfx_framer size (dec_of_ores declared g))) st mem n = BCrash -> escapes.
  Proof.
    apply (bcrash_only_from_escape declared g (fun d => bfx_framer size d)); intros;
      [apply bfx_feed_no_crash | simpl in *; eapply bfx_done_from_dec; eassumption].
  Qed.
End Instances.

(* ---- library answers, try statements ---- *)
Definition caught_at (sites : list trysite) (s : nat) (k : Z) : bool :=
  existsb (fun h => memZ k (fst h)) (nth s sites []).

(* every handler of every try statement raises a class of [declared] *)
Definition sites_ok (declared : list Z) (sites : list trysite) : bool :=
  forallb (fun t => forallb (fun h => memZ (snd h) declared) t) sites.

Lemma through_try_caught declared (t : trysite) k :
  forallb (fun h => memZ (snd h) declared) t = true -> existsb (fun h => memZ k (fst h)) t = true ->
  memZ (through_try t k) declared = true.
Proof.
  unfold through_try. induction t as [|h t IH]; simpl; [congruence|].
  rewrite andb_true_iff. intros [Hh Ht] He. destruct (memZ k (fst h)) eqn:E; [exact Hh|]. simpl in He. auto.
Qed.

Lemma sites_ok_nth declared sites s :
  sites_ok declared sites = true -> forallb (fun h => memZ (snd h) declared) (nth s sites []) = true.
Proof.
  unfold sites_ok. revert s; induction sites as [|t ts IH]; intros [|s]; simpl; auto.
  - rewrite andb_true_iff; tauto.
  - rewrite andb_true_iff; intros [_ H]; auto.
Qed.

(* H_declared for a tabulated library: every exception it raises is named by the except clause of its call site,
   and the serializer's own rejections use a declared class *)
Definition answers_declared {P} (sites : list trysite) (tab : bytes -> ans P) : Prop :=
  forall x s k, tab x = ARaise s k -> caught_at sites s k = true.

Lemma handle_all_declared {P} declared own sites (tab : bytes -> ans P) :
  sites_ok declared sites = true -> memZ own declared = true -> answers_declared sites tab ->
  all_declared declared (fun x => handle own sites (tab x)).
Proof.
  intros Hs Ho Ha x k. unfold handle. destruct (tab x) as [p| |s k'] eqn:E; try congruence.
  intros H; inversion H; subst. apply through_try_caught; [apply sites_ok_nth; assumption|].
  apply (Ha _ _ _ E).
Qed.

(* when the serializer has no rejection of its own (JSON, line, struct), [own] is irrelevant *)
Lemma handle_all_declared_nobad {P} declared own sites (tab : bytes -> ans P) :
  sites_ok declared sites = true -> (forall x, tab x <> ABad) -> answers_declared sites tab ->
  all_declared declared (fun x => handle own sites (tab x)).
Proof.
  intros Hs Hb Ha x k. unfold handle. specialize (Hb x). destruct (tab x) as [p| |s k'] eqn:E; try congruence.
  intros H; inversion H; subst. apply through_try_caught; [apply sites_ok_nth; assumption|].
  apply (Ha _ _ _ E).
Qed.

(* an outer handler that catches everything the inner method may raise (DeserializeError family) *)
Lemma rehandle_all_declared {P} declared inner_declared (outer : trysite) (g : bytes -> ores P) :
  forallb (fun h => memZ (snd h) declared) outer = true ->
  (forall k, memZ k inner_declared = true -> existsb (fun h => memZ k (fst h)) outer = true) ->
  all_declared inner_declared g -> all_declared declared (fun x => rehandle outer (g x)).
Proof.
  intros Ho Hc Hg x k. unfold rehandle. destruct (g x) as [p|k'] eqn:E; [congruence|].
  intros H; inversion H; subst. apply through_try_caught; [assumption|]. apply Hc. eapply Hg; eauto.
Qed.

(* ---- generic framers ---- *)
Lemma fb_crash_inv {P} limit (load : bytes -> lres P) expected st chunk :
  fb_feed limit load expected st chunk = Crash ->
  exists content k pos, load content = LRaise k pos /\ expected k = false.
Proof.
  unfold fb_feed, fb_round. destruct st as [[content pos]|];
    (destruct (Nat.ltb _ _); [congruence|]);
    (destruct (load _) as [q|p q|k q] eqn:E; try congruence);
    (destruct (expected k) eqn:Ek; [congruence|eauto]).
Qed.

Lemma fb_no_crash {P} limit (load : bytes -> lres P) expected :
  (forall content k pos, load content = LRaise k pos -> expected k = true) ->
  forall st chunk, fb_feed limit load expected st chunk <> Crash.
Proof.
  intros Hd st chunk H. apply fb_crash_inv in H as [content [k [pos [H1 H2]]]]. specialize (Hd _ _ _ H1). congruence.
Qed.

Lemma cz_crash_inv {P} D (dd : D -> bytes -> (D * bytes) + Z) deof dunused expected (inner : bytes -> ores P) inner_declared st chunk :
  cz_feed D dd deof dunused expected inner inner_declared st chunk = Crash ->
  (exists d c k, dd d c = inr k /\ expected k = false) \/ (exists x k, inner x = ORaise k /\ inner_declared k = false).
Proof.
  unfold cz_feed, cz_finish. destruct st as [results d].
  destruct (dd d chunk) as [[d' out]|k] eqn:E.
  - destruct (deof d'); [|congruence].
    destruct (inner _) as [p|k] eqn:Ei; [congruence|]. destruct (inner_declared k) eqn:Ek; [congruence|].
    intros _. right; eauto.
  - destruct (expected k) eqn:Ek; [congruence|]. intros _. left; eauto.
Qed.

Lemma cz_no_crash {P} D (dd : D -> bytes -> (D * bytes) + Z) deof dunused expected (inner : bytes -> ores P) inner_declared :
  (forall d c k, dd d c = inr k -> expected k = true) ->
  (forall x k, inner x = ORaise k -> inner_declared k = true) ->
  forall st chunk, cz_feed D dd deof dunused expected inner inner_declared st chunk <> Crash.
Proof.
  intros H1 H2 st chunk H. apply cz_crash_inv in H as [[d [c [k [Ha Hb]]]]|[x [k [Ha Hb]]]].
  - specialize (H1 _ _ _ Ha); congruence.
  - specialize (H2 _ _ Ha); congruence.
Qed.

Lemma wrap_crash_iff {P} (F : framer P) s c : ffeed (wrap_generic F) s c = Crash <-> ffeed F s c = Crash.
Proof. simpl. destruct (ffeed F s c); split; congruence. Qed.

Lemma bwrap_crash_iff {P} (F : framer P) alloc s m n :
  bfeed (bwrap_generic F alloc) s m n = BCrash <-> ffeed F s (firstn n m) = Crash.
Proof. simpl. unfold bwrap_feed. destruct (ffeed F s (firstn n m)); split; congruence. Qed.

(* ---- the copying consumer: RCrash only from a framer Crash ---- *)
Section ConsumerNoCrash.
  Context {P : Type}.
  Variable F : framer P.
  Hypothesis F_no_crash : forall s c, ffeed F s c <> Crash.

  Lemma cfeed_no_crash c data : snd (cfeed F c data) <> RCrash.
  Proof.
    unfold cfeed. destruct (ffeed F _ data) eqn:E; simpl; try congruence; try (exfalso; eapply F_no_crash; eauto; fail).
  Qed.

  Lemma cnext_no_crash c chunk : snd (cnext F c chunk) <> RCrash.
  Proof.
    unfold cnext. destruct chunk as [[|b ch]|]; try apply cfeed_no_crash;
      (destruct (cbuf c); [simpl; congruence|apply cfeed_no_crash]).
  Qed.

  Lemma cdrain_no_crash fuel : forall c, Forall (fun r => r <> RCrash) (snd (cdrain F fuel c)).
  Proof.
    induction fuel as [|f IH]; intros c; [constructor|]. cbn [cdrain].
    pose proof (cnext_no_crash c None) as H. destruct (cnext F c None) as [c1 r]. simpl in H.
    destruct r; try (constructor; fail);
      (specialize (IH c1); destruct (cdrain F f c1) as [c2 rs]; simpl in *; constructor; [congruence|assumption]).
  Qed.

  Lemma cstep_no_crash fuel c (chunk : bytes) : Forall (fun r => r <> RCrash) (snd (cstep F fuel c chunk)).
  Proof.
    unfold cstep. pose proof (cnext_no_crash c (Some chunk)) as H. destruct (cnext F c (Some chunk)) as [c1 r]. simpl in H.
    destruct r; try (constructor; fail);
      (pose proof (cdrain_no_crash fuel c1) as Hd; destruct (cdrain F fuel c1) as [c2 rs]; simpl in *;
       constructor; [congruence|assumption]).
  Qed.

  Lemma cdeliver_no_crash fuel chunks : forall c, Forall (fun r => r <> RCrash) (snd (cdeliver F fuel c chunks)).
  Proof.
    induction chunks as [|ch chs IH]; intros c; [constructor|]. cbn [cdeliver].
    pose proof (cstep_no_crash fuel c ch) as H1. destruct (cstep F fuel c ch) as [c1 rs].
    specialize (IH c1). destruct (cdeliver F fuel c1 chs) as [c2 rs']. simpl in *.
    apply Forall_app; split; assumption.
  Qed.
End ConsumerNoCrash.
