(* Base64EncoderSerializer through both consumers *)
From Coq Require Import List NArith Arith Bool Lia.
From EN Require Import Lib.Bytes Frame.Framer Frame.ReadUntil Frame.BufReadUntil Stream.Consumer Frame.Base64
  Proofs.Base64_proofs Proofs.C01_proofs.
Import ListNotations.

Lemma base64_wrapper_stream_roundtrip_proof :
  forall (P : Type) (url : bool) (checksum : option (bytes -> bytes)) (inner_enc : P -> bytes) (inner_dec : decoder P)
         (h : N) (sep' : bytes) (limit sizehint : nat),
    (forall hf, checksum = Some hf -> forall d, length (hf d) = 32 /\ wf_bytes (hf d)) ->
    b64_out url h = false -> length (h :: sep') + 1 <= limit ->
    let sep := h :: sep' in
    let enc := b64_serialize url checksum inner_enc in
    let dec := b64_deserialize url checksum inner_dec in
    forall (pkts : list P) (chunks : list bytes) (fuel : nat),
      Forall (fun p => wf_bytes (inner_enc p) /\ inner_dec (inner_enc p) = Some p /\
                       length (enc p) <= limit - 1 - length sep) pkts ->
      Forall (fun ch => ch <> []) chunks ->
      concat chunks = stream sep enc pkts ->
      length (stream sep enc pkts) < fuel ->
      cdeliver (ru_framer sep limit false dec) fuel (cinit _) chunks =
        (@Build_cstate P (ru_framer sep limit false dec) [] None, map RPkt pkts)
      /\ exists c', bcdeliver (bru_framer sep limit false dec) sizehint fuel (bcinit _) chunks = (c', map RPkt pkts) /\
                    bcons c' = None /\ balready c' = 0 /\ bexported c' = None.
Proof.
  intros P url checksum inner_enc inner_dec h sep' limit sizehint Hck Hh Hlim sep enc dec pkts chunks fuel Hv Hch Hc Hf.
  assert (Hne : sep <> []) by discriminate.
  assert (Hvalid : Forall (valid_pkt sep false enc dec (limit - 1 - length sep)) pkts).
  { eapply Forall_impl; [|exact Hv]. intros p (Hw & Hrt & Hl). repeat split.
    - exact (b64_serializer_roundtrip url checksum inner_enc inner_dec Hck p Hw Hrt).
    - exact (b64_frame_ends_at_token url checksum inner_enc Hck p h sep' Hw Hh).
    - exact Hl. }
  split.
  - apply (consumer_roundtrip_l sep false enc dec Hne limit pkts chunks fuel); try assumption.
    eapply Forall_impl; [|exact Hvalid]. intros p (H1 & H2 & H3). repeat split; [exact H1 | exact H2 | lia].
  - exact (bconsumer_roundtrip_l sep false enc dec Hne limit sizehint pkts chunks fuel Hlim Hvalid Hc Hf).
Qed.
