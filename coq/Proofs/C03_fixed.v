(* C03: the interface [consumer_ok] holds for the real copying consumer model (StreamDataConsumer) over the fixed-size
   framer (FixedSizePacketSerializer.incremental_deserialize), whatever max_recv_size >= 1 and the inner codec. *)
From Coq Require Import List Arith Bool Lia.
From EN Require Import Lib.Bytes Frame.Framer Frame.ReadUntil Stream.Consumer Stream.Endpoint Stream.EndpointSpec.
Import ListNotations.

Lemma skipn_skipn' : forall {A} n m (l : list A), skipn n (skipn m l) = skipn (m + n) l.
Proof.
  intros A n m. induction m; intros l; [reflexivity|].
  destruct l; [simpl; destruct n; reflexivity|]. simpl. apply IHm.
Qed.

Section Fixed.
  Context {P : Type}.
  Variable size : nat.
  Variable dec : decoder P.
  Variable bufsize : nat.
  Hypothesis size_pos : 0 < size.
  Hypothesis bufsize_pos : 0 < bufsize.

  Definition F := rx_framer size dec.
  Definition FM := copy_machine F bufsize.

  Definition fx_event (block : bytes) : nres P :=
    match dec block with Some p => RPkt p | None => RErr EDecode end.

  (* frame-by-frame decoding: consecutive blocks of [size] bytes; a shorter tail yields nothing *)
  Fixpoint fx_spec_n (n : nat) (d : bytes) : list (nres P) :=
    match n with
    | 0 => []
    | S n' => if Nat.ltb (length d) size then [] else fx_event (firstn size d) :: fx_spec_n n' (skipn size d)
    end.
  Definition fx_spec (d : bytes) : list (nres P) := fx_spec_n (length d) d.

  Lemma fx_spec_n_enough : forall n m d, length d <= n -> length d <= m -> fx_spec_n n d = fx_spec_n m d.
  Proof.
    induction n; intros m d Hn Hm.
    - destruct d; [|simpl in Hn; lia]. destruct m; simpl; [reflexivity|].
      destruct (Nat.ltb 0 size) eqn:E; [reflexivity|]. apply Nat.ltb_ge in E. lia.
    - destruct m.
      + destruct d; [|simpl in Hm; lia]. simpl.
        destruct (Nat.ltb 0 size) eqn:E; [reflexivity|]. apply Nat.ltb_ge in E. lia.
      + simpl. destruct (Nat.ltb (length d) size) eqn:E; [reflexivity|]. apply Nat.ltb_ge in E.
        f_equal. apply IHn; rewrite skipn_length; lia.
  Qed.

  Lemma fx_spec_short : forall d, length d < size -> fx_spec d = [].
  Proof.
    intros d H. unfold fx_spec. destruct (length d) eqn:E; [reflexivity|]. simpl. rewrite E.
    apply Nat.ltb_lt in H. rewrite H. reflexivity.
  Qed.

  Lemma fx_spec_long : forall d, size <= length d ->
      fx_spec d = fx_event (firstn size d) :: fx_spec (skipn size d).
  Proof.
    intros d H. unfold fx_spec. destruct (length d) eqn:E; [lia|]. simpl. rewrite E.
    apply Nat.ltb_ge in H. rewrite H. f_equal. apply fx_spec_n_enough; rewrite skipn_length; lia.
  Qed.

  Lemma fx_spec_app : forall n d x, length d <= n -> exists tl, fx_spec (d ++ x) = fx_spec d ++ tl.
  Proof.
    induction n; intros d x Hn.
    - destruct d; [|simpl in Hn; lia]. rewrite (fx_spec_short []) by (simpl; lia). eexists; reflexivity.
    - destruct (Nat.lt_ge_cases (length d) size) as [Hs|Hs].
      + rewrite (fx_spec_short d Hs). eexists; reflexivity.
      + rewrite (fx_spec_long d Hs). rewrite (fx_spec_long (d ++ x)) by (rewrite app_length; lia).
        rewrite firstn_app. replace (size - length d) with 0 by lia. rewrite firstn_O, app_nil_r.
        rewrite skipn_app. replace (size - length d) with 0 by lia. rewrite skipn_O.
        destruct (IHn (skipn size d) x) as [tl E]; [rewrite skipn_length; lia|].
        rewrite E. exists tl. reflexivity.
  Qed.

  (* events still to hand out when k were handed out: those of the unread remainder *)
  Lemma fx_spec_skip : forall k d, k * size <= length d ->
      fx_spec d = firstn k (fx_spec d) ++ fx_spec (skipn (k * size) d) /\ length (firstn k (fx_spec d)) = k.
  Proof.
    induction k; intros d H.
    - simpl. auto.
    - simpl in H. rewrite (fx_spec_long d) by lia. cbn [firstn length app].
      destruct (IHk (skipn size d)) as [E L]; [rewrite skipn_length; lia|].
      split.
      + f_equal. rewrite E at 1. rewrite skipn_skipn'. reflexivity.
      + f_equal. exact L.
  Qed.

  (* the relation: [rem] = the bytes received and not yet turned into an event *)
  Definition fx_R (c : cstate F) (d : bytes) (k : nat) : Prop :=
    k * size <= length d /\
    let rem := skipn (k * size) d in
    (ccons c = None /\ cbuf c = rem) \/
    (cbuf c = [] /\ ccons c = Some (Some rem) /\ rem <> [] /\ length rem < size).

  Lemma nth_after : forall k d e rest, k * size <= length d ->
      fx_spec (skipn (k * size) d) = e :: rest -> nth_error (fx_spec d) k = Some e.
  Proof.
    intros k d e rest H E. destruct (fx_spec_skip k d H) as [E1 L]. rewrite E1, E.
    rewrite nth_error_app2 by lia. rewrite L, Nat.sub_diag. reflexivity.
  Qed.

  Lemma len_after : forall k d, k * size <= length d ->
      fx_spec (skipn (k * size) d) = [] -> length (fx_spec d) = k.
  Proof.
    intros k d H E. destruct (fx_spec_skip k d H) as [E1 L]. rewrite E1, E, app_nil_r. exact L.
  Qed.

  (* rx_check on the unread remainder [rem] of d after k events *)
  Lemma check_rem : forall k d, k * size <= length d ->
      let rem := skipn (k * size) d in
      match rx_check size dec rem with
      | Need s => s = Some rem /\ length rem < size /\ length (fx_spec d) = k
      | Done p rest => nth_error (fx_spec d) k = Some (RPkt p) /\ rest = skipn (S k * size) d /\ S k * size <= length d
      | Fail e rest => e = EDecode /\ nth_error (fx_spec d) k = Some (RErr EDecode) /\ rest = skipn (S k * size) d
                       /\ S k * size <= length d
      | Crash => False
      end.
  Proof.
    intros k d H rem. unfold rx_check.
    assert (Hl : length rem = length d - k * size) by (unfold rem; apply skipn_length).
    destruct (Nat.ltb (length rem) size) eqn:E.
    - apply Nat.ltb_lt in E. repeat split; auto. apply len_after; auto. apply fx_spec_short. exact E.
    - apply Nat.ltb_ge in E.
      assert (Hrest : skipn size rem = skipn (S k * size) d).
      { unfold rem. rewrite skipn_skipn'. f_equal. simpl. lia. }
      pose proof (fx_spec_long rem E) as Hlong. unfold fx_event in Hlong.
      destruct (dec (firstn size rem)) eqn:Ed.
      + split; [eapply nth_after; eauto|]. split; [exact Hrest|]. simpl. lia.
      + split; [reflexivity|]. split; [eapply nth_after; eauto|]. split; [exact Hrest|]. simpl. lia.
  Qed.

  Lemma cfeed_rem : forall (c : cstate F) k (d : bytes),
      k * size <= length d ->
      let rem := skipn (k * size) d in
      rem <> [] ->
      (ccons c = None \/ ccons c = Some (@None bytes)) ->
      match cfeed F c rem with
      | (c', RStop) => length (fx_spec d) = k /\ fx_R c' d k
      | (c', RCrash) => False
      | (c', r) => nth_error (fx_spec d) k = Some r /\ fx_R c' d (S k)
      end.
  Proof.
    intros c k d H rem Hne Hc. unfold cfeed.
    assert (Hfeed : ffeed F (match ccons c with Some s => s | None => finit F end) rem = rx_check size dec rem).
    { destruct Hc as [-> | ->]; cbn; destruct rem; try congruence; reflexivity. }
    rewrite Hfeed. pose proof (check_rem k d H) as Hc2. cbv zeta in Hc2. fold rem in Hc2.
    destruct (rx_check size dec rem) as [s|p rest|e rest|].
    - destruct Hc2 as (-> & Hl & Hlen). split; [exact Hlen|]. split; [exact H|]. right. cbn. fold rem. auto.
    - destruct Hc2 as (Hn & -> & Hle). split; [exact Hn|]. split; [exact Hle|]. left. cbn. auto.
    - destruct Hc2 as (-> & Hn & -> & Hle). split; [exact Hn|]. split; [exact Hle|]. left. cbn. auto.
    - exact Hc2.
  Qed.

  Lemma fx_drain : forall (c : cstate F) d k c' r, fx_R c d k -> mdrain FM c = (c', r) ->
      match r with
      | RStop => k = length (fx_spec d) /\ fx_R c' d k
      | _ => nth_error (fx_spec d) k = Some r /\ fx_R c' d (S k)
      end.
  Proof.
    intros c d k c' r [H HR] E. cbn [FM copy_machine mdrain] in E. unfold cnext in E.
    destruct HR as [[Hc Hb] | (Hb & Hc & Hne & Hl)].
    - rewrite Hb in E. destruct (skipn (k * size) d) as [|b rem'] eqn:Erem.
      + inversion E; subst. split.
        * symmetry. apply len_after; auto. rewrite Erem. apply fx_spec_short. simpl. lia.
        * split; [exact H|]. left. rewrite Erem. auto.
      + pose proof (cfeed_rem c k d H) as Hf. cbv zeta in Hf. rewrite Erem in Hf.
        specialize (Hf ltac:(discriminate) (or_introl Hc)). rewrite E in Hf.
        destruct r; try tauto. destruct Hf. split; [symmetry|]; assumption.
    - rewrite Hb in E. inversion E; subst. split.
      + symmetry. apply len_after; auto. apply fx_spec_short. exact Hl.
      + split; [exact H|]. right. auto.
  Qed.

  Lemma skipn_app_le : forall (d x : bytes) n, n <= length d -> skipn n (d ++ x) = skipn n d ++ x.
  Proof. intros d x n H. rewrite skipn_app. replace (n - length d) with 0 by lia. reflexivity. Qed.

  Lemma fx_take : forall (c : cstate F) d k avail, fx_R c d k -> k = length (fx_spec d) -> avail <> [] ->
      exists c' r n room, mtake FM c avail = Some (c', r, n, room) /\
        1 <= n <= length avail /\
        match r with
        | RStop => length (fx_spec (d ++ firstn n avail)) = k /\ fx_R c' (d ++ firstn n avail) k
        | _ => nth_error (fx_spec (d ++ firstn n avail)) k = Some r /\ fx_R c' (d ++ firstn n avail) (S k)
        end.
  Proof.
    intros c d k avail [H HR] Hk Hav. cbn [FM copy_machine mtake].
    set (n := Nat.min bufsize (length avail)).
    assert (Hn : 1 <= n <= length avail).
    { unfold n. destruct avail; [congruence|]. simpl. lia. }
    set (piece := firstn n avail).
    assert (Hpl : length piece = n) by (unfold piece; rewrite firstn_length; lia).
    assert (Hpne : piece <> []) by (intro E0; rewrite E0 in Hpl; simpl in Hpl; lia).
    assert (H' : k * size <= length (d ++ piece)) by (rewrite app_length; lia).
    assert (Hrem : skipn (k * size) (d ++ piece) = skipn (k * size) d ++ piece) by (apply skipn_app_le; exact H).
    destruct (cnext F c (Some piece)) as [c' r] eqn:E.
    exists c', r, n, bufsize. split; [reflexivity|]. split; [exact Hn|].
    unfold cnext in E. destruct piece as [|pb pt] eqn:Ep; [congruence|]. rewrite <- Ep in *.
    destruct HR as [[Hc Hb] | (Hb & Hc & Hne & Hl)].
    - rewrite Hb in E. rewrite <- Hrem in E.
      pose proof (cfeed_rem c k (d ++ piece) H') as Hf. cbv zeta in Hf.
      assert (Hne2 : skipn (k * size) (d ++ piece) <> []).
      { rewrite Hrem. intro E0. apply app_eq_nil in E0. tauto. }
      specialize (Hf Hne2 (or_introl Hc)). rewrite E in Hf.
      destruct r; tauto.
    - (* suspended inside read_exactly with [rem] *)
      rewrite Hb in E. cbn [app] in E. unfold cfeed in E. rewrite Hc in E.
      assert (Hfeed : ffeed F (Some (skipn (k * size) d)) piece = rx_check size dec (skipn (k * size) (d ++ piece))).
      { cbn. rewrite Hrem. reflexivity. }
      rewrite Hfeed in E.
      pose proof (check_rem k (d ++ piece) H') as Hc2. cbv zeta in Hc2.
      destruct (rx_check size dec (skipn (k * size) (d ++ piece))) as [s|p rest|e rest|].
      + destruct Hc2 as (-> & Hl2 & Hlen). inversion E; subst c' r. split; [exact Hlen|]. split; [exact H'|].
        right. cbv zeta. fold piece. cbn [cbuf ccons]. repeat split; auto. rewrite Hrem. intro E0. apply app_eq_nil in E0. tauto.
      + destruct Hc2 as (Hn2 & -> & Hle). inversion E; subst c' r. split; [exact Hn2|]. split; [exact Hle|]. left. cbn. auto.
      + destruct Hc2 as (-> & Hn2 & -> & Hle). inversion E; subst c' r. split; [exact Hn2|]. split; [exact Hle|]. left. cbn. auto.
      + contradiction.
  Qed.

  Theorem fx_consumer_ok : consumer_ok FM fx_spec fx_R.
  Proof.
    constructor.
    - intros d x. apply (fx_spec_app (length d)). lia.
    - exact fx_drain.
    - exact fx_take.
  Qed.

  Lemma fx_R_init : fx_R (cinit F) [] 0.
  Proof. split; [simpl; lia|]. left. auto. Qed.
End Fixed.

From EN Require Import Proofs.C03_proofs.

Section FixedTheorems.
  Context {P : Type}.
  Variable size : nat.
  Variable dec : decoder P.
  Variable bufsize : nat.
  Hypothesis size_pos : 0 < size.
  Hypothesis bufsize_pos : 0 < bufsize.
  Variable mode : emode.

  Let FMx := copy_machine (rx_framer size dec) bufsize.
  Let c0 := cinit (rx_framer size dec).

  Lemma fixed_recv_sequence : forall o ts j r,
      nth_error (delivered (results (run_calls FMx mode (linit c0) o ts))) j = Some r ->
      r = expected (fx_spec size dec (stream_of o)) j.
  Proof.
    apply (recv_sequence_proof FMx mode (fx_spec size dec) (fx_R size dec)
             (fx_consumer_ok size dec bufsize size_pos bufsize_pos) c0 (fx_R_init size dec bufsize size_pos bufsize_pos)).
  Qed.

  Lemma fixed_no_partial : forall o ts s1 tail,
      stream_of o = s1 ++ tail -> length s1 = (length s1 / size) * size -> length tail < size ->
      forall j r, nth_error (delivered (results (run_calls FMx mode (linit c0) o ts))) j = Some r ->
                  length s1 / size <= j -> r = RecvAborted.
  Proof.
    intros o ts s1 tail Hs Hmul Htail j r H Hj.
    set (k := length s1 / size) in *.
    assert (Hk : k * size <= length s1) by lia.
    assert (E1 : fx_spec size dec (skipn (k * size) s1) = []).
    { apply fx_spec_short; auto. rewrite skipn_length. lia. }
    assert (E2 : fx_spec size dec (skipn (k * size) (s1 ++ tail)) = []).
    { apply fx_spec_short; auto. rewrite skipn_length, app_length. lia. }
    pose proof (len_after size dec bufsize size_pos bufsize_pos k s1 Hk E1) as L1.
    assert (Hk2 : k * size <= length (s1 ++ tail)) by (rewrite app_length; lia).
    pose proof (len_after size dec bufsize size_pos bufsize_pos k (s1 ++ tail) Hk2 E2) as L2.
    apply fixed_recv_sequence in H. rewrite Hs in H. subst r. unfold expected.
    replace (nth_error (fx_spec size dec (s1 ++ tail)) j) with (@None (nres P)); [reflexivity|].
    symmetry. apply nth_error_None. lia.
  Qed.

  Lemma fixed_eof_sticky : forall o ts1 rs1 st1 o1,
      run_calls FMx mode (linit c0) o ts1 = (rs1, st1, o1) ->
      forall t st2 o2 el, receive FMx mode t st1 o1 = (st2, o2, RecvAborted, el) ->
      forall ts' o', exists st3, run_calls FMx mode st2 o' ts' = (map (fun _ => (RecvAborted, o')) ts', st3, o').
  Proof.
    apply (eof_sticky_proof FMx mode (fx_spec size dec) (fx_R size dec)
             (fx_consumer_ok size dec bufsize size_pos bufsize_pos) c0 (fx_R_init size dec bufsize size_pos bufsize_pos)).
  Qed.

  Lemma fixed_timeout_loses_nothing : forall o ts,
      let evs := fx_spec size dec (stream_of o) in
      firstn (S (length evs))
             (delivered (results (run_calls FMx mode (linit c0) o (ts ++ repeat None (S (length evs) + raises o)))))
      = map of_nres evs ++ [RecvAborted].
  Proof.
    apply (timeout_loses_nothing_proof FMx mode (fx_spec size dec) (fx_R size dec)
             (fx_consumer_ok size dec bufsize size_pos bufsize_pos) c0 (fx_R_init size dec bufsize size_pos bufsize_pos)).
  Qed.
End FixedTheorems.

Lemma fx_spec_long' : forall (P : Type) (size : nat) (dec : decoder P) (d : bytes), 0 < size -> size <= length d ->
    fx_spec size dec d = fx_event dec (firstn size d) :: fx_spec size dec (skipn size d).
Proof. intros P size dec d H H0. apply (fx_spec_long size dec 1 H (Nat.lt_0_succ 0) d H0). Qed.

Lemma fx_ok_and_init : forall (P : Type) (size : nat) (dec : decoder P) (bufsize : nat), 0 < size -> 0 < bufsize ->
    consumer_ok (copy_machine (rx_framer size dec) bufsize) (fx_spec size dec) (fx_R size dec)
    /\ fx_R size dec (cinit (rx_framer size dec)) [] 0.
Proof. intros; split; [apply fx_consumer_ok|apply (fx_R_init size dec bufsize)]; assumption. Qed.
