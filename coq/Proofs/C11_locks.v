(* C11 / C04: lock discipline of the blocking clients (IO/ClientLocks.v): for every history of calls, grants,
   give-ups and finishes, a lock is owned only by a call that is inside its body, so at quiescence both locks are
   free; and a receive never waits on the send lock (nor a send on the receive lock). *)
From Coq Require Import ZArith List Bool Lia Arith.
From EN Require Import IO.Retry IO.ClientLocks.
Import ListNotations.

Lemma lookup_id : forall k l c, lookup k l = Some c -> c_id c = k.
Proof.
  induction l as [|d r IH]; intros c H; simpl in H; [discriminate|].
  destruct (Nat.eqb (c_id d) k) eqn:E; [inversion H; subst; apply Nat.eqb_eq; exact E | apply IH; exact H].
Qed.

Lemma lookup_in : forall k l c, lookup k l = Some c -> In c l.
Proof.
  induction l as [|d r IH]; intros c H; simpl in H; [discriminate|].
  destruct (Nat.eqb (c_id d) k); [inversion H; left; reflexivity | right; apply IH; exact H].
Qed.

Lemma lookup_app_other : forall k k' m ph l, k' <> k -> lookup k' (l ++ [mk_call k m ph]) = lookup k' l.
Proof.
  induction l as [|d r IH]; intros Hne; simpl.
  - destruct (Nat.eqb k k') eqn:E; [apply Nat.eqb_eq in E; congruence | reflexivity].
  - destruct (Nat.eqb (c_id d) k'); [reflexivity | apply IH; exact Hne].
Qed.

Lemma lookup_app_fresh : forall k m ph l, lookup k l = None -> lookup k (l ++ [mk_call k m ph]) = Some (mk_call k m ph).
Proof.
  induction l as [|d r IH]; intros H; simpl in *.
  - rewrite Nat.eqb_refl. reflexivity.
  - destruct (Nat.eqb (c_id d) k); [discriminate | apply IH; exact H].
Qed.

Lemma lookup_update_same : forall k ph l c,
  lookup k l = Some c -> lookup k (update k ph l) = Some (mk_call (c_id c) (c_m c) ph).
Proof.
  induction l as [|d r IH]; intros c H; simpl in *; [discriminate|].
  destruct (Nat.eqb (c_id d) k) eqn:E.
  - inversion H; subst. simpl. rewrite E. reflexivity.
  - simpl. rewrite E. apply IH. exact H.
Qed.

Lemma lookup_update_other : forall k k' ph l, k' <> k -> lookup k' (update k ph l) = lookup k' l.
Proof.
  induction l as [|d r IH]; intros Hne; simpl; [reflexivity|].
  destruct (Nat.eqb (c_id d) k) eqn:E; simpl.
  - apply Nat.eqb_eq in E.
    destruct (Nat.eqb (c_id d) k') eqn:E'; [apply Nat.eqb_eq in E'; congruence | reflexivity].
  - destruct (Nat.eqb (c_id d) k'); [reflexivity | apply IH; exact Hne].
Qed.

(* call k is inside its body and its method uses lock l *)
Definition holds (calls : list call) (l : lockid) (k : nat) : Prop :=
  exists c, lookup k calls = Some c /\ c_ph c = PHold /\ lock_of (c_m c) = l.

Definition inv (s : cst) : Prop := forall l k, owner s l = Some k -> holds (cs s) l k.

Lemma lockid_dec : forall a b : lockid, {a = b} + {a <> b}.
Proof. decide equality. Qed.

Lemma owner_set_same : forall s l o calls, owner (set_owner s l o calls) l = o.
Proof. intros s [|] o calls; reflexivity. Qed.

Lemma owner_set_other : forall s l l' o calls, l' <> l -> owner (set_owner s l o calls) l' = owner s l'.
Proof. intros s [|] [|] o calls H; try reflexivity; congruence. Qed.

Lemma cs_set : forall s l o calls, cs (set_owner s l o calls) = calls.
Proof. intros s [|] o calls; reflexivity. Qed.

Lemma holds_app : forall calls l k' k m ph,
  lookup k calls = None -> holds calls l k' -> holds (calls ++ [mk_call k m ph]) l k'.
Proof.
  intros calls l k' k m ph Hf (c & Hl & Hp & Hk).
  assert (k' <> k) by (intro; subst; congruence).
  exists c. rewrite lookup_app_other by assumption. repeat split; assumption.
Qed.

Lemma holds_update_other : forall calls l k' k ph,
  k' <> k -> holds calls l k' -> holds (update k ph calls) l k'.
Proof.
  intros calls l k' k ph Hne (c & Hl & Hp & Hk). exists c.
  rewrite lookup_update_other by assumption. repeat split; assumption.
Qed.

Lemma inv_same_owners_app : forall s k m ph,
  inv s -> lookup k (cs s) = None -> inv (mk_cst (o_send s) (o_recv s) (cs s ++ [mk_call k m ph])).
Proof.
  intros s k m ph Hi Hf l k' Ho. simpl.
  apply holds_app; [assumption|]. apply Hi. destruct l; exact Ho.
Qed.

Lemma inv_same_owners_update : forall s k c ph,
  inv s -> lookup k (cs s) = Some c -> c_ph c <> PHold ->
  inv (mk_cst (o_send s) (o_recv s) (update k ph (cs s))).
Proof.
  intros s k c ph Hi Hl Hnh l k' Ho. simpl.
  assert (Hh : holds (cs s) l k') by (apply Hi; destruct l; exact Ho).
  apply holds_update_other; [|exact Hh].
  intro; subst k'. destruct Hh as (c' & Hl' & Hp & _). rewrite Hl in Hl'. inversion Hl'; subst. contradiction.
Qed.

Lemma step_preserves_inv : forall s lb s', inv s -> step s lb = Some s' -> inv s'.
Proof.
  intros s lb s' Hi Hs. destruct lb as [k m T | k | k | k ok]; simpl in Hs.
  - (* Start *)
    destruct (lookup k (cs s)) eqn:Hf; [discriminate|].
    destruct (timed m && tmo_neg T).
    { inversion Hs; subst. apply inv_same_owners_app; assumption. }
    destruct (is_none (owner s (lock_of m))) eqn:Hfree.
    + unfold acquire in Hs. destruct (parks m).
      * inversion Hs; subst. clear Hs. intros l k' Ho. rewrite cs_set.
        destruct (lockid_dec l (lock_of m)) as [E|E].
        -- subst l. rewrite owner_set_same in Ho. inversion Ho; subst k'.
           exists (mk_call k m PHold). rewrite lookup_app_fresh by assumption. repeat split.
        -- rewrite owner_set_other in Ho by assumption. apply holds_app; [assumption|]. apply Hi. exact Ho.
      * inversion Hs; subst. apply inv_same_owners_app; assumption.
    + destruct (timed m && tmo_le0 T); inversion Hs; subst; apply inv_same_owners_app; assumption.
  - (* Grant *)
    destruct (lookup k (cs s)) as [c|] eqn:Hl; [|discriminate].
    destruct (c_ph c) eqn:Hp; try discriminate.
    destruct (is_none (owner s (lock_of (c_m c)))) eqn:Hfree; [|discriminate].
    unfold acquire in Hs. destruct (parks (c_m c)).
    + inversion Hs; subst. clear Hs. intros l k' Ho. rewrite cs_set.
      destruct (lockid_dec l (lock_of (c_m c))) as [E|E].
      * subst l. rewrite owner_set_same in Ho. inversion Ho; subst k'.
        exists (mk_call (c_id c) (c_m c) PHold). rewrite (lookup_update_same k PHold (cs s) c Hl). repeat split.
      * rewrite owner_set_other in Ho by assumption.
        assert (Hh : holds (cs s) l k') by (apply Hi; exact Ho).
        apply holds_update_other; [|exact Hh].
        intro; subst k'. destruct Hh as (c' & Hl' & Hp' & _). rewrite Hl in Hl'. inversion Hl'; subst. congruence.
    + inversion Hs; subst. apply (inv_same_owners_update s k c); [assumption|assumption|congruence].
  - (* GiveUp *)
    destruct (lookup k (cs s)) as [c|] eqn:Hl; [|discriminate].
    destruct (c_ph c) as [[|]| |] eqn:Hp; try discriminate.
    inversion Hs; subst. apply (inv_same_owners_update s k c); [assumption|assumption|congruence].
  - (* Finish *)
    destruct (lookup k (cs s)) as [c|] eqn:Hl; [|discriminate].
    destruct (c_ph c) eqn:Hp; try discriminate.
    inversion Hs; subst. clear Hs. intros l k' Ho. rewrite cs_set.
    destruct (lockid_dec l (lock_of (c_m c))) as [E|E].
    + subst l. rewrite owner_set_same in Ho. discriminate.
    + rewrite owner_set_other in Ho by assumption.
      assert (Hh : holds (cs s) l k') by (apply Hi; exact Ho).
      apply holds_update_other; [|exact Hh].
      intro; subst k'. destruct Hh as (c' & Hl' & _ & Hk). rewrite Hl in Hl'. inversion Hl'; subst. congruence.
Qed.

Lemma reachable_inv : forall s, reachable s -> inv s.
Proof.
  induction 1 as [|s lb s' Hr IH Hs].
  - intros l k Ho. destruct l; discriminate.
  - eapply step_preserves_inv; eassumption.
Qed.

(* every lock acquired is released when the call ends: at quiescence both locks are free *)
Lemma quiescent_locks_free : forall s,
  reachable s -> (forall c, In c (cs s) -> exists code, c_ph c = PDone code) ->
  o_send s = None /\ o_recv s = None.
Proof.
  intros s Hr Hq. pose proof (reachable_inv s Hr) as Hi.
  split.
  - destruct (o_send s) as [k|] eqn:E; [|reflexivity]. exfalso.
    destruct (Hi LkSend k E) as (c & Hl & Hp & _). destruct (Hq c (lookup_in _ _ _ Hl)) as [code Hd]. congruence.
  - destruct (o_recv s) as [k|] eqn:E; [|reflexivity]. exfalso.
    destruct (Hi LkRecv k E) as (c & Hl & Hp & _). destruct (Hq c (lookup_in _ _ _ Hl)) as [code Hd]. congruence.
Qed.

(* a lock is never owned by a finished or waiting call *)
Lemma owner_is_in_body : forall s l k,
  reachable s -> owner s l = Some k ->
  exists c, lookup k (cs s) = Some c /\ c_ph c = PHold /\ lock_of (c_m c) = l.
Proof. intros s l k Hr Ho. exact (reachable_inv s Hr l k Ho). Qed.

(* a receive never waits on the send lock: with the receive lock free it enters its body at once, whoever owns
   the send lock; symmetrically for a send *)
Lemma recv_ignores_send_lock : forall s k T,
  lookup k (cs s) = None -> o_recv s = None -> tmo_neg T = false ->
  exists s', step s (Start k MRecv T) = Some s'
             /\ lookup k (cs s') = Some (mk_call k MRecv PHold) /\ o_send s' = o_send s.
Proof.
  intros s k T Hf Hfree HT. simpl. rewrite Hf, HT, Hfree. simpl.
  eexists. split; [reflexivity|]. simpl. split; [apply lookup_app_fresh; assumption | reflexivity].
Qed.

Lemma send_ignores_recv_lock : forall s k T,
  lookup k (cs s) = None -> o_send s = None -> tmo_neg T = false ->
  exists s', step s (Start k MSend T) = Some s'
             /\ lookup k (cs s') = Some (mk_call k MSend PHold) /\ o_recv s' = o_recv s.
Proof.
  intros s k T Hf Hfree HT. simpl. rewrite Hf, HT, Hfree. simpl.
  eexists. split; [reflexivity|]. simpl. split; [apply lookup_app_fresh; assumption | reflexivity].
Qed.

(* a waiting call can be granted as soon as ITS lock is free, whatever the other lock does *)
Lemma grant_depends_on_own_lock_only : forall s k c f,
  lookup k (cs s) = Some c -> c_ph c = PWait f -> owner s (lock_of (c_m c)) = None ->
  exists s', step s (Grant k) = Some s'.
Proof.
  intros s k c f Hl Hp Ho. simpl. rewrite Hl, Hp, Ho. simpl. eexists; reflexivity.
Qed.

(* a zero timeout never parks a call on a lock *)
Lemma zero_timeout_never_waits_on_lock : forall s k m s' c,
  timed m = true -> step s (Start k m (Some 0%Z)) = Some s' -> lookup k (cs s') = Some c ->
  forall f, c_ph c <> PWait f.
Proof.
  intros s k m s' c Ht Hs Hl f. simpl in Hs.
  destruct (lookup k (cs s)) eqn:Hf; [discriminate|]. rewrite Ht in Hs. simpl in Hs.
  destruct (is_none (owner s (lock_of m))).
  - unfold acquire in Hs. destruct (parks m); inversion Hs; subst; clear Hs.
    + rewrite cs_set in Hl. rewrite lookup_app_fresh in Hl by assumption. inversion Hl; subst. discriminate.
    + simpl in Hl. rewrite lookup_app_fresh in Hl by assumption. inversion Hl; subst. discriminate.
  - inversion Hs; subst; clear Hs. simpl in Hl. rewrite lookup_app_fresh in Hl by assumption.
    inversion Hl; subst. discriminate.
Qed.
