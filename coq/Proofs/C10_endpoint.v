(* Endpoint corollary of no_loss: the asynchronous receive loop over any consumer satisfying the C03/C15 interface
   [consumer_ok_rel] hands out exactly the frame-by-frame decoding of the delivered stream, whatever is cancelled. *)
From Coq Require Import List Bool Arith Lia.
From EN Require Import Lib.Bytes Frame.Framer Stream.Consumer Stream.Endpoint Stream.EndpointSpec
                       Conc.SockReader Conc.SockReaderSpec Conc.SockEndpoint
                       Proofs.C10_inv Proofs.C10_obs.
Import ListNotations.

Ltac break_inner :=
  repeat match goal with
         | |- context [match ?x with _ => _ end] =>
             lazymatch x with
             | context [match _ with _ => _ end] => fail
             | _ => destruct x eqn:?; simpl in *
             end
         end.

Ltac unfold_sock :=
  unfold step, call, data, eof_received, connection_lost, cancel, wake, turn, resume, finish, park,
         wakeup_read_waiter, schedule_wakeup.

(* ---- more facts about the protocol model *)
Definition cur_op (s : st) : option op :=
  match tpc s with PIdle => None | PWait o => Some o | PYield o => Some o end.

(* the external view and the bytes in the caller's buffer belong to the recv_into in flight *)
Definition Inv2 (s : st) : Prop :=
  (forall cap, ext s = Some cap -> tpc s = PWait (OInto cap)) /\
  (extdata s <> [] -> exists k, tpc s = PWait (OInto k) /\ length (extdata s) <= k).

Lemma inv2_init : Inv2 init.
Proof. split; simpl; intros; [discriminate | congruence]. Qed.

Lemma step_inv2 : forall s l, Inv true s -> Inv2 s -> Inv2 (fst (step true s l)).
Proof.
  intros s l HI (H1 & H2).
  pose proof (inv_idle _ _ HI) as Hidle. pose proof (inv_yield _ _ HI) as Hyield.
  pose proof (inv_extdata _ _ HI) as Hed. clear HI.
  destruct s as [ib ex ed w e lo le p mc c n dl r]. simpl in *.
  assert (Hex : forall cap, ex = Some cap -> p = PWait (OInto cap)) by exact H1.
  destruct p as [|o|o];
    [ destruct (Hidle eq_refl) as (? & ? & ? & ?); subst
    | | destruct (Hyield o eq_refl) as (? & ? & ?); subst ];
    (destruct l; unfold Inv2; unfold_sock; simpl; break_inner; simpl; split; intros;
     try discriminate; try congruence; eauto;
     try match goal with Hc : Some _ = Some _ |- _ => inversion Hc; subst; clear Hc end;
     try match goal with Hne : ?x <> [] |- _ => destruct (Hed Hne) as (? & ?); congruence end;
     try match goal with Hne : ?x <> [] |- _ => destruct (H2 Hne) as (? & ? & ?); congruence end;
     try (specialize (Hex _ eq_refl); inversion Hex; subst; eexists; split; [reflexivity | rewrite firstn_length; lia]);
     try (exfalso; congruence)).
Qed.

(* what a wake-up can do to the reader task *)
Lemma wake_res : forall s s' r, wake true s = (s', ORes r) -> tpc s <> PIdle /\ tpc s' = PIdle.
Proof.
  intros s s' r H. destruct s as [ib ex ed w e lo le p mc c n dl rr].
  revert H. unfold_sock; simpl. break_inner; simpl; intro H; inversion H; subst; simpl; split; congruence.
Qed.

Lemma wake_nores : forall s s' o, wake true s = (s', o) -> (forall r, o <> ORes r) ->
  tpc s' = tpc s /\ returned s' = returned s.
Proof.
  intros s s' o H Hn. destruct s as [ib ex ed w e lo le p mc c n dl rr].
  revert H. unfold_sock; simpl. break_inner; simpl; intro H; inversion H; subst; simpl; split; try reflexivity;
    exfalso; eapply Hn; reflexivity.
Qed.

Lemma wake_bytes_size : forall s s' b, Inv true s -> Inv2 s -> wake true s = (s', ORes (RBytes b)) ->
  exists o, cur_op s = Some o /\ length b <= op_size o.
Proof.
  intros s s' b HI (H1 & H2) H.
  pose proof (inv_yield _ _ HI) as Hyield. pose proof (inv_extdata _ _ HI) as Hed. clear HI.
  destruct s as [ib ex ed w e lo le p mc c n dl rr]. unfold cur_op. simpl in *.
  revert H. unfold_sock; simpl. break_inner; simpl; intro H; inversion H; subst; simpl;
    try (eexists; split; [reflexivity | rewrite firstn_length; lia]).
  (* the byte count of a recv_into: the bytes in the caller's buffer *)
  destruct b as [|x b]; [eexists; split; [reflexivity | simpl; lia]|].
  destruct H2 as (k & Hk & Hl); [discriminate|]. inversion Hk; subst. eexists; split; [reflexivity | exact Hl].
Qed.

Lemma env_step_tpc : forall s l,
  match l with LRecv _ | LRecvInto _ | LWake => True
  | _ => tpc (fst (step true s l)) = tpc s /\ returned (fst (step true s l)) = returned s end.
Proof.
  intros s l. destruct s as [ib ex ed w e lo le p mc c n dl rr].
  destruct l; try exact I; unfold_sock; simpl; break_inner; simpl; split; reflexivity.
Qed.

Lemma call_cases : forall s o s' ob, call s o = (s', ob) -> tpc s = PIdle ->
  match ob with
  | ONone => (tpc s' = PWait o \/ tpc s' = PYield o) /\ returned s' = returned s
  | _ => s' = s
  end.
Proof.
  intros s o s' ob H Hp. destruct s as [ib ex ed w e lo le p mc c n dl rr]. simpl in Hp. subst p.
  revert H. unfold call; simpl. break_inner; simpl; intro H; inversion H; subst; simpl; auto.
Qed.

Lemma call_is_step : forall s o,
  call s o = step true s (match o with ORecv k => LRecv k | OInto k => LRecvInto k end).
Proof. intros s [k|k]; reflexivity. Qed.

Lemma firstn_snoc_nth : forall {X} (l : list X) k r, nth_error l k = Some r -> firstn k l ++ [r] = firstn (S k) l.
Proof.
  intros X l. induction l as [|x l IH]; intros k r H; destruct k; simpl in *; try discriminate.
  - inversion H. reflexivity.
  - f_equal. apply IH. exact H.
Qed.

Section Compose.
  Context {P C : Type}.
  Variable S : smachine P C.
  Variable into : bool.
  Variable latching : bool.
  Variable spec : bytes -> list (nres P).
  Variable G : bytes -> Prop.
  Variable R : C -> bytes -> nat -> Prop.
  Variable D : C -> bytes -> Prop.
  Hypothesis OK : consumer_ok_rel (to_machine S) spec G R D.
  (* asking the consumer for its write buffer keeps a drained consumer drained (the view is re-exported later) *)
  Hypothesis D_sroom : forall c d c1 room, D c d -> sroom S c = Some (c1, room) -> D c1 d.

  Definition mkop (room : nat) : op := if into then OInto room else ORecv room.

  Lemma mkop_size : forall room, op_size (mkop room) = room.
  Proof. intro room. unfold mkop. destruct into; reflexivity. Qed.

  Record EInv (es : @estate P C) : Prop := {
    ei_inv : Inv true (sk es);
    ei_inv2 : Inv2 (sk es);
    ei_events : events es = firstn (length (events es)) (spec (returned (sk es)));
    ei_idle : einrecv es = false ->
              tpc (sk es) = PIdle /\ R (ec es) (returned (sk es)) (length (events es));
    ei_recv : einrecv es = true -> exists cpre room,
              cur_op (sk es) = Some (mkop room) /\ D cpre (returned (sk es)) /\ sroom S cpre = Some (ec es, room) /\
              length (events es) = length (spec (returned (sk es)))
  }.

  Lemma events_snoc_event : forall (es : @estate P C) s c r,
    events (finish_call es s c (EEvent r)) = events es ++ [r].
  Proof. intros. unfold events, finish_call. simpl. rewrite flat_map_app. reflexivity. Qed.

  Lemma events_snoc_other : forall (eres0 : list (eresult P)) s (c : C) b l x,
    (forall e, x <> EEvent e) ->
    events (emk s c b l (eres0 ++ [x])) = events (emk s c b l eres0).
  Proof.
    intros. unfold events. simpl. rewrite flat_map_app. simpl.
    destruct x; try (rewrite app_nil_r; reflexivity). exfalso. eapply H. reflexivity.
  Qed.

  (* leaving recv_packet without an event, consumer [c] drained *)
  Lemma idle_exit_inv : forall (es : @estate P C) s c latch x,
    (forall e, x <> EEvent e) ->
    Inv true s -> Inv2 s -> tpc s = PIdle -> D c (returned s) ->
    events es = firstn (length (events es)) (spec (returned s)) ->
    length (events es) = length (spec (returned s)) ->
    EInv (emk s c false latch (eres es ++ [x])).
  Proof.
    intros es s c latch x Hx HI HI2 Hp HD Hev Hk.
    assert (Hevs : events (emk s c false latch (eres es ++ [x])) = events es).
    { rewrite events_snoc_other by exact Hx. reflexivity. }
    constructor; simpl; try assumption.
    - rewrite Hevs. exact Hev.
    - intros _. split; [exact Hp|]. rewrite Hevs, Hk. apply (okr_D_R _ _ _ _ _ OK). exact HD.
    - discriminate.
  Qed.

  Lemma ehead_inv : forall (es : @estate P C) c,
    Inv true (sk es) -> Inv2 (sk es) -> tpc (sk es) = PIdle -> D c (returned (sk es)) ->
    events es = firstn (length (events es)) (spec (returned (sk es))) ->
    length (events es) = length (spec (returned (sk es))) ->
    EInv (ehead S into es (sk es) c).
  Proof.
    intros es c HI HI2 Hp HD Hev Hk. unfold ehead.
    destruct (sroom S c) as [[c1 room]|] eqn:Hroom.
    - assert (HD1 : D c1 (returned (sk es))) by (eapply D_sroom; eassumption).
      fold (mkop room).
      destruct (call (sk es) (mkop room)) as [s' ob] eqn:Hcall.
      pose proof (call_cases _ _ _ _ Hcall Hp) as Hc.
      destruct ob as [| |r|]; try (subst s'; unfold finish_call; apply idle_exit_inv; auto; congruence).
      + (* suspended in the transport call *)
        destruct Hc as (Htp & Hret).
        assert (HI' : Inv true s').
        { replace s' with (fst (call (sk es) (mkop room))) by (rewrite Hcall; reflexivity). apply call_inv. exact HI. }
        assert (HI2' : Inv2 s').
        { replace s' with (fst (step true (sk es) (match mkop room with ORecv k => LRecv k | OInto k => LRecvInto k end))).
          - apply step_inv2; assumption.
          - rewrite <- call_is_step, Hcall. reflexivity. }
        constructor; simpl; try assumption.
        * rewrite Hret. exact Hev.
        * discriminate.
        * intros _. exists c, room. rewrite Hret. repeat split; try assumption.
          unfold cur_op. destruct Htp as [Htp|Htp]; rewrite Htp; reflexivity.
      + subst s'. destruct r as [b| |e|]; try (unfold finish_call; apply idle_exit_inv; auto; congruence).
        destruct b; [|unfold finish_call]; apply idle_exit_inv; auto; congruence.
    - unfold finish_call. apply idle_exit_inv; auto; congruence.
  Qed.

  Lemma erecv_packet_inv : forall es, EInv es -> G (returned (sk es)) -> EInv (erecv_packet S into latching es).
  Proof.
    intros es H HG. unfold erecv_packet. destruct (einrecv es) eqn:Hin; [exact H|].
    destruct (ei_idle _ H Hin) as (Hp & HR).
    destruct (sdrain S (ec es)) as [c' r] eqn:Hdr.
    pose proof (okr_drain _ _ _ _ _ OK (ec es) (returned (sk es)) (length (events es)) c' r HG HR Hdr) as Hd.
    assert (Hevent : forall r0, r = r0 -> r0 <> RStop ->
              nth_error (spec (returned (sk es))) (length (events es)) = Some r0 /\
              R c' (returned (sk es)) (Datatypes.S (length (events es))) ->
              EInv (finish_call es (sk es) c' (EEvent r0))).
    { intros r0 _ _ (Hn & HR'). constructor; simpl.
      - exact (ei_inv _ H).
      - exact (ei_inv2 _ H).
      - rewrite events_snoc_event. rewrite app_length. simpl. rewrite Nat.add_1_r.
        rewrite <- (firstn_snoc_nth _ _ _ Hn). f_equal. exact (ei_events _ H).
      - intros _. split; [exact Hp|]. rewrite events_snoc_event, app_length. simpl. rewrite Nat.add_1_r. exact HR'.
      - discriminate. }
    destruct r.
    - apply (Hevent _ eq_refl); [congruence | exact Hd].
    - apply (Hevent _ eq_refl); [congruence | exact Hd].
    - destruct Hd as (Hk & HD).
      destruct (latching && elatch es).
      + unfold finish_call. apply idle_exit_inv; try assumption; try congruence.
        * exact (ei_inv _ H). * exact (ei_inv2 _ H). * exact (ei_events _ H).
      + apply ehead_inv; try assumption.
        * exact (ei_inv _ H). * exact (ei_inv2 _ H). * exact (ei_events _ H).
    - apply (Hevent _ eq_refl); [congruence | exact Hd].
  Qed.

  Lemma spec_mono_firstn : forall d x, firstn (length (spec d)) (spec (d ++ x)) = spec d.
  Proof.
    intros d x. destruct (okr_mono _ _ _ _ _ OK d x) as (tl & Htl). rewrite Htl.
    rewrite firstn_app, Nat.sub_diag, firstn_all. simpl. apply app_nil_r.
  Qed.

  Lemma ewake_inv : forall es, EInv es -> G (returned (sk (ewake S into es))) -> EInv (ewake S into es).
  Proof.
    intros es H. unfold ewake.
    destruct (wake true (sk es)) as [s' ob] eqn:Hw.
    assert (HI' : Inv true s').
    { replace s' with (fst (wake true (sk es))) by (rewrite Hw; reflexivity). apply wake_inv. exact (ei_inv _ H). }
    assert (HI2' : Inv2 s').
    { replace s' with (fst (step true (sk es) LWake)) by (simpl; rewrite Hw; reflexivity).
      apply step_inv2; [exact (ei_inv _ H) | exact (ei_inv2 _ H)]. }
    assert (Hret : returned s' = returned (sk es) ++ obs_bytes ob).
    { pose proof (step_returned true (sk es) LWake) as Hr. simpl in Hr. rewrite Hw in Hr. exact Hr. }
    assert (Hnores : (forall r, ob <> ORes r) ->
              EInv (emk s' (ec es) (einrecv es) (elatch es) (eres es))).
    { intro Hn. destruct (wake_nores _ _ _ Hw Hn) as (Htp & Hr).
      constructor; simpl; try assumption.
      - rewrite Hr. exact (ei_events _ H).
      - intro Hin. rewrite Htp, Hr. exact (ei_idle _ H Hin).
      - intro Hin. destruct (ei_recv _ H Hin) as (cpre & room & A & B & C0 & E).
        exists cpre, room. unfold cur_op in *. rewrite Htp, Hr. auto. }
    destruct ob as [| |r|]; try (intros _; apply Hnores; congruence).
    destruct (wake_res _ _ _ Hw) as (Hnidle & Hidle').
    destruct (einrecv es) eqn:Hin.
    2:{ exfalso. apply Hnidle. exact (proj1 (ei_idle _ H Hin)). }
    destruct (ei_recv _ H Hin) as (cpre & room & Hop & HD & Hroom & Hk).
    assert (HDec : D (ec es) (returned (sk es))) by (eapply D_sroom; eassumption).
    assert (Hother : forall x latch, (forall e, x <> EEvent e) -> obs_bytes (ORes r) = [] ->
              EInv (emk s' (ec es) false latch (eres es ++ [x]))).
    { intros x latch Hx Hb. rewrite Hb, app_nil_r in Hret.
      apply idle_exit_inv; try assumption; rewrite Hret; try assumption. exact (ei_events _ H). }
    destruct r as [b| |e|]; try (intros _; unfold finish_call; apply Hother; [congruence | reflexivity]).
    destruct b as [|x0 b0]; [intros _; apply Hother; [congruence | reflexivity]|].
    remember (x0 :: b0) as b eqn:Eb. assert (Hbne : b <> []) by (subst b; discriminate). simpl in Hret.
    (* bytes came back: feed them *)
    destruct (wake_bytes_size _ _ _ (ei_inv _ H) (ei_inv2 _ H) Hw) as (o & Ho & Hlen).
    rewrite Hop in Ho. inversion Ho; subst o. rewrite mkop_size in Hlen.
    destruct (sfeed S (ec es) b) as [c3 r3] eqn:Hfeed.
    assert (Htake : forall HGb : G (returned (sk es) ++ b),
              match r3 with
              | RStop => length (spec (returned (sk es) ++ b)) = length (spec (returned (sk es))) /\
                         D c3 (returned (sk es) ++ b)
              | _ => nth_error (spec (returned (sk es) ++ b)) (length (spec (returned (sk es)))) = Some r3 /\
                     R c3 (returned (sk es) ++ b) (Datatypes.S (length (spec (returned (sk es)))))
              end).
    { intro HGb.
      destruct (okr_take _ _ _ _ _ OK cpre (returned (sk es)) b HD) as (c' & r' & n & room' & Hm & Hn & Hres);
        [exact Hbne | exact HGb |].
      simpl in Hm. rewrite Hroom in Hm. rewrite (firstn_all2 b) in Hm by exact Hlen. rewrite Hfeed in Hm.
      inversion Hm; subst c' r' n room'. rewrite firstn_all in Hres. exact Hres. }
    assert (Hev0 : events es = spec (returned (sk es))).
    { rewrite (ei_events _ H). rewrite Hk. apply firstn_all. }
    destruct r3; intro HGb; simpl in HGb.
    - (* an event comes out *)
      rewrite Hret in HGb. destruct (Htake HGb) as (Hn & HR').
      constructor; simpl; try assumption.
      + rewrite events_snoc_event, app_length. simpl. rewrite Nat.add_1_r, Hret, Hk.
        rewrite <- (firstn_snoc_nth _ _ _ Hn). f_equal. rewrite spec_mono_firstn. exact Hev0.
      + intros _. split; [exact Hidle'|]. rewrite events_snoc_event, app_length. simpl.
        rewrite Nat.add_1_r, Hret, Hk. exact HR'.
      + discriminate.
    - rewrite Hret in HGb. destruct (Htake HGb) as (Hn & HR').
      constructor; simpl; try assumption.
      + rewrite events_snoc_event, app_length. simpl. rewrite Nat.add_1_r, Hret, Hk.
        rewrite <- (firstn_snoc_nth _ _ _ Hn). f_equal. rewrite spec_mono_firstn. exact Hev0.
      + intros _. split; [exact Hidle'|]. rewrite events_snoc_event, app_length. simpl.
        rewrite Nat.add_1_r, Hret, Hk. exact HR'.
      + discriminate.
    - (* StopIteration: back to the top of the loop *)
      assert (HGb' : G (returned (sk es) ++ b)).
      { revert HGb. unfold ehead. simpl.
        destruct (sroom S c3) as [[c1 room1]|]; [|simpl; rewrite Hret; auto].
        destruct (call s' (if into then OInto room1 else ORecv room1)) as [s2 ob2] eqn:Hc2.
        pose proof (call_cases _ _ _ _ Hc2 Hidle') as Hcc.
        destruct ob2 as [| |r2|]; simpl; try (subst s2; rewrite Hret; auto; fail).
        - destruct Hcc as (_ & Hr2). rewrite Hr2, Hret. auto.
        - subst s2. destruct r2 as [b2| | |]; simpl; try (rewrite Hret; auto; fail).
          destruct b2; simpl; rewrite Hret; auto. }
      destruct (Htake HGb') as (Hlen2 & HD3).
      change s' with (sk (emk s' c3 false (elatch es) (eres es))).
      apply ehead_inv; simpl; try assumption.
      + rewrite Hret. exact HD3.
      + change (events (emk s' c3 false (elatch es) (eres es))) with (events es).
        rewrite Hret, Hk. rewrite spec_mono_firstn. exact Hev0.
      + change (events (emk s' c3 false (elatch es) (eres es))) with (events es). rewrite Hret, Hlen2. exact Hk.
    - rewrite Hret in HGb. destruct (Htake HGb) as (Hn & HR').
      constructor; simpl; try assumption.
      + rewrite events_snoc_event, app_length. simpl. rewrite Nat.add_1_r, Hret, Hk.
        rewrite <- (firstn_snoc_nth _ _ _ Hn). f_equal. rewrite spec_mono_firstn. exact Hev0.
      + intros _. split; [exact Hidle'|]. rewrite events_snoc_event, app_length. simpl.
        rewrite Nat.add_1_r, Hret, Hk. exact HR'.
      + discriminate.
  Qed.

  Lemma einv_sock_change : forall es s', EInv es -> Inv true s' -> Inv2 s' ->
    tpc s' = tpc (sk es) -> returned s' = returned (sk es) ->
    EInv (emk s' (ec es) (einrecv es) (elatch es) (eres es)).
  Proof.
    intros es s' H HI' HI2' Htp Hr.
    constructor; simpl; try assumption.
    - rewrite Hr. exact (ei_events _ H).
    - intro Hin. rewrite Htp, Hr. exact (ei_idle _ H Hin).
    - intro Hin. destruct (ei_recv _ H Hin) as (cpre & room & A & B & C0 & E).
      exists cpre, room. unfold cur_op in *. rewrite Htp, Hr. auto.
  Qed.

  Lemma eenv_inv : forall es l, EInv es ->
    match l with LRecv _ | LRecvInto _ | LWake => True
    | _ => EInv (emk (fst (step true (sk es) l)) (ec es) (einrecv es) (elatch es) (eres es)) end.
  Proof.
    intros es l H. pose proof (env_step_tpc (sk es) l) as Ht.
    pose proof (step_inv true (sk es) l (ei_inv _ H)) as HI'.
    pose proof (step_inv2 (sk es) l (ei_inv _ H) (ei_inv2 _ H)) as HI2'.
    destruct l; try exact I; destruct Ht as (Htp & Hr);
      (apply einv_sock_change; [exact H | apply HI'; discriminate | exact HI2' | exact Htp | exact Hr]).
  Qed.

  Lemma estep_inv : forall es l, EInv es -> G (returned (sk (estep S into latching es l))) -> EInv (estep S into latching es l).
  Proof.
    intros es l H HG. destruct l as [|l].
    - simpl in *. apply erecv_packet_inv; [exact H|].
      (* recv_packet up to its first suspension returns nothing from the transport *)
      revert HG. unfold erecv_packet. destruct (einrecv es) eqn:Hin; [auto|].
      destruct (ei_idle _ H Hin) as (Hp & _).
      destruct (sdrain S (ec es)) as [c' r]. 
      assert (Hhead : G (returned (sk (ehead S into es (sk es) c'))) -> G (returned (sk es))).
      { unfold ehead. destruct (sroom S c') as [[c1 room]|]; [|simpl; auto].
        destruct (call (sk es) (if into then OInto room else ORecv room)) as [s2 ob2] eqn:Hc2.
        pose proof (call_cases _ _ _ _ Hc2 Hp) as Hcc.
        destruct ob2 as [| |r2|]; simpl; try (subst s2; auto; fail).
        - destruct Hcc as (_ & Hr2). rewrite Hr2. auto.
        - subst s2. destruct r2 as [b2| | |]; simpl; auto. destruct b2; simpl; auto. }
      destruct r; simpl; auto. destruct (latching && elatch es); simpl; auto.
    - destruct l as [k|k|b| |exc| | |];
        [ exact H | exact H | exact (eenv_inv es (LData b) H) | exact (eenv_inv es LEof H)
        | exact (eenv_inv es (LLost exc) H) | exact (eenv_inv es LCancel H)
        | apply ewake_inv; assumption | exact (eenv_inv es LTurn H) ].
  Qed.

  (* delivered only grows *)
  Lemma estep_delivered : forall es l, exists x, delivered (sk (estep S into latching es l)) = delivered (sk es) ++ x.
  Proof.
    intros es l.
    assert (Hstep : forall l0, exists x, delivered (fst (step true (sk es) l0)) = delivered (sk es) ++ x).
    { intro l0. eexists. apply step_delivered. }
    assert (Hcall : forall s o, exists x, delivered (fst (call s o)) = delivered s ++ x).
    { intros s o. rewrite call_is_step. eexists. apply step_delivered. }
    assert (Hhead : forall (es0 : @estate P C) s c, exists x, delivered (sk (ehead S into es0 s c)) = delivered s ++ x).
    { intros es0 s c. unfold ehead. destruct (sroom S c) as [[c1 room]|]; [|exists []; simpl; rewrite app_nil_r; reflexivity].
      destruct (Hcall s (if into then OInto room else ORecv room)) as (x & Hx).
      destruct (call s (if into then OInto room else ORecv room)) as [s2 ob2]. simpl in Hx.
      exists x. destruct ob2 as [| |r2|]; simpl; auto. destruct r2 as [b2| | |]; simpl; auto. destruct b2; simpl; auto. }
    destruct l as [|l].
    - simpl. unfold erecv_packet. destruct (einrecv es); [exists []; rewrite app_nil_r; reflexivity|].
      destruct (sdrain S (ec es)) as [c' r].
      destruct r; simpl; try (exists []; rewrite app_nil_r; reflexivity).
      destruct (latching && elatch es); simpl; [exists []; rewrite app_nil_r; reflexivity | apply Hhead].
    - destruct l as [k|k|b| |exc| | |];
        [ exists []; rewrite app_nil_r; reflexivity | exists []; rewrite app_nil_r; reflexivity
        | exact (Hstep (LData b)) | exact (Hstep LEof) | exact (Hstep (LLost exc)) | exact (Hstep LCancel)
        | | exact (Hstep LTurn) ].
      simpl. unfold ewake. destruct (Hstep LWake) as (x & Hx). simpl in Hx.
      destruct (wake true (sk es)) as [s' ob]. simpl in Hx.
      destruct ob as [| |r|]; simpl; try (exists x; exact Hx).
      destruct (einrecv es); simpl; [|exists x; exact Hx].
      destruct r as [b| |e|]; simpl; try (exists x; exact Hx).
      destruct b; simpl; [exists x; exact Hx|].
      destruct (sfeed S (ec es) (b :: b0)) as [c2 r2].
      destruct r2; simpl; try (exists x; exact Hx).
      destruct (Hhead (emk s' c2 false (elatch es) (eres es)) s' c2) as (y & Hy).
      exists (x ++ y). rewrite Hy, Hx, app_assoc. reflexivity.
  Qed.

  Lemma erun_delivered : forall ls es, exists x, delivered (sk (erun S into latching es ls)) = delivered (sk es) ++ x.
  Proof.
    induction ls as [|l ls IH]; intro es; simpl; [exists []; rewrite app_nil_r; reflexivity|].
    destruct (IH (estep S into latching es l)) as (y & Hy). destruct (estep_delivered es l) as (x & Hx).
    exists (x ++ y). rewrite Hy, Hx, app_assoc. reflexivity.
  Qed.

  (* G of everything delivered gives G of what was returned *)
  Lemma G_returned : forall s, Inv true s -> G (delivered s) -> G (returned s).
  Proof.
    intros s HI HG. destruct (inv_no_loss _ _ HI) as (tail & Hn & _).
    rewrite <- Hn in HG. exact (okr_prefix _ _ _ _ _ OK _ _ HG).
  Qed.

  Lemma erun_inv : forall ls es, EInv es -> G (delivered (sk (erun S into latching es ls))) -> EInv (erun S into latching es ls).
  Proof.
    induction ls as [|l ls IH]; intros es H HG; [exact H|]. simpl in *.
    apply IH; [|exact HG].
    destruct (erun_delivered ls (estep S into latching es l)) as (x & Hx). rewrite Hx in HG.
    pose proof (okr_prefix _ _ _ _ _ OK _ _ HG) as HG1.
    (* Inv of the protocol part does not need G *)
    assert (HI1 : Inv true (sk (estep S into latching es l))).
    { clear - H OK D_sroom. destruct l as [|l].
      - simpl. unfold erecv_packet. destruct (einrecv es); [exact (ei_inv _ H)|].
        destruct (sdrain S (ec es)) as [c' r].
        assert (Hh : forall (es0 : @estate P C) s c, Inv true s -> Inv true (sk (ehead S into es0 s c))).
        { intros es0 s c Hs. unfold ehead. destruct (sroom S c) as [[c1 room]|]; [|exact Hs].
          pose proof (call_inv true s (if into then OInto room else ORecv room) Hs) as Hc.
          destruct (call s (if into then OInto room else ORecv room)) as [s2 ob2]. simpl in Hc.
          destruct ob2 as [| |r2|]; simpl; auto. destruct r2 as [b2| | |]; simpl; auto. destruct b2; simpl; auto. }
        destruct r; simpl; try exact (ei_inv _ H).
        destruct (latching && elatch es); simpl; [exact (ei_inv _ H) | apply Hh; exact (ei_inv _ H)].
      - pose proof (fun l0 => step_inv true (sk es) l0 (ei_inv _ H) (fun Hf => False_ind _ (Bool.diff_true_false Hf))) as Hst.
        destruct l as [k|k|b| |exc| | |];
          [ exact (ei_inv _ H) | exact (ei_inv _ H) | exact (Hst (LData b)) | exact (Hst LEof)
          | exact (Hst (LLost exc)) | exact (Hst LCancel) | | exact (Hst LTurn) ].
        simpl. unfold ewake. pose proof (wake_inv true (sk es) (ei_inv _ H)) as Hw.
        destruct (wake true (sk es)) as [s' ob]. simpl in Hw.
        destruct ob as [| |r|]; simpl; auto. destruct (einrecv es); simpl; auto.
        destruct r as [b| |e|]; simpl; auto. destruct b; simpl; auto.
        destruct (sfeed S (ec es) (b :: b0)) as [c2 r2]. destruct r2; simpl; auto.
        unfold ehead. destruct (sroom S c2) as [[c1 room]|]; [|exact Hw].
        pose proof (call_inv true s' (if into then OInto room else ORecv room) Hw) as Hc.
        destruct (call s' (if into then OInto room else ORecv room)) as [s2 ob2]. simpl in Hc.
        destruct ob2 as [| |r2|]; simpl; auto. destruct r2 as [b2| | |]; simpl; auto. destruct b2; simpl; auto. }
    apply estep_inv; [exact H|]. apply G_returned; assumption.
  Qed.

  Lemma einv_init : forall c0, R c0 [] 0 -> EInv (einit c0).
  Proof.
    intros c0 HR. constructor; simpl.
    - apply inv_init.
    - apply inv2_init.
    - reflexivity.
    - intros _. split; [reflexivity | exact HR].
    - discriminate.
  Qed.

  (* the endpoint corollary *)
  Lemma recv_packet_no_loss_proof : forall c0 ls,
    R c0 [] 0 ->
    let es := erun S into latching (einit c0) ls in
    G (delivered (sk es)) ->
    (exists rest, spec (delivered (sk es)) = events es ++ rest) /\
    (einrecv es = false -> R (ec es) (returned (sk es)) (length (events es))) /\
    (exists tail, returned (sk es) ++ parked (sk es) ++ tail = delivered (sk es) /\
                  (tail <> [] -> lost_exc (sk es) <> None)).
  Proof.
    intros c0 ls HR es HG.
    pose proof (erun_inv ls (einit c0) (einv_init c0 HR) HG) as H. fold es in H.
    destruct (inv_no_loss _ _ (ei_inv _ H)) as (tail & Hn & Ht).
    pose proof (ei_events _ H) as Hev.
    assert (Hle : length (events es) <= length (spec (returned (sk es)))).
    { rewrite Hev at 1. rewrite firstn_length. lia. }
    assert (Hpre : forall x, firstn (length (events es)) (spec (returned (sk es) ++ x)) = events es).
    { intro x. destruct (okr_mono _ _ _ _ _ OK (returned (sk es)) x) as (tl & Htl). rewrite Htl.
      rewrite firstn_app. replace (length (events es) - length (spec (returned (sk es)))) with 0 by lia.
      simpl. rewrite app_nil_r. symmetry. exact Hev. }
    split; [|split].
    - exists (skipn (length (events es)) (spec (delivered (sk es)))).
      rewrite <- (firstn_skipn (length (events es)) (spec (delivered (sk es)))) at 1. f_equal.
      rewrite <- Hn. apply Hpre.
    - intro Hin. exact (proj2 (ei_idle _ H Hin)).
    - exists tail. split; assumption.
  Qed.

  (* a complete frame the transport has already returned comes out of the very next recv_packet()/next() call, however
     many earlier calls were cancelled: nothing stays stuck in the consumer *)
  Lemma pending_event_is_delivered_proof : forall c0 ls,
    R c0 [] 0 ->
    let es := erun S into latching (einit c0) ls in
    G (delivered (sk es)) ->
    einrecv es = false ->
    forall r, nth_error (spec (returned (sk es))) (length (events es)) = Some r ->
      events (estep S into latching es ERecvPacket) = events es ++ [r].
  Proof.
    intros c0 ls HR es HG Hin r Hnth.
    pose proof (erun_inv ls (einit c0) (einv_init c0 HR) HG) as H. fold es in H.
    destruct (ei_idle _ H Hin) as (Hp & HRel).
    assert (HGr : G (returned (sk es))) by (apply G_returned; [exact (ei_inv _ H) | exact HG]).
    simpl. unfold erecv_packet. rewrite Hin.
    destruct (sdrain S (ec es)) as [c' r0] eqn:Hdr.
    pose proof (okr_drain _ _ _ _ _ OK (ec es) (returned (sk es)) (length (events es)) c' r0 HGr HRel Hdr) as Hd.
    destruct r0.
    - destruct Hd as (Hn & _). rewrite events_snoc_event. congruence.
    - destruct Hd as (Hn & _). rewrite events_snoc_event. congruence.
    - destruct Hd as (Hk & _). exfalso. rewrite Hk in Hnth.
      assert (nth_error (spec (returned (sk es))) (length (spec (returned (sk es)))) = None) by (apply nth_error_None; lia).
      congruence.
    - destruct Hd as (Hn & _). rewrite events_snoc_event. congruence.
  Qed.
End Compose.
