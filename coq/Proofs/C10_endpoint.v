(* Endpoint corollary of no_loss: the asynchronous receive loop over any consumer satisfying the C03/C15 interface
   [consumer_ok_rel] hands out exactly the frame-by-frame decoding of the delivered stream, whatever is cancelled. *)
From Coq Require Import List Bool Arith Lia.
From EN Require Import Lib.Bytes Frame.Framer Stream.Consumer Stream.Endpoint Stream.EndpointSpec
                       Conc.SockReader Conc.SockReaderSpec Conc.SockEndpoint
                       Proofs.C10_inv Proofs.C10_obs.
Import ListNotations.

Ltac break_inner :=
  repeat match goal with
         | |- context [match ?x with _ => _ end] =>
             lazymatch x with
             | context [match _ with _ => _ end] => fail
             | _ => destruct x eqn:?; simpl in *
             end
         end.

Ltac unfold_sock :=
  unfold step, call, data, eof_received, connection_lost, cancel, wake, turn, resume, finish, park,
         wakeup_read_waiter, schedule_wakeup.

(* ---- more facts about the protocol model *)
Definition cur_op (s : st) : option op :=
  match tpc s with PIdle => None | PWait o => Some o | PYield o => Some o end.

(* the external view and the bytes in the caller's buffer belong to the recv_into in flight *)
Definition Inv2 (s : st) : Prop :=
  (forall cap, ext s = Some cap -> tpc s = PWait (OInto cap)) /\
  (extdata s <> [] -> exists k, tpc s = PWait (OInto k) /\ length (extdata s) <= k).

Lemma inv2_init : Inv2 init.
Proof. split; simpl; intros; [discriminate | congruence]. Qed.

Lemma step_inv2 : forall s l, Inv true s -> Inv2 s -> Inv2 (fst (step true s l)).
Proof.
  intros s l HI (H1 & H2).
  pose proof (inv_idle _ _ HI) as Hidle. pose proof (inv_yield _ _ HI) as Hyield.
  pose proof (inv_extdata _ _ HI) as Hed. clear HI.
  destruct s as [ib ex ed w e lo le p mc c n dl r]. simpl in *.
  assert (Hex : forall cap, ex = Some cap -> p = PWait (OInto cap)) by exact H1.
  destruct p as [|o|o];
    [ destruct (Hidle eq_refl) as (? & ? & ? & ?); subst
    | | destruct (Hyield o eq_refl) as (? & ? & ?); subst ];
    (destruct l; unfold Inv2; unfold_sock; simpl; break_inner; simpl; split; intros;
     try discriminate; try congruence; eauto;
     try match goal with Hc : Some _ = Some _ |- _ => inversion Hc; subst; clear Hc end;
     try match goal with Hne : ?x <> [] |- _ => destruct (Hed Hne) as (? & ?); congruence end;
     try match goal with Hne : ?x <> [] |- _ => destruct (H2 Hne) as (? & ? & ?); congruence end;
     try (specialize (Hex _ eq_refl); inversion Hex; subst; eexists; split; [reflexivity | rewrite firstn_length; lia]);
     try (exfalso; congruence)).
Qed.
