(* C08 — pump_progress for the composed system of Conc/TlsDuplex.v.
   Discipline on the application (the only assumption about traces): on each side wrap() comes first, recv()/send_all()
   are called only after wrap() has returned, and at most one recv() is pending at a time (any number of send_all()).
   Under it, in every reachable state in which no transition other than a new application call is enabled:
     every pending call is parked inside transport.recv_into with nothing in flight towards it, both outgoing BIOs and
     both write backlogs are empty. *)
From Coq Require Import ZArith List Bool Lia ZifyBool.
From EN Require Import Lib.Bytes Conc.TlsBase Conc.TlsPump Conc.IdealTls Conc.TlsDuplex
  Proofs.Tls_tactics Proofs.C08_proofs Proofs.Ideal_proofs Proofs.C08_locks Proofs.C08_duplex.

(* ------------------------------------------------------------------ lists *)

Lemma nth_error_set_nth_eq : forall {X} (l : list X) t x y, nth_error l t = Some y -> nth_error (set_nth t x l) t = Some x.
Proof. intros X l. induction l as [| z l IH]; intros t x y H; destruct t; cbn in *; try discriminate; eauto. Qed.

Lemma nth_error_set_nth_neq : forall {X} (l : list X) t t' x, t <> t' -> nth_error (set_nth t x l) t' = nth_error l t'.
Proof.
  intros X l. induction l as [| z l IH]; intros t t' x H; destruct t, t'; cbn; try reflexivity; try congruence.
  apply IH. congruence.
Qed.

Lemma nth_error_app_last : forall {X} (l : list X) x t y,
  nth_error (l ++ [x]) t = Some y -> nth_error l t = Some y \/ (t = length l /\ y = x).
Proof.
  intros X l x t y H. destruct (Nat.lt_ge_cases t (length l)) as [L | L].
  - rewrite nth_error_app1 in H by exact L. auto.
  - rewrite nth_error_app2 in H by exact L. right.
    destruct (t - length l) as [| k] eqn:E; cbn in H.
    + inversion H; subst. split; [lia | reflexivity].
    + destruct k; discriminate.
Qed.

(* ------------------------------------------------------------------ classification of tasks *)

Definition is_end (p : pc) : bool := match p with PEnd _ => true | _ => false end.
Definition is_call (p : pc) : bool := match p with PCall => true | _ => false end.
Definition is_flush (p : pc) : bool := match p with PFlush _ => true | _ => false end.
Definition pending (tk : task) : bool := negb (is_end (t_pc tk)).
Definition reader_like (m : meth) : bool := match m with MHandshake | MRead => true | _ => false end.
Definition is_write (m : meth) : bool := match m with MWrite => true | _ => false end.

(* where a send_all call can be: it never waits for the network and (after wrap()) never fails *)
Definition wr_pc (p : pc) : bool :=
  match p with
  | PCall | PFlush (KRet _) | PSending (KRet _) | PEnd (ROk _) => true
  | _ => false
  end.
(* a call whose SSL method has returned successfully (it only has to flush and return) *)
Definition ret_pc (p : pc) : bool :=
  match p with
  | PFlush (KRet _) | PSending (KRet _) | PEnd (ROk _) => true
  | _ => false
  end.

(* the discipline: what the application may call next on this endpoint *)
Definition hs_done (e : endpoint) : bool :=
  match y_tasks (e_sys e) with
  | tk :: _ => match t_meth tk, t_pc tk with MHandshake, PEnd (ROk _) => true | _, _ => false end
  | [] => false
  end.
Definition spawn_ok (e : endpoint) (m : meth) : bool :=
  match m with
  | MHandshake => match y_tasks (e_sys e) with [] => true | _ => false end
  | MRead => hs_done e && negb (existsb (fun tk => pending tk && reader_like (t_meth tk)) (y_tasks (e_sys e)))
  | MWrite => hs_done e
  | MUnwrap => false
  end.
Definition label_ok (c : duplex) (l : bool * clabel) : bool :=
  match l with
  | (side, CSpawn m _ _) => spawn_ok (if side then dA c else dB c) m
  | _ => true
  end.

(* ------------------------------------------------------------------ one pump step, as far as the invariants care *)

Section StepFacts.
Variable fl : flags.
Notation flush_pc := (flush_pc fl).
Notation pcall := (pcall fl).
Notation after_flush := (after_flush fl).
Notation go := (go fl).
Notation step := (step fl).

(* the labels of the composed system: no failure, no cancellation *)
Definition clab (l : lab) : bool :=
  match l with
  | LSsl _ | LGo | LT TSent | LT (TRcvd _) => true
  | _ => false
  end.
Definition ok_out (o : sslout) : bool := match o with SOk _ => true | _ => false end.
Definition err_out (o : sslout) : bool := match o with SErr _ | SOSErr | SOther => true | _ => false end.

Definition flusher (m : meth) (p : pc) : bool := is_flush p || (is_call p && is_write m).
Definition dwit (m : meth) (p : pc) : bool := is_write m && is_call p.

Lemma flush_pc_cases : forall s k,
  flush_pc s k = PFlush k \/
  (wbio s = [] /\ ((exists n, k = KRead n /\ flush_pc s k = PRecvWait n) \/ (exists v, k = KRet v /\ flush_pc s k = PEnd (ROk v)))).
Proof.
  intros s k. unfold TlsPump.flush_pc. destruct k as [n | | v]; auto.
  - destruct (f_skiplock fl && wbio_empty s) eqn:Sk; auto. right.
    apply andb_prop in Sk. destruct Sk as [_ Sk]. apply wbio_empty_true in Sk. eauto 6.
  - destruct (f_skiplock fl && wbio_empty s) eqn:Sk; auto. right.
    apply andb_prop in Sk. destruct Sk as [_ Sk]. apply wbio_empty_true in Sk. eauto 6.
Qed.

Lemma step_not_end : forall m b s p l r, step m b s p l = Some r -> is_end p = false.
Proof. intros m b s p l r H. destruct p; try reflexivity. destruct l as [x | | t]; try destruct t; discriminate. Qed.

(* what a step does to the program counter, the outgoing BIO and the backlog: one table for all invariants *)
Definition popped (s : shared) (v : nat) : list bytes :=
  match deque s with d :: rest => if Nat.ltb v (length d) then skipn v d :: rest else rest | [] => [] end.

Inductive step_kind (m : meth) (s s' : shared) (p p' : pc) (l : lab) : Prop :=
| SK_ok : forall x v, l = LSsl x -> p = PCall -> a_out x = SOk v -> m <> MWrite ->
    wbio s' = wbio s ++ a_wdelta x -> deque s' = deque s -> p' = flush_pc s' (KRet v) -> step_kind m s s' p p' l
| SK_wmore : forall x v, l = LSsl x -> p = PCall -> a_out x = SOk v -> m = MWrite ->
    wbio s' = wbio s ++ a_wdelta x -> deque s' = popped s v -> deque s' <> [] -> p' = PCall -> step_kind m s s' p p' l
| SK_wdone : forall x v, l = LSsl x -> p = PCall -> a_out x = SOk v -> m = MWrite ->
    wbio s' = wbio s ++ a_wdelta x -> deque s' = popped s v -> deque s' = [] -> p' = flush_pc s' (KRet 0) -> step_kind m s s' p p' l
| SK_wantr : forall x, l = LSsl x -> p = PCall -> a_out x = SWantRead ->
    wbio s' = wbio s ++ a_wdelta x -> deque s' = deque s -> p' = flush_pc s' (KRead (feeds s')) -> step_kind m s s' p p' l
| SK_wantw : forall x, l = LSsl x -> p = PCall -> a_out x = SWantWrite ->
    wbio s' = wbio s ++ a_wdelta x -> deque s' = deque s -> p' = PFlush KLoop -> step_kind m s s' p p' l
| SK_err : forall x r, l = LSsl x -> p = PCall -> err_out (a_out x) = true -> wbio s' = wbio s ++ a_wdelta x -> deque s' = deque s ->
    p' = PEnd r -> (forall v, r <> ROk v) -> step_kind m s s' p p' l
| SK_send : forall k, l = LGo -> p = PFlush k -> send_lock s = false -> wbio s' = [] -> deque s' = deque s ->
    p' = PSending k -> step_kind m s s' p p' l
| SK_skip : forall k, l = LGo -> p = PFlush k -> send_lock s = false -> wbio s = [] -> s' = s ->
    p' = after_flush m s k -> step_kind m s s' p p' l
| SK_recv : forall n, l = LGo -> p = PRecvWait n -> recv_lock s = false -> wbio s' = wbio s -> deque s' = deque s ->
    (p' = PRecving \/ p' = pcall m s') -> step_kind m s s' p p' l
| SK_sent : forall k, l = LT TSent -> p = PSending k -> wbio s' = wbio s -> deque s' = deque s ->
    p' = after_flush m s' k -> step_kind m s s' p p' l
| SK_rcvd : forall d, l = LT (TRcvd d) -> p = PRecving -> wbio s' = wbio s -> deque s' = deque s ->
    p' = pcall m s' -> step_kind m s s' p p' l
(* with meta/fixes/C08_read_result_without_checkpoint.diff: a successful read returns at once *)
| SK_lazy : forall x v, l = LSsl x -> p = PCall -> a_out x = SOk v -> m = MRead ->
    wbio s' = wbio s ++ a_wdelta x -> deque s' = deque s -> p' = PEnd (ROk v) -> step_kind m s s' p p' l.

Lemma step_table : forall m b s p l s' p' a,
  step m b s p l = Some (s', p', a) -> clab l = true ->
  (forall x, l = LSsl x -> a_meth x = m /\ a_arg x = expected_arg m b s) ->
  step_kind m s s' p p' l.
Proof.
  intros m b s p l s' p' a H Hc Hmatch.
  destruct p as [ | k | k | sn | | r]; destruct l as [x | | t]; cbv beta iota delta [TlsPump.step] in H; try discriminate.
  - (* PCall, LSsl *)
    destruct (Hmatch x eq_refl) as [Hm1 Hm2]. rewrite Hm1, Hm2, meth_eqb_refl, Nat.eqb_refl in H. cbn [andb negb] in H.
    cbv zeta in H. destruct (a_out x) eqn:Eo.
    + destruct m.
      * unfold done_pc in H. cbn [meth_eqb] in H. rewrite andb_false_r in H.
        inversion H; subst. eapply (SK_ok _ _ _ _ _ _ x v); try reflexivity; try exact Eo; congruence.
      * unfold done_pc in H. cbn [meth_eqb] in H. rewrite andb_true_r in H. destruct (f_lazyread fl).
        -- inversion H; subst. eapply (SK_lazy _ _ _ _ _ _ x v); try reflexivity; exact Eo.
        -- inversion H; subst. eapply (SK_ok _ _ _ _ _ _ x v); try reflexivity; try exact Eo; congruence.
      * unfold popped. cbn [deque set_wbio] in H.
        destruct (deque s) as [| d rest] eqn:Ed.
        -- inversion H; subst. eapply (SK_wdone _ _ _ _ _ _ x v); try reflexivity; try exact Eo.
           unfold popped; cbn [deque set_deque set_wbio]; rewrite Ed; reflexivity.
        -- destruct (Nat.ltb v (length d)) eqn:Lt.
           ++ inversion H; subst. eapply (SK_wmore _ _ _ _ _ _ x v); try reflexivity; try exact Eo.
              ** unfold popped; cbn [deque set_deque set_wbio]; rewrite Ed, Lt; reflexivity.
              ** cbn. discriminate.
           ++ destruct rest as [| d2 rest2].
              ** inversion H; subst. eapply (SK_wdone _ _ _ _ _ _ x v); try reflexivity; try exact Eo.
                 unfold popped; cbn [deque set_deque set_wbio]; rewrite Ed, Lt; reflexivity.
              ** inversion H; subst. eapply (SK_wmore _ _ _ _ _ _ x v); try reflexivity; try exact Eo.
                 --- unfold popped; cbn [deque set_deque set_wbio]; rewrite Ed, Lt; reflexivity.
                 --- cbn. discriminate.
      * unfold done_pc in H. cbn [meth_eqb] in H. rewrite andb_false_r in H.
        inversion H; subst. eapply (SK_ok _ _ _ _ _ _ x v); try reflexivity; try exact Eo; congruence.
    + inversion H; subst. eapply (SK_wantr _ _ _ _ _ _ x); try reflexivity; exact Eo.
    + inversion H; subst. eapply (SK_wantw _ _ _ _ _ _ x); try reflexivity; exact Eo.
    + inversion H; subst. eapply (SK_err _ _ _ _ _ _ x); try reflexivity; [rewrite Eo; reflexivity | discriminate].
    + inversion H; subst. eapply (SK_err _ _ _ _ _ _ x); try reflexivity; [rewrite Eo; reflexivity | discriminate].
    + inversion H; subst. eapply (SK_err _ _ _ _ _ _ x); try reflexivity; [rewrite Eo; reflexivity | discriminate].
  - (* PFlush, LGo *)
    unfold TlsPump.go in H. destruct (send_lock s) eqn:L; try discriminate.
    destruct (wbio s) as [| w0 w] eqn:Ew.
    + destruct k; inversion H; subst.
      * eapply SK_skip; try reflexivity; assumption.
      * eapply SK_send; try reflexivity; assumption.
      * eapply SK_skip; try reflexivity; assumption.
    + inversion H; subst. eapply SK_send; try reflexivity; assumption.
  - destruct t; try discriminate.
  - destruct t as [d | | | | bt]; try discriminate. cbv zeta in H. inversion H; subst. eapply SK_sent; reflexivity.
  - go_recv H sn; inversion H; subst; eapply SK_recv; try reflexivity; auto.
  - destruct t; discriminate.
  - destruct t as [d | | | | bt]; try discriminate. cbv zeta in H.
    destruct d; inversion H; subst; eapply SK_rcvd; reflexivity.
Qed.

End StepFacts.

(* ------------------------------------------------------------------ the ideal SSL object, as far as progress cares *)

Section IdealProgressFacts.
Variable E D : byte -> byte.
Variable M : nat.

Lemma hs_result : forall i i' o wd, do_handshake E D i = (i', o, wd) -> i_stage i <= 2 ->
  i_stage i' <= 2 /\
  (i_stage i = 2 -> i_stage i' = 2) /\ (ok_out o = true -> i_stage i' = 2) /\ i_sent_cn i' = i_sent_cn i /\
  (err_out o = true -> wd = []).
Proof.
  intros i i' o wd H Hle. unfold do_handshake in H.
  assert (Hneed : forall st out flt,
            match parse_hs D (i_rbio i) with
            | None => (i, starved i, [])
            | Some None => (i, SErr ESslOther, [])
            | Some (Some rest) => (upd i st rest (i_plain i) (i_got_cn i) (i_sent_cn i), out, flt)
            end = (i', o, wd) ->
            (i' = i /\ wd = [] /\ ok_out o = false) \/ (i_stage i' = st /\ i_sent_cn i' = i_sent_cn i /\ o = out)).
  { intros st out flt Hn. destruct (parse_hs D (i_rbio i)) as [[rest |] |]; inversion Hn; subst; auto.
    left. unfold starved. destruct (i_reof i'); auto. }
  destruct (i_stage i) as [| [| [| st]]] eqn:Es; try lia; destruct (i_client i).
  - inversion H; subst. cbn. repeat split; try discriminate; auto.
  - destruct (Hneed _ _ _ H) as [[-> [-> Ho]] | [A [B ->]]];
      cbn; repeat split; auto; try lia; intros X; try discriminate X; try congruence.
  - destruct (Hneed _ _ _ H) as [[-> [-> Ho]] | [A [B ->]]];
      cbn; repeat split; auto; try lia; intros X; try discriminate X; try congruence.
  - destruct (Hneed _ _ _ H) as [[-> [-> Ho]] | [A [B ->]]];
      cbn; repeat split; auto; try lia; intros X; try discriminate X; try congruence.
  - inversion H; subst. cbn. repeat split; auto; try discriminate; lia.
  - inversion H; subst. cbn. repeat split; auto; try discriminate; lia.
Qed.

Lemma call_facts : forall i m n data i' o wd,
  m <> MUnwrap -> call E D M i m n data = (i', o, wd) -> i_stage i <= 2 ->
  i_stage i' <= 2 /\
  (i_stage i = 2 -> i_stage i' = 2) /\
  (m = MHandshake -> ok_out o = true -> i_stage i' = 2) /\
  i_sent_cn i' = i_sent_cn i /\
  (err_out o = true -> wd = []) /\
  (m = MWrite -> i_stage i = 2 -> i_sent_cn i = false -> o = SOk (length data)) /\
  (m = MRead -> wd = []).
Proof.
  intros i m n data i' o wd Hm H Hle. destruct m; cbn [call] in H; [| | | congruence].
  - destruct (hs_result _ _ _ _ H Hle) as [A0 [A [B [C Dd]]]]. repeat split; auto; discriminate.
  - (* read *)
    unfold read in H.
    destruct (negb (Nat.eqb (i_stage i) 2)) eqn:St.
    { inversion H; subst. repeat split; auto; discriminate. }
    apply negb_false_iff, Nat.eqb_eq in St.
    destruct (i_plain i).
    + destruct (i_got_cn i); [inversion H; subst; repeat split; auto; discriminate |].
      destruct (parse1 D (i_rbio i)) as [[[t p] rest] |].
      * destruct (N.eqb t T_DATA); [destruct p |]; try destruct (N.eqb t T_ALERT);
          inversion H; subst; cbn; repeat split; auto; discriminate.
      * inversion H; subst. repeat split; auto; try discriminate.
    + inversion H; subst. cbn. repeat split; auto; discriminate.
  - (* write *)
    unfold write in H. destruct (negb (Nat.eqb (i_stage i) 2)) eqn:St.
    { inversion H; subst. repeat split; auto; try discriminate.
      intros _ S2 _. rewrite S2 in St. discriminate. }
    destruct (i_sent_cn i) eqn:Sc; inversion H; subst; repeat split; auto; try discriminate.
Qed.

Lemma read_wantread : forall i n i1 wd, read D i n = (i1, SWantRead, wd) ->
  i1 = i /\ i_plain i = [] /\ i_got_cn i = false /\ parse1 D (i_rbio i) = None.
Proof.
  intros i n i1 wd H. unfold read in H.
  destruct (negb (Nat.eqb (i_stage i) 2)); [discriminate |].
  destruct (i_plain i); [| discriminate].
  destruct (i_got_cn i); [discriminate |].
  destruct (parse1 D (i_rbio i)) as [[[t p] rest] |].
  - destruct (N.eqb t T_DATA); [destruct p; discriminate |]. destruct (N.eqb t T_ALERT); discriminate.
  - unfold starved in H. destruct (i_reof i); inversion H; subst; auto.
Qed.

Lemma write_unchanged : forall i p i1 o wd, write E M i p = (i1, o, wd) -> i1 = i.
Proof.
  intros i p i1 o wd H. unfold write in H.
  destruct (negb (Nat.eqb (i_stage i) 2)); [inversion H; reflexivity |]. destruct (i_sent_cn i); inversion H; reflexivity.
Qed.

End IdealProgressFacts.

(* ------------------------------------------------------------------ one transition of one endpoint *)

Section EndpointFacts.
Variable fl : flags.
Variable E D : byte -> byte.
Variable M : nat.
Notation step := (step fl).
Notation sys_step := (sys_step fl).
Notation pump := (pump fl).
Notation ep_step := (ep_step fl E D M).
Notation pcall := (pcall fl).

Definition tasks_of (e : endpoint) : list task := y_tasks (e_sys e).
Definition shp (e : endpoint) : shared := y_sh (e_sys e).

Lemma pump_inv : forall e i w g nin nout l e' nin' nout',
  pump e i w g nin nout l = Some (e', nin', nout') ->
  exists acts, sys_step (e_sys e) l = Some (e_sys e', acts) /\
    i_stage (e_ideal e') = i_stage i /\ i_sent_cn (e_ideal e') = i_sent_cn i /\ nin' = nin /\
    i_rbio (e_ideal e') = i_rbio i ++ fed (map snd acts) /\ i_plain (e_ideal e') = i_plain i /\ i_got_cn (e_ideal e') = i_got_cn i.
Proof.
  intros e i w g nin nout l e' nin' nout' H. unfold TlsDuplex.pump in H.
  destruct (sys_step (e_sys e) l) as [[y acts] |] eqn:S; try discriminate.
  destruct (apply_acts i nout acts) as [i2 o2] eqn:A. inversion H; subst. cbn.
  destruct (apply_acts_spec _ _ _ _ _ A) as [_ [R [P [S1 [G [S2 _]]]]]]. eauto 12.
Qed.

(* the ideal SSL object along one task step *)
Definition ideal_rel (e e' : endpoint) (tk : task) (lb : lab) : Prop :=
  (exists i1 o wd, lb = LSsl {| a_meth := t_meth tk; a_arg := expected_arg (t_meth tk) (t_buf tk) (shp e); a_out := o; a_wdelta := wd |} /\
      call E D M (e_ideal e) (t_meth tk) (t_buf tk) (hd [] (deque (shp e))) = (i1, o, wd) /\
      i_stage (e_ideal e') = i_stage i1 /\ i_sent_cn (e_ideal e') = i_sent_cn i1 /\
      i_rbio (e_ideal e') = i_rbio i1 /\ i_plain (e_ideal e') = i_plain i1 /\ i_got_cn (e_ideal e') = i_got_cn i1) \/
  ((forall x, lb <> LSsl x) /\ i_stage (e_ideal e') = i_stage (e_ideal e) /\ i_sent_cn (e_ideal e') = i_sent_cn (e_ideal e) /\
   i_rbio (e_ideal e') = i_rbio (e_ideal e) ++ rcvd lb /\ i_plain (e_ideal e') = i_plain (e_ideal e) /\
   i_got_cn (e_ideal e') = i_got_cn (e_ideal e)).

(* a transition that is not a new application call is one step of one task *)
Lemma ep_step_task : forall e nin nout l e' nin' nout',
  ep_step e nin nout l = Some (e', nin', nout') -> (forall m n d, l <> CSpawn m n d) ->
  exists t tk lb s1 p1 a1,
    nth_error (tasks_of e) t = Some tk /\ clab lb = true /\
    step (t_meth tk) (t_buf tk) (shp e) (t_pc tk) lb = Some (s1, p1, a1) /\
    (forall x, lb = LSsl x -> a_meth x = t_meth tk /\ a_arg x = expected_arg (t_meth tk) (t_buf tk) (shp e)) /\
    shp e' = s1 /\
    tasks_of e' = set_nth t {| t_meth := t_meth tk; t_buf := t_buf tk; t_pc := p1 |} (tasks_of e) /\
    sys_step (e_sys e) (SStep t lb) = Some (e_sys e', map (fun x => (t, x)) a1) /\
    ideal_rel e e' tk lb.
Proof.
  intros e nin nout l e' nin' nout' H Hns.
  assert (Gen : forall i w g nin0 t lb,
            pump e i w g nin0 nout (SStep t lb) = Some (e', nin', nout') -> clab lb = true ->
            (forall tk x, nth_error (tasks_of e) t = Some tk -> lb = LSsl x ->
                          a_meth x = t_meth tk /\ a_arg x = expected_arg (t_meth tk) (t_buf tk) (shp e)) ->
            exists tk s1 p1 a1,
              nth_error (tasks_of e) t = Some tk /\
              step (t_meth tk) (t_buf tk) (shp e) (t_pc tk) lb = Some (s1, p1, a1) /\
              shp e' = s1 /\
              tasks_of e' = set_nth t {| t_meth := t_meth tk; t_buf := t_buf tk; t_pc := p1 |} (tasks_of e) /\
              sys_step (e_sys e) (SStep t lb) = Some (e_sys e', map (fun x => (t, x)) a1) /\
              i_stage (e_ideal e') = i_stage i /\ i_sent_cn (e_ideal e') = i_sent_cn i /\
              i_rbio (e_ideal e') = i_rbio i ++ rcvd lb /\ i_plain (e_ideal e') = i_plain i /\ i_got_cn (e_ideal e') = i_got_cn i).
  { intros i w g nin0 t lb Hp Hc Hmt. destruct (pump_inv _ _ _ _ _ _ _ _ _ _ Hp) as [acts [S [A [B [_ [R [P G]]]]]]].
    destruct (sys_step_SStep_inv fl _ _ _ _ _ S) as [tk [s1 [p1 [a1 [Hn [St [Hsh [Ha Ht]]]]]]]].
    exists tk, s1, p1, a1. subst acts. rewrite map_snd_tag in R.
    assert (Hnd : ~ In ADesync a1).
    { intros Hin. destruct (step_desync_only_on_mismatch fl _ _ _ _ _ _ _ _ St Hin) as [x [Hl [_ Hck]]].
      destruct (Hmt tk x Hn Hl) as [Hm Harg]. unfold shp in Harg. rewrite Hm, Harg, meth_eqb_refl, Nat.eqb_refl in Hck. discriminate. }
    destruct (step_flow fl _ _ _ _ _ _ _ _ St Hnd) as [_ Fd]. rewrite Fd in R.
    unfold tasks_of, shp. auto 12. }
  destruct l as [m n data | t | t | t | t k]; cbn [TlsDuplex.ep_step] in H.
  - exfalso. eapply Hns; reflexivity.
  - destruct (nth_error (y_tasks (e_sys e)) t) as [tk |] eqn:Hn; try discriminate.
    destruct (call E D M (e_ideal e) (t_meth tk) (t_buf tk) (hd [] (deque (y_sh (e_sys e))))) as [[i1 o] wd] eqn:C.
    destruct (Gen _ _ _ _ _ _ H eq_refl) as [tk' [s1 [p1 [a1 [Hn' [St [Hsh [Ht [Hs [A [B [R [P G]]]]]]]]]]]]].
    { intros tk0 x Hn0 Hx. unfold tasks_of in Hn0. rewrite Hn in Hn0. inversion Hn0; subst tk0. inversion Hx; subst. split; reflexivity. }
    unfold tasks_of in Hn'. rewrite Hn in Hn'. inversion Hn'; subst tk'.
    exists t, tk, (LSsl {| a_meth := t_meth tk; a_arg := expected_arg (t_meth tk) (t_buf tk) (y_sh (e_sys e)); a_out := o; a_wdelta := wd |}), s1, p1, a1.
    split; [unfold tasks_of; exact Hn |]. split; [reflexivity |]. split; [exact St |].
    split; [intros y Hy; inversion Hy; subst; split; reflexivity |].
    split; [exact Hsh |]. split; [exact Ht |]. split; [exact Hs |].
    left. exists i1, o, wd. cbn [rcvd] in R. rewrite app_nil_r in R. auto 10.
  - destruct (Gen _ _ _ _ _ _ H eq_refl) as [tk [s1 [p1 [a1 [Hn [St [Hsh [Ht [Hs [A [B [R [P G]]]]]]]]]]]]]; [intros; discriminate |].
    exists t, tk, LGo, s1, p1, a1.
    split; [exact Hn |]. split; [reflexivity |]. split; [exact St |]. split; [intros y Hy; discriminate |].
    split; [exact Hsh |]. split; [exact Ht |]. split; [exact Hs |].
    right. split; [intros y Hy; discriminate |]. auto 10.
  - destruct (Gen _ _ _ _ _ _ H eq_refl) as [tk [s1 [p1 [a1 [Hn [St [Hsh [Ht [Hs [A [B [R [P G]]]]]]]]]]]]]; [intros; discriminate |].
    exists t, tk, (LT TSent), s1, p1, a1.
    split; [exact Hn |]. split; [reflexivity |]. split; [exact St |]. split; [intros y Hy; discriminate |].
    split; [exact Hsh |]. split; [exact Ht |]. split; [exact Hs |].
    right. split; [intros y Hy; discriminate |]. auto 10.
  - destruct (Nat.leb 1 k && Nat.leb k (length nin)); try discriminate.
    destruct (Gen _ _ _ _ _ _ H eq_refl) as [tk [s1 [p1 [a1 [Hn [St [Hsh [Ht [Hs [A [B [R [P G]]]]]]]]]]]]]; [intros; discriminate |].
    exists t, tk, (LT (TRcvd (firstn k nin))), s1, p1, a1.
    split; [exact Hn |]. split; [reflexivity |]. split; [exact St |]. split; [intros y Hy; discriminate |].
    split; [exact Hsh |]. split; [exact Ht |]. split; [exact Hs |].
    right. split; [intros y Hy; discriminate |]. auto 10.
Qed.

End EndpointFacts.

(* ------------------------------------------------------------------ the invariant of one endpoint *)

Section EndpointInvariant.
Variable fl : flags.
Variable E D : byte -> byte.
Variable M : nat.
Notation step := (step fl).
Notation sys_step := (sys_step fl).
Notation ep_step := (ep_step fl E D M).
Notation pcall := (pcall fl).
Notation flush_pc := (flush_pc fl).
Notation after_flush := (after_flush fl).

Definition pending_reader (tk : task) : bool := pending tk && reader_like (t_meth tk).
(* a recv() that got WANT_READ and has not called the SSL object again *)
Definition readwait (p : pc) : bool :=
  match p with
  | PFlush (KRead _) | PSending (KRead _) | PRecvWait _ | PRecving => true
  | _ => false
  end.

Record EInv (e : endpoint) : Prop := {
  ei_lock : LockInv (e_sys e);
  ei_wr : forall t tk, nth_error (tasks_of e) t = Some tk -> t_meth tk = MWrite -> wr_pc (t_pc tk) = true;
  ei_wbio : wbio (shp e) <> [] ->
            exists t tk, nth_error (tasks_of e) t = Some tk /\ flusher (t_meth tk) (t_pc tk) = true;
  ei_deque : deque (shp e) <> [] ->
             exists t tk, nth_error (tasks_of e) t = Some tk /\ dwit (t_meth tk) (t_pc tk) = true;
  ei_one : forall t1 t2 tk1 tk2, nth_error (tasks_of e) t1 = Some tk1 -> nth_error (tasks_of e) t2 = Some tk2 ->
           pending_reader tk1 = true -> pending_reader tk2 = true -> t1 = t2;
  ei_hs : forall t tk, nth_error (tasks_of e) t = Some tk -> t_meth tk = MHandshake -> ret_pc (t_pc tk) = true ->
          i_stage (e_ideal e) = 2;
  ei_s2 : (exists t tk, nth_error (tasks_of e) t = Some tk /\ t_meth tk <> MHandshake) -> i_stage (e_ideal e) = 2;
  ei_le : i_stage (e_ideal e) <= 2;
  ei_cn : i_sent_cn (e_ideal e) = false;
  ei_nu : forall t tk, nth_error (tasks_of e) t = Some tk -> t_meth tk <> MUnwrap;
  (* a recv() waiting for the network has nothing it could return: WANT_READ meant "no complete record", and since
     then only itself could have fed the SSL object *)
  ei_rd : forall t tk, nth_error (tasks_of e) t = Some tk -> t_meth tk = MRead -> readwait (t_pc tk) = true ->
          i_plain (e_ideal e) = [] /\ i_got_cn (e_ideal e) = false /\ parse1 D (i_rbio (e_ideal e)) = None
}.

Lemma EInv_init : forall client, EInv (ep0 client).
Proof.
  intros client. constructor; unfold tasks_of, shp; cbn; try (intros; try destruct t; try destruct t1; discriminate);
    try (intros H; exfalso; apply H; reflexivity); try (intros [t [tk [H _]]]; destruct t; discriminate); try lia; auto.
  split; reflexivity.
Qed.

(* facts about the program counters reached by a step *)
Lemma pcall_props : forall m s,
  (m = MWrite -> wr_pc (pcall m s) = true) /\
  (m <> MWrite -> pcall m s = PCall) /\
  (m = MWrite -> deque s <> [] -> pcall m s = PCall).
Proof.
  intros m s. unfold TlsPump.pcall. repeat split; intros.
  - subst. destruct (deque s); [| reflexivity]. destruct (flush_pc_cases fl s (KRet 0)) as [-> | [_ [[n [X _]] | [v [X ->]]]]];
      try discriminate; reflexivity.
  - destruct m; try reflexivity. congruence.
  - subst. destruct (deque s); [congruence | reflexivity].
Qed.

Lemma flush_ret_props : forall s v, wr_pc (flush_pc s (KRet v)) = true /\ ret_pc (flush_pc s (KRet v)) = true.
Proof.
  intros s v. destruct (flush_pc_cases fl s (KRet v)) as [-> | [_ [[n [X _]] | [v' [X ->]]]]]; try discriminate; auto.
Qed.

Notation ideal_rel := (ideal_rel E D M).

Lemma EInv_task_step : forall e e' t tk lb s1 p1 a1,
  EInv e -> nth_error (tasks_of e) t = Some tk -> clab lb = true ->
  step (t_meth tk) (t_buf tk) (shp e) (t_pc tk) lb = Some (s1, p1, a1) ->
  (forall x, lb = LSsl x -> a_meth x = t_meth tk /\ a_arg x = expected_arg (t_meth tk) (t_buf tk) (shp e)) ->
  shp e' = s1 ->
  tasks_of e' = set_nth t {| t_meth := t_meth tk; t_buf := t_buf tk; t_pc := p1 |} (tasks_of e) ->
  sys_step (e_sys e) (SStep t lb) = Some (e_sys e', map (fun x => (t, x)) a1) ->
  ideal_rel e e' tk lb -> EInv e'.
Proof.
  intros e e' t tk lb s1 p1 a1 I Hn Hc St Hmatch Hsh Ht Hsys Hid.
  pose proof (step_table fl _ _ _ _ _ _ _ _ St Hc Hmatch) as SK.
  pose proof (step_not_end fl _ _ _ _ _ _ St) as Hne.
  set (m := t_meth tk) in *. set (p := t_pc tk) in *. set (s := shp e) in *.
  assert (Hnu : m <> MUnwrap) by (apply (ei_nu e I t tk Hn)).
  (* what the ideal layer guarantees about the answer *)
  assert (Hid' : i_stage (e_ideal e') <= 2 /\ (i_stage (e_ideal e) = 2 -> i_stage (e_ideal e') = 2) /\
                 i_sent_cn (e_ideal e') = false /\
                 (forall x, lb = LSsl x -> err_out (a_out x) = true -> a_wdelta x = []) /\
                 (forall x, lb = LSsl x -> m = MHandshake -> ok_out (a_out x) = true -> i_stage (e_ideal e') = 2) /\
                 (forall x, lb = LSsl x -> m = MWrite -> exists v, a_out x = SOk v) /\
                 (forall x, lb = LSsl x -> m = MRead -> a_wdelta x = [])).
  { destruct Hid as [[i1 [o [wd [Hl [Cl [S1 [S2 _]]]]]]] | [Hl [S1 [S2 _]]]].
    - destruct (call_facts E D M _ _ _ _ _ _ _ Hnu Cl (ei_le e I)) as [F0 [F1 [F2 [F3 [F4 [F5 F6]]]]]].
      rewrite S1, S2, F3, (ei_cn e I). repeat split; auto.
      + intros x Hx He. rewrite Hl in Hx. inversion Hx; subst x. cbn in *. auto.
      + intros x Hx Hm Ho. rewrite Hl in Hx. inversion Hx; subst x. cbn in *. auto.
      + intros x Hx Hm. rewrite Hl in Hx. inversion Hx; subst x. cbn. eexists. apply F5; auto.
        * apply (ei_s2 e I). exists t, tk. split; [exact Hn |]. fold m. rewrite Hm. discriminate.
        * apply (ei_cn e I).
      + intros x Hx Hm. rewrite Hl in Hx. inversion Hx; subst x. cbn. auto.
    - rewrite S1, S2. repeat split; auto using (ei_le e I), (ei_cn e I); intros x Hx; exfalso; eapply Hl; eauto. }
  destruct Hid' as [Hle [Hmono [Hcn [Herr [Hhs [Hwr Hrd]]]]]].
  (* tasks of e' *)
  assert (Hnew : nth_error (tasks_of e') t = Some {| t_meth := m; t_buf := t_buf tk; t_pc := p1 |})
    by (rewrite Ht; eapply nth_error_set_nth_eq; eauto).
  assert (Hold : forall t', t' <> t -> nth_error (tasks_of e') t' = nth_error (tasks_of e) t')
    by (intros t' Hd; rewrite Ht; apply nth_error_set_nth_neq; congruence).
  assert (Hcase : forall t' tk', nth_error (tasks_of e') t' = Some tk' ->
            (t' = t /\ tk' = {| t_meth := m; t_buf := t_buf tk; t_pc := p1 |}) \/ (t' <> t /\ nth_error (tasks_of e) t' = Some tk')).
  { intros t' tk' H'. destruct (Nat.eq_dec t' t) as [-> | Hd].
    - left. rewrite Hnew in H'. inversion H'. auto.
    - right. rewrite (Hold _ Hd) in H'. auto. }
  assert (Hs1 : shp e' = s1) by exact Hsh.
  constructor.
  - (* locks *) exact (LockInv_step fl _ _ _ _ Hsys (ei_lock e I)).
  - (* send_all calls stay on the write path *)
    intros t' tk' H' Hm'. destruct (Hcase _ _ H') as [[-> ->] | [Hd Ho]]; [| exact (ei_wr e I _ _ Ho Hm')].
    cbn in Hm'. cbn [t_pc]. pose proof (ei_wr e I _ _ Hn Hm') as Wp. fold p in Wp.
    destruct SK as [x v Hl Hp Ho Hm2 | x v Hl Hp Ho Hm2 W Dq Dn Hp1 | x v Hl Hp Ho Hm2 W Dq Dn Hp1 | x Hl Hp Ho | x Hl Hp Ho
                   | x r Hl Hp Ho W0 Dq0 Hp10 Hnr | k Hl Hp L W Dq Hp1 | k Hl Hp L W Es Hp1 | n Hl Hp | k Hl Hp W Dq Hp1 | d Hl Hp
                   | x v Hl Hp Ho Hm2 W Dq Hp1];
      try congruence.
    all: try (destruct (Hwr _ Hl Hm') as [v' Hv']; rewrite Hv' in *; discriminate).
    all: try (rewrite Hp in Wp; discriminate).
    all: subst p1; rewrite ?Hp in Wp;
      first [reflexivity | apply (proj1 (flush_ret_props _ _)) | (destruct k; try discriminate; reflexivity)].
  - (* pending ciphertext has somebody who will flush it *)
    rewrite Hs1. intros Hw.
    assert (Self : flusher m p1 = true -> exists t0 tk0, nth_error (tasks_of e') t0 = Some tk0 /\ flusher (t_meth tk0) (t_pc tk0) = true)
      by (intros F; exists t; eexists; split; [exact Hnew | exact F]).
    assert (Other : wbio s1 = wbio s -> flusher m p = false ->
                    exists t0 tk0, nth_error (tasks_of e') t0 = Some tk0 /\ flusher (t_meth tk0) (t_pc tk0) = true).
    { intros Eq Fp. rewrite Eq in Hw. destruct (ei_wbio e I Hw) as [u [tku [Hu Fu]]].
      exists u, tku. split; [| exact Fu]. rewrite Hold; [exact Hu |].
      intros ->. rewrite Hn in Hu. inversion Hu; subst tku. fold m p in Fu. congruence. }
    assert (Fl : forall k, flush_pc s1 k = PFlush k \/ wbio s1 = []) by (intros k; destruct (flush_pc_cases fl s1 k) as [X | [X _]]; auto).
    destruct SK as [x v Hl Hp Ho Hm2 W Dq Hp1 | x v Hl Hp Ho Hm2 W Dq Dn Hp1 | x v Hl Hp Ho Hm2 W Dq Dn Hp1 | x Hl Hp Ho W Dq Hp1 | x Hl Hp Ho W Dq Hp1
                   | x r Hl Hp Ho W Dq Hp1 Hnr | k Hl Hp L W Dq Hp1 | k Hl Hp L W Es Hp1 | n Hl Hp L W Dq Hp1 | k Hl Hp W Dq Hp1 | d Hl Hp W Dq Hp1
                   | x v Hl Hp Ho Hm2 W Dq Hp1].
    + apply Self. subst p1. destruct (Fl (KRet v)) as [-> | X]; [reflexivity | congruence].
    + apply Self. subst p1. unfold flusher. rewrite Hm2. reflexivity.
    + apply Self. subst p1. destruct (Fl (KRet 0)) as [-> | X]; [reflexivity | congruence].
    + apply Self. subst p1. destruct (Fl (KRead (feeds s1))) as [-> | X]; [reflexivity | congruence].
    + apply Self. subst p1. reflexivity.
    + apply Other.
      * rewrite W, (Herr x Hl Ho), app_nil_r. reflexivity.
      * unfold flusher. rewrite Hp. cbn. destruct m eqn:Em; try reflexivity.
        destruct (Hwr x Hl eq_refl) as [v Hv]. rewrite Hv in Ho. discriminate.
    + congruence.
    + rewrite Es in Hw. congruence.
    + apply Other; [exact W | rewrite Hp; reflexivity].
    + apply Other; [exact W | rewrite Hp; reflexivity].
    + apply Other; [exact W | rewrite Hp; reflexivity].
    + (* a successful read that returns at once: it has produced nothing, and it was not the one who would flush *)
      apply Other; [rewrite W, (Hrd x Hl Hm2), app_nil_r; reflexivity | unfold flusher; rewrite Hp, Hm2; reflexivity].
  - (* a non-empty backlog has a send_all call that will write it *)
    rewrite Hs1. intros Hw.
    assert (Other : deque s1 = deque s -> dwit m p = false ->
                    exists t0 tk0, nth_error (tasks_of e') t0 = Some tk0 /\ dwit (t_meth tk0) (t_pc tk0) = true).
    { intros Eq Fp. rewrite Eq in Hw. destruct (ei_deque e I Hw) as [u [tku [Hu Fu]]].
      exists u, tku. split; [| exact Fu]. rewrite Hold; [exact Hu |].
      intros ->. rewrite Hn in Hu. inversion Hu; subst tku. fold m p in Fu. congruence. }
    assert (NotW : forall x, lb = LSsl x -> (forall v, a_out x <> SOk v) -> dwit m p = false).
    { intros x Hl Hno. unfold dwit. destruct m eqn:Em; try reflexivity. destruct (Hwr x Hl eq_refl) as [v Hv]. exfalso. eapply Hno; eauto. }
    destruct SK as [x v Hl Hp Ho Hm2 W Dq Hp1 | x v Hl Hp Ho Hm2 W Dq Dn Hp1 | x v Hl Hp Ho Hm2 W Dq Dn Hp1 | x Hl Hp Ho W Dq Hp1 | x Hl Hp Ho W Dq Hp1
                   | x r Hl Hp Ho W Dq Hp1 Hnr | k Hl Hp L W Dq Hp1 | k Hl Hp L W Es Hp1 | n Hl Hp L W Dq Hp1 | k Hl Hp W Dq Hp1 | d Hl Hp W Dq Hp1
                   | x v Hl Hp Ho Hm2 W Dq Hp1].
    + apply Other; [exact Dq |]. unfold dwit. destruct m; try reflexivity. congruence.
    + exists t. eexists. split; [exact Hnew |]. cbn. subst p1. unfold dwit. rewrite Hm2. reflexivity.
    + congruence.
    + apply Other; [exact Dq |]. apply (NotW x Hl). intros v. rewrite Ho. discriminate.
    + apply Other; [exact Dq |]. apply (NotW x Hl). intros v. rewrite Ho. discriminate.
    + apply Other; [exact Dq |]. apply (NotW x Hl). intros v Hv. rewrite Hv in Ho. discriminate.
    + apply Other; [exact Dq |]. unfold dwit. rewrite Hp. destruct m; reflexivity.
    + apply Other; [rewrite Es; reflexivity |]. unfold dwit. rewrite Hp. destruct m; reflexivity.
    + apply Other; [exact Dq |]. unfold dwit. rewrite Hp. destruct m; reflexivity.
    + apply Other; [exact Dq |]. unfold dwit. rewrite Hp. destruct m; reflexivity.
    + apply Other; [exact Dq |]. unfold dwit. rewrite Hp. destruct m; reflexivity.
    + apply Other; [exact Dq |]. unfold dwit. rewrite Hm2. reflexivity.
  - (* at most one pending call that may need to read *)
    assert (Back : forall t' tk', nth_error (tasks_of e') t' = Some tk' -> pending_reader tk' = true ->
                   exists tk0, nth_error (tasks_of e) t' = Some tk0 /\ pending_reader tk0 = true).
    { intros t' tk' H' Pr. destruct (Hcase _ _ H') as [[-> ->] | [Hd Ho]]; [| eauto].
      exists tk. split; [exact Hn |]. unfold pending_reader, pending in *. cbn in Pr. fold m p.
      apply andb_prop in Pr. destruct Pr as [_ Pr]. rewrite Pr, Hne. reflexivity. }
    intros t1 t2 tk1 tk2 H1 H2 P1 P2.
    destruct (Back _ _ H1 P1) as [a1' [A1 B1]]. destruct (Back _ _ H2 P2) as [a2' [A2 B2]].
    exact (ei_one e I _ _ _ _ A1 A2 B1 B2).
  - (* a wrap() whose do_handshake has returned means the handshake is complete *)
    intros t' tk' H' Hm' Hr. destruct (Hcase _ _ H') as [[-> ->] | [Hd Ho]].
    + cbn in Hm', Hr.
      assert (PcHS : forall s0, pcall m s0 = PCall).
      { intros s0. destruct (pcall_props m s0) as [_ [X _]]. apply X. intros Heq. rewrite Hm' in Heq. discriminate. }
      assert (AF : forall s0 k, ret_pc (after_flush m s0 k) = true -> ret_pc (PFlush k) = true).
      { intros s0 k. destruct k; cbn; auto. rewrite PcHS. auto. }
      assert (Cases : ret_pc p = true \/ exists x, lb = LSsl x /\ ok_out (a_out x) = true).
      { destruct SK as [x v Hl Hp Ho Hm2 W Dq Hp1 | x v Hl Hp Ho Hm2 W Dq Dn Hp1 | x v Hl Hp Ho Hm2 W Dq Dn Hp1 | x Hl Hp Ho W Dq Hp1 | x Hl Hp Ho W Dq Hp1
                       | x r Hl Hp Ho W Dq Hp1 Hnr | k Hl Hp L W Dq Hp1 | k Hl Hp L W Es Hp1 | n Hl Hp L W Dq Hp1 | k Hl Hp W Dq Hp1 | d Hl Hp W Dq Hp1
                   | x v Hl Hp Ho Hm2 W Dq Hp1];
          try congruence.
        - right. exists x. rewrite Ho. auto.
        - exfalso. subst p1. destruct (flush_pc_cases fl s1 (KRead (feeds s1))) as [X | [_ [[n [_ X]] | [v [X _]]]]];
            try rewrite X in Hr; try discriminate.
        - subst p1. discriminate.
        - exfalso. subst p1. destruct r; try discriminate. eapply Hnr; reflexivity.
        - left. subst p1. rewrite Hp. exact Hr.
        - left. subst p1. rewrite Hp. eapply AF; eauto.
        - exfalso. destruct Hp1 as [-> | ->]; [discriminate |]. rewrite PcHS in Hr. discriminate.
        - left. subst p1. rewrite Hp. change (ret_pc (PSending k)) with (ret_pc (PFlush k)). eapply AF; eauto.
        - exfalso. subst p1. rewrite PcHS in Hr. discriminate. }
      destruct Cases as [Rp | [x [Hl Ho]]].
      * apply Hmono. exact (ei_hs e I _ _ Hn Hm' Rp).
      * exact (Hhs x Hl Hm' Ho).
    + apply Hmono. exact (ei_hs e I _ _ Ho Hm' Hr).
  - intros [t' [tk' [H' Hm']]]. apply Hmono. apply (ei_s2 e I).
    destruct (Hcase _ _ H') as [[-> ->] | [Hd Ho]]; [exists t, tk; auto | exists t', tk'; auto].
  - exact Hle.
  - exact Hcn.
  - intros t' tk' H'. destruct (Hcase _ _ H') as [[-> ->] | [Hd Ho]]; [exact Hnu | exact (ei_nu e I _ _ Ho)].
  - (* a waiting recv() has nothing to return *)
    intros t' tk' H' Hm' Hrw. destruct (Hcase _ _ H') as [[-> ->] | [Hd Ho]].
    + cbn in Hm', Hrw.
      assert (PcR : forall s0, pcall m s0 = PCall).
      { intros s0. destruct (pcall_props m s0) as [_ [X _]]. apply X. intros Heq. rewrite Hm' in Heq. discriminate. }
      assert (Cases : (exists x, lb = LSsl x /\ a_out x = SWantRead) \/ (readwait p = true /\ (forall x, lb <> LSsl x) /\ rcvd lb = [])).
      { destruct SK as [x v Hl Hp Ho Hm2 W Dq Hp1 | x v Hl Hp Ho Hm2 W Dq Dn Hp1 | x v Hl Hp Ho Hm2 W Dq Dn Hp1 | x Hl Hp Ho W Dq Hp1 | x Hl Hp Ho W Dq Hp1
                       | x r Hl Hp Ho W Dq Hp1 Hnr | k Hl Hp L W Dq Hp1 | k Hl Hp L W Es Hp1 | n Hl Hp L W Dq Hp1 | k Hl Hp W Dq Hp1 | d Hl Hp W Dq Hp1
                   | x v Hl Hp Ho Hm2 W Dq Hp1];
          try congruence.
        - exfalso. subst p1. destruct (flush_pc_cases fl s1 (KRet v)) as [X | [_ [[n [X _]] | [v0 [_ X]]]]];
            try rewrite X in Hrw; try discriminate.
        - left. eauto.
        - subst p1. discriminate.
        - subst p1. discriminate.
        - right. subst p1 lb. rewrite Hp. split; [exact Hrw |]. split; [intros x Hx; discriminate | reflexivity].
        - right. subst p1 lb. rewrite Hp. split; [| split; [intros x Hx; discriminate | reflexivity]].
          destruct k; cbn in Hrw |- *; try reflexivity; try discriminate. rewrite PcR in Hrw. discriminate.
        - right. subst lb. rewrite Hp. split; [reflexivity |]. split; [intros x Hx; discriminate | reflexivity].
        - right. subst p1 lb. rewrite Hp. split; [| split; [intros x Hx; discriminate | reflexivity]].
          destruct k; cbn in Hrw |- *; try reflexivity; try discriminate. rewrite PcR in Hrw. discriminate.
        - exfalso. subst p1. rewrite PcR in Hrw. discriminate.
        - subst p1. discriminate. }
      destruct Cases as [[x [Hl Ho]] | [Rw [Hns Hrc]]].
      * destruct Hid as [[i1 [o [wd [Hl' [Cl [_ [_ [R1 [P1 G1]]]]]]]]] | [Hl' _]]; [| exfalso; eapply Hl'; eauto].
        rewrite Hl' in Hl. inversion Hl; subst x. cbn in Ho. subst o.
        fold m in Cl. rewrite Hm' in Cl. cbn [call] in Cl.
        destruct (read_wantread D _ _ _ _ Cl) as [-> [A [B C]]]. rewrite R1, P1, G1. auto.
      * destruct Hid as [[i1 [o [wd [Hl' _]]]] | [_ [_ [_ [R1 [P1 G1]]]]]]; [exfalso; eapply Hns; eauto |].
        rewrite R1, P1, G1, Hrc, app_nil_r. exact (ei_rd e I _ _ Hn Hm' Rw).
    + (* another task steps: it is a send_all, which does not touch the receive side of the SSL object *)
      pose proof (ei_rd e I _ _ Ho Hm' Hrw) as Old.
      assert (Hmw : m = MWrite).
      { destruct m eqn:Em; try reflexivity; try (exfalso; exact (Hnu eq_refl)); exfalso; apply Hd;
          apply (ei_one e I t' t tk' tk Ho Hn); unfold pending_reader, pending;
          try (rewrite Hm'; destruct (t_pc tk'); try discriminate; reflexivity);
          fold m p; rewrite Em, Hne; reflexivity. }
      pose proof (ei_wr e I _ _ Hn Hmw) as Wp. fold p in Wp.
      destruct Hid as [[i1 [o [wd [Hl' [Cl [_ [_ [R1 [P1 G1]]]]]]]]] | [Hl' [_ [_ [R1 [P1 G1]]]]]].
      * fold m in Cl. rewrite Hmw in Cl. cbn [call] in Cl. rewrite (write_unchanged E M _ _ _ _ _ Cl) in *. rewrite R1, P1, G1. exact Old.
      * assert (Hrc : rcvd lb = []).
        { destruct lb as [x | | tt]; try reflexivity. destruct tt; try reflexivity.
          exfalso. destruct SK; try congruence. rewrite H0 in Wp. discriminate. }
        rewrite R1, P1, G1, Hrc, app_nil_r. exact Old.
Qed.

End EndpointInvariant.

(* ------------------------------------------------------------------ invariant along disciplined executions *)

Section ProgressTheorem.
Variable fl : flags.
Variable E D : byte -> byte.
Variable M : nat.
Notation step := (step fl).
Notation sys_step := (sys_step fl).
Notation ep_step := (ep_step fl E D M).
Notation dstep := (dstep fl E D M).
Notation pcall := (pcall fl).
Notation EInv := (EInv D).

Lemma EInv_spawn : forall e nin nout m n data e' nin' nout',
  ep_step e nin nout (CSpawn m n data) = Some (e', nin', nout') -> spawn_ok e m = true -> EInv e -> EInv e'.
Proof.
  intros e nin nout m n data e' nin' nout' H Hok I.
  assert (Hm : m <> MUnwrap) by (intros ->; discriminate).
  set (s1 := match m with MWrite => set_deque (shp e) (deque (shp e) ++ [data]) | _ => shp e end).
  set (new := {| t_meth := m; t_buf := n; t_pc := pcall m s1 |}).
  assert (Hshape : e_sys e' = {| y_sh := s1; y_tasks := tasks_of e ++ [new] |} /\ e_ideal e' = e_ideal e /\
                   sys_step (e_sys e) (SSpawn m n (match m with MWrite => [data] | _ => [] end)) = Some (e_sys e', [])).
  { unfold s1, new. destruct m; try congruence; cbn [TlsDuplex.ep_step] in H; unfold TlsDuplex.pump in H;
      cbn [TlsPump.sys_step apply_acts] in H; inversion H; subst; cbn; unfold shp, tasks_of;
      rewrite ?app_nil_r; auto. }
  destruct Hshape as [Hsys [Hid Hstep]].
  assert (Ht : tasks_of e' = tasks_of e ++ [new]) by (unfold tasks_of at 1; rewrite Hsys; reflexivity).
  assert (Hs : shp e' = s1) by (unfold shp at 1; rewrite Hsys; reflexivity).
  assert (Hw : wbio s1 = wbio (shp e)) by (unfold s1; destruct m; reflexivity).
  assert (Hcase : forall t tk, nth_error (tasks_of e') t = Some tk ->
            nth_error (tasks_of e) t = Some tk \/ (t = length (tasks_of e) /\ tk = new))
    by (intros t tk; rewrite Ht; apply nth_error_app_last).
  assert (Hkeep : forall t tk, nth_error (tasks_of e) t = Some tk -> nth_error (tasks_of e') t = Some tk).
  { intros t tk Hn. rewrite Ht. rewrite nth_error_app1; [exact Hn |]. apply nth_error_Some. congruence. }
  assert (Hnewpc : m <> MWrite -> t_pc new = PCall) by (intros X; cbn; destruct (pcall_props fl m s1) as [_ [Y _]]; exact (Y X)).
  assert (Hdone : m <> MHandshake -> i_stage (e_ideal e) = 2).
  { intros X. assert (Hd : hs_done e = true) by (destruct m; try congruence; cbn in Hok; try apply andb_prop in Hok; tauto).
    unfold hs_done in Hd. fold (tasks_of e) in Hd. destruct (tasks_of e) as [| tk0 rest] eqn:Et; [discriminate |].
    destruct (t_meth tk0) eqn:Em0; try discriminate. destruct (t_pc tk0) as [ | | | | | r0] eqn:Ep0; try discriminate.
    destruct r0; try discriminate.
    apply (ei_hs D e I 0 tk0); [rewrite Et; reflexivity | exact Em0 | rewrite Ep0; reflexivity]. }
  constructor.
  - exact (LockInv_step fl _ _ _ _ Hstep (ei_lock D e I)).
  - intros t tk H' Hm'. destruct (Hcase _ _ H') as [Ho | [_ ->]]; [exact (ei_wr D e I _ _ Ho Hm') |].
    cbn in Hm'. cbn. destruct (pcall_props fl m s1) as [Y _]. exact (Y Hm').
  - rewrite Hs, Hw. intros Hne. destruct (ei_wbio D e I Hne) as [u [tku [Hu Fu]]]. exists u, tku. auto.
  - rewrite Hs. intros Hne. destruct m eqn:Em; try congruence.
    + destruct (ei_deque D e I Hne) as [u [tku [Hu Fu]]]. exists u, tku. auto.
    + destruct (ei_deque D e I Hne) as [u [tku [Hu Fu]]]. exists u, tku. auto.
    + exists (length (tasks_of e)), new. split.
      * rewrite Ht. rewrite nth_error_app2 by lia. rewrite Nat.sub_diag. reflexivity.
      * unfold new, dwit. cbn [t_meth t_pc is_write andb].
        destruct (pcall_props fl MWrite s1) as [_ [_ X]]. rewrite X; [reflexivity | reflexivity |].
        unfold s1. cbn. destruct (deque (shp e)); discriminate.
  - intros t1 t2 tk1 tk2 H1 H2 P1 P2.
    assert (NewR : pending_reader new = true -> forall t tk, nth_error (tasks_of e) t = Some tk -> pending_reader tk = false).
    { intros Pn t tk Hn. unfold new, pending_reader in Pn. cbn in Pn. apply andb_prop in Pn. destruct Pn as [_ Rl].
      destruct m; try discriminate.
      - cbn in Hok. fold (tasks_of e) in Hok. destruct (tasks_of e); [destruct t; discriminate | discriminate].
      - cbn in Hok. apply andb_prop in Hok. destruct Hok as [_ Hno]. apply negb_true_iff in Hno. fold (tasks_of e) in Hno.
        destruct (pending_reader tk) eqn:Pt; [| reflexivity].
        assert (X : existsb (fun tk0 => pending tk0 && reader_like (t_meth tk0)) (tasks_of e) = true).
        { apply existsb_exists. exists tk. split; [eapply nth_error_In; eauto | exact Pt]. }
        congruence. }
    destruct (Hcase _ _ H1) as [O1 | [L1 ->]]; destruct (Hcase _ _ H2) as [O2 | [L2 ->]].
    + exact (ei_one D e I _ _ _ _ O1 O2 P1 P2).
    + rewrite (NewR P2 _ _ O1) in P1. discriminate.
    + rewrite (NewR P1 _ _ O2) in P2. discriminate.
    + congruence.
  - intros t tk H' Hm' Hr. rewrite Hid. destruct (Hcase _ _ H') as [Ho | [_ ->]]; [exact (ei_hs D e I _ _ Ho Hm' Hr) |].
    cbn in Hm'. rewrite Hnewpc in Hr; [discriminate | rewrite Hm'; discriminate].
  - rewrite Hid. intros [t [tk [H' Hm']]]. destruct (Hcase _ _ H') as [Ho | [_ ->]].
    + apply (ei_s2 D e I). eauto.
    + apply Hdone. exact Hm'.
  - rewrite Hid. exact (ei_le D e I).
  - rewrite Hid. exact (ei_cn D e I).
  - intros t tk H'. destruct (Hcase _ _ H') as [Ho | [_ ->]]; [exact (ei_nu D e I _ _ Ho) | exact Hm].
  - intros t tk H' Hm' Hrw. rewrite Hid. destruct (Hcase _ _ H') as [Ho | [_ ->]]; [exact (ei_rd D e I _ _ Ho Hm' Hrw) |].
    cbn in Hm'. rewrite Hnewpc in Hrw; [discriminate | rewrite Hm'; discriminate].
Qed.

Lemma EInv_step : forall e nin nout l e' nin' nout',
  ep_step e nin nout l = Some (e', nin', nout') ->
  (forall m n d, l = CSpawn m n d -> spawn_ok e m = true) -> EInv e -> EInv e'.
Proof.
  intros e nin nout l e' nin' nout' H Hok I.
  destruct l as [m n d | t | t | t | t k].
  - eapply EInv_spawn; eauto.
  - destruct (ep_step_task fl E D M _ _ _ _ _ _ _ H) as [t0 [tk [lb [s1 [p1 [a1 [Hn [Hc [St [Hm [Hs [Ht [Hy Hi]]]]]]]]]]]]]; [intros; discriminate |].
    eapply EInv_task_step; eauto.
  - destruct (ep_step_task fl E D M _ _ _ _ _ _ _ H) as [t0 [tk [lb [s1 [p1 [a1 [Hn [Hc [St [Hm [Hs [Ht [Hy Hi]]]]]]]]]]]]]; [intros; discriminate |].
    eapply EInv_task_step; eauto.
  - destruct (ep_step_task fl E D M _ _ _ _ _ _ _ H) as [t0 [tk [lb [s1 [p1 [a1 [Hn [Hc [St [Hm [Hs [Ht [Hy Hi]]]]]]]]]]]]]; [intros; discriminate |].
    eapply EInv_task_step; eauto.
  - destruct (ep_step_task fl E D M _ _ _ _ _ _ _ H) as [t0 [tk [lb [s1 [p1 [a1 [Hn [Hc [St [Hm [Hs [Ht [Hy Hi]]]]]]]]]]]]]; [intros; discriminate |].
    eapply EInv_task_step; eauto.
Qed.

(* executions of the composed system that respect the discipline *)
Fixpoint gexec (c : duplex) (ls : list (bool * clabel)) : option duplex :=
  match ls with
  | [] => Some c
  | l :: ls' => if label_ok c l then match dstep c l with Some c' => gexec c' ls' | None => None end else None
  end.

Lemma gexec_dexec : forall ls c c', gexec c ls = Some c' -> dexec fl E D M c ls = Some c'.
Proof.
  induction ls as [| l ls IH]; intros c c' H; cbn [gexec TlsDuplex.dexec] in *; [exact H |].
  destruct (label_ok c l); try discriminate. destruct (dstep c l); try discriminate. auto.
Qed.

Lemma GInv_exec : forall ls c c', gexec c ls = Some c' -> EInv (dA c) /\ EInv (dB c) -> EInv (dA c') /\ EInv (dB c').
Proof.
  induction ls as [| [side cl] ls IH]; intros c c' H [IA IB]; cbn [gexec] in H.
  - inversion H; subst; auto.
  - destruct (label_ok c (side, cl)) eqn:Lo; try discriminate.
    destruct (dstep c (side, cl)) as [c1 |] eqn:S; try discriminate.
    apply (IH _ _ H). unfold TlsDuplex.dstep in S. destruct side.
    + destruct (ep_step (dA c) (nBA c) (nAB c) cl) as [[[a' ni] no] |] eqn:Es; inversion S; subst. cbn. split; [| exact IB].
      eapply EInv_step; eauto. intros m n d ->. exact Lo.
    + destruct (ep_step (dB c) (nAB c) (nBA c) cl) as [[[b' ni] no] |] eqn:Es; inversion S; subst. cbn. split; [exact IA |].
      eapply EInv_step; eauto. intros m n d ->. exact Lo.
Qed.

End ProgressTheorem.

(* ------------------------------------------------------------------ stuck states *)

Lemma count_pos_inv : forall f l, 1 <= count f l -> exists t tk, nth_error l t = Some tk /\ f (t_pc tk) = true.
Proof.
  intros f l. induction l as [| x l IH]; intros H; unfold count in *; cbn in H; [lia |].
  destruct (f (t_pc x)) eqn:Fx.
  - exists 0, x. auto.
  - destruct (IH H) as [t [tk [Hn Hf]]]. exists (S t), tk. auto.
Qed.

Section Stuck.
Variable fl : flags.
Variable E D : byte -> byte.
Variable M : nat.
Hypothesis DE : forall x, D (E x) = x.
Notation step := (step fl).
Notation sys_step := (sys_step fl).
Notation ep_step := (ep_step fl E D M).
Notation dstep := (dstep fl E D M).

(* no transition of this endpoint other than a new application call is enabled *)
Definition ep_stuck (e : endpoint) (nin nout : bytes) : Prop :=
  forall cl, (forall m n d, cl <> CSpawn m n d) -> ep_step e nin nout cl = None.

Lemma pump_some : forall e i w g nin nout l y acts,
  sys_step (e_sys e) l = Some (y, acts) -> TlsDuplex.pump fl e i w g nin nout l <> None.
Proof.
  intros e i w g nin nout l y acts H. unfold TlsDuplex.pump. rewrite H. destruct (apply_acts i nout acts). discriminate.
Qed.

Lemma sys_step_some : forall y t tk lb r,
  nth_error (y_tasks y) t = Some tk -> step (t_meth tk) (t_buf tk) (y_sh y) (t_pc tk) lb = Some r ->
  exists y' acts, sys_step y (SStep t lb) = Some (y', acts).
Proof.
  intros y t tk lb [[s1 p1] a1] Hn St. cbn. rewrite Hn, St. eauto.
Qed.

Lemma enabled_call : forall e nin nout t tk,
  nth_error (tasks_of e) t = Some tk -> t_pc tk = PCall -> ep_step e nin nout (CSsl t) <> None.
Proof.
  intros e nin nout t tk Hn Hp. cbn [TlsDuplex.ep_step]. unfold tasks_of in Hn. rewrite Hn.
  destruct (call E D M (e_ideal e) (t_meth tk) (t_buf tk) (hd [] (deque (y_sh (e_sys e))))) as [[i1 o] wd].
  assert (exists r, step (t_meth tk) (t_buf tk) (y_sh (e_sys e)) (t_pc tk)
            (LSsl {| a_meth := t_meth tk; a_arg := expected_arg (t_meth tk) (t_buf tk) (y_sh (e_sys e)); a_out := o; a_wdelta := wd |}) = Some r) as [r St].
  { rewrite Hp. cbv beta iota delta [TlsPump.step]. cbn [a_meth a_arg a_out a_wdelta]. rewrite meth_eqb_refl, Nat.eqb_refl. cbn [andb negb].
    cbv zeta. destruct o; try (eexists; reflexivity).
    destruct (t_meth tk); try (eexists; reflexivity).
    match goal with |- context [match ?d with [] => Some _ | _ :: _ => Some _ end] => destruct d end; eexists; reflexivity. }
  destruct (sys_step_some _ _ _ _ _ Hn St) as [y' [acts S]]. eapply pump_some; eauto.
Qed.

Lemma enabled_lab : forall e nin nout t tk lb r cl i w g nin0,
  nth_error (tasks_of e) t = Some tk -> step (t_meth tk) (t_buf tk) (shp e) (t_pc tk) lb = Some r ->
  ep_step e nin nout cl = TlsDuplex.pump fl e i w g nin0 nout (SStep t lb) -> ep_step e nin nout cl <> None.
Proof.
  intros e nin nout t tk lb r cl i w g nin0 Hn St Heq. rewrite Heq.
  destruct (sys_step_some _ _ _ _ _ Hn St) as [y' [acts S]]. eapply pump_some; eauto.
Qed.

(* what being stuck means for one endpoint that satisfies the invariant *)
Lemma ep_stuck_shape : forall e nin nout,
  EInv D e -> ep_stuck e nin nout ->
  (forall t tk, nth_error (tasks_of e) t = Some tk -> pending tk = true -> t_pc tk = PRecving /\ nin = []) /\
  wbio (shp e) = [] /\ deque (shp e) = [].
Proof.
  intros e nin nout I Hst.
  assert (NoCall : forall t tk, nth_error (tasks_of e) t = Some tk -> t_pc tk <> PCall).
  { intros t tk Hn Hp. apply (enabled_call e nin nout t tk Hn Hp). apply Hst. intros; discriminate. }
  assert (NoSending : forall t tk, nth_error (tasks_of e) t = Some tk -> forall k, t_pc tk <> PSending k).
  { intros t tk Hn k Hp.
    assert (St : exists r, step (t_meth tk) (t_buf tk) (shp e) (t_pc tk) (LT TSent) = Some r) by (rewrite Hp; eexists; reflexivity).
    destruct St as [r St].
    apply (enabled_lab e nin nout t tk (LT TSent) r (CSent t) (e_ideal e) (e_written e) (e_got e) nin Hn St); [reflexivity |].
    apply Hst. intros; discriminate. }
  assert (NoFlush : forall t tk, nth_error (tasks_of e) t = Some tk -> forall k, t_pc tk <> PFlush k).
  { intros t tk Hn k Hp. destruct (send_lock (shp e)) eqn:L.
    - destruct (ei_lock D e I) as [Cs _]. unfold shp in L. rewrite L in Cs. cbn in Cs.
      destruct (count_pos_inv is_sending (y_tasks (e_sys e))) as [u [tku [Hu Fu]]]; [lia |].
      destruct (t_pc tku) eqn:Pu; try discriminate. eapply (NoSending u tku Hu); eauto.
    - assert (St : exists r, step (t_meth tk) (t_buf tk) (shp e) (t_pc tk) LGo = Some r).
      { rewrite Hp. cbv beta iota delta [TlsPump.step]. unfold TlsPump.go. rewrite L.
        destruct (wbio (shp e)); [destruct k |]; eexists; reflexivity. }
      destruct St as [r St].
      apply (enabled_lab e nin nout t tk LGo r (CGo t) (e_ideal e) (e_written e) (e_got e) nin Hn St); [reflexivity |].
      apply Hst. intros; discriminate. }
  assert (Reader : forall t tk, nth_error (tasks_of e) t = Some tk -> wr_pc (t_pc tk) = false -> reader_like (t_meth tk) = true).
  { intros t tk Hn Hw. destruct (t_meth tk) eqn:Em; try reflexivity.
    - rewrite (ei_wr D e I t tk Hn Em) in Hw. discriminate.
    - exfalso. exact (ei_nu D e I t tk Hn Em). }
  assert (NoRecvWait : forall t tk, nth_error (tasks_of e) t = Some tk -> forall n, t_pc tk <> PRecvWait n).
  { intros t tk Hn n Hp. destruct (recv_lock (shp e)) eqn:L.
    - destruct (ei_lock D e I) as [_ Cr]. unfold shp in L. rewrite L in Cr. cbn in Cr.
      destruct (count_pos_inv is_recving (y_tasks (e_sys e))) as [u [tku [Hu Fu]]]; [lia |].
      destruct (t_pc tku) eqn:Pu; try discriminate.
      assert (t = u).
      { apply (ei_one D e I t u tk tku Hn Hu); unfold pending_reader, pending.
        - rewrite Hp. cbn. apply (Reader t tk Hn). rewrite Hp. reflexivity.
        - rewrite Pu. cbn. apply (Reader u tku Hu). rewrite Pu. reflexivity. }
      subst u. unfold tasks_of in Hn. rewrite Hn in Hu. inversion Hu; subst. congruence.
    - assert (St : exists r, step (t_meth tk) (t_buf tk) (shp e) (t_pc tk) LGo = Some r).
      { rewrite Hp. cbv beta iota delta [TlsPump.step]. unfold TlsPump.go. rewrite L.
        destruct (f_recheck fl && negb (Nat.eqb (feeds (shp e)) n)); eexists; reflexivity. }
      destruct St as [r St].
      apply (enabled_lab e nin nout t tk LGo r (CGo t) (e_ideal e) (e_written e) (e_got e) nin Hn St); [reflexivity |].
      apply Hst. intros; discriminate. }
  split; [| split].
  - intros t tk Hn Hpend. unfold pending in Hpend.
    destruct (t_pc tk) as [ | k | k | n | | r] eqn:Hp; try discriminate.
    + exfalso. eapply NoCall; eauto.
    + exfalso. eapply NoFlush; eauto.
    + exfalso. eapply NoSending; eauto.
    + exfalso. eapply NoRecvWait; eauto.
    + split; [reflexivity |]. destruct nin as [| b0 nin0]; [reflexivity | exfalso].
      assert (St : exists r, step (t_meth tk) (t_buf tk) (shp e) (t_pc tk) (LT (TRcvd (firstn 1 (b0 :: nin0)))) = Some r)
        by (rewrite Hp; eexists; reflexivity).
      destruct St as [r St].
      apply (enabled_lab e (b0 :: nin0) nout t tk _ r (CRcvd t 1) (e_ideal e) (e_written e) (e_got e) (skipn 1 (b0 :: nin0)) Hn St);
        [reflexivity |]. apply Hst. intros; discriminate.
  - destruct (wbio (shp e)) eqn:Ew; [reflexivity | exfalso].
    destruct (ei_wbio D e I) as [t [tk [Hn F]]]; [rewrite Ew; discriminate |].
    unfold flusher in F. destruct (t_pc tk) eqn:Hp; try discriminate.
    + eapply NoCall; eauto.
    + eapply NoFlush; eauto.
  - destruct (deque (shp e)) eqn:Ed; [reflexivity | exfalso].
    destruct (ei_deque D e I) as [t [tk [Hn F]]]; [rewrite Ed; discriminate |].
    unfold dwit in F. apply andb_prop in F. destruct F as [_ F]. destruct (t_pc tk) eqn:Hp; try discriminate.
    eapply NoCall; eauto.
Qed.

End Stuck.

(* ------------------------------------------------------------------ the progress theorem *)

Section Final.
Variable fl : flags.
Variable E D : byte -> byte.
Variable M : nat.
Hypothesis DE : forall x, D (E x) = x.
Notation ep_step := (ep_step fl E D M).
Notation dstep := (dstep fl E D M).
Notation gexec := (gexec fl E D M).

(* no transition other than a new application call is enabled *)
Definition stuck (c : duplex) : Prop :=
  forall side cl, (forall m n d, cl <> CSpawn m n d) -> dstep c (side, cl) = None.

Lemma stuck_ep : forall c, stuck c ->
  ep_stuck fl E D M (dA c) (nBA c) (nAB c) /\ ep_stuck fl E D M (dB c) (nAB c) (nBA c).
Proof.
  intros c H. split; intros cl Hc.
  - specialize (H true cl Hc). unfold TlsDuplex.dstep in H. destruct (ep_step (dA c) (nBA c) (nAB c) cl) as [[[? ?] ?] |]; [discriminate | reflexivity].
  - specialize (H false cl Hc). unfold TlsDuplex.dstep in H. destruct (ep_step (dB c) (nAB c) (nBA c) cl) as [[[? ?] ?] |]; [discriminate | reflexivity].
Qed.

Lemma parse1_encs_none : forall recs, parse1 D (encs E recs) = None -> recs = [].
Proof.
  intros recs H. destruct recs as [| [t p] recs']; [reflexivity | exfalso].
  rewrite (encs_cons E) in H.
  rewrite <- (firstn_all (enc E t p ++ encs E recs')) in H.
  rewrite (parse1_prefix E D DE) in H. rewrite app_length, (enc_length E) in H.
  destruct (Nat.leb (2 + length p) (2 + length p + length (encs E recs'))) eqn:L; [discriminate |].
  apply Nat.leb_gt in L. lia.
Qed.

Definition has_pending (e : endpoint) : Prop := exists t tk, nth_error (tasks_of e) t = Some tk /\ pending tk = true.

Lemma duplex_progress : forall ls c,
  gexec duplex0 ls = Some c -> stuck c ->
  (forall t tk, nth_error (tasks_of (dA c)) t = Some tk -> pending tk = true -> t_pc tk = PRecving /\ nBA c = []) /\
  (forall t tk, nth_error (tasks_of (dB c)) t = Some tk -> pending tk = true -> t_pc tk = PRecving /\ nAB c = []) /\
  wbio (shp (dA c)) = [] /\ wbio (shp (dB c)) = [] /\ deque (shp (dA c)) = [] /\ deque (shp (dB c)) = [] /\
  (has_pending (dB c) -> exists recs, i_rbio (e_ideal (dB c)) = encs E recs /\
       e_got (dB c) ++ i_plain (e_ideal (dB c)) ++ data_of recs = e_written (dA c)) /\
  (has_pending (dA c) -> exists recs, i_rbio (e_ideal (dA c)) = encs E recs /\
       e_got (dA c) ++ i_plain (e_ideal (dA c)) ++ data_of recs = e_written (dB c)) /\
  (* a recv() that is still waiting has returned everything the other side has written so far *)
  (forall t tk, nth_error (tasks_of (dB c)) t = Some tk -> pending tk = true -> t_meth tk = MRead ->
       e_got (dB c) = e_written (dA c)) /\
  (forall t tk, nth_error (tasks_of (dA c)) t = Some tk -> pending tk = true -> t_meth tk = MRead ->
       e_got (dA c) = e_written (dB c)).
Proof.
  intros ls c H Hst.
  destruct (GInv_exec fl E D M _ _ _ H (conj (EInv_init D true) (EInv_init D false))) as [IA IB].
  destruct (stuck_ep c Hst) as [SA SB].
  destruct (ep_stuck_shape fl E D M _ _ _ IA SA) as [PA [WA DA]].
  destruct (ep_stuck_shape fl E D M _ _ _ IB SB) as [PB [WB DB]].
  destruct (DInv_exec fl E D M DE _ _ _ (gexec_dexec fl E D M _ _ _ H) (DInv_init E)) as [[r1 [S1 P1]] [[r2 [S2 P2]] _]].
  unfold ep_wbio, ep_deque in *. fold (shp (dA c)) (shp (dB c)) in *.
  split; [exact PA |]. split; [exact PB |]. split; [exact WA |]. split; [exact WB |]. split; [exact DA |]. split; [exact DB |].
  assert (QB : has_pending (dB c) -> exists recs, i_rbio (e_ideal (dB c)) = encs E recs /\
       e_got (dB c) ++ i_plain (e_ideal (dB c)) ++ data_of recs = e_written (dA c)).
  { intros [t [tk [Hn Hp]]]. destruct (PB t tk Hn Hp) as [_ Hnet]. exists r1.
    rewrite Hnet, WA in S1. cbn in S1. rewrite app_nil_r in S1. split; [exact S1 |].
    rewrite DA in P1. cbn in P1. rewrite app_nil_r in P1. exact P1. }
  assert (QA : has_pending (dA c) -> exists recs, i_rbio (e_ideal (dA c)) = encs E recs /\
       e_got (dA c) ++ i_plain (e_ideal (dA c)) ++ data_of recs = e_written (dB c)).
  { intros [t [tk [Hn Hp]]]. destruct (PA t tk Hn Hp) as [_ Hnet]. exists r2.
    rewrite Hnet, WB in S2. cbn in S2. rewrite app_nil_r in S2. split; [exact S2 |].
    rewrite DB in P2. cbn in P2. rewrite app_nil_r in P2. exact P2. }
  split; [exact QB |]. split; [exact QA |]. split.
  - intros t tk Hn Hp Hm. destruct (QB (ex_intro _ t (ex_intro _ tk (conj Hn Hp)))) as [recs [Rb Eq]].
    destruct (PB t tk Hn Hp) as [Hpc _].
    destruct (ei_rd D _ IB t tk Hn Hm) as [Pl [_ Pn]]; [rewrite Hpc; reflexivity |].
    rewrite Rb in Pn. apply parse1_encs_none in Pn. subst recs. rewrite Pl in Eq. cbn in Eq. rewrite app_nil_r in Eq. exact Eq.
  - intros t tk Hn Hp Hm. destruct (QA (ex_intro _ t (ex_intro _ tk (conj Hn Hp)))) as [recs [Rb Eq]].
    destruct (PA t tk Hn Hp) as [Hpc _].
    destruct (ei_rd D _ IA t tk Hn Hm) as [Pl [_ Pn]]; [rewrite Hpc; reflexivity |].
    rewrite Rb in Pn. apply parse1_encs_none in Pn. subst recs. rewrite Pl in Eq. cbn in Eq. rewrite app_nil_r in Eq. exact Eq.
Qed.

End Final.
