(* C13: the shield-free world.  For programs without ignore_cancellation / cancel_shielded_coro_yield no
   __cancel_task_unless_done handle is ever created, the coroutine stack never holds a shield driver, and therefore
   task.uncancel() never finds the counter at zero: g_floor = 0 for all such programs and all controller schedules. *)
From Coq Require Import ZArith List Bool Arith Lia.
From EN Require Import Conc.CancelScope Conc.CancelScopeDomain Proofs.C13_core Proofs.C13_inv Proofs.C13_more
  Proofs.C13_floor.
Import ListNotations.

Definition kind_ok (k : hkind) : bool := match k with HDelayedCancel _ => false | _ => true end.
Definition h_ok (h : handle) : Prop := kind_ok (h_kind h) = true.
Definition t_ok (t : timer) : Prop := h_ok (tm_h t).

(* ---------------- heap operations only move timers around (generic predicate that holds of the dummy timer) *)
Section Heap.
Variable P : timer -> Prop.
Hypothesis Pd : P dummy_t.

Lemma FP_upd : forall l i x, Forall P l -> P x -> Forall P (upd l i x).
Proof.
  induction l as [|a l IH]; intros i x Hl Hx; simpl; [constructor|].
  inversion Hl; subst. destruct i; constructor; auto.
Qed.
Lemma FP_nth : forall l i, Forall P l -> P (nth i l dummy_t).
Proof. induction l as [|a l IH]; intros i Hl; destruct i; simpl; auto; inversion Hl; subst; auto. Qed.
Lemma FP_siftdown : forall fuel hp s p x, Forall P hp -> P x -> Forall P (siftdown fuel hp s p x).
Proof.
  induction fuel as [|fu IH]; intros hp s p x Hh Hx; cbn [siftdown]; [apply FP_upd; auto|].
  destruct (s <? p); [|apply FP_upd; auto].
  match goal with |- context [if ?c then _ else _] => destruct c end; [|apply FP_upd; auto].
  apply IH; [|exact Hx]. apply FP_upd; [exact Hh|]. apply FP_nth; exact Hh.
Qed.
Lemma FP_heappush : forall hp x, Forall P hp -> P x -> Forall P (heappush hp x).
Proof.
  intros. unfold heappush. apply FP_siftdown; [|assumption]. apply Forall_app; split; [assumption|constructor; auto].
Qed.
Lemma FP_siftup_loop : forall fuel hp p e, Forall P hp -> Forall P (fst (siftup_loop fuel hp p e)).
Proof.
  induction fuel as [|fu IH]; intros hp p e Hh; cbn [siftup_loop]; [exact Hh|].
  match goal with |- context [if ?c then _ else _] => destruct c end; [|exact Hh].
  apply IH. apply FP_upd; [exact Hh|]. apply FP_nth; exact Hh.
Qed.
Lemma FP_siftup : forall hp p, Forall P hp -> Forall P (siftup hp p).
Proof.
  intros hp p Hh. unfold siftup.
  pose proof (FP_siftup_loop (length hp) hp p (length hp) Hh) as H1.
  destruct (siftup_loop (length hp) hp p (length hp)) as [hp' p']. simpl in H1.
  apply FP_siftdown; [exact H1|]. apply FP_nth; exact Hh.
Qed.
Lemma FP_heappop : forall hp t hp', Forall P hp -> heappop hp = Some (t, hp') -> P t /\ Forall P hp'.
Proof.
  intros hp t hp' Hh H. unfold heappop in H.
  assert (Hr : Forall P (rev hp)) by (apply Forall_rev; exact Hh).
  destruct (rev hp) as [|lastelt r]; [discriminate|]. inversion Hr as [|? ? Hl Hr']; subst.
  assert (Hrr : Forall P (rev r)) by (apply Forall_rev; exact Hr').
  destruct (rev r) as [|top rest].
  - inversion H; subst. split; [exact Hl|constructor].
  - inversion Hrr as [|? ? Ht Hrest]; subst. inversion H; subst. split; [exact Ht|].
    apply FP_siftup. constructor; assumption.
Qed.
Lemma FP_drop_cancelled_heads : forall fuel hp, Forall P hp -> Forall P (drop_cancelled_heads fuel hp).
Proof.
  induction fuel as [|fu IH]; intros hp Hh; simpl; [exact Hh|].
  destruct hp as [|t hp0]; [exact Hh|]. destruct (h_canc (tm_h t)); [|exact Hh].
  destruct (heappop (t :: hp0)) as [[t' hp']|] eqn:E; [|exact Hh].
  apply IH. eapply FP_heappop; eauto.
Qed.
Lemma FP_move_due : forall fuel now hp rd (Q : handle -> Prop),
  Forall P hp -> Forall Q rd -> (forall t, P t -> Q (tm_h t)) ->
  Forall P (fst (move_due fuel now hp rd)) /\ Forall Q (snd (move_due fuel now hp rd)).
Proof.
  induction fuel as [|fu IH]; intros now hp rd Q Hh Hr HQ; simpl; [split; assumption|].
  destruct hp as [|t hp0]; [split; assumption|]. destruct (tm_when t <=? now); [|split; assumption].
  destruct (heappop (t :: hp0)) as [[t' hp']|] eqn:E; [|split; assumption].
  destruct (FP_heappop _ _ _ Hh E) as [Ht Hh'].
  apply IH; [exact Hh'| |exact HQ]. apply Forall_app; split; [exact Hr|constructor; auto].
Qed.
End Heap.

Lemma t_ok_dummy : t_ok dummy_t. Proof. reflexivity. Qed.

(* ---------------- how a piece of the machine may change the queues: new handles are never __cancel_task_unless_done *)
Record krel (st st' : state) : Prop := mkKR {
  kr_ready : forall h, In h (ready st') -> (exists h0, In h0 (ready st) /\ h_kind h0 = h_kind h) \/ h_ok h;
  kr_heap : Forall t_ok (heap st) -> Forall t_ok (heap st');
  kr_frames : frames st' = frames st;
  kr_md : md st' = md st }.

Lemma krel_refl : forall st, krel st st.
Proof. intros; constructor; auto. intros h Hh. left. exists h. auto. Qed.
Lemma krel_trans : forall a b c, krel a b -> krel b c -> krel a c.
Proof.
  intros a b c [r1 h1 f1 m1] [r2 h2 f2 m2]. constructor; auto; try congruence.
  intros h Hh. destruct (r2 h Hh) as [[h0 [Hin Hk]]|Hok]; [|right; exact Hok].
  destruct (r1 h0 Hin) as [[h00 [Hin0 Hk0]]|Hok0].
  - left. exists h00. split; [exact Hin0|congruence].
  - right. unfold h_ok in *. congruence.
Qed.
Record same3 (st st' : state) : Prop := mkS3 { s3_ready : ready st' = ready st; s3_heap : heap st' = heap st;
  s3_frames : frames st' = frames st; s3_md : md st' = md st }.
Ltac sm3 := constructor; reflexivity.
Lemma same3_krel : forall st st', same3 st st' -> krel st st'.
Proof.
  intros st st' [r h f m]. constructor; auto.
  - intros x Hx. left. exists x. rewrite r in Hx. auto.
  - rewrite h. auto.
Qed.
Ltac k3 := apply same3_krel; sm3.

Lemma krel_cancel_handle : forall st hid, krel st (cancel_handle st hid).
Proof.
  intros. constructor; try reflexivity.
  - intros h Hh. simpl in Hh. apply in_map_iff in Hh. destruct Hh as [h0 [E Hin]]. left. exists h0. split; [exact Hin|].
    subst h. unfold mark_h. destruct (h_id h0 =? hid); reflexivity.
  - intros H. simpl. apply Forall_forall. intros t Ht. apply in_map_iff in Ht. destruct Ht as [t0 [E Hin]].
    rewrite Forall_forall in H. specialize (H t0 Hin). subst t. unfold t_ok, h_ok, mark_t, mark_h in *. simpl.
    destruct (h_id (tm_h t0) =? hid); exact H.
Qed.
Lemma krel_cancel_ohandle : forall st h, krel st (cancel_ohandle st h).
Proof. intros st [h|]; [apply krel_cancel_handle|apply krel_refl]. Qed.
Lemma krel_call_soon : forall st k, kind_ok k = true -> krel st (fst (call_soon st k)).
Proof.
  intros st k Hk. constructor; auto.
  intros h Hh. change (In h (ready st ++ [mkH (nexth st) k false])) in Hh.
  apply in_app_or in Hh. destruct Hh as [Hh|[E|[]]]; [left; exists h; auto|]. subst h. right. exact Hk.
Qed.
Lemma krel_call_at : forall st w k, kind_ok k = true -> krel st (fst (call_at st w k)).
Proof.
  intros st w k Hk. constructor; try reflexivity.
  - intros h Hh. left. exists h. auto.
  - intros H. simpl. apply (FP_heappush t_ok t_ok_dummy); [exact H|exact Hk].
Qed.
Lemma krel_schedule_cbs : forall cbs st f, krel st (schedule_cbs st f cbs).
Proof.
  induction cbs as [|c cbs IH]; intros; cbn [schedule_cbs]; [apply krel_refl|].
  eapply krel_trans; [apply (krel_call_soon st (HFutCb f c)); reflexivity|apply IH].
Qed.
Lemma krel_fut_finish : forall st f s, krel st (fst (fut_finish st f s)).
Proof.
  intros. unfold fut_finish. destruct (f_st (get_fut st f)); cbn [fst]; try apply krel_refl.
  eapply krel_trans; [|apply krel_schedule_cbs]. k3.
Qed.
Lemma krel_task_cancel : forall st m, krel st (task_cancel st m).
Proof.
  intros. unfold task_cancel. destruct (task_done st); [apply krel_refl|].
  set (st1 := set_t_cnt st (S (t_cnt st))).
  assert (Q1 : krel st st1) by (unfold st1; k3).
  destruct (t_waiter st1) as [f|].
  - unfold fut_cancel. pose proof (krel_fut_finish st1 f (FCanc m)) as Q2.
    destruct (fut_finish st1 f (FCanc m)) as [st2 ok]. cbn [fst] in Q2.
    destruct ok; [exact (krel_trans _ _ _ Q1 Q2)|].
    eapply krel_trans; [exact (krel_trans _ _ _ Q1 Q2)|k3].
  - eapply krel_trans; [exact Q1|k3].
Qed.
Lemma krel_upd_scope : forall st k f, krel st (upd_scope st k f). Proof. intros; k3. Qed.
Lemma krel_deliver_arm : forall st k r, krel st (deliver_arm st k r).
Proof.
  intros st k [|]; unfold deliver_arm; [|apply krel_upd_scope].
  eapply krel_trans; [apply (krel_call_soon st (HDeliver k)); reflexivity|apply krel_upd_scope].
Qed.
Lemma krel_deliver : forall st k, krel st (deliver st k).
Proof.
  intros. unfold deliver. destruct (negb (s_host (get_scope st k))); [apply krel_refl|].
  destruct (delayed st) as [[h m]|]; [apply krel_deliver_arm|].
  destruct (negb (t_must st) && negb (task_is_current st)); [|apply krel_deliver_arm].
  eapply krel_trans; [|apply krel_deliver_arm]. unfold deliver_issue.
  eapply krel_trans; [apply krel_task_cancel|apply krel_upd_scope].
Qed.
Lemma krel_scope_cancel : forall st k, krel st (scope_cancel st k).
Proof.
  intros. unfold scope_cancel. destruct (s_called (get_scope st k)); [apply krel_refl|].
  eapply krel_trans; [|apply krel_deliver]. eapply krel_trans; [apply krel_cancel_ohandle|apply krel_upd_scope].
Qed.
Lemma krel_setup_timeout : forall st k, krel st (setup_timeout st k).
Proof.
  intros. unfold setup_timeout. destruct (s_deadline (get_scope st k)) as [dl|]; [|apply krel_refl].
  destruct (dl <=? time st); [apply krel_scope_cancel|].
  eapply krel_trans; [apply (krel_call_at st dl (HScopeCancel k)); reflexivity|apply krel_upd_scope].
Qed.
Lemma krel_scope_reschedule : forall st k w, krel st (scope_reschedule st k w).
Proof.
  intros. unfold scope_reschedule.
  assert (Q1 : krel st (upd_scope (cancel_ohandle st (s_th (get_scope st k))) k (sc_set_deadline w)))
    by (eapply krel_trans; [apply krel_cancel_ohandle|apply krel_upd_scope]).
  destruct (s_state (get_scope st k)); try exact Q1. destruct (s_called (get_scope st k)); [exact Q1|].
  eapply krel_trans; [exact Q1|apply krel_setup_timeout].
Qed.
Lemma krel_check_pending : forall st, krel st (check_pending st).
Proof.
  intros. unfold check_pending. destruct (first_called st (sstack st)) as [k|]; [|apply krel_refl].
  destruct (s_ch (get_scope st k)); [apply krel_refl|apply krel_deliver].
Qed.
Lemma krel_scope_enter : forall st pre dl, krel st (fst (scope_enter st pre dl)).
Proof.
  intros. unfold scope_enter. cbn [fst]. destruct pre.
  - eapply krel_trans; [|apply krel_deliver]. k3.
  - eapply krel_trans; [|apply krel_setup_timeout]. k3.
Qed.
Lemma same3_exit_called : forall st k s exc, same3 st (fst (fst (exit_called st k s exc))).
Proof.
  intros. unfold exit_called. destruct exc as [[m| |]|]; try (cbn [fst]; sm3).
  destruct (uncancel_loop _ _ _ _) as [[[c cnt] fl] hit]. cbn [fst]. sm3.
Qed.
Lemma krel_scope_exit : forall st k exc, krel st (fst (scope_exit st k exc)).
Proof.
  intros. unfold scope_exit. destruct (negb (s_host (get_scope st k))); [cbn [fst]; k3|].
  set (s := get_scope st k). set (st2 := set_sstack _ _).
  assert (Q2 : krel st st2).
  { unfold st2. eapply krel_trans; [apply krel_cancel_ohandle|]. eapply krel_trans; [apply krel_cancel_ohandle|k3]. }
  set (r := if s_called s then exit_called st2 k s exc else (st2, s_calls s, s_caught s)).
  set (st4 := if s_called s then exit_drop_delayed (fst (fst r)) k else fst (fst r)).
  assert (Q4 : krel st2 st4).
  { unfold st4, r. destruct (s_called s); [|apply krel_refl].
    apply (krel_trans _ (fst (fst (exit_called st2 k s exc)))).
    - apply same3_krel. apply same3_exit_called.
    - unfold exit_drop_delayed. destruct (delayed _) as [[h m]|]; [|apply krel_refl].
      destruct (msg_eqb m (Some k)); [|apply krel_refl]. eapply krel_trans; [|apply krel_cancel_handle]. k3. }
  destruct (exit_takeback st4 (s_called s) (snd (fst r))) as [st4b calls'] eqn:ET.
  assert (Q4b : krel st4 st4b).
  { unfold exit_takeback in ET. destruct (fixF st4 && s_called s); inversion ET; subst; [k3|apply krel_refl]. }
  cbn [fst]. eapply krel_trans; [exact Q2|]. eapply krel_trans; [exact Q4|]. eapply krel_trans; [exact Q4b|].
  eapply krel_trans; [|apply krel_check_pending]. k3.
Qed.
Lemma krel_task_yield : forall st y, krel st (task_yield st y).
Proof.
  intros st [|f]; unfold task_yield; [apply (krel_call_soon st HStep); reflexivity|].
  set (st1 := set_t_waiter (add_cb st f CbWake) (Some f)).
  assert (Q1 : krel st st1) by (unfold st1; k3).
  destruct (t_must st1); [|exact Q1].
  pose proof (krel_fut_finish st1 f (FCanc (t_msg st1))) as Q2. unfold fut_cancel.
  destruct (fut_finish st1 f (FCanc (t_msg st1))) as [st2 ok]. cbn [fst] in Q2.
  destruct ok; [|exact (krel_trans _ _ _ Q1 Q2)]. eapply krel_trans; [exact (krel_trans _ _ _ Q1 Q2)|k3].
Qed.

(* ---------------- the invariant of the shield-free world *)
Definition frame_sf (fr : frame) : bool :=
  match fr with
  | FStart p | FSeq p => shield_free p
  | FShield _ _ _ _ => false
  | FWait (WShYield _) => false
  | _ => true
  end.
Definition ctl_sf (m : mode) : bool := match m with MRun (CExec p) => shield_free p | _ => true end.

Record sfw (st : state) : Prop := mkW {
  w_frames : forallb frame_sf (frames st) = true;
  w_ctl : ctl_sf (md st) = true;
  w_ready : Forall h_ok (ready st);
  w_heap : Forall t_ok (heap st) }.

Lemma krel_queues : forall st st', krel st st' -> Forall h_ok (ready st) -> Forall t_ok (heap st) ->
  Forall h_ok (ready st') /\ Forall t_ok (heap st').
Proof.
  intros st st' [r h _ _] Hr Hh. split; [|auto].
  apply Forall_forall. intros x Hx. destruct (r x Hx) as [[h0 [Hin Hk]]|Hok]; [|exact Hok].
  rewrite Forall_forall in Hr. specialize (Hr h0 Hin). unfold h_ok in *. congruence.
Qed.

(* sfw carried over a krel step that leaves frames / mode as given *)
Lemma sfw_krel : forall st st', krel st st' -> sfw st ->
  forallb frame_sf (frames st') = true -> ctl_sf (md st') = true -> sfw st'.
Proof.
  intros st st' K [wf wc wr wh] Hf Hc. destruct (krel_queues _ _ K wr wh). constructor; assumption.
Qed.

Lemma frames_no_shield : forall k, forallb frame_sf k = true -> no_shield k.
Proof.
  intros k H f Hf. rewrite forallb_forall in H. specialize (H f Hf). destruct f; try reflexivity. discriminate.
Qed.
Lemma yield_out_sf : forall k y st, forallb frame_sf k = true -> yield_out k y st = (st, k, y).
Proof.
  induction k as [|fr k IH]; intros y st H; cbn [yield_out]; [reflexivity|].
  cbn [forallb] in H. apply andb_prop in H. destruct H as [H1 H2].
  destruct fr; try (rewrite IH by exact H2; reflexivity). discriminate.
Qed.

Lemma sfw_mk : forall st st1 X, krel st st1 -> sfw st -> ready X = ready st1 -> heap X = heap st1 ->
  forallb frame_sf (frames X) = true -> ctl_sf (md X) = true -> sfw X.
Proof.
  intros st st1 X K [wf wc wr wh] Er Eh Hf Hc. destruct (krel_queues _ _ K wr wh) as [R H].
  constructor; [exact Hf|exact Hc|rewrite Er; exact R|rewrite Eh; exact H].
Qed.

Lemma sfw_do_yield : forall st wt y, sfw st -> (forall id, wt <> WShYield id) -> sfw (do_yield st wt y).
Proof.
  intros st wt y W Hw. unfold do_yield.
  assert (Hf : forallb frame_sf (FWait wt :: frames st) = true).
  { cbn [forallb]. rewrite (w_frames _ W). destruct wt; try reflexivity. exfalso. eapply Hw. reflexivity. }
  rewrite yield_out_sf by exact Hf.
  set (st1 := set_frames st (FWait wt :: frames st)).
  assert (K : krel st1 (task_yield st1 y)) by apply krel_task_yield.
  assert (W1 : sfw st1) by (destruct W; constructor; assumption).
  eapply (sfw_mk st1 (task_yield st1 y)); [exact K|exact W1|reflexivity|reflexivity| |reflexivity].
  cbn [frames set_md]. rewrite (kr_frames _ _ K). exact Hf.
Qed.

Lemma sf_seq : forall a b, shield_free (PSeq a b) = true -> shield_free a = true /\ shield_free b = true.
Proof. intros a b H. cbn in H. apply andb_prop in H. exact H. Qed.

Ltac keep_tac Keep Hf Hm Hp :=
  apply Keep; [reflexivity|reflexivity|exact Hf|
    first [reflexivity | (cbn [md emit set_trace set_md set_frames push set_time]; rewrite Hm; exact Hp)]].

Lemma sfw_exec : forall st p, sfw st -> md st = MRun (CExec p) -> sfw (exec st p).
Proof.
  intros st p W Hm. assert (Hp : shield_free p = true) by (pose proof (w_ctl _ W) as C; rewrite Hm in C; exact C).
  pose proof (w_frames _ W) as Hf.
  assert (Keep : forall X, ready X = ready st -> heap X = heap st -> forallb frame_sf (frames X) = true ->
                           ctl_sf (md X) = true -> sfw X)
    by (intros X; apply (sfw_mk st st X (krel_refl st) W)).
  destruct p; unfold exec.
  - keep_tac Keep Hf Hm Hp.
  - destruct (sf_seq _ _ Hp) as [Ha Hb]. apply Keep; try reflexivity.
    + cbn [frames set_md push set_frames forallb frame_sf]. rewrite Hb, Hf. reflexivity.
    + exact Ha.
  - destruct d.
    + apply sfw_do_yield; [keep_tac Keep Hf Hm Hp|intros i E; discriminate].
    + destruct (new_fut (emit st (EvStart id (time st)))) as [st1 f] eqn:E1.
      assert (K1 : krel st st1) by (unfold new_fut in E1; inversion E1; k3).
      pose proof (krel_call_at st1 (time st1 + S d) (HSetRes f) eq_refl) as K2.
      destruct (call_at st1 (time st1 + S d) (HSetRes f)) as [st2 h]. cbn [fst] in K2.
      pose proof (krel_trans _ _ _ K1 K2) as K.
      apply sfw_do_yield; [|intros i E; discriminate].
      eapply (sfw_mk st st2 st2 K W); try reflexivity.
      * rewrite (kr_frames _ _ K). exact Hf.
      * rewrite (kr_md _ _ K), Hm. exact Hp.
  - destruct (new_fut (emit st (EvStart id (time st)))) as [st1 f] eqn:E1.
    assert (K1 : krel st st1) by (unfold new_fut in E1; inversion E1; k3).
    pose proof (krel_call_at st1 (time st1 + d) (HSetExc f) eq_refl) as K2.
    destruct (call_at st1 (time st1 + d) (HSetExc f)) as [st2 h]. cbn [fst] in K2.
    pose proof (krel_trans _ _ _ K1 K2) as K.
    apply sfw_do_yield; [|intros i E; discriminate].
    eapply (sfw_mk st st2 st2 K W); try reflexivity.
    + rewrite (kr_frames _ _ K). exact Hf.
    + rewrite (kr_md _ _ K), Hm. exact Hp.
  - apply sfw_do_yield; [keep_tac Keep Hf Hm Hp|intros i E; discriminate].
  - discriminate.
  - keep_tac Keep Hf Hm Hp.
  - pose proof (krel_scope_enter st pre (match delay with Some d => Some (time st + d) | None => None end)) as K.
    destruct (scope_enter st pre _) as [st1 sid]. cbn [fst] in K.
    eapply (sfw_mk st st1 _ K W); try reflexivity.
    + cbn [frames set_md push set_frames emit set_trace forallb frame_sf]. rewrite (kr_frames _ _ K), Hf. reflexivity.
    + exact Hp.
  - discriminate.
  - destruct (nth_scope st k) as [sid|]; [|keep_tac Keep Hf Hm Hp].
    pose proof (krel_scope_cancel st sid) as K. eapply (sfw_mk st _ _ K W); try reflexivity.
    cbn [frames set_md emit set_trace]. rewrite (kr_frames _ _ K). exact Hf.
  - destruct (nth_scope st k) as [sid|]; [|keep_tac Keep Hf Hm Hp].
    pose proof (krel_scope_reschedule st sid (match d with Some d0 => Some (time st + d0) | None => None end)) as K.
    eapply (sfw_mk st _ _ K W); try reflexivity.
    cbn [frames set_md emit set_trace]. rewrite (kr_frames _ _ K). exact Hf.
  - apply Keep; try reflexivity.
    + cbn [frames set_md push set_frames forallb frame_sf]. exact Hf.
    + exact Hp.
Qed.

Lemma sfw_finish : forall st r, sfw st -> sfw (finish st r).
Proof.
  intros st r W. unfold finish.
  destruct r as [e|]; [|destruct (t_must st)];
    (eapply (sfw_mk st st _ (krel_refl st) W); [reflexivity|reflexivity|exact (w_frames _ W)|reflexivity]).
Qed.

Lemma frames_tail : forall fr k, forallb frame_sf (fr :: k) = true -> frame_sf fr = true /\ forallb frame_sf k = true.
Proof. intros fr k H. cbn [forallb] in H. apply andb_prop in H. exact H. Qed.

Lemma sfw_ret : forall st, sfw st -> sfw (ret st).
Proof.
  intros st W. unfold ret. destruct (frames st) as [|fr k] eqn:Ef; [apply sfw_finish; exact W|].
  pose proof (w_frames _ W) as Hf. rewrite Ef in Hf. destruct (frames_tail _ _ Hf) as [Hfr Hk].
  assert (Keep : forall X, ready X = ready st -> heap X = heap st -> frames X = k -> ctl_sf (md X) = true -> sfw X).
  { intros X Er Eh Efx Hc. apply (sfw_mk st st X (krel_refl st) W Er Eh); [rewrite Efx; exact Hk|exact Hc]. }
  destruct fr; try (apply Keep; reflexivity).
  - apply Keep; try reflexivity. exact Hfr.
  - apply Keep; try reflexivity. exact Hfr.
  - pose proof (krel_scope_exit (set_frames st k) sid None) as K.
    destruct (scope_exit (set_frames st k) sid None) as [st1 sw]. cbn [fst] in K.
    assert (W0 : sfw (set_frames st k)) by (apply Keep; try reflexivity; exact (w_ctl _ W)).
    assert (F1 : forallb frame_sf (frames st1) = true) by (rewrite (kr_frames _ _ K); exact Hk).
    destruct kind; [|destruct (s_caught (get_scope st1 sid))];
      (eapply (sfw_mk _ st1 _ K W0); [reflexivity|reflexivity|exact F1|reflexivity]).
  - discriminate.
Qed.

Lemma sfw_raise : forall st e, sfw st -> sfw (raise_ st e).
Proof.
  intros st e W. unfold raise_. destruct (frames st) as [|fr k] eqn:Ef; [apply sfw_finish; exact W|].
  pose proof (w_frames _ W) as Hf. rewrite Ef in Hf. destruct (frames_tail _ _ Hf) as [Hfr Hk].
  assert (Keep : forall X, ready X = ready st -> heap X = heap st -> frames X = k -> ctl_sf (md X) = true -> sfw X).
  { intros X Er Eh Efx Hc. apply (sfw_mk st st X (krel_refl st) W Er Eh); [rewrite Efx; exact Hk|exact Hc]. }
  destruct fr; try (apply Keep; reflexivity).
  - pose proof (krel_scope_exit (set_frames st k) sid (Some e)) as K.
    destruct (scope_exit (set_frames st k) sid (Some e)) as [st1 sw]. cbn [fst] in K.
    assert (W0 : sfw (set_frames st k)) by (apply Keep; try reflexivity; exact (w_ctl _ W)).
    assert (F1 : forallb frame_sf (frames st1) = true) by (rewrite (kr_frames _ _ K); exact Hk).
    destruct kind; [destruct sw|destruct (s_caught (get_scope st1 sid))];
      (eapply (sfw_mk _ st1 _ K W0); [reflexivity|reflexivity|exact F1|reflexivity]).
  - discriminate.
  - destruct (catches c e); apply Keep; reflexivity.
Qed.

Lemma sfw_wake : forall st wt v, sfw st -> (forall id, wt <> WShYield id) -> sfw (wake st wt v).
Proof.
  intros st wt v W Hw. unfold wake.
  assert (Keep : forall X, ready X = ready st -> heap X = heap st -> frames X = frames st -> ctl_sf (md X) = true -> sfw X).
  { intros X Er Eh Efx Hc. apply (sfw_mk st st X (krel_refl st) W Er Eh); [rewrite Efx; exact (w_frames _ W)|exact Hc]. }
  destruct wt as [id|id|id f h].
  - destruct v; apply Keep; reflexivity.
  - exfalso. eapply Hw. reflexivity.
  - pose proof (krel_cancel_handle st h) as K.
    destruct v; (eapply (sfw_mk st _ _ K W); [reflexivity|reflexivity|exact (w_frames _ W)|reflexivity]).
Qed.

Lemma same3_observe : forall st k v, same3 st (observe_resumption st k v).
Proof.
  intros. unfold observe_resumption.
  repeat match goal with |- context [match ?x with _ => _ end] => destruct x end; sm3.
Qed.

Lemma sfw_task_step : forall st v, sfw st -> md st = MLoop -> sfw (task_step st v).
Proof.
  intros st v W Hm. unfold task_step.
  set (p := if t_must st then _ else _).
  assert (P : same3 st (fst p)) by (unfold p; destruct (t_must st); sm3).
  destruct p as [st0 v0]. cbn [fst] in P.
  set (st1 := set_md (set_t_waiter st0 None) (MRun CRet)).
  assert (Hf1 : frames st1 = frames st) by (destruct P; assumption).
  pose proof (w_frames _ W) as Hf.
  rewrite Hf1. rewrite resume_in_no_shield by (apply frames_no_shield; exact Hf).
  assert (W1 : sfw (set_frames st1 (frames st))).
  { destruct P as [r h f m]. destruct W as [wf wc wr wh].
    constructor; [exact Hf|reflexivity|change (Forall h_ok (ready st0)); rewrite r; exact wr
                 |change (Forall t_ok (heap st0)); rewrite h; exact wh]. }
  pose proof (same3_observe (set_frames st1 (frames st)) (frames st) v0) as SO.
  set (st2 := observe_resumption (set_frames st1 (frames st)) (frames st) v0) in *.
  assert (W2 : sfw st2).
  { destruct SO as [r h f m]. eapply (sfw_mk _ _ _ (krel_refl _) W1); [exact r|exact h|rewrite f; exact Hf|rewrite m; reflexivity]. }
  assert (Build : forall X K, ready X = ready st2 -> heap X = heap st2 -> frames X = K -> forallb frame_sf K = true ->
                              ctl_sf (md X) = true -> sfw X).
  { intros X K Er Eh Efx HK Hc. apply (sfw_mk _ _ X (krel_refl st2) W2 Er Eh); [rewrite Efx; exact HK|exact Hc]. }
  clearbody st2.
  destruct (frames st) as [|fr k'] eqn:Ek.
  - apply (Build _ (frames st2)); try reflexivity. exact (w_frames _ W2).
  - destruct (frames_tail _ _ Hf) as [Hfr Hk].
    destruct fr; try (apply (Build _ (frames st2)); try reflexivity; exact (w_frames _ W2)).
    + destruct v0; apply (Build _ k'); try reflexivity; try exact Hk; exact Hfr.
    + apply sfw_wake.
      * apply (Build _ k'); try reflexivity; [exact Hk|].
        cbn [md set_frames]. rewrite (s3_md _ _ SO). reflexivity.
      * intros i E. subst w. discriminate.
Qed.

Lemma sfw_of_krel_loop : forall st st', krel st st' -> sfw st -> sfw st'.
Proof.
  intros st st' K W. eapply (sfw_mk st st' st' K W); try reflexivity.
  - rewrite (kr_frames _ _ K). exact (w_frames _ W).
  - rewrite (kr_md _ _ K). exact (w_ctl _ W).
Qed.

Lemma sfw_run_cb : forall st f c, sfw st -> md st = MLoop -> sfw (run_cb st f c).
Proof.
  intros st f c W Hm. unfold run_cb. destruct c as [|outer|inner].
  - apply sfw_task_step; assumption.
  - destruct (f_st (get_fut st outer)); try exact W;
      (destruct (f_st (get_fut st f)); (eapply sfw_of_krel_loop; [apply krel_fut_finish|exact W])).
  - destruct (fut_done st inner); [exact W|]. eapply sfw_of_krel_loop; [|exact W]. k3.
Qed.

Lemma inject_hok : forall it c rd nh, Forall h_ok rd -> Forall h_ok (fst (inject it c rd nh)).
Proof.
  induction c as [|[[n front] act] c IH]; intros rd nh Hr; cbn [inject]; [exact Hr|].
  destruct (n =? it); [|apply IH; assumption].
  assert (Hn : h_ok (mkH nh (match act with 0 => HExt | S k => HActor k end) false)) by (destruct act; reflexivity).
  apply IH. destruct front.
  - constructor; [exact Hn|exact Hr].
  - apply Forall_app; split; [exact Hr|constructor; [exact Hn|constructor]].
Qed.

Lemma sfw_begin_iter : forall st, sfw st -> md st = MLoop -> sfw (begin_iter st).
Proof.
  intros st [wf wc wr wh] Hm. unfold begin_iter.
  set (st0 := set_iter st (S (iter st))).
  pose proof (inject_hok (S (iter st)) (ctrl st0) (ready st0) (nexth st0) wr) as Hinj.
  destruct (inject (S (iter st)) (ctrl st0) (ready st0) (nexth st0)) as [rd nh]. cbn [fst] in Hinj.
  pose proof (FP_drop_cancelled_heads t_ok t_ok_dummy (length (heap (set_nexth (set_ready st0 rd) nh)))
                (heap (set_nexth (set_ready st0 rd) nh)) wh) as Hdrop.
  set (hp := drop_cancelled_heads _ _) in *.
  set (st1 := set_heap (set_nexth (set_ready st0 rd) nh) hp).
  assert (W1 : sfw st1) by (constructor; [exact wf|exact wc|exact Hinj|exact Hdrop]).
  assert (Fin : forall st2, ready st2 = rd -> frames st2 = frames st -> md st2 = md st -> sfw
     (let '(hp', rd') := move_due (length hp) (time st2) hp (ready st2) in
      set_todo (set_ready (set_heap st2 hp') rd') (length rd'))).
  { intros st2 r2 f2 m2.
    pose proof (FP_move_due t_ok t_ok_dummy (length hp) (time st2) hp (ready st2) h_ok Hdrop
                  ltac:(rewrite r2; exact Hinj) ltac:(intros t Ht; exact Ht)) as [Mh Mr].
    destruct (move_due (length hp) (time st2) hp (ready st2)) as [hp' rd']. cbn [fst snd] in Mh, Mr.
    constructor; [cbn [frames set_todo set_ready set_heap]; rewrite f2; exact wf
                 |cbn [md set_todo set_ready set_heap]; rewrite m2; exact wc|exact Mr|exact Mh]. }
  destruct (ready st1) as [|h0 rd0] eqn:Er; destruct hp as [|t0 hp0] eqn:Eh.
  - destruct W1 as [a b c d]. constructor; [exact a|reflexivity|exact c|exact d].
  - apply Fin; reflexivity.
  - apply Fin; reflexivity.
  - destruct (negb (spinK st1 =? 0) && (spinK st1 <=? S (spin st1))); apply Fin; reflexivity.
Qed.

(* one step of the machine in the shield-free world; and the head of the ready queue is never a delayed-cancel handle *)
Theorem sfw_step : forall st, sfw st -> sfw (step st).
Proof.
  intros st W. unfold step. destruct (md st) as [c| |r|] eqn:Hm; try exact W.
  - destruct c as [p| |e]; [apply sfw_exec; assumption|apply sfw_ret; exact W|apply sfw_raise; exact W].
  - destruct (todo st) as [|n]; [apply sfw_begin_iter; assumption|].
    unfold run_next.
    assert (W1 : sfw (set_todo st n)) by (destruct W; constructor; assumption).
    destruct (ready (set_todo st n)) as [|h rd] eqn:Er; [exact W1|].
    assert (Hh : h_ok h /\ Forall h_ok rd) by (pose proof (w_ready _ W1) as R; rewrite Er in R; inversion R; auto).
    destruct Hh as [Hh Hrd].
    assert (W2 : sfw (set_ready (set_todo st n) rd)) by (destruct W1; constructor; assumption).
    assert (Hm2 : md (set_ready (set_todo st n) rd) = MLoop) by exact Hm.
    destruct (h_canc h); [exact W2|].
    destruct (h_kind h) eqn:Ek; cbn [run_handle].
    + apply sfw_task_step; assumption.
    + apply sfw_run_cb; assumption.
    + destruct (f_st (get_fut _ f)); try exact W2; (eapply sfw_of_krel_loop; [apply krel_fut_finish|exact W2]).
    + eapply sfw_of_krel_loop; [apply krel_fut_finish|exact W2].
    + eapply sfw_of_krel_loop; [apply krel_scope_cancel|exact W2].
    + eapply sfw_of_krel_loop; [apply krel_deliver|exact W2].
    + unfold h_ok in Hh. rewrite Ek in Hh. discriminate.
    + eapply sfw_of_krel_loop; [|exact W2]. k3.
    + destruct (task_done _); [exact W2|]. eapply sfw_of_krel_loop; [|exact W2].
      eapply krel_trans; [|apply krel_task_cancel]. unfold note_ext. destruct (in_shield _); k3.
    + destruct (nth_scope _ k) as [sid|]; [|exact W2]. eapply sfw_of_krel_loop; [|exact W2].
      eapply krel_trans; [apply krel_scope_cancel|k3].
Qed.

Lemma sfw_init : forall fx fb p timers turns k, shield_free p = true -> sfw (init fx fb p timers turns k).
Proof.
  intros fx fb p timers turns k Hp. unfold init.
  set (st0 := mkState _ _ _ _ _ _ _ _ _ _ _ _ _ _ _ _ _ _ _ _ _ _ _ _ _ _ _ _ _ _).
  assert (W0 : sfw st0).
  { constructor; [cbn; rewrite Hp; reflexivity|reflexivity|constructor; [reflexivity|constructor]|constructor]. }
  clearbody st0. revert st0 W0. induction timers as [|t ts IH]; intros st0 W0; simpl; [exact W0|].
  apply IH. eapply sfw_of_krel_loop; [apply (krel_call_at st0 t HExt); reflexivity|exact W0].
Qed.

(* ======== shield-free programs: uncancel() never finds the counter at zero ======== *)
Theorem floor_zero_shield_free : forall fx fb p timers turns k fuel, shield_free p = true ->
  g_floor (run_steps fuel (init fx fb p timers turns k)) = 0.
Proof.
  intros fx fb p timers turns k fuel Hp.
  assert (G : forall fuel st, acct st -> sfw st -> g_floor st = 0 -> g_floor (run_steps fuel st) = 0).
  { clear. induction fuel as [|fu IH]; intros st Ha W H0; simpl; [exact H0|].
    destruct (md st) eqn:Hm; try exact H0;
      (apply IH; [apply acct_step; exact Ha|apply sfw_step; exact W|];
       destruct (floor_step st Ha) as [E|(Hm' & _ & n & h & rd & m & Et & Er & Ec & Ek)]; [congruence|];
       exfalso; pose proof (w_ready _ W) as R; rewrite Er in R; inversion R as [|? ? Hh _]; subst;
       unfold h_ok in Hh; rewrite Ek in Hh; discriminate). }
  apply G; [apply acct_init|apply sfw_init; exact Hp|].
  unfold init. rewrite (sm_floor _ _ (push_timers_same timers _)). reflexivity.
Qed.
