(* Executable entry point shared by the framing properties (C01, C02, C06, C07): run a consumer over a chunk list.
   input  = L [A kind; cfg; dec; L chunks]
     kind 0 copying  read_until   cfg = L [B sep; A limit; A keep_end]
     kind 1 buffered read_until   cfg = L [B sep; A limit; A keep_end; A sizehint]
     kind 2 copying  fixed size   cfg = L [A size]
     kind 3 buffered fixed size   cfg = L [A size; A sizehint]
     dec = A 0 (identity) | A 1 (ascii: fails on a byte >= 128) | L [L [B payload; L [A 0; B pkt]] | L [B payload; L [A 1]] ...]
   output = L rounds, round = L [A consumed; L events; held]   (held = get_buffer() / get_value())
     event = L [A 0; B pkt] | L [A 1; A errcode; B remaining] | L [A 2] (crash: RuntimeError)                       *)
From EN Require Import Lib.Bytes Lib.Sx Frame.Framer Frame.ReadUntil Frame.BufReadUntil Frame.Serialize Frame.Convert Stream.Consumer.

Definition err_code (e : err) : Z :=
  match e with ELimit => 0 | EDecode => 1 | EConvert => 2 | EMissing => 3 | EExtra => 4 end%Z.

Inductive tdec := TUnknown | TOk (p : bytes) | TBad.

Fixpoint table_lookup (t : list (bytes * option bytes)) (x : bytes) : tdec :=
  match t with
  | [] => TUnknown
  | (k, v) :: t' => if bytes_eqb k x then match v with Some p => TOk p | None => TBad end else table_lookup t' x
  end.

(* packets are [option bytes]: None marks a payload the harness did not tabulate (always a disagreement) *)
Definition mk_dec (d : sx) : option (decoder (option bytes)) :=
  match d with
  | A 0%Z => Some (fun x => Some (Some x))
  | A 1%Z => Some (fun x => if forallb (fun b => N.ltb b 128) x then Some (Some x) else None)
  | L rows =>
      match map_opt (fun r => match r with
                              | L [B k; L [A 0%Z; B p]] => Some (k, Some p)
                              | L [B k; L [A 1%Z]] => Some (k, None)
                              | _ => None
                              end) rows with
      | Some t => Some (fun x => match table_lookup t x with TOk p => Some (Some p) | TBad => None | TUnknown => Some None end)
      | None => None
      end
  | _ => None
  end.

Definition ev_sx (r : nres (option bytes)) (rem : bytes) : sx :=
  match r with
  | RPkt (Some p) => L [A 0; B p]
  | RPkt None => L [A (-1)]
  | RErr e => L [A 1; A (err_code e); B rem]
  | RStop => L [A 3]
  | RCrash => L [A 2]
  end%Z.

Definition is_crash {P} (r : nres P) : bool := match r with RCrash => true | _ => false end.

Section RunCopy.
  Variable F : framer (option bytes).

  (* events with the remaining data visible right after each (for errors: exc.remaining_data = the buffer) *)
  Fixpoint rc_drain (fuel : nat) (c : cstate F) : cstate F * list sx * bool :=
    match fuel with
    | 0 => (c, [], false)
    | S f =>
        match cnext F c None with
        | (c', RStop) => (c', [], false)
        | (c', r) =>
            if is_crash r then (c', [ev_sx r []], true)
            else let '(c'', evs, cr) := rc_drain f c' in (c'', ev_sx r (cbuf c') :: evs, cr)
        end
    end.

  Definition rc_round (fuel : nat) (c : cstate F) (chunk : bytes) : cstate F * sx * bool :=
    match cnext F c (Some chunk) with
    | (c', RStop) => (c', L [of_nat (length chunk); L []; B (cbuf c')], false)
    | (c', r) =>
        if is_crash r then (c', L [of_nat (length chunk); L [ev_sx r []]; B (cbuf c')], true)
        else let '(c'', evs, cr) := rc_drain fuel c' in
             (c'', L [of_nat (length chunk); L (ev_sx r (cbuf c') :: evs); B (cbuf c'')], cr)
    end.

  Fixpoint rc_all (fuel : nat) (c : cstate F) (chunks : list bytes) : list sx :=
    match chunks with
    | [] => []
    | ch :: chs =>
        let '(c', o, cr) := rc_round fuel c ch in
        if cr then [o] else o :: rc_all fuel c' chs
    end.
End RunCopy.

Section RunBuf.
  Variable F : bframer (option bytes).
  Variable sizehint : nat.

  Definition held (c : bcstate F) : sx :=
    match bmem c with
    | None => L []
    | Some mem => L [B (firstn (bstart c + balready c) mem)]
    end.

  (* remaining data of an event, as the consumer saved it: the first [balready] bytes at [bstart] *)
  Definition saved (c : bcstate F) : bytes :=
    match bmem c with
    | None => []
    | Some mem => firstn (balready c) (skipn (bstart c) mem)
    end.

  Fixpoint rb_drain (fuel : nat) (c : bcstate F) : bcstate F * list sx * bool :=
    match fuel with
    | 0 => (c, [], false)
    | S f =>
        match bcnext F sizehint c None with
        | (c', RStop) => (c', [], false)
        | (c', r) =>
            if is_crash r then (c', [ev_sx r []], true)
            else let '(c'', evs, cr) := rb_drain f c' in (c'', ev_sx r (saved c') :: evs, cr)
        end
    end.

  (* one recv_into round; returns consumed count *)
  Definition rb_round (fuel : nat) (c : bcstate F) (data : bytes) : bcstate F * sx * bool * nat :=
    let '(c1, v) := bc_get_write_buffer F sizehint c in
    match v with
    | None => (c1, L [A 0; L [L [A 2]]; held c1], true, 0)
    | Some (_, len) =>
        let d := firstn len data in
        let c2 := bc_fill F c1 d in
        match bcnext F sizehint c2 (Some (length d)) with
        | (c3, RStop) => (c3, L [of_nat (length d); L []; held c3], false, length d)
        | (c3, r) =>
            if is_crash r then (c3, L [of_nat (length d); L [ev_sx r []]; held c3], true, length d)
            else let '(c4, evs, cr) := rb_drain fuel c3 in
                 (c4, L [of_nat (length d); L (ev_sx r (saved c3) :: evs); held c4], cr, length d)
        end
    end.

  (* feed one chunk of transport data, as many rounds as needed *)
  Fixpoint rb_chunk (rounds fuel : nat) (c : bcstate F) (data : bytes) : bcstate F * list sx * bool :=
    match rounds with
    | 0 => (c, [], false)
    | S k =>
        match data with
        | [] => (c, [], false)
        | _ =>
            let '(c', o, cr, n) := rb_round fuel c data in
            if cr then (c', [o], true)
            else let '(c'', os, cr') := rb_chunk k fuel c' (skipn n data) in (c'', o :: os, cr')
        end
    end.

  Fixpoint rb_all (fuel : nat) (c : bcstate F) (chunks : list bytes) : list sx :=
    match chunks with
    | [] => []
    | ch :: chs =>
        let '(c', os, cr) := rb_chunk (S (length ch)) fuel c ch in
        if cr then os else os ++ rb_all fuel c' chs
    end.
End RunBuf.

Definition total_len (chunks : list bytes) : nat := fold_right (fun c n => length c + n) 0 chunks.

(* kind 10: the sending side.  input = L [A 10; A variant; cfg; B data]
     variant 0 StringLineSerializer cfg = L [B sep] | 1 AutoSeparated cfg = L [B sep; A check] | 2 FixedSize cfg = L [A size]
   output = L [A 0; L chunks] | L [A 1] (ValueError) *)
Definition ser_out (o : option (list bytes)) : sx :=
  match o with Some chunks => L [A 0; L (map B chunks)] | None => L [A 1] end%Z.

Definition run_ser (variant : Z) (cfg : sx) (data : bytes) : sx :=
  match variant, cfg with
  | 0%Z, L [B sep] => ser_out (Some (line_iser sep data))
  | 1%Z, L [B sep; A check] => ser_out (autosep_iser (Z.eqb check 1) sep data)
  | 2%Z, L [A size] => ser_out (fixed_iser (Z.to_nat size) data)
  | _, _ => bad_input
  end.

(* kinds 11 / 12: kinds 0 / 1 under a protocol with a converter whose create_from_dto_packet accepts exactly the
   non-empty all-ASCII-digit packets (PacketConversionError otherwise) *)
Definition digits_conv (q : option bytes) : option (option bytes) :=
  match q with
  | Some b => if (negb (Nat.eqb (length b) 0) && forallb (fun x => N.leb 48 x && N.leb x 57) b)%bool then Some q else None
  | None => Some None
  end.

Definition run (i : sx) : sx :=
  match i with
  | L (A 10%Z :: A variant :: cfg :: B data :: _) => run_ser variant cfg data
  | L (A kind :: cfg :: d :: chs :: _) =>
      do dec <- mk_dec d;
      do chunks <- as_list_of as_bytes chs;
      let fuel := S (S (total_len chunks)) in
      match kind, cfg with
      | 0%Z, L [B sep; A limit; A ke] =>
          L (rc_all (ru_framer sep (Z.to_nat limit) (Z.eqb ke 1) dec) fuel (cinit _) chunks)
      | 1%Z, L [B sep; A limit; A ke; A hint] =>
          L (rb_all (bru_framer sep (Z.to_nat limit) (Z.eqb ke 1) dec) (Z.to_nat hint) fuel (bcinit _) chunks)
      | 11%Z, L [B sep; A limit; A ke] =>
          L (rc_all (conv_framer digits_conv (ru_framer sep (Z.to_nat limit) (Z.eqb ke 1) dec)) fuel (cinit _) chunks)
      | 12%Z, L [B sep; A limit; A ke; A hint] =>
          L (rb_all (conv_bframer digits_conv (bru_framer sep (Z.to_nat limit) (Z.eqb ke 1) dec)) (Z.to_nat hint) fuel (bcinit _) chunks)
      | 2%Z, L [A size] =>
          L (rc_all (rx_framer (Z.to_nat size) dec) fuel (cinit _) chunks)
      | 3%Z, L [A size; A hint] =>
          L (rb_all (bfx_framer (Z.to_nat size) dec) (Z.to_nat hint) fuel (bcinit _) chunks)
      | _, _ => bad_input
      end
  | _ => bad_input
  end.
