(* C03 runner: a history of recv_packet / iter_received_packets calls on a receive endpoint over a scripted transport.
   input  = L [A kind; cfg; dec; L oracle; L calls; A mode; A bufsize; A api; ...]
     kind, cfg, dec   as in Run/Stream.v (for the buffered kinds the consumer's sizehint is [bufsize] = max_recv_size)
     oracle item      L [A 0; B chunk; A dt] | L [A 1] (eof) | L [A 2] (silence) | L [A 3; A k] (transport raises kind k)
     call             L [A 0; t] recv_packet(timeout=t)      t = L [] (None) | L [A ticks]
                      L [A 1; t; A n]  it = iter_received_packets(timeout=t); next(it) up to n times
     mode             0 blocking endpoint/client, 1 asynchronous (finite t = caller's backend.timeout(t) scope)
     api              0 endpoint, 1 TCP client (error conversion applied)
   output = L [ per call: L [ per recv: L [res; A bytes_taken_from_transport_so_far; A oracle_items_left] ] ]
     res = L [A 0; B pkt] | L [A 1; A errcode] | L [A 2] aborted | L [A 3] timeout | L [A 4; A k] | L [A 5] closed
         | L [A 6] RuntimeError | L [A 7] StopIteration (iterator: any OSError)
   The history stops after a RuntimeError. *)
From EN Require Import Lib.Bytes Lib.Sx Frame.Framer Frame.ReadUntil Frame.BufReadUntil Stream.Consumer Stream.Endpoint
  Conc.RecvLock Run.Stream.

Inductive hcall := HRecv (t : option nat) | HIter (t : option nat) (n : nat).

Definition as_item (x : sx) : option titem :=
  match x with
  | L [A 0%Z; B ch; A dt] => Some (TData ch (Z.to_nat dt))
  | L [A 1%Z] => Some TEof
  | L [A 2%Z] => Some TWouldTimeout
  | L [A 3%Z; A k] => Some (TRaise (Z.to_nat k))
  | _ => None
  end.

Definition as_call (x : sx) : option hcall :=
  match x with
  | L [A 0%Z; t] => match as_opt as_nat t with Some t' => Some (HRecv t') | None => None end
  | L [A 1%Z; t; A n] => match as_opt as_nat t with Some t' => Some (HIter t' (Z.to_nat n)) | None => None end
  | _ => None
  end.

Definition res_sx (r : rres (option bytes)) : sx :=
  match r with
  | RecvPkt (Some p) => L [A 0; B p]
  | RecvPkt None => L [A (-1)]
  | RecvErr e => L [A 1; A (err_code e)]
  | RecvAborted => L [A 2]
  | RecvTimeout => L [A 3]
  | RecvRaised k => L [A 4; of_nat k]
  | RecvClosed => L [A 5]
  | RecvCrash => L [A 6]
  end%Z.

Definition iter_res_sx (r : rres (option bytes)) : sx :=
  match r with
  | RecvPkt _ | RecvErr _ | RecvCrash => res_sx r
  | _ => L [A 7%Z]
  end.

Definition is_rcrash {P} (r : rres P) : bool := match r with RecvCrash => true | _ => false end.

Definition oracle_bytes (o : oracle) : nat :=
  fold_right (fun i n => match i with TData ch _ => length ch + n | _ => n end) 0 o.

Section RunM.
  Context {C : Type}.
  Variable M : machine (option bytes) C.
  Variable mode : emode.
  Variable client : bool.
  Variable total : nat.

  Definition entry (r : sx) (o : oracle) : sx := L [r; of_nat (total - oracle_bytes o); of_nat (length o)].

  Fixpoint run_hist (st : lstate) (o : oracle) (calls : list hcall) : list sx :=
    match calls with
    | [] => []
    | HRecv t :: calls' =>
        let '(st', o', r, _) := receive M mode t st o in
        let r' := if client then client_convert r else r in
        L [entry (res_sx r') o'] :: (if is_rcrash r then [] else run_hist st' o' calls')
    | HIter t n :: calls' =>
        let '(rs, st', o') := iter_next M mode n t st o in
        L (map (fun ro => entry (iter_res_sx (fst ro)) (snd ro)) rs)
          :: (if existsb (fun ro => is_rcrash (fst ro)) rs then [] else run_hist st' o' calls')
    end.
End RunM.

Definition run1 (i : sx) : sx :=
  match i with
  | L (A kind :: cfg :: d :: os :: cs :: A md :: A bufsize :: A api :: _) =>
      do dec <- mk_dec d;
      do o <- as_list_of as_item os;
      do calls <- as_list_of as_call cs;
      let mode := if Z.eqb md 1 then Async else Blocking in
      let client := Z.eqb api 1 in
      let bs := Z.to_nat bufsize in
      let total := oracle_bytes o in
      match kind, cfg with
      | 0%Z, L [B sep; A limit; A ke] =>
          let F := ru_framer sep (Z.to_nat limit) (Z.eqb ke 1) dec in
          L (run_hist (copy_machine F bs) mode client total (linit (cinit F)) o calls)
      | 1%Z, L (B sep :: A limit :: A ke :: _) =>
          let F := bru_framer sep (Z.to_nat limit) (Z.eqb ke 1) dec in
          L (run_hist (buf_machine F bs) mode client total (linit (bcinit F)) o calls)
      | 2%Z, L [A size] =>
          let F := rx_framer (Z.to_nat size) dec in
          L (run_hist (copy_machine F bs) mode client total (linit (cinit F)) o calls)
      | 3%Z, L (A size :: _) =>
          let F := bfx_framer (Z.to_nat size) dec in
          L (run_hist (buf_machine F bs) mode client total (linit (bcinit F)) o calls)
      | _, _ => bad_input
      end
  | _ => bad_input
  end.

(* ---- two threads on one blocking TCP client (Conc/RecvLock.v)
   input  = L [A 200; case; L schedule; A na; A nb]     case = a single-client input as above (its call list is ignored:
            every call is recv_packet(timeout=None)); schedule = labels: 0/1 the scheduler lets thread 0/1 run, 2/3 thread
            0/1 (if not in a call) makes an extra recv_packet(timeout=0) provided the lock is held; na, nb = calls per thread
   output = L [L [per step: L [status_a; status_b]]; L [returned calls in order: L [A tid; res]]; A bytes_taken; A items_left;
               L [threads whose timeout-0 call timed out on the lock, in order]]
     status = L [A 0; A n] not in a call, n calls left | L [A 1; A n] waiting for the receive lock | L [A 2; A n] parked in the transport *)
Definition as_label (x : sx) : option tlabel :=
  match x with
  | A 0%Z => Some (LRun false) | A 1%Z => Some (LRun true)
  | A 2%Z => Some (LTry false) | A 3%Z => Some (LTry true)
  | _ => None
  end.

Definition pc_sx (p : tpc) : sx :=
  match p with
  | TIdle n => L [A 0; of_nat n]
  | TBlocked n => L [A 1; of_nat n]
  | TParked n => L [A 2; of_nat n]
  end%Z.

Section RunT.
  Context {C : Type}.
  Variable M : machine (option bytes) C.

  Definition run_threads (c0 : C) (o : oracle) (sch : list tlabel) (na nb : nat) : sx :=
    let '(obs, s) := trun_l_obs M (tinit c0 o na nb) sch in
    L [L (map (fun ab => L [pc_sx (fst ab); pc_sx (snd ab)]) obs);
       L (map (fun ir => L [of_bool (fst ir); res_sx (client_convert (snd ir))]) (rev (t_log s)));
       of_nat (oracle_bytes o - oracle_bytes (t_o s));
       of_nat (length (t_o s));
       L (map of_bool (rev (t_try s)))].
End RunT.

Definition run_t (i : sx) (sch : list tlabel) (na nb : nat) : sx :=
  match i with
  | L (A kind :: cfg :: d :: os :: _ :: _ :: A bufsize :: _) =>
      do dec <- mk_dec d;
      do o <- as_list_of as_item os;
      let bs := Z.to_nat bufsize in
      match kind, cfg with
      | 0%Z, L [B sep; A limit; A ke] =>
          let F := ru_framer sep (Z.to_nat limit) (Z.eqb ke 1) dec in
          run_threads (copy_machine F bs) (cinit F) o sch na nb
      | 1%Z, L (B sep :: A limit :: A ke :: _) =>
          let F := bru_framer sep (Z.to_nat limit) (Z.eqb ke 1) dec in
          run_threads (buf_machine F bs) (bcinit F) o sch na nb
      | 2%Z, L [A size] =>
          let F := rx_framer (Z.to_nat size) dec in
          run_threads (copy_machine F bs) (cinit F) o sch na nb
      | 3%Z, L (A size :: _) =>
          let F := bfx_framer (Z.to_nat size) dec in
          run_threads (buf_machine F bs) (bcinit F) o sch na nb
      | _, _ => bad_input
      end
  | _ => bad_input
  end.

(* ---- end-to-end over the real asyncio transport (family 300): the harness drives AsyncStreamEndpoint / AsyncTCPNetworkClient over
   the REAL StreamReaderBufferedProtocol + socket adapter with read events, cancellations of pending calls (timeouts) and
   new calls in every order inside one loop iteration, then keeps calling until end-of-stream.  Cancelled calls are not
   observed; by timeout_loses_nothing / recv_sequence the calls that return must deliver exactly what a single sequence of
   calls without timeout delivers:
   input  = L [A 300; case]   (case: oracle = what the peer sent, then eof)
   output = L [results up to and including the first ConnectionAborted, then the result of one more call] *)
Fixpoint until_aborted {P} (rs : list (rres P)) : list (rres P) :=
  match rs with
  | [] => []
  | RecvAborted :: _ => [RecvAborted]
  | r :: rs' => r :: until_aborted rs'
  end.

Section RunE.
  Context {C : Type}.
  Variable M : machine (option bytes) C.
  Definition run_e2e (c0 : C) (o : oracle) (client : bool) : sx :=
    let '(rs, _, _) := run_calls M Async (linit c0) o (repeat None (S (S (oracle_bytes o)))) in
    (* ... and one more call after the first end-of-stream: it reports it again (eof_sticky) *)
    L (map res_sx (until_aborted (map (fun ro => if client then client_convert (fst ro) else fst ro) rs) ++ [RecvAborted])).
End RunE.

Definition run_e (i : sx) : sx :=
  match i with
  | L (A kind :: cfg :: d :: os :: _ :: _ :: A bufsize :: A api :: _) =>
      do dec <- mk_dec d;
      do o <- as_list_of as_item os;
      let bs := Z.to_nat bufsize in
      let client := Z.eqb api 1 in
      match kind, cfg with
      | 0%Z, L [B sep; A limit; A ke] =>
          let F := ru_framer sep (Z.to_nat limit) (Z.eqb ke 1) dec in run_e2e (copy_machine F bs) (cinit F) o client
      | 1%Z, L (B sep :: A limit :: A ke :: _) =>
          let F := bru_framer sep (Z.to_nat limit) (Z.eqb ke 1) dec in run_e2e (buf_machine F bs) (bcinit F) o client
      | 2%Z, L [A size] =>
          let F := rx_framer (Z.to_nat size) dec in run_e2e (copy_machine F bs) (cinit F) o client
      | 3%Z, L (A size :: _) =>
          let F := bfx_framer (Z.to_nat size) dec in run_e2e (buf_machine F bs) (bcinit F) o client
      | _, _ => bad_input
      end
  | _ => bad_input
  end.

Definition run (i : sx) : sx :=
  match i with
  | L (A 200%Z :: case :: sch :: A na :: A nb :: _) =>
      do s <- as_list_of as_label sch;
      run_t case s (Z.to_nat na) (Z.to_nat nb)
  | L (A 300%Z :: case :: _) => run_e case
  | _ => run1 i
  end.
