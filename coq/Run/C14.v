(* C14 entry point.  input = L [A path; tr; A lock; L labels; A second]
     path   0 transport.aclose  1 aclose_forcefully  2 TLS wrap  3 endpoint.aclose  4 AsyncTCPNetworkClient.aclose
            5 _ConnectedClientAPI.aclose  6 client task teardown  7 teardown after the handler called client.aclose()
            8 AsyncTCPNetworkClient.aclose while send_packet() is still establishing the connection (holding the send lock)
     tr     L [A 0; base] | L [A 1; L [A std; A unwrap_points; A handshake_points; (A mode)?]; base]   (mode: how the harness
            obtains the unwrap suspension points: 1 = unread application data, the close_notify flush blocks)
     base   L [A 0; A leaf; A m; (A 1 = the real asyncio socket adapter, m = 0)?] | L [A 1; send; recv]
     lock   1: a sender is suspended holding the send lock (and the endpoint's guard); 2: a reader is suspended in
            recv_packet() (no close path takes the receive guard: same as 0 for the model)
     labels 0 complete | 1 OSError | 2 cancel | 3 timed scope expires
     second 1: when the first close is over, close again (same path) with the remaining labels; 2: and a third time
   output = L [A res; L [leaf0; leaf1]; A outer_closing; A api_closing; A used; second; L [fd0; fd1]]   (fd = descriptor released)
            second = L [] | L [A res2; A used2; L [leaf0; leaf1]; L [fd0; fd1]]                                                     *)
From Coq Require Import ZArith List Bool Arith.
Import ListNotations.
From EN Require Import Lib.Bytes Lib.Sx Conc.Close.

Definition res_code (r : res) : Z :=
  match r with ROk => 0 | RErr => 1 | RCancel => 2 | RForced => 5 | RShutdown => 6 | RTimeoutErr => 3 | RBusy => 4 | ROther => 9 end%Z.

Fixpoint dec_base (fuel : nat) (x : sx) : option base :=
  match fuel with
  | 0 => None
  | S f =>
      match x with
      | L [A 0%Z; i; _; A 1%Z] | L [A 0%Z; i; _; A 3%Z] => match as_nat i with Some i' => Some (BAdapter i' false) | None => None end
      | L [A 0%Z; i; _; A 2%Z] => match as_nat i with Some i' => Some (BAdapter i' true) | None => None end
      | L (A 0%Z :: i :: m :: _) => match as_nat i, as_nat m with Some i', Some m' => Some (BLeaf i' m') | _, _ => None end
      | L [A 1%Z; s; r] => match dec_base f s, dec_base f r with Some s', Some r' => Some (BStapled s' r') | _, _ => None end
      | _ => None
      end
  end.

Definition dec_tr (x : sx) : option tr :=
  match x with
  | L [A 0%Z; b] => option_map TPlain (dec_base 8 b)
  | L [A 1%Z; L (A std :: u :: h :: rest); b] =>
      match as_nat u, as_nat h, dec_base 8 b with
      | Some u', Some h', Some b' =>
          match rest with
          | A 1%Z :: _ => Some (TTls {| t_std := Z.eqb std 1; t_unwrap := 0; t_hs := h'; t_unread := true; t_flush := u' |} b')
          | _ => Some (TTls {| t_std := Z.eqb std 1; t_unwrap := u'; t_hs := h'; t_unread := false; t_flush := 0 |} b')
          end
      | _, _, _ => None
      end
  | _ => None
  end.

Definition dec_label (x : sx) : option xlabel :=
  match x with A 0%Z => Some XStep | A 1%Z => Some XRaise | A 2%Z => Some XCancel | A 3%Z => Some XTimeout | _ => None end.

Definition mk_path (code : Z) (t : tr) : option path :=
  match code with
  | 0 => Some (PTransport t) | 1 => Some (PForceful t)
  | 2 => match t with TTls c b => Some (PWrap c b) | _ => None end
  | 3 => Some (PEndpoint t) | 4 => Some (PClient t) | 5 => Some (PApi t)
  | 6 => Some (PTaskExit t false) | 7 => Some (PTaskExit t true)
  | 8 => Some (PClientConnecting t)
  | 9 => Some (PTaskExitCbRaises t) | 10 => Some (PEndpointDirty t) | 11 => Some (PClientDirty t)
  | _ => None
  end%Z.

(* a later close: the parser generator has been discarded by the first receiver.clear() *)
Definition again (p : path) : path :=
  match p with PEndpointDirty t => PEndpoint t | PClientDirty t => PClient t | q => q end.

Definition flags (w : world) : sx := L [of_bool (w_leaf w 0); of_bool (w_leaf w 1)].
Definition fds (b : base) (w : world) : sx := L [of_bool (fd_released b w 0); of_bool (fd_released b w 1)].

Definition run (x : sx) : sx :=
  match x with
  | L (A code :: t :: A lock :: L labels :: A second :: _) =>
      do t' <- dec_tr t;
      do p <- mk_path code t';
      do ls <- map_opt dec_label labels;
      let '(r, w, ls') := run_path p env0 (world0 (Z.eqb lock 1)) ls in
      let snd :=
        if Z.eqb second 1 then
          let '(r2, w2, _) := run_path (again p) env0 w ls' in
          L [A (res_code r2); of_nat (w_used w2 - w_used w); flags w2; fds (tr_base (path_tr p)) w2]
        else if Z.eqb second 2 then
          let '(r2, w2, ls2) := run_path (again p) env0 w ls' in
          let '(r3, w3, _) := run_path (again p) env0 w2 ls2 in
          L [A (res_code r2); of_nat (w_used w2 - w_used w); flags w2; fds (tr_base (path_tr p)) w2;
             A (res_code r3); of_nat (w_used w3 - w_used w2)]
        else L [] in
      L [A (res_code r); flags w; of_bool (tr_closing (path_tr p) w); of_bool (w_api_closing w); of_nat (w_used w); snd;
         fds (tr_base (path_tr p)) w]
  | _ => bad_input
  end.
