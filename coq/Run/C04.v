(* C04 entry point: run the blocking send models on one scripted case.
   input  = L [A path; A iov; L chunks; tmo T; tmo ri; L sock_script; L sel_script; ... (ignored: which real class)]
     path 0  transport.send_all(b"".join(chunks), T)
     path 1  SocketStreamTransport.send_all_from_iterable(chunks, T)  socket has sendmsg, SC_IOV_MAX = iov
     path 2  send_all_from_iterable on a socket without sendmsg / SSLStreamTransport (join + send_all)
     path 3  AsyncTLSStreamTransport.__write_all_to_ssl_object backlog loop (see IO/TlsWrite.v)
     path 4  asyncio adapter (writelines + drain): outcome and wire only
     path 5,6,7  real sockets / real TLS objects, chunks may be L [A seed; A len]: outcome and digest of the received bytes
     tmo     = L [] (math.inf) | L [A ticks]
     sock answer = L [A kind; A n; A cost]   kind 0 Sent n | 1,2 would-block-on-write | 3,4 would-block-on-read | 5 connection error
     sel answer  = L [A ready; A elapsed]
   output = L [A outcome; B wire; L waits; A dt]
     outcome 0 returned | 1 TimeoutError | 2 ConnectionError | 3 ValueError | 4 RuntimeError | 9 does not terminate (fuel)
     wait    = L [A write?; tmo requested]                                                                       *)
From EN Require Import Lib.Bytes Lib.Sx IO.Retry IO.SendAll IO.SendMsg IO.TlsWrite IO.Payload IO.Budget Conc.FlowControl IO.AsyncAdapter Run.IOCommon Gen.ParamsC04.
Open Scope Z_scope.





Definition out_code (o : sout) : Z :=
  match o with SOk => 0 | SExc c => c | SFuel => 9 end.

Definition of_sres (r : sres) : sx :=
  L [A (out_code (sr_out r)); B (sk_wire (sr_sock r)); L (map of_wait (sr_waits r)); A (sr_dt r)].

Definition run_transport (i : sx) : sx :=
  match i with
  | L (A path :: A iov :: chunks :: T :: ri :: script :: sels :: _) =>
      do chunks <- as_list_of as_chunk chunks;
      do T <- as_tmo T;
      do ri <- as_tmo ri;
      do script <- as_list_of as_sockans script;
      do sels <- as_list_of as_selans sels;
      let F := fuel_bound chunks script in
      let s := mk_sock script [] in
      if path =? 0 then of_sres (send_all F ri F (concat chunks) T s sels)
      else if path =? 1 then of_sres (send_iter sendmsg_drops_empty_views true iov F F ri chunks T s sels)
      else if path =? 2 then of_sres (send_iter sendmsg_drops_empty_views false iov F F ri chunks T s sels)
      else if path =? 3 then of_sres (tls_flush F chunks s)
      else if path =? 4 then
        (* asyncio adapter: writelines + drain; only the outcome and the bytes that reach the socket are compared *)
        match chunks with
        | [] =>
            (* CPython 3.12.1 asyncio: _SelectorSocketTransport.writelines([]) fails `assert self._buffer`
               (finding F9); a guarded adapter returns without writing *)
            if asyncio_adapter_guards_empty_iterable then L [A 0; B []; L []; A 0] else L [A 30; B []; L []; A 0]
        | _ :: _ =>
            let r := send_all_join F ri F chunks None s [] in
            L [A (out_code (sr_out r)); B (sk_wire (sr_sock r)); L []; A 0]
        end
      else if (path =? 5) || (path =? 6) then
        (* real sockets / real TLS objects (no scripted faults): only the outcome and a digest of what the peer
           received are compared.  path 5 = SocketStreamTransport / TCP client (sendmsg loop, SC_IOV_MAX = iov),
           path 6 = join + send_all (SSLStreamTransport) ; path 7 = async TLS backlog on a real SSLObject *)
        let r := send_iter sendmsg_drops_empty_views (path =? 5) iov F F ri chunks None s [] in
        L [A (out_code (sr_out r)); digest (sk_wire (sr_sock r)); L []; A 0]
      else if path =? 7 then
        match script with
        | [] =>
            (* no scripted fault (a real SSLObject): the backlog loop returns and the wire is concat chunks; the digest is
               computed chunk by chunk so that payloads of several hundred KB do not build one huge list
               (Proofs/C04_payload.v tls_flush_fast_path: equal to the digest of the model's wire) *)
            L [A 0; digest_chunks chunks; L []; A 0]
        | _ =>
            let r := tls_flush F chunks s in
            L [A (out_code (sr_out r)); digest (sk_wire (sr_sock r)); L []; A 0]
        end
      else bad_input
  | _ => bad_input
  end.

(* client level (send lock) and lock histories: see Run/IOCommon.v
     path 8  TCPNetworkClient.send_packet behind the send lock   extra = L [lock; A has_sendmsg]
             output L [A code; B wire; L waits; A dt; L lockwaits; locks afterwards]
     path 9  lock history replayed by real threads               extra = L [L labels; A kind]                   *)
Definition run (i : sx) : sx :=
  match i with
  | L [A 8; A iov; chunks; T; ri; script; sels; _; L [lk; A hs]] =>
      do chunks <- as_list_of as_chunk chunks;
      do T <- as_tmo T; do ri <- as_tmo ri; do lk <- as_lock lk; do hs <- as_bool (A hs);
      do script <- as_list_of as_sockans script; do sels <- as_list_of as_selans sels;
      run_client_send_case sendmsg_drops_empty_views hs iov chunks T ri lk script sels
  | L [A 9; _; _; _; _; _; _; _; L [labels; A kind]] => run_lock_history labels kind
  | L [A 12; _; _; _; _; _; _; _; L [a; b; c; A steps; _]] =>
      (* async TLS, sender B cancelled while queued on the transport send lock (A holds it), then C: whatever the SSL object
         encrypted must reach the wrapped transport, in order (B's records were produced iff B ever ran: steps > 0; they are
         then flushed by the next holder of the lock).  output: outcome of C, digest of the peer's plaintext, stream valid *)
      do a <- as_list_of as_chunk a; do b <- as_list_of as_chunk b; do c <- as_list_of as_chunk c;
      L [A 0; digest_chunks (a ++ (if 0 <? steps then b else []) ++ c); A 1; A 0]
  | L [A 10; _; _; _; _; _; _; _; L sends] =>
      (* asyncio adapter, several sends one after the other (IO/AsyncAdapter.v over Conc/FlowControl.v):
         send = L [A 0; L [B data]; A k] send_all | L [A 1; L chunks; A k] send_all_from_iterable; the kernel takes k bytes
         at once; k = -1: the kernel refuses the write (ECONNRESET): asyncio swallows the error, drops the data, marks the
         transport closing and schedules connection_lost(exc) for the next loop iteration (labels AKill, then the send,
         ALost, AWake); afterwards the buffer is flushed.
         output: outcome of the last send (0 / connection error), what the peer reads, wire = handed *)
      do sends <- map_opt (fun x => match x with
                                    | L [A kind; chunks; A k] =>
                                        match as_list_of as_chunk chunks with
                                        | Some cs => Some (kind, cs, k)
                                        | None => None
                                        end
                                    | _ => None
                                    end) sends;
      let label_of i kind cs k := if kind =? 0 then CSend i (concat cs) k else CSendIter i cs k in
      let labels := flat_map (fun '(i, (kind, cs, k)) =>
                                if k <? 0 then [COther AKill; label_of i kind cs 0%nat; COther (ALost true); COther (AWake i)]
                                else [label_of i kind cs (Z.to_nat k)])
                             (combine (seq 0 (length sends)) sends) in
      (* run, remembering the result of every drain() that completes *)
      let fix go (c : cad) (ls : list clabel) (res : list dres) : option (cad * list dres) :=
        match ls with
        | [] => Some (c, res)
        | l :: r =>
            match ad_step (k_ad c) (count_label l), cad_step c l with
            | Some (_, obs), Some c' =>
                go c' r (res ++ flat_map (fun o => match o with ODrain _ d => [d] | _ => [] end) obs)
            | _, _ => None
            end
        end in
      match go (cad_init (mkCfg 0 0 true) (length sends)) labels [] with
      | Some (c, res) =>
          let c' := match k_buf c with
                    | [] => Some c
                    | b => cad_step c (COther (AReady (length b)))
                    end in
          let failed := existsb (fun d => match d with FlowControl.ROk => false | _ => true end) res in
          match c' with
          | Some c2 => L [A (if failed then 2 else 0); B (k_wire c2); of_bool (bytes_eqb (k_wire c2) (k_handed c2)); A 0]
          | None => bad_input
          end
      | None => bad_input
      end
  | _ => run_transport i
  end.
