(* C04 entry point: run the blocking send models on one scripted case.
   input  = L [A path; A iov; L chunks; tmo T; tmo ri; L sock_script; L sel_script; ... (ignored: which real class)]
     path 0  transport.send_all(b"".join(chunks), T)
     path 1  SocketStreamTransport.send_all_from_iterable(chunks, T)  socket has sendmsg, SC_IOV_MAX = iov
     path 2  send_all_from_iterable on a socket without sendmsg / SSLStreamTransport (join + send_all)
     path 3  AsyncTLSStreamTransport.__write_all_to_ssl_object backlog loop (see IO/TlsWrite.v)
     path 4  asyncio adapter (writelines + drain): outcome and wire only
     path 5,6,7  real sockets / real TLS objects, chunks may be L [A seed; A len]: outcome and digest of the received bytes
     tmo     = L [] (math.inf) | L [A ticks]
     sock answer = L [A kind; A n; A cost]   kind 0 Sent n | 1,2 would-block-on-write | 3,4 would-block-on-read | 5 connection error
     sel answer  = L [A ready; A elapsed]
   output = L [A outcome; B wire; L waits; A dt]
     outcome 0 returned | 1 TimeoutError | 2 ConnectionError | 3 ValueError | 4 RuntimeError | 9 does not terminate (fuel)
     wait    = L [A write?; tmo requested]                                                                       *)
From EN Require Import Lib.Bytes Lib.Sx IO.Retry IO.SendAll IO.SendMsg IO.TlsWrite IO.Payload Gen.ParamsC04.
Open Scope Z_scope.

Definition as_tmo (x : sx) : option tmo := as_opt as_Z x.
Definition of_tmo (t : tmo) : sx := of_opt A t.

Definition as_sockans (x : sx) : option sockans :=
  match x with
  | L [A k; A n; A c] =>
      if k =? 0 then (if n <? 0 then None else Some (SSent (Z.to_nat n) c))
      else if (k =? 1) || (k =? 2) then Some (SBlock true c)
      else if (k =? 3) || (k =? 4) then Some (SBlock false c)
      else if k =? 5 then Some (SErr c)
      else None
  | _ => None
  end.

Definition as_selans (x : sx) : option selans :=
  match x with
  | L [A r; A e] => match as_bool (A r) with Some b => Some {| sa_ready := b; sa_el := e |} | None => None end
  | _ => None
  end.

Definition of_wait (w : wait) : sx := L [of_bool (w_write w); of_tmo (w_req w)].

Definition out_code (o : sout) : Z :=
  match o with SOk => 0 | SExc c => c | SFuel => 9 end.

Definition of_sres (r : sres) : sx :=
  L [A (out_code (sr_out r)); B (sk_wire (sr_sock r)); L (map of_wait (sr_waits r)); A (sr_dt r)].

Definition run (i : sx) : sx :=
  match i with
  | L (A path :: A iov :: chunks :: T :: ri :: script :: sels :: _) =>
      do chunks <- as_list_of as_chunk chunks;
      do T <- as_tmo T;
      do ri <- as_tmo ri;
      do script <- as_list_of as_sockans script;
      do sels <- as_list_of as_selans sels;
      let F := fuel_bound chunks script in
      let s := mk_sock script [] in
      if path =? 0 then of_sres (send_all F ri F (concat chunks) T s sels)
      else if path =? 1 then of_sres (send_iter sendmsg_drops_empty_views true iov F F ri chunks T s sels)
      else if path =? 2 then of_sres (send_iter sendmsg_drops_empty_views false iov F F ri chunks T s sels)
      else if path =? 3 then of_sres (tls_flush F chunks s)
      else if path =? 4 then
        (* asyncio adapter: writelines + drain; only the outcome and the bytes that reach the socket are compared *)
        match chunks with
        | [] =>
            (* CPython 3.12.1 asyncio: _SelectorSocketTransport.writelines([]) fails `assert self._buffer`
               (finding F9); a guarded adapter returns without writing *)
            if asyncio_adapter_guards_empty_iterable then L [A 0; B []; L []; A 0] else L [A 30; B []; L []; A 0]
        | _ :: _ =>
            let r := send_all_join F ri F chunks None s [] in
            L [A (out_code (sr_out r)); B (sk_wire (sr_sock r)); L []; A 0]
        end
      else if (path =? 5) || (path =? 6) then
        (* real sockets / real TLS objects (no scripted faults): only the outcome and a digest of what the peer
           received are compared.  path 5 = SocketStreamTransport / TCP client (sendmsg loop, SC_IOV_MAX = iov),
           path 6 = join + send_all (SSLStreamTransport) ; path 7 = async TLS backlog on a real SSLObject *)
        let r := send_iter sendmsg_drops_empty_views (path =? 5) iov F F ri chunks None s [] in
        L [A (out_code (sr_out r)); digest (sk_wire (sr_sock r)); L []; A 0]
      else if path =? 7 then
        let r := tls_flush F chunks s in
        L [A (out_code (sr_out r)); digest (sk_wire (sr_sock r)); L []; A 0]
      else bad_input
  | _ => bad_input
  end.
