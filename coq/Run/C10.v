(* C10 entry point.  run : sx -> sx
   input  = L [A 0; A fixed; L labels; ...]          protocol-level label replay (Conc/SockReader.v); fixed = 0 | 1 |
                                                      2: the variant /repo has (Gen/ParamsC10.repo_fixed)
            label = L [A 0; A k]  recv(k)            L [A 1; A k]  recv_into(k)     L [A 2; B bytes]  data
                    L [A 3]       eof                L [A 4; A e]  lost(exc = e)    L [A 5]           cancel
                    L [A 6]       wake               L [A 7]       turn
   output = L [L obs; B delivered; B returned]
            obs   = L []  nothing observable         L [A (-1)]  label not enabled (ignored by the implementation too)
                    L [A 0; B bytes]  a receive returned these bytes        L [A 1]  it raised CancelledError
                    L [A 2; A 0|1]    it raised the loop's exception | ECONNRESET    L [A 3]  RuntimeError (busy)
                    L [A 4; A n; A room]  read event: n bytes accepted into a buffer of `room` bytes
   input  = L [A 2; A fixed; L labels; scenario]     recorded trace of a higher layer, see run_recorded
*)
From EN Require Import Lib.Bytes Lib.Sx Frame.Framer Frame.ReadUntil Frame.BufReadUntil Stream.Consumer Stream.Endpoint
                       Conc.SockReader Conc.BlockRecv Conc.SockEndpoint Conc.SockFlow Conc.SockTls Gen.ParamsC10.

Definition dec_label (x : sx) : option label :=
  match x with
  | L [A 0%Z; k] => option_map LRecv (as_nat k)
  | L [A 1%Z; k] => option_map LRecvInto (as_nat k)
  | L [A 2%Z; B b] => Some (LData b)
  | L [A 3%Z] => Some LEof
  | L [A 4%Z; e] => option_map LLost (as_bool e)
  | L [A 5%Z] => Some LCancel
  | L [A 6%Z] => Some LWake
  | L [A 7%Z] => Some LTurn
  | _ => None
  end.

Definition errk_code (e : errk) : Z := match e with EEnv => 0 | EReset => 1 end.

Definition enc_obs (o : obs) : sx :=
  match o with
  | ONone => L []
  | ODisabled => L [A (-1)]
  | ORes (RBytes b) => L [A 0; B b]
  | ORes RCancelled => L [A 1]
  | ORes (RError e) => L [A 2; A (errk_code e)]
  | ORes RBusy => L [A 3]
  | OData n (Some c) _ => L [A 4; of_nat n; of_nat c]
  | OData n None fill => L [A 4; of_nat n; A (max_size - Z.of_nat fill)]
  end%Z.

Definition run_lts (fixed : bool) (ls : list label) : sx :=
  let '(s, os) := exec fixed init ls in
  L [L (map enc_obs os); B (delivered s); B (returned s)].

(* mode 2: a label trace RECORDED from a run of the real endpoint / server receiver / TLS transport on the ordinary
   event loop; only the significant observations are compared, plus the harness' own verdict that the layer above
   turned exactly the returned bytes into packets (always 1 in the model). *)
Definition significant (o : obs) : bool := match o with ONone | ODisabled => false | _ => true end.

Definition run_recorded (fixed : bool) (ls : list label) : sx :=
  let '(s, os) := exec fixed init ls in
  L [L (map enc_obs (filter significant os)); B (delivered s); B (returned s); A 1].

(* mode 1: the blocking receive loop (Conc/BlockRecv.v) over fixed-size records
   input  = L [A 1; A size; A bufsize; L calls (A 1 = timeout 0 | A 0 = timeout > 0); L events; ...]
            event = L [A 0; B chunk; A expired] | L [A 1] eof | L [A 2] transport raises TimeoutError
   output = L results;  result = L [A 0; B packet] | L [A 1] TimeoutError | L [A 2] ConnectionAbortedError | L [A 9] *)
Definition dec_event (x : sx) : option bevent :=
  match x with
  | L [A 0%Z; B b; e] => option_map (BData b) (as_bool e)
  | L [A 1%Z] => Some BEof
  | L [A 2%Z] => Some BTimeout
  | _ => None
  end.

Definition enc_bres (r : @bres bytes) : sx :=
  match r with
  | BPacket p => L [A 0; B p]
  | BTimedOut => L [A 1]
  | BClosed => L [A 2]
  | BStuck => L [A 9]
  end%Z.

(* mode 3: the composed receive loop (Conc/SockEndpoint.v) against AsyncStreamEndpoint.recv_packet / the server request
   receivers: recorded trace with the receive calls replaced by L [A 8] = recv_packet() starts
   input  = L [A 3; A buffered; A sizehint_or_bufsize; L elabels; scenario]   (separator 10, limit 64, identity codec;
            scenario = L [A layer; ...]: layer 0 = endpoint (latching), 1 = server request receiver)
   output = L results; result = L [A 0; B packet] | L [A 1] cancelled | L [A 2] end of stream | L [A 3; A e] | L [A 4; A err]
                                | L [A 9] crash *)
Definition dec_elabel (x : sx) : option elabel :=
  match x with
  | L [A 8%Z] => Some ERecvPacket
  | _ => option_map ESock (dec_label x)
  end.

Definition enc_eres (r : eresult bytes) : sx :=
  match r with
  | EEvent (RPkt p) => L [A 0; B p]
  | EEvent (RErr e) => L [A 4; A (match e with ELimit => 0 | EDecode => 1 | EConvert => 2 | EMissing => 3 | EExtra => 4 end)]
  | EEvent _ => L [A 9]
  | ECancelled => L [A 1]
  | EAborted => L [A 2]
  | EError e => L [A 3; A (errk_code e)]
  | ECrash => L [A 9]
  end%Z.

Definition id_dec : decoder bytes := fun b => Some b.

Definition run_endpoint (buffered latching : bool) (size : nat) (ls : list elabel) : sx :=
  if buffered then
    let F := bru_framer [10%N] 64 false id_dec in
    L (map enc_eres (eres (erun (buf_smachine F size) true latching (einit (bcinit F)) ls)))
  else
    let F := ru_framer [10%N] 64 false id_dec in
    L (map enc_eres (eres (erun (copy_smachine F size) false latching (einit (cinit F)) ls))).

(* mode 6: the TLS retry loop (Conc/SockTls.v) against AsyncTLSStreamTransport: recorded trace with
   L [A 9; A n] = a retry loop starts (handshake: n = 0; recv/recv_into: n = bufsize), the SSL object replaced by the
   answers the real one gave, in order:  L [A 0; B plaintext] | L [A 1] WantRead | L [A 2] end | L [A 3] SSLError
   input  = L [A 6; L tlabels; L answers; ...]
   output = L results;  L [A 0; B plaintext] | L [A 1] cancelled | L [A 2] end of stream | L [A 3; A e] | L [A 4] | L [A 9] *)
Definition dec_tlabel (x : sx) : option tlabel :=
  match x with
  | L [A 9%Z; n] => option_map TRecv (as_nat n)
  | _ => option_map TSock (dec_label x)
  end.
Definition dec_sslans (x : sx) : option sslans :=
  match x with
  | L [A 0%Z; B p] => Some (SOk p)
  | L [A 1%Z] => Some SWantRead
  | L [A 2%Z] => Some SEnd
  | L [A 3%Z] => Some SFail
  | _ => None
  end.
Definition enc_tres (r : tresult) : sx :=
  match r with
  | TPlain p => L [A 0; B p]
  | TCancelled => L [A 1]
  | TEnd => L [A 2]
  | TError e => L [A 3; A (errk_code e)]
  | TSslError => L [A 4]
  | TCrash => L [A 9]
  end%Z.
Definition run_tls (ls : list tlabel) (answers : list sslans) : sx :=
  let ts := trun oracle_read (fun o _ => o) (fun o => o) 262144 (tinit answers) ls in
  L [L (map enc_tres (tres ts)); of_nat (length (tfed ts))].

(* mode 5: read flow control (Conc/SockFlow.v) with a small buffer
   input  = L [A 5; A fixed; L [A max_size; A high; A low]; L labels; ...]
   output = L [L (L [obs; A paused]); B delivered; B returned]   (room of a read event into the protocol's buffer = max_size - fill) *)
Definition run_flow (fixed : bool) (p : fparams) (ls : list label) : sx :=
  let '(f, os) := fexec fixed p (finit p) ls in
  L [L (map (fun x => L [enc_obs (fst x); of_bool (snd x)]) os); B (delivered (fs f)); B (returned (fs f))].

(* mode 7: flow control at the REAL buffer size: as mode 5, but read events may be written L [A 10; A n; A seed]
   (n bytes, byte i = (seed + i) mod 251 + 1) and every byte string of the output is replaced by its length and a checksum
   input  = L [A 7; A fixed; L [A max_size; A high; A low]; L labels; ...]
   output = L [L (L [obs'; A paused]); L [A len; A sum] delivered; L [A len; A sum] returned] *)
Fixpoint gen_from (n : nat) (cur : N) : bytes :=
  match n with
  | 0 => []
  | S n' => (N.modulo cur 251 + 1)%N :: gen_from n' (cur + 1)%N
  end.
Definition gen_bytes (n seed : nat) : bytes := gen_from n (N.of_nat seed).
Definition dec_label_big (x : sx) : option label :=
  match x with
  | L [A 10%Z; n; seed] =>
      match as_nat n, as_nat seed with Some n', Some s' => Some (LData (gen_bytes n' s')) | _, _ => None end
  | _ => dec_label x
  end.
Definition cksum (b : bytes) : Z := Z.of_N (fold_left (fun a x => N.modulo (a * 31 + x) 65521) b 0%N).
Definition enc_digest (b : bytes) : sx := L [of_nat (length b); A (cksum b)].
Definition enc_obs_big (o : obs) : sx :=
  match o with
  | ORes (RBytes b) => L [A 0; of_nat (length b); A (cksum b)]
  | _ => enc_obs o
  end%Z.
Definition run_flow_big (fixed : bool) (p : fparams) (ls : list label) : sx :=
  let '(f, os) := fexec fixed p (finit p) ls in
  L [L (map (fun x => L [enc_obs_big (fst x); of_bool (snd x)]) os); enc_digest (delivered (fs f)); enc_digest (returned (fs f))].

(* mode 4: the buffer-filling blocking receiver over fixed-size records (bfx_framer, identity codec)
   input  = L [A 4; A size; A sizehint; L calls; L events; ...]   as mode 1; output as mode 1 *)
Definition enc_bres_n (r : @bres (nres bytes)) : sx :=
  match r with
  | BPacket (RPkt p) => L [A 0; B p]
  | BPacket _ => L [A 4]
  | BTimedOut => L [A 1]
  | BClosed => L [A 2]
  | BStuck => L [A 9]
  end%Z.

Definition run_blocking_buffered (size hint : nat) (calls : list bool) (evs : list bevent) : sx :=
  let F := bfx_framer size id_dec in
  let '(_, _, rs) := brunb (bufc_drain F hint) (bufc_room F hint) (bufc_feed F hint) calls (bcinit F) false evs in
  L (map enc_bres_n rs).

Definition run (i : sx) : sx :=
  match i with
  | L (A 0%Z :: fx :: lbls :: _) =>
      do fixed <- (match fx with A 2%Z => Some repo_fixed | _ => as_bool fx end);
      do ls <- as_list_of dec_label lbls;
      run_lts fixed ls
  | L (A 2%Z :: fx :: lbls :: _) =>
      do fixed <- (match fx with A 2%Z => Some repo_fixed | _ => as_bool fx end);
      do ls <- as_list_of dec_label lbls;
      run_recorded fixed ls
  | L (A 3%Z :: bf :: A size :: lbls :: L (A layer :: _) :: _) =>
      do buffered <- as_bool bf;
      do ls <- as_list_of dec_elabel lbls;
      run_endpoint buffered (Z.eqb layer 0) (Z.to_nat size) ls
  | L (A 7%Z :: fx :: L [A mx; A hi; A lo] :: lbls :: _) =>
      do fixed <- (match fx with A 2%Z => Some repo_fixed | _ => as_bool fx end);
      do ls <- as_list_of dec_label_big lbls;
      run_flow_big fixed {| fmax := Z.to_nat mx; fhigh := Z.to_nat hi; flo := Z.to_nat lo |} ls
  | L (A 6%Z :: lbls :: answers :: _) =>
      do ls <- as_list_of dec_tlabel lbls;
      do ans <- as_list_of dec_sslans answers;
      run_tls ls ans
  | L (A 5%Z :: fx :: L [A mx; A hi; A lo] :: lbls :: _) =>
      do fixed <- (match fx with A 2%Z => Some repo_fixed | _ => as_bool fx end);
      do ls <- as_list_of dec_label lbls;
      run_flow fixed {| fmax := Z.to_nat mx; fhigh := Z.to_nat hi; flo := Z.to_nat lo |} ls
  | L (A 4%Z :: A size :: A hint :: calls :: evs :: _) =>
      do cs <- as_list_of as_bool calls;
      do es <- as_list_of dec_event evs;
      run_blocking_buffered (Z.to_nat size) (Z.to_nat hint) cs es
  | L (A 1%Z :: A size :: A bufsize :: calls :: evs :: _) =>
      do cs <- as_list_of as_bool calls;
      do es <- as_list_of dec_event evs;
      let '(_, _, rs) := brun_fixed (Z.to_nat size) (Z.to_nat bufsize) cs es in
      L (map enc_bres rs)
  | _ => bad_input
  end.
