(* C01 runs the shared stream runner (kinds 0-3, 10-12) and, for the raw-JSON / file-based / compressor framers
   (kinds 4-8), the runner of Run/C06.v *)
From EN Require Import Lib.Bytes Lib.Sx.
From EN Require Run.Stream Run.C06.

Definition run (i : sx) : sx :=
  match i with
  | L (A k :: _) =>
      if (Z.leb 4 k && Z.leb k 8)%bool then Run.C06.run i else Run.Stream.run i
  | _ => bad_input
  end.
