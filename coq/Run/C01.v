(* C01 uses the shared stream runner *)
From EN Require Export Run.Stream.
