(* C01 runs the shared stream runner (kinds 0-3, 10-12) and, for the raw-JSON / file-based / compressor framers
   (kinds 4-8; kind 20 = every mode of one shipped serializer), the runner of Run/C06.v.
   kind 30: StapledPacketSerializer.  input = L [A 30; A cls; A sent_cap; A recv_cap; inner; B probe] where [inner] is a
   receive case (kinds 0-3) for the RECEIVED serializer and [probe] a payload sent through the SENT serializer
   (an AutoSeparated serializer with separator LF when sent_cap >= 1).
   output = L [A class_rank; receive result or A (-1) when the protocol refuses the serializer for that path;
               chunks produced for the probe or A (-1)] *)
From Coq Require Import ZArith List Bool.
From EN Require Import Lib.Bytes Lib.Sx Frame.Serialize Frame.Stapled Frame.Base64 Frame.NtStruct Gen.ParamsC01.
From EN Require Run.Stream Run.C06.
Import ListNotations.

Definition buffered_kind (k : Z) : bool := ((k =? 1) || (k =? 3) || (k =? 12))%Z.

Definition run_stapled (cls s r : Z) (inner : sx) (probe : bytes) : sx :=
  let rank := stapled_class cls s r in
  match inner with
  | L (A k :: _) =>
      L [A rank;
         (if ((if buffered_kind k then 2 else 1) <=? rank)%Z then Run.Stream.run inner else A (-1));
         (if (1 <=? rank)%Z
          then match autosep_iser true [10%N] probe with Some l => L (map B l) | None => A (-2) end
          else A (-1))]
  | _ => bad_input
  end.

(* kind 31: Base64EncoderSerializer over a bytes pass-through.
   input = L [A 31; A urlsafe; A checksum; B data; L [L [B body; B digest] ...]; L [B token ...]]
   (the table gives the real digest of every body the run hashes; tokens = further tokens to deserialize)
   output = L [B serialize(data); deserialize(serialize(data)); L [deserialize(token) ...]] *)
Fixpoint digest_lookup (t : list (bytes * bytes)) (x : bytes) : bytes :=
  match t with
  | [] => []
  | (k, v) :: t' => if bytes_eqb k x then v else digest_lookup t' x
  end.

Definition dres (r : option bytes) : sx :=
  match r with Some p => L [A 0; B p] | None => L [A 1] end%Z.

Definition run_b64 (url ck : Z) (data : bytes) (table tokens : list sx) : sx :=
  match map_opt (fun r => match r with L [B k; B v] => Some (k, v) | _ => None end) table,
        map_opt (fun r => match r with B t => Some t | _ => None end) tokens with
  | Some t, Some toks =>
      let u := negb (Z.eqb url 0) in
      let h := if Z.eqb ck 0 then None else Some (digest_lookup t) in
      let ser := b64_serialize u h (fun x : bytes => x) in
      let de := b64_deserialize u h (fun x : bytes => Some x) in
      L [B (ser data); dres (de (ser data)); L (map (fun tok => dres (de tok)) toks)]
  | _, _ => bad_input
  end.

(* kind 32: NamedTupleStructSerializer(Point, {"name": "<n>s", "x": "B"}).
   input = L [A 32; A n; A strip; A ascii; B name; A x; L [B frame ...]]
   output = L [B serialize(Point(name, x)); deserialize(that); L [deserialize(frame) ...]],
   a deserialize result = L [A 0; B name; A x] | L [A 1] (DeserializeError) *)
Definition ntres (r : option (bytes * N)) : sx :=
  match r with Some (v, x) => L [A 0; B v; A (Z.of_N x)] | None => L [A 1] end%Z.

Definition run_nt (n strip ascii : Z) (name : bytes) (x : Z) (frames : list sx) : sx :=
  match map_opt (fun r => match r with B t => Some t | _ => None end) frames with
  | Some fs =>
      let k := Z.to_nat n in
      let de := nt_deserialize k (negb (Z.eqb strip 0)) (negb (Z.eqb ascii 0)) in
      let tok := nt_serialize k name (Z.to_N x) in
      L [B tok; ntres (de tok); L (map (fun f => ntres (de f)) fs)]
  | None => bad_input
  end.

Definition run (i : sx) : sx :=
  match i with
  | L [A 32%Z; A n; A strip; A ascii; B name; A x; L frames] => run_nt n strip ascii name x frames
  | L [A 31%Z; A url; A ck; B data; L table; L tokens] => run_b64 url ck data table tokens
  | L [A 30%Z; A cls; A s; A r; inner; B probe] => run_stapled cls s r inner probe
  | L (A k :: _) =>
      if ((Z.leb 4 k && Z.leb k 8) || Z.eqb k 20)%bool then Run.C06.run i else Run.Stream.run i
  | _ => bad_input
  end.
