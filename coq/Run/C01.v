(* C01 runs the shared stream runner (kinds 0-3, 10-12) and, for the raw-JSON / file-based / compressor framers
   (kinds 4-8), the runner of Run/C06.v.
   kind 30: StapledPacketSerializer.  input = L [A 30; A cls; A sent_cap; A recv_cap; inner; B probe] where [inner] is a
   receive case (kinds 0-3) for the RECEIVED serializer and [probe] a payload sent through the SENT serializer
   (an AutoSeparated serializer with separator LF when sent_cap >= 1).
   output = L [A class_rank; receive result or A (-1) when the protocol refuses the serializer for that path;
               chunks produced for the probe or A (-1)] *)
From Coq Require Import ZArith List Bool.
From EN Require Import Lib.Bytes Lib.Sx Frame.Serialize Frame.Stapled Gen.ParamsC01.
From EN Require Run.Stream Run.C06.
Import ListNotations.

Definition buffered_kind (k : Z) : bool := ((k =? 1) || (k =? 3) || (k =? 12))%Z.

Definition run_stapled (cls s r : Z) (inner : sx) (probe : bytes) : sx :=
  let rank := stapled_class cls s r in
  match inner with
  | L (A k :: _) =>
      L [A rank;
         (if ((if buffered_kind k then 2 else 1) <=? rank)%Z then Run.Stream.run inner else A (-1));
         (if (1 <=? rank)%Z
          then match autosep_iser true [10%N] probe with Some l => L (map B l) | None => A (-2) end
          else A (-1))]
  | _ => bad_input
  end.

Definition run (i : sx) : sx :=
  match i with
  | L [A 30%Z; A cls; A s; A r; inner; B probe] => run_stapled cls s r inner probe
  | L (A k :: _) =>
      if (Z.leb 4 k && Z.leb k 8)%bool then Run.C06.run i else Run.Stream.run i
  | _ => bad_input
  end.
