(* C15 runner: one client connection of the stream server driven by a scripted peer and a scripted request handler.
   input  = L [A kind; cfg; dec; L peer; L acts; A oc; A bufsize; ...]
     kind, cfg, dec   as in Run/Stream.v (buffered kinds: sizehint = bufsize = max_recv_size)
     peer item        L [A 0; B chunk; A at] | L [A 1; A at] (eof) | L [A 3; A k; A at] (transport raises kind k)
     act              L [A 0; t] yield t | L [A 1] return | L [A 2] close+return | L [A 3; t] close+yield t | L [A 4] raise
                      t = L [] (None) | L [A ticks]
     oc               0 on_connection coroutine, 1 on_connection generator, 2 coroutine closing the client
   output = L [L events; L wire; outcome; A transport_closed; A peer_items_left; A now]
     event  = L [A 0] on_connection | L [A 1; A g] start | L [A 2; A g; B pkt; A now] request
            | L [A 3; A g; x; A now] thrown error | L [A 4; A g] end | L [A 5; A g] GeneratorExit | L [A 6] on_disconnection
     x      = L [A 0] handler error | L [A 1; A errcode] parse error | L [A 2] TimeoutError | L [A 3; A k] OSError | L [A 4] RuntimeError
     outcome= L [] task returned | L [x] task raised
   input  = L [A 100; conn1; conn2] : two such connections on one server, output = L [out1; out2] *)
From EN Require Import Lib.Bytes Lib.Sx Frame.Framer Frame.ReadUntil Frame.BufReadUntil Stream.Consumer Stream.Endpoint
  Conc.StreamServer Conc.StreamServerSpec Conc.StreamServerMulti Run.Stream.

Definition as_sitem (x : sx) : option sitem :=
  match x with
  | L [A 0%Z; B ch; A a] => Some (SData ch (Z.to_nat a))
  | L [A 1%Z; A a] => Some (SEof (Z.to_nat a))
  | L [A 3%Z; A k; A a] => Some (SRaise (Z.to_nat k) (Z.to_nat a))
  | _ => None
  end.

Definition as_act (x : sx) : option hact :=
  match x with
  | L [A 0%Z; t] => option_map AYield (as_opt as_nat t)
  | L [A 1%Z] => Some AReturn
  | L [A 2%Z] => Some ACloseReturn
  | L [A 3%Z; t] => option_map ACloseYield (as_opt as_nat t)
  | L [A 4%Z] => Some ARaise
  | _ => None
  end.

Definition x_sx (x : xkind) : sx :=
  match x with
  | XHandler => L [A 0]
  | XParse e => L [A 1; A (err_code e)]
  | XTimeout => L [A 2]
  | XOS k => L [A 3; of_nat k]
  | XCrash => L [A 4]
  end%Z.

Definition pkt_sx (p : option bytes) : sx := match p with Some b => B b | None => A (-1)%Z end.

Definition event_sx (e : @event (option bytes)) : sx :=
  match e with
  | EOnConn => L [A 0]
  | EStart g => L [A 1; of_nat g]
  | EGot g (UReq p) now => L [A 2; of_nat g; pkt_sx p; of_nat now]
  | EGot g (UErr x) now => L [A 3; of_nat g; x_sx x; of_nat now]
  | EEnd g => L [A 4; of_nat g]
  | EClosed g => L [A 5; of_nat g]
  | EOnDisc => L [A 6]
  end%Z.

Definition final_sx (f : @final (option bytes)) : sx :=
  L [L (map event_sx (rev (ulog (f_user f))));
     L (map pkt_sx (rev (wire (f_user f))));
     of_opt x_sx (f_outcome f);
     of_bool (f_closed f);
     of_nat (length (f_peer f));
     of_nat (f_now f)].

Definition run1 (i : sx) : sx :=
  match i with
  | L (A kind :: cfg :: d :: ps :: acs :: A oc :: A bufsize :: _) =>
      do dec <- mk_dec d;
      do o <- as_list_of as_sitem ps;
      do acts <- as_list_of as_act acs;
      let bs := Z.to_nat bufsize in
      let occ := Z.to_nat oc in
      match kind, cfg with
      | 0%Z, L [B sep; A limit; A ke] =>
          let F := ru_framer sep (Z.to_nat limit) (Z.eqb ke 1) dec in
          final_sx (client_coroutine (copy_machine F bs) occ acts (cinit F) o)
      | 1%Z, L (B sep :: A limit :: A ke :: _) =>
          let F := bru_framer sep (Z.to_nat limit) (Z.eqb ke 1) dec in
          final_sx (client_coroutine (buf_machine F bs) occ acts (bcinit F) o)
      | 2%Z, L [A size] =>
          let F := rx_framer (Z.to_nat size) dec in
          final_sx (client_coroutine (copy_machine F bs) occ acts (cinit F) o)
      | 3%Z, L (A size :: _) =>
          let F := bfx_framer (Z.to_nat size) dec in
          final_sx (client_coroutine (buf_machine F bs) occ acts (bcinit F) o)
      | _, _ => bad_input
      end
  | _ => bad_input
  end.

(* two connections served concurrently by one server:  L [A 100; conn1; conn2]  ->  L [out1; out2].
   Evaluated with the multi-connection model (Conc/StreamServerMulti.v) under a round-robin interleaving of the two tasks;
   by Props/C15.v connection_runs_its_own_task any other fair interleaving gives the same components, namely the two
   isolated single-connection runs. *)
Section RunMulti.
  Context {C : Type}.
  Variable M : machine (option bytes) C.
  Variable c0 : C.

  Fixpoint round_robin (n : nat) : list nat := match n with 0 => [] | S n' => 0 :: 1 :: round_robin n' end.

  Definition conn_sx (cn : option (@conn (option bytes) C)) : sx :=
    match cn with Some (CDone f) => final_sx f | _ => bad_input end.

  Definition run_pair (oc1 : nat) (acts1 : list hact) (o1 : speer) (oc2 : nat) (acts2 : list hact) (o2 : speer) : sx :=
    let s := srun M (accept [(oc1, acts1, c0, o1); (oc2, acts2, c0, o2)])
                  (round_robin (5 + length acts1 + length acts2)) in
    L [conn_sx (nth_error s 0); conn_sx (nth_error s 1)].
End RunMulti.

Definition parse_conn (i : sx) : option (nat * list hact * speer) :=
  match i with
  | L (_ :: _ :: _ :: ps :: acs :: A oc :: _) =>
      match as_list_of as_sitem ps, as_list_of as_act acs with
      | Some o, Some acts => Some (Z.to_nat oc, acts, o)
      | _, _ => None
      end
  | _ => None
  end.

Definition run2 (i1 i2 : sx) : sx :=
  match i1 with
  | L (A kind :: cfg :: d :: _ :: _ :: _ :: A bufsize :: _) =>
      do dec <- mk_dec d;
      do c1 <- parse_conn i1;
      do c2 <- parse_conn i2;
      let '(oc1, acts1, o1) := c1 in
      let '(oc2, acts2, o2) := c2 in
      let bs := Z.to_nat bufsize in
      match kind, cfg with
      | 0%Z, L [B sep; A limit; A ke] =>
          let F := ru_framer sep (Z.to_nat limit) (Z.eqb ke 1) dec in
          run_pair (copy_machine F bs) (cinit F) oc1 acts1 o1 oc2 acts2 o2
      | 1%Z, L (B sep :: A limit :: A ke :: _) =>
          let F := bru_framer sep (Z.to_nat limit) (Z.eqb ke 1) dec in
          run_pair (buf_machine F bs) (bcinit F) oc1 acts1 o1 oc2 acts2 o2
      | 2%Z, L [A size] =>
          let F := rx_framer (Z.to_nat size) dec in
          run_pair (copy_machine F bs) (cinit F) oc1 acts1 o1 oc2 acts2 o2
      | 3%Z, L (A size :: _) =>
          let F := bfx_framer (Z.to_nat size) dec in
          run_pair (buf_machine F bs) (bcinit F) oc1 acts1 o1 oc2 acts2 o2
      | _, _ => bad_input
      end
  | _ => bad_input
  end.

(* ---- end-to-end over the real asyncio transport (family 300): one connection whose transport is the REAL
   AsyncioTransportStreamSocketAdapter + StreamReaderBufferedProtocol (the harness plays the selector), a handler that only
   yields timeouts and catches TimeoutError, read events tied with the expiry of the yielded timeouts in both orders; the
   peer closes at the end.  Timeouts are not observed; by requests_exactly_once_in_order (peer-ended case) the requests and
   parse errors seen by the handler must be the whole decoding of the stream:
   input  = L [A 300; conn; ...]  (conn: peer = what was sent, then eof; its acts are ignored)
   output = L [L [A 0; B pkt] | L [A 1; A errcode] ...] *)
Definition got_sx (r : nres (option bytes)) : sx :=
  match r with
  | RPkt (Some p) => L [A 0; B p]
  | RPkt None => L [A (-1)]
  | RErr e => L [A 1; A (err_code e)]
  | _ => L [A 9]
  end%Z.

Definition run_e (i : sx) : sx :=
  match i with
  | L (A kind :: cfg :: d :: ps :: _ :: _ :: A bufsize :: _) =>
      do dec <- mk_dec d;
      do o <- as_list_of as_sitem ps;
      let bs := Z.to_nat bufsize in
      let acts := repeat (AYield None) (S (S (speer_size o))) in
      let out := fun (C : Type) (M : machine (option bytes) C) (c0 : C) =>
                   L (map got_sx (StreamServerSpec.got_log (ulog (f_user (client_coroutine M 0 acts c0 o))))) in
      match kind, cfg with
      | 0%Z, L [B sep; A limit; A ke] =>
          let F := ru_framer sep (Z.to_nat limit) (Z.eqb ke 1) dec in out _ (copy_machine F bs) (cinit F)
      | 1%Z, L (B sep :: A limit :: A ke :: _) =>
          let F := bru_framer sep (Z.to_nat limit) (Z.eqb ke 1) dec in out _ (buf_machine F bs) (bcinit F)
      | 2%Z, L [A size] =>
          let F := rx_framer (Z.to_nat size) dec in out _ (copy_machine F bs) (cinit F)
      | 3%Z, L (A size :: _) =>
          let F := bfx_framer (Z.to_nat size) dec in out _ (buf_machine F bs) (bcinit F)
      | _, _ => bad_input
      end
  | _ => bad_input
  end.

Definition run (i : sx) : sx :=
  match i with
  | L [A 100%Z; i1; i2] => run2 i1 i2
  | L (A 300%Z :: conn :: _) => run_e conn
  | _ => run1 i
  end.
