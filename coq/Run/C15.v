(* C15 runner: one client connection of the stream server driven by a scripted peer and a scripted request handler.
   input  = L [A kind; cfg; dec; L peer; L acts; A oc; A bufsize; ...]
     kind, cfg, dec   as in Run/Stream.v (buffered kinds: sizehint = bufsize = max_recv_size)
     peer item        L [A 0; B chunk; A at] | L [A 1; A at] (eof) | L [A 3; A k; A at] (transport raises kind k)
     act              L [A 0; t] yield t | L [A 1] return | L [A 2] close+return | L [A 3; t] close+yield t | L [A 4] raise
                      t = L [] (None) | L [A ticks]
     oc               0 on_connection coroutine, 1 on_connection generator, 2 coroutine closing the client
   output = L [L events; L wire; outcome; A transport_closed; A peer_items_left; A now]
     event  = L [A 0] on_connection | L [A 1; A g] start | L [A 2; A g; B pkt; A now] request
            | L [A 3; A g; x; A now] thrown error | L [A 4; A g] end | L [A 5; A g] GeneratorExit | L [A 6] on_disconnection
     x      = L [A 0] handler error | L [A 1; A errcode] parse error | L [A 2] TimeoutError | L [A 3; A k] OSError | L [A 4] RuntimeError
     outcome= L [] task returned | L [x] task raised
   input  = L [A 100; conn1; conn2] : two such connections on one server, output = L [out1; out2] *)
From EN Require Import Lib.Bytes Lib.Sx Frame.Framer Frame.ReadUntil Frame.BufReadUntil Stream.Consumer Stream.Endpoint
  Conc.StreamServer Run.Stream.

Definition as_sitem (x : sx) : option sitem :=
  match x with
  | L [A 0%Z; B ch; A a] => Some (SData ch (Z.to_nat a))
  | L [A 1%Z; A a] => Some (SEof (Z.to_nat a))
  | L [A 3%Z; A k; A a] => Some (SRaise (Z.to_nat k) (Z.to_nat a))
  | _ => None
  end.

Definition as_act (x : sx) : option hact :=
  match x with
  | L [A 0%Z; t] => option_map AYield (as_opt as_nat t)
  | L [A 1%Z] => Some AReturn
  | L [A 2%Z] => Some ACloseReturn
  | L [A 3%Z; t] => option_map ACloseYield (as_opt as_nat t)
  | L [A 4%Z] => Some ARaise
  | _ => None
  end.

Definition x_sx (x : xkind) : sx :=
  match x with
  | XHandler => L [A 0]
  | XParse e => L [A 1; A (err_code e)]
  | XTimeout => L [A 2]
  | XOS k => L [A 3; of_nat k]
  | XCrash => L [A 4]
  end%Z.

Definition pkt_sx (p : option bytes) : sx := match p with Some b => B b | None => A (-1)%Z end.

Definition event_sx (e : @event (option bytes)) : sx :=
  match e with
  | EOnConn => L [A 0]
  | EStart g => L [A 1; of_nat g]
  | EGot g (UReq p) now => L [A 2; of_nat g; pkt_sx p; of_nat now]
  | EGot g (UErr x) now => L [A 3; of_nat g; x_sx x; of_nat now]
  | EEnd g => L [A 4; of_nat g]
  | EClosed g => L [A 5; of_nat g]
  | EOnDisc => L [A 6]
  end%Z.

Definition final_sx (f : @final (option bytes)) : sx :=
  L [L (map event_sx (rev (ulog (f_user f))));
     L (map pkt_sx (rev (wire (f_user f))));
     of_opt x_sx (f_outcome f);
     of_bool (f_closed f);
     of_nat (length (f_peer f));
     of_nat (f_now f)].

Definition run1 (i : sx) : sx :=
  match i with
  | L (A kind :: cfg :: d :: ps :: acs :: A oc :: A bufsize :: _) =>
      do dec <- mk_dec d;
      do o <- as_list_of as_sitem ps;
      do acts <- as_list_of as_act acs;
      let bs := Z.to_nat bufsize in
      let occ := Z.to_nat oc in
      match kind, cfg with
      | 0%Z, L [B sep; A limit; A ke] =>
          let F := ru_framer sep (Z.to_nat limit) (Z.eqb ke 1) dec in
          final_sx (client_coroutine (copy_machine F bs) occ acts (cinit F) o)
      | 1%Z, L (B sep :: A limit :: A ke :: _) =>
          let F := bru_framer sep (Z.to_nat limit) (Z.eqb ke 1) dec in
          final_sx (client_coroutine (buf_machine F bs) occ acts (bcinit F) o)
      | 2%Z, L [A size] =>
          let F := rx_framer (Z.to_nat size) dec in
          final_sx (client_coroutine (copy_machine F bs) occ acts (cinit F) o)
      | 3%Z, L (A size :: _) =>
          let F := bfx_framer (Z.to_nat size) dec in
          final_sx (client_coroutine (buf_machine F bs) occ acts (bcinit F) o)
      | _, _ => bad_input
      end
  | _ => bad_input
  end.

(* two connections served concurrently by one server:  L [A 100; conn1; conn2]  ->  L [out1; out2].
   The model of a connection does not mention any other connection: the per-connection observables of a concurrent
   run must be those of the two isolated runs. *)
Definition run (i : sx) : sx :=
  match i with
  | L [A 100%Z; i1; i2] => L [run1 i1; run1 i2]
  | _ => run1 i
  end.
