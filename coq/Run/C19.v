(* C19 entry point: decode a case, run the model of dns_resolver.py, encode the observables (format: harness/c19.py).
   The race is run by a deterministic scheduler that mirrors asyncio's FIFO ready queue and emits labels of
   Conc.ConnRace.step; every state it goes through is therefore reachable in the sense of the theorems. *)
From Coq Require Import ZArith List Bool Arith Lia.
Import ListNotations.
From EN Require Import Lib.Bytes Lib.Sx Conc.ConnRace Conc.ClientConn.

(* ------------------------------------------------------------------ scheduler state *)
Inductive csrc := SrcScope | SrcCaller | SrcTg | SrcOuter.   (* SrcOuter: the client's connector scope (aclose) *)
Inductive hres := HrOk | HrTimeout | HrCancel (src : csrc).
Inductive witem := WHost | WChild (i : nat) | WTgDone (i : nat) (crashed : bool) | WDeliver.

Record dstate := {
  d_s : rstate;
  d_rq : list witem;                  (* FIFO ready queue *)
  d_h : option hres;                  (* Some r: the host's wake-up is in the queue with resume value r *)
  d_c : list (option resume);         (* Some r: the connect future of child i is resolved, wake-up queued *)
  d_first : option csrc;              (* source of the first CancelledError delivered to the host *)
  d_bad : bool                        (* the scheduler emitted a label that step rejected: never expected *)
}.

Definition with_s (d : dstate) (s : rstate) : dstate :=
  {| d_s := s; d_rq := d_rq d; d_h := d_h d; d_c := d_c d; d_first := d_first d; d_bad := d_bad d |}.
Definition push (d : dstate) (w : witem) : dstate :=
  {| d_s := d_s d; d_rq := d_rq d ++ [w]; d_h := d_h d; d_c := d_c d; d_first := d_first d; d_bad := d_bad d |}.
Definition set_h (d : dstate) (h : option hres) : dstate :=
  {| d_s := d_s d; d_rq := d_rq d; d_h := h; d_c := d_c d; d_first := d_first d; d_bad := d_bad d |}.
Definition set_c (d : dstate) (i : nat) (r : option resume) : dstate :=
  {| d_s := d_s d; d_rq := d_rq d; d_h := d_h d; d_c := upd (d_c d) i r; d_first := d_first d; d_bad := d_bad d |}.
Definition set_first (d : dstate) (f : csrc) : dstate :=
  {| d_s := d_s d; d_rq := d_rq d; d_h := d_h d; d_c := d_c d;
     d_first := match d_first d with None => Some f | x => x end; d_bad := d_bad d |}.
Definition bad (d : dstate) : dstate :=
  {| d_s := d_s d; d_rq := d_rq d; d_h := d_h d; d_c := d_c d; d_first := d_first d; d_bad := true |}.

Definition do_label (c : rcfg) (d : dstate) (l : label) : dstate :=
  match step c (d_s d) l with Some s' => with_s d s' | None => bad d end.

Definition host_blocked_waiting (d : dstate) : bool :=
  match d_h d, r_host (d_s d) with
  | None, (HWait _ | HJoin | HAbort) => true
  | _, _ => false
  end.

(* Task.cancel() on the host *)
Definition cancel_host (d : dstate) (src : csrc) : dstate :=
  match d_h d with
  | None => if host_blocked_waiting d then push (set_h d (Some (HrCancel src))) WHost else d
  | Some HrOk => set_h d (Some (HrCancel src))          (* _must_cancel on a task whose wake-up is queued *)
  | Some HrTimeout => d    (* absorbed: the CancelledError of the stagger scope is the one delivered *)
  | Some (HrCancel _) => d
  end.

(* cancel the children the way TaskGroup._abort does: blocked ones are woken with CancelledError *)
Fixpoint wake_cancelled (att : list tstate) (dc : list (option resume)) (i : nat) : list witem :=
  match att, dc with
  | TConn _ :: att', None :: dc' => WChild i :: wake_cancelled att' dc' (S i)
  | _ :: att', _ :: dc' => wake_cancelled att' dc' (S i)
  | _, _ => []
  end.
Fixpoint mark_cancelled (att : list tstate) (dc : list (option resume)) : list (option resume) :=
  match att, dc with
  | TConn _ :: att', None :: dc' => Some RCancel :: mark_cancelled att' dc'
  | _ :: att', x :: dc' => x :: mark_cancelled att' dc'
  | _, _ => dc
  end.

Definition abort_children (c : rcfg) (d : dstate) : dstate :=
  let att := r_att (d_s d) in
  let ws := wake_cancelled att (d_c d) 0 in
  let d1 := do_label c d LHostCancel in
  {| d_s := d_s d1; d_rq := d_rq d1 ++ ws; d_h := d_h d1; d_c := mark_cancelled att (d_c d); d_first := d_first d1;
     d_bad := d_bad d1 |}.

Definition swallow_of (d : dstate) : bool :=
  match d_first d with Some SrcCaller | Some SrcOuter => false | _ => true end.

Definition try_finish (c : rcfg) (d : dstate) : dstate :=
  if all_children_done (d_s d) then do_label c d (LHostFinish (swallow_of d)) else d.

(* one step of the host task *)
Definition host_step (c : rcfg) (d0 : dstate) : dstate :=
  match d_h d0 with
  | None => d0
  | Some r =>
      let d := set_h d0 None in
      match r_host (d_s d) with
      | HInit =>
          let d1 := do_label c d LHostStart in set_c (push d1 (WChild 0)) 0 None
      | HWait k =>
          match r with
          | HrCancel src => try_finish c (abort_children c (set_first d src))
          | _ =>
              let d1 := do_label c d (LHostNext (match r with HrTimeout => true | _ => false end)) in
              match r_host (d_s d1) with
              | HWait k' => push d1 (WChild k')
              | _ => try_finish c d1
              end
          end
      | HJoin =>
          match r with
          | HrCancel src => try_finish c (abort_children c (set_first d src))
          | _ => try_finish c d
          end
      | HAbort => try_finish c d
      | HDone => d
      end
  end.

(* bookkeeping after child i reached TFin by running its body *)
Definition child_finished (c : rcfg) (before : rstate) (d : dstate) (i : nat) (ran_body : bool) : dstate :=
  let s := d_s d in
  (* winner: connection_scope.cancel() *)
  let d1 := if negb (r_scope before) && r_scope s then push (cancel_host d SrcScope) WDeliver else d in
  (* finally: done.set() *)
  let d2 := if ran_body then
              match r_host (d_s d1), d_h d1 with
              | HWait k, None => if Nat.eqb k i then push (set_h d1 (Some HrOk)) WHost else d1
              | _, _ => d1
              end
            else d1 in
  push d2 (WTgDone i (negb (r_crashed before) && r_crashed s)).

Definition child_step (c : rcfg) (d : dstate) (i : nat) : dstate :=
  let before := d_s d in
  match nth_error (r_att before) i with
  | Some (TNew true) => child_finished c before (do_label c d (LChildSkip i)) i false
  | Some (TNew false) =>
      let d1 := do_label c d (LChildStart i) in
      match nth_error (r_att (d_s d1)) i with
      | Some TFin => child_finished c before d1 i true
      | _ => d1
      end
  | Some (TConn true) => child_finished c before (set_c (do_label c d (LConnCancel i)) i None) i true
  | Some (TConn false) =>
      match nth i (d_c d) None with
      | Some ROk => child_finished c before (set_c (do_label c d (LConnOk i)) i None) i true
      | Some RFail => child_finished c before (set_c (do_label c d (LConnFail i)) i None) i true
      | Some RCrash => child_finished c before (set_c (do_label c d (LConnCrash i)) i None) i true
      | _ => bad d
      end
  | _ => d
  end.

Definition tg_done (c : rcfg) (d : dstate) (crashed : bool) : dstate :=
  match r_host (d_s d) with
  | HDone | HInit => d
  | h =>
      if crashed then
        let d1 := match h with HWait _ | HJoin => abort_children c d | _ => d end in
        cancel_host d1 SrcTg
      else
        match h, d_h d with
        | (HJoin | HAbort), None =>
            if all_children_done (d_s d) then push (set_h d (Some HrOk)) WHost else d
        | _, _ => d
        end
  end.

Definition deliver (d : dstate) : dstate :=
  match r_host (d_s d) with
  | HDone => d
  | _ =>
      let d1 := match d_h d with
                | None => cancel_host d SrcScope
                | Some HrOk => set_h d (Some (HrCancel SrcScope))
                | _ => d
                end in
      push d1 WDeliver
  end.

Definition process (c : rcfg) (d : dstate) (w : witem) : dstate :=
  match w with
  | WHost => host_step c d
  | WChild i => child_step c d i
  | WTgDone _ crashed => tg_done c d crashed
  | WDeliver => deliver d
  end.

Definition pop (d : dstate) : option (witem * dstate) :=
  match d_rq d with
  | [] => None
  | w :: rq => Some (w, {| d_s := d_s d; d_rq := rq; d_h := d_h d; d_c := d_c d; d_first := d_first d;
                           d_bad := d_bad d |})
  end.

Fixpoint quiesce (c : rcfg) (fuel : nat) (d : dstate) : dstate :=
  match fuel with
  | 0 => bad d
  | S f => match pop d with
           | None => d
           | Some (w, d') => quiesce c f (process c d' w)
           end
  end.

(* ------------------------------------------------------------------ environment events *)
Fixpoint find_pos (id : nat) (l : list acfg) (i : nat) : option nat :=
  match l with
  | [] => None
  | a :: l' => if Nat.eqb (a_id a) id then Some i else find_pos id l' (S i)
  end.

Definition apply_ev (c : rcfg) (pos : nat) (d : dstate) (ev : Z * nat) : dstate * bool :=
  let '(code, arg) := ev in
  let resolve (r : resume) :=
    match find_pos arg (c_addrs c) 0 with
    | Some p =>
        match nth_error (r_att (d_s d)) p, nth p (d_c d) None with
        | Some (TConn false), None => (push (set_c d p (Some r)) (WChild p), true)
        | _, _ => (d, false)
        end
    | None => (d, false)
    end in
  match code with
  | 0%Z => resolve ROk
  | 1%Z => resolve RFail
  | 2%Z => resolve RCrash
  | 3%Z =>
      match pos, d_rq d, d_h d, r_host (d_s d) with
      | 0, [], None, HWait _ => if c_delay c then (push (set_h d (Some HrTimeout)) WHost, true) else (d, false)
      | _, _, _, _ => (d, false)
      end
  | 4%Z =>
      match r_host (d_s d) with
      | HDone => (d, false)
      | _ => (cancel_host (do_label c d LCancelCaller) SrcCaller, true)
      end
  | _ => (bad d, false)
  end.

Fixpoint apply_batch (c : rcfg) (pos : nat) (d : dstate) (b : list (Z * nat)) : dstate * list bool :=
  match b with
  | [] => (d, [])
  | ev :: b' =>
      let '(d1, f) := apply_ev c pos d ev in
      let '(d2, fs) := apply_batch c (S pos) d1 b' in
      (d2, f :: fs)
  end.

(* ------------------------------------------------------------------ encoding *)
Fixpoint insert_sorted (x : nat) (l : list nat) : list nat :=
  match l with
  | [] => [x]
  | y :: l' => if x <=? y then x :: l else y :: insert_sorted x l'
  end.
Definition sort_nat (l : list nat) : list nat := fold_right insert_sorted [] l.

Definition res_sx (r : option outcome) : sx :=
  match r with
  | None => L []
  | Some (ResSock id) => L [A 0; of_nat id]
  | Some (ResErrs n) => L [A 1; of_nat n]
  | Some ResCancelled => L [A 2]
  | Some ResCrash => L [A 3]
  end%Z.

Definition snap (flags : list bool) (d : dstate) : sx :=
  if d_bad d then L [A (-7)]
  else L [L (map of_bool flags); L (map of_nat (r_created (d_s d))); L (map of_nat (sort_nat (r_open (d_s d))));
          res_sx (r_result (d_s d))].

Definition fuel0 := 400.

Fixpoint run_batches (c : rcfg) (d : dstate) (bs : list (list (Z * nat))) : list sx :=
  match bs with
  | [] => []
  | b :: bs' =>
      let '(d1, flags) := apply_batch c 0 d b in
      let d2 := quiesce c fuel0 d1 in
      snap flags d2 :: run_batches c d2 bs'
  end.

Definition run_race (c : rcfg) (bs : list (list (Z * nat))) : sx :=
  let d0 := {| d_s := init c; d_rq := [WHost]; d_h := Some HrOk; d_c := map (fun _ => None) (c_addrs c);
               d_first := None; d_bad := false |} in
  let d1 := quiesce c fuel0 d0 in
  L (snap [] d1 :: run_batches c d1 bs).

(* ------------------------------------------------------------------ client level (kind 3): Conc/ClientConn.v *)
Inductive citem := CRace (w : witem) | CStartWait | CAclose | CDeliverOuter | CWrapResolve | CWrapWake.

Record cst := {
  c_d : dstate;                       (* race scheduler; its own queue is emptied into c_q after every item *)
  c_k : kstate;                       (* state of the client LTS; k_race = d_s c_d *)
  c_q : list citem;                   (* FIFO ready queue *)
  c_wait : bool;                      (* a wait_connected() task exists *)
  c_wrap : option (option csrc);      (* wrap future: None pending, Some None result, Some (Some src) cancelled *)
  c_bad : bool
}.

Definition set_race (k : kstate) (r : rstate) : kstate :=
  {| k_race := r; k_w := k_w k; k_connector := k_connector k; k_scope_used := k_scope_used k;
     k_scope_cancel := k_scope_cancel k; k_task_cancel := k_task_cancel k; k_endpoint := k_endpoint k;
     k_sock_closed := k_sock_closed k; k_aclosed := k_aclosed k; k_outs := k_outs k |}.

Definition set_ds (d : dstate) (r : rstate) : dstate :=
  {| d_s := r; d_rq := d_rq d; d_h := d_h d; d_c := d_c d; d_first := d_first d; d_bad := d_bad d |}.

(* take what the race scheduler queued *)
Definition drain (x : cst) (d : dstate) : cst :=
  {| c_d := {| d_s := d_s d; d_rq := []; d_h := d_h d; d_c := d_c d; d_first := d_first d; d_bad := d_bad d |};
     c_k := set_race (c_k x) (d_s d); c_q := c_q x ++ map CRace (d_rq d); c_wait := c_wait x; c_wrap := c_wrap x;
     c_bad := c_bad x || d_bad d |}.

Definition cpush (x : cst) (i : citem) : cst :=
  {| c_d := c_d x; c_k := c_k x; c_q := c_q x ++ [i]; c_wait := c_wait x; c_wrap := c_wrap x; c_bad := c_bad x |}.
Definition cset_wait (x : cst) (b : bool) : cst :=
  {| c_d := c_d x; c_k := c_k x; c_q := c_q x; c_wait := b; c_wrap := c_wrap x; c_bad := c_bad x |}.
Definition cset_wrap (x : cst) (w : option (option csrc)) : cst :=
  {| c_d := c_d x; c_k := c_k x; c_q := c_q x; c_wait := c_wait x; c_wrap := w; c_bad := c_bad x |}.
Definition cbad (x : cst) : cst :=
  {| c_d := c_d x; c_k := c_k x; c_q := c_q x; c_wait := c_wait x; c_wrap := c_wrap x; c_bad := true |}.

(* apply a label of the client LTS; the race component of the scheduler follows *)
Definition klabel_do (c : rcfg) (x : cst) (l : klabel) : cst :=
  match kstep c (c_k x) l with
  | Some k => {| c_d := set_ds (c_d x) (k_race k); c_k := k; c_q := c_q x; c_wait := c_wait x; c_wrap := c_wrap x;
                 c_bad := c_bad x |}
  | None => cbad x
  end.

Definition call_over (x : cst) : cst :=
  match k_w (c_k x) with WIdle => cset_wait x false | _ => x end.

(* Task.cancel() on the connecting task while it is suspended in (or about to resume from) wrap_stream_socket *)
Definition cancel_wrap (x : cst) (src : csrc) : cst :=
  match c_wrap x with
  | None => cpush (cset_wrap x (Some (Some src))) CWrapWake
  | Some None => cset_wrap x (Some (Some src))          (* _must_cancel: the queued wake-up raises instead *)
  | Some (Some _) => x
  end.

Definition cancel_conn_task (c : rcfg) (x : cst) (src : csrc) : cst :=
  match k_w (c_k x) with
  | WRace => drain x (match d_h (c_d x) with
                      | Some HrOk => set_h (c_d x) (Some (HrCancel src))
                      | _ => cancel_host (c_d x) src
                      end)
  | WWrap _ => cancel_wrap x src
  | _ => x
  end.

(* the connecting task leaves the race in the step in which the race's host finished *)
Definition after_race (c : rcfg) (x : cst) : cst :=
  match k_w (c_k x), r_result (d_s (c_d x)) with
  | WRace, Some (ResSock _) => cpush (cset_wrap (klabel_do c x (KRaceDone false)) None) CWrapResolve
  | WRace, Some ResCancelled =>
      call_over (klabel_do c x (KRaceDone (match d_first (c_d x) with Some SrcOuter => true | _ => false end)))
  | WRace, Some _ => call_over (klabel_do c x (KRaceDone false))
  | _, _ => x
  end.

Definition cprocess (c : rcfg) (x : cst) (i : citem) : cst :=
  match i with
  | CRace w => after_race c (drain x (process c (c_d x) w))
  | CStartWait =>
      let x1 := klabel_do c x KBegin in
      match k_w (c_k x1) with
      | WRace => after_race c (drain x1 (process c (set_h (c_d x1) (Some HrOk)) WHost))
      | _ => call_over x1
      end
  | CAclose =>
      let had := k_connector (c_k x) in
      let x1 := klabel_do c x KAclose in
      if had then
        match k_w (c_k x1) with
        | WRace | WWrap _ => cpush (cancel_conn_task c x1 SrcOuter) CDeliverOuter
        | _ => x1
        end
      else x1
  | CDeliverOuter =>
      match k_w (c_k x) with
      | WRace | WWrap _ => cpush (cancel_conn_task c x SrcOuter) CDeliverOuter
      | _ => x
      end
  | CWrapResolve =>
      match k_w (c_k x), c_wrap x with
      | WWrap _, None => cpush (cset_wrap x (Some None)) CWrapWake
      | _, _ => x
      end
  | CWrapWake =>
      match k_w (c_k x), c_wrap x with
      | WWrap _, Some None => call_over (klabel_do c x KWrapDone)
      | WWrap _, Some (Some src) =>
          call_over (klabel_do c x (KWrapCancel (match src with SrcOuter => true | _ => false end)))
      | _, _ => x
      end
  end.

Fixpoint cquiesce (c : rcfg) (fuel : nat) (x : cst) : cst :=
  match fuel with
  | 0 => cbad x
  | S f => match c_q x with
           | [] => x
           | i :: q => cquiesce c f (cprocess c {| c_d := c_d x; c_k := c_k x; c_q := q; c_wait := c_wait x;
                                                   c_wrap := c_wrap x; c_bad := c_bad x |} i)
           end
  end.

Definition capply_ev (c : rcfg) (pos : nat) (x : cst) (ev : Z * nat) : cst * bool :=
  let '(code, arg) := ev in
  match code with
  | 0%Z | 1%Z | 2%Z | 3%Z =>
      match k_w (c_k x), (if Z.eqb code 3 then c_q x else []) with
      | WRace, [] => let '(d, f) := apply_ev c pos (c_d x) ev in (drain x d, f)
      | _, _ => (x, false)
      end
  | 4%Z =>
      if c_wait x then
        let x1 := klabel_do c x KCancelTask in
        (match k_w (c_k x1) with
         | WRace => drain x1 (cancel_host (c_d x1) SrcCaller)
         | WWrap _ => cancel_wrap x1 SrcCaller
         | _ => x1
         end, true)
      else (x, false)
  | 5%Z => (cpush x CAclose, true)
  | 6%Z => if c_wait x then (x, false) else (cpush (cset_wait (klabel_do c x KWait) true) CStartWait, true)
  | _ => (cbad x, false)
  end.

Fixpoint capply_batch (c : rcfg) (pos : nat) (x : cst) (b : list (Z * nat)) : cst * list bool :=
  match b with
  | [] => (x, [])
  | ev :: b' =>
      let '(x1, f) := capply_ev c pos x ev in
      let '(x2, fs) := capply_batch c (S pos) x1 b' in
      (x2, f :: fs)
  end.

Definition wout_code (o : wout) : Z :=
  match o with WOk => 0 | WClosed => 1 | WCancelled => 2 | WErr => 3 | WReenter => 4 | WCrash => 5 end%Z.

Definition csnap (flags : list bool) (x : cst) : sx :=
  if c_bad x then L [A (-7)]
  else
    let k := c_k x in
    L [L (map of_bool flags); L (map of_nat (r_created (k_race k))); L (map of_nat (sort_nat (kopen k)));
       L (map (fun ob => L [A (wout_code (fst ob)); of_bool (snd ob)]) (k_outs k));
       of_bool (c_wait x);
       of_bool (match k_endpoint k with Some _ => true | None => false end);
       of_bool (if k_connector k then false
                else match k_endpoint k with None => true | Some _ => k_sock_closed k end)].

Fixpoint crun_batches (c : rcfg) (x : cst) (bs : list (list (Z * nat))) : list sx :=
  match bs with
  | [] => []
  | b :: bs' =>
      let '(x1, flags) := capply_batch c 0 x b in
      let x2 := cquiesce c fuel0 x1 in
      csnap flags x2 :: crun_batches c x2 bs'
  end.

Definition run_client (c : rcfg) (bs : list (list (Z * nat))) : sx :=
  let d0 := {| d_s := init c; d_rq := []; d_h := None; d_c := map (fun _ => None) (c_addrs c);
               d_first := None; d_bad := false |} in
  let x0 := {| c_d := d0; c_k := kinit c; c_q := []; c_wait := false; c_wrap := None; c_bad := false |} in
  L (csnap [] x0 :: crun_batches c x0 bs).

(* ------------------------------------------------------------------ sequential _create_connection_impl *)
Record qstate := { q_st : cc_st; q_open : list nat; q_res : option resume (* resolved, wake-up queued *) }.

Definition seq_result (st : cc_st) : option outcome :=
  match st with
  | CcWait _ _ _ => None
  | CcDone (OutSock id) => Some (ResSock id)
  | CcDone (OutErrs n) => Some (ResErrs n)
  | CcDone OutCancel => Some ResCancelled
  | CcDone OutCrash => Some ResCrash
  end.

Definition seq_apply (q : qstate) (ev : Z * nat) : qstate * bool :=
  let '(code, arg) := ev in
  match q_st q with
  | CcDone _ => (q, false)
  | CcWait cur _ _ =>
      let resolve (r : resume) :=
        match q_res q with
        | None => if Nat.eqb (a_id cur) arg
                  then ({| q_st := q_st q; q_open := q_open q; q_res := Some r |}, true) else (q, false)
        | Some _ => (q, false)
        end in
      match code with
      | 0%Z => resolve ROk
      | 1%Z => resolve RFail
      | 2%Z => resolve RCrash
      | 4%Z => ({| q_st := q_st q; q_open := q_open q; q_res := Some RCancel |}, true)
      | _ => (q, false)
      end
  end.

Fixpoint seq_apply_batch (q : qstate) (b : list (Z * nat)) : qstate * list bool :=
  match b with
  | [] => (q, [])
  | ev :: b' => let '(q1, f) := seq_apply q ev in let '(q2, fs) := seq_apply_batch q1 b' in (q2, f :: fs)
  end.

Definition seq_quiesce (locals : option (list lcfg)) (q : qstate) : qstate :=
  match q_st q, q_res q with
  | CcWait cur rest errs, Some r =>
      let '(st, open) := cc_resume locals cur rest errs r (q_open q) in
      {| q_st := st; q_open := open; q_res := None |}
  | _, _ => q
  end.

Definition seq_snap (flags : list bool) (q : qstate) : sx :=
  L [L (map of_bool flags); L []; L (map of_nat (sort_nat (q_open q))); res_sx (seq_result (q_st q))].

Fixpoint seq_batches (locals : option (list lcfg)) (q : qstate) (bs : list (list (Z * nat))) : list sx :=
  match bs with
  | [] => []
  | b :: bs' =>
      let '(q1, flags) := seq_apply_batch q b in
      let q2 := seq_quiesce locals q1 in
      seq_snap flags q2 :: seq_batches locals q2 bs'
  end.

Definition run_seq (addrs : list acfg) (locals : option (list lcfg)) (bs : list (list (Z * nat))) : sx :=
  let '(st, open) := cc_advance locals addrs 0 [] in
  let q := {| q_st := st; q_open := open; q_res := None |} in
  L (seq_snap [] q :: seq_batches locals q bs).

(* ------------------------------------------------------------------ decoding *)
Definition dec_ck (z : Z) : option conn_kind :=
  match z with 0 => Some CkSuspend | 1 => Some CkOk | 2 => Some CkFail | 3 => Some CkCrash | _ => None end%Z.

Fixpoint dec_addrs (l : list sx) (i : nat) : option (list acfg) :=
  match l with
  | [] => Some []
  | L (A fam :: A cr :: A ck :: _) :: l' =>      (* an optional 4th field selects the errno of the failures: the model does not care *)
      match dec_ck ck, dec_addrs l' (S i) with
      | Some k, Some rest => Some ({| a_id := i; a_fam := fam; a_create := Z.eqb cr 1; a_conn := k |} :: rest)
      | _, _ => None
      end
  | _ => None
  end.

Definition dec_local (x : sx) : option lcfg :=
  match x with
  | L [A fam; ids] => match as_list_of as_nat ids with Some l => Some (fam, l) | None => None end
  | _ => None
  end.

Definition dec_ev (x : sx) : option (Z * nat) :=
  match x with L [A code; a] => match as_nat a with Some n => Some (code, n) | None => None end | _ => None end.

Definition ids_of (l : list acfg) : sx := L (map (fun a => of_nat (a_id a)) l).

Definition run (x : sx) : sx :=
  match x with
  | L [A 2%Z; L fams] =>
      do fs <- map_opt as_Z fams;
      let addrs := (fix mk (l : list Z) (i : nat) : list acfg :=
                      match l with
                      | [] => []
                      | f :: l' => {| a_id := i; a_fam := f; a_create := true; a_conn := CkSuspend |} :: mk l' (S i)
                      end) fs 0 in
      L [ids_of (prioritize addrs); ids_of (interleave addrs); ids_of (reorder addrs)]
  | L (A kind :: A delay :: L addrs :: locals :: L batches :: _) =>
      do la <- dec_addrs addrs 0;
      do lo <- as_opt (as_list_of dec_local) locals;
      do bs <- map_opt (as_list_of dec_ev) batches;
      match kind with
      | 1%Z => run_race {| c_addrs := reorder la; c_locals := lo; c_delay := Z.eqb delay 1 |} bs
      | 0%Z => run_seq la lo bs
      | 3%Z => run_client {| c_addrs := reorder la; c_locals := lo; c_delay := Z.eqb delay 1 |} bs
      | _ => bad_input
      end
  | _ => bad_input
  end.
