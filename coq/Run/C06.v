(* Executable entry point of C06 (and of the raw-JSON / generic framers for C01, C02, C07).
   input  = L [A kind; cfg; tabs; L chunks; ...]
     kind 0..3   see Run/Stream.v (same dispatch)
     kind 4  copying  raw JSON        cfg = L [A limit]                       tabs = dec (as in Run/Stream.v)
     kind 5  copying  file based      cfg = L [A limit; L expected]           tabs = loader table
     kind 6  buffered file based      cfg = L [A limit; L expected; A hint]   tabs = loader table
     kind 7  copying  compressor      cfg = L [L expected]                    tabs = L [decompressor table; dec]
     kind 8  buffered compressor      cfg = L [L expected; A hint]            tabs = L [decompressor table; dec]
       loader table row        L [B content; L [A 0; A pos]]           load_from_file raised EOFError, file.tell() = pos
                               L [B content; L [A 1; B pkt; A pos]]    returned pkt
                               L [B content; L [A 2; A k; A pos]]      raised class k
       decompressor table row  L [B total_input; L [A 0]]              not at eof yet (output withheld)
                               L [B total_input; L [A 1; B out; B unused]]   eof: whole output, unused_data
                               L [B total_input; L [A 2; A k]]         decompress raised class k
       (the table is keyed by everything fed to one decompressor object so far: chunk independence of the library is
        an assumption of this instantiation, not of Frame/Generic.v)
     output = L rounds as in Run/Stream.v

     kind 20  all modes of one serializer     L [A 20; A family; cfg; tabs; B data; L chunks; A hint; ...]
       family 0 StringLineSerializer   cfg = L [B sep; A limit; A keep_end]      tabs = ans table of str()
              1 JSONSerializer lines   cfg = L [A limit]                         tabs = ans table (step 0 str(), 1 decode)
              2 JSONSerializer raw     cfg = L [A limit]                         same
              3 struct serializers     cfg = L [A size]                          tabs = ans table (step 0 unpack, 1 from_tuple)
              4 Base64EncoderSerializer cfg = L [B sep; A limit; A inner]         tabs = L [ans table of b64decode+checksum; inner ans table]
              5 PickleSerializer       cfg = L []                                tabs = loader table of Unpickler(BytesIO(data)).load()
              6 compressors            cfg = L [A which(0 zlib,1 bz2); A inner]  tabs = L [decompressor table; inner ans table]
              7 file based             cfg = L [A limit; L expected]             tabs = loader table
         inner = 0 StringLineSerializer(LF, ascii), 1|2 JSON, 5 pickle, 9 bytes pass-through
         ans table row  L [B key; L [A 0; B value]] | L [B key; L [A 1]] (rejected without exception) | L [B key; L [A 2; A step; A k]]
       output = L [oneshot; datagram; L copying_rounds; L buffered_rounds]
         oneshot  = L [A 0; B pkt] | L [A 1] (DeserializeError) | L [A 2; A k] (class k escapes)
         datagram = L [A 0; B pkt] | L [A 1] (DatagramProtocolParseError) | L [A 2; A k]
         rounds as in Run/Stream.v; L [] for a mode the serializer does not have
         buffered rounds (kinds 6, 8, 20) may end with the event L [A 9; A 2]: ValueError left next() because the
         remainder did not fit in the receive buffer (see RunBuf2)                                                    *)
From EN Require Import Lib.Bytes Lib.Sx Frame.Framer Frame.ReadUntil Frame.BufReadUntil Frame.JsonRaw Frame.ErrSites
  Frame.Generic Frame.Deserialize Stream.Consumer Run.Stream Gen.ParamsC06.

Definition pk : Type := option bytes.

Fixpoint assoc {V} (t : list (bytes * V)) (x : bytes) : option V :=
  match t with
  | [] => None
  | (k, v) :: t' => if bytes_eqb k x then Some v else assoc t' x
  end.

Definition mk_table {V} (row : sx -> option V) (d : sx) : option (list (bytes * V)) :=
  match d with
  | L rows => map_opt (fun r => match r with
                                | L [B k; v] => match row v with Some a => Some (k, a) | None => None end
                                | _ => None
                                end) rows
  | _ => None
  end.

(* ---- library answers ---- *)
Definition ans_row (v : sx) : option (ans pk) :=
  match v with
  | L [A 0%Z; B p] => Some (AOk (Some p))
  | L [A 1%Z] => Some ABad
  | L [A 2%Z; A s; A k] => Some (ARaise (Z.to_nat s) k)
  | _ => None
  end.
Definition mk_ans (d : sx) : option (bytes -> ans pk) :=
  match mk_table ans_row d with
  | Some t => Some (fun x => match assoc t x with Some a => a | None => AOk None end)
  | None => None
  end.

Definition lres_row (v : sx) : option (lres pk) :=
  match v with
  | L [A 0%Z; A pos] => Some (LEof (Z.to_nat pos))
  | L [A 1%Z; B p; A pos] => Some (LDone (Some p) (Z.to_nat pos))
  | L [A 2%Z; A k; A pos] => Some (LRaise k (Z.to_nat pos))
  | _ => None
  end.
Definition mk_loader (d : sx) : option (bytes -> lres pk) :=
  match mk_table lres_row d with
  | Some t => Some (fun x => match assoc t x with Some a => a | None => LDone None 0 end)
  | None => None
  end.

Inductive drow := DMore | DEof (out unused : bytes) | DRaise (k : Z).
Definition drow_row (v : sx) : option drow :=
  match v with
  | L [A 0%Z] => Some DMore
  | L [A 1%Z; B out; B unused] => Some (DEof out unused)
  | L [A 2%Z; A k] => Some (DRaise k)
  | _ => None
  end.
(* decompressor object = (everything fed so far, eof, unused_data) *)
Definition dobj : Type := (bytes * bool * bytes)%type.
Definition dnew : dobj := ([], false, []).
Definition deof (d : dobj) : bool := snd (fst d).
Definition dunused (d : dobj) : bytes := snd d.
Definition mk_decompress (d : sx) : option (dobj -> bytes -> (dobj * bytes) + Z) :=
  match mk_table drow_row d with
  | Some t => Some (fun o chunk =>
                      let total := fst (fst o) ++ chunk in
                      match assoc t total with
                      | Some DMore => inl ((total, false, []), [])
                      | Some (DEof out unused) => inl ((total, true, unused), out)
                      | Some (DRaise k) => inr k
                      | None => inr (-1)%Z
                      end)
  | None => None
  end.

(* ---- the protocol layer: which classes leaving the serializer's generator become a StreamProtocolParseError ---- *)
Definition declared_by (hs : trysite) : list Z :=
  filter (fun k => Z.eqb (through_try hs k) c_StreamProtocolParseError) exception_codes.
Definition stream_declared : list Z := declared_by stream_protocol.
Definition bstream_declared : list Z := declared_by bstream_protocol.

(* ---- the buffer-filling consumer with the one branch Stream/Consumer.v does not have:
   BufferedStreamDataConsumer.__save_remainder_in_buffer does `buffer[:nbytes] = remaining_data` on the write view of a
   fresh generator (the whole receive buffer); when the remainder is longer than the buffer the slice assignment raises
   ValueError, which leaves next() instead of the packet / parse error.  In the shared model bc_save_remainder then
   makes the memory grow (write_at past the end), which is how the overflow is recognised here.
   Event L [A 9; A 2] = class 2 (ValueError) left next(); the run stops; get_value() is then b"". ---- *)
Section RunBuf2.
  Variable F : bframer pk.
  Variable sizehint : nat.

  Definition ovf_ev : sx := L [A 9; A 2]%Z.
  Definition memlen (c : bcstate F) : nat := match bmem c with Some m => length m | None => 0 end.
  Definition next2 (c : bcstate F) (n : option nat) : bcstate F * nres pk * bool :=
    let '(c', r) := bcnext F sizehint c n in (c', r, Nat.ltb (memlen c) (memlen c')).

  (* stop code: 0 keep going, 1 RuntimeError (crash), 2 remainder overflow *)
  Fixpoint rb2_drain (fuel : nat) (c : bcstate F) : bcstate F * list sx * nat :=
    match fuel with
    | 0 => (c, [], 0)
    | S f =>
        match next2 c None with
        | (c', RStop, _) => (c', [], 0)
        | (c', r, ovf) =>
            if ovf then (c', [ovf_ev], 2)
            else if is_crash r then (c', [ev_sx r []], 1)
            else let '(c'', evs, st) := rb2_drain f c' in (c'', ev_sx r (saved F c') :: evs, st)
        end
    end.

  Definition held2 (st : nat) (c : bcstate F) : sx := if Nat.eqb st 2 then L [B []] else held F c.

  Definition rb2_round (fuel : nat) (c : bcstate F) (data : bytes) : bcstate F * sx * bool * nat :=
    let '(c1, v) := bc_get_write_buffer F sizehint c in
    match v with
    | None => (c1, L [A 0%Z; L [L [A 2%Z]]; held F c1], true, 0)
    | Some (_, len) =>
        let d := firstn len data in
        let c2 := bc_fill F c1 d in
        match next2 c2 (Some (length d)) with
        | (c3, RStop, _) => (c3, L [of_nat (length d); L []; held F c3], false, length d)
        | (c3, r, ovf) =>
            if ovf then (c3, L [of_nat (length d); L [ovf_ev]; L [B []]], true, length d)
            else if is_crash r then (c3, L [of_nat (length d); L [ev_sx r []]; held F c3], true, length d)
            else let '(c4, evs, st) := rb2_drain fuel c3 in
                 (c4, L [of_nat (length d); L (ev_sx r (saved F c3) :: evs); held2 st c4], negb (Nat.eqb st 0), length d)
        end
    end.

  Fixpoint rb2_chunk (rounds fuel : nat) (c : bcstate F) (data : bytes) : bcstate F * list sx * bool :=
    match rounds with
    | 0 => (c, [], false)
    | S k =>
        match data with
        | [] => (c, [], false)
        | _ =>
            let '(c', o, cr, n) := rb2_round fuel c data in
            if cr then (c', [o], true)
            else let '(c'', os, cr') := rb2_chunk k fuel c' (skipn n data) in (c'', o :: os, cr')
        end
    end.

  Fixpoint rb2_all (fuel : nat) (c : bcstate F) (chunks : list bytes) : list sx :=
    match chunks with
    | [] => []
    | ch :: chs =>
        let '(c', os, cr) := rb2_chunk (S (length ch)) fuel c ch in
        if cr then os else os ++ rb2_all fuel c' chs
    end.
End RunBuf2.

(* ---- one serializer, all its modes ---- *)
Record fam_model := {
  fm_oneshot : bytes -> ores pk;
  fm_copy : option (framer pk);
  fm_buf : option (bframer pk)
}.

Definition bind_ok (o : ores pk) (f : bytes -> ores pk) : ores pk :=
  match o with
  | OOk (Some x) => f x
  | OOk None => OOk None
  | ORaise k => ORaise k
  end.

Definition inner_oneshot (ifam : Z) (tab : bytes -> ans pk) : bytes -> ores pk :=
  match ifam with
  | 0%Z => fun d => handle c_DeserializeError line_oneshot (tab (line_strip [10%N] false d))    (* StringLineSerializer("LF") *)
  | 1%Z | 2%Z => fun d => handle c_DeserializeError json_oneshot (tab d)
  | 5%Z => fun d => handle c_DeserializeError pickle_oneshot (tab d)
  | _ => fun d => OOk (Some d)
  end.

Definition copy_of (one : bytes -> ores pk) (mk : decoder (epkt pk) -> framer (epkt pk)) : framer pk :=
  lift_framer (mk (dec_of_ores stream_declared one)).
Definition buf_of (one : bytes -> ores pk) (mk : decoder (epkt pk) -> bframer (epkt pk)) : bframer pk :=
  lift_bframer (mk (dec_of_ores bstream_declared one)).

Definition family (fam : Z) (cfg tabs : sx) : option fam_model :=
  match fam, cfg with
  | 0%Z, L [B sep; A limit; A ke] =>
      match mk_ans tabs with
      | Some tab =>
          let keep := Z.eqb ke 1 in
          let lim := Z.to_nat limit in
          Some {| fm_oneshot := fun d => handle c_DeserializeError line_oneshot (tab (line_strip sep keep d));
                  fm_copy := Some (copy_of (fun x => handle c_DeserializeError line_incr (tab x)) (ru_framer sep lim keep));
                  fm_buf := Some (buf_of (fun x => handle c_DeserializeError line_buf (tab x)) (bru_framer sep lim keep)) |}
      | None => None
      end
  | 1%Z, L [A limit] =>
      match mk_ans tabs with
      | Some tab =>
          Some {| fm_oneshot := fun d => handle c_DeserializeError json_oneshot (tab d);
                  fm_copy := Some (copy_of (fun x => handle c_DeserializeError json_incr (tab x))
                                           (ru_framer [10%N] (Z.to_nat limit) true));
                  fm_buf := None |}
      | None => None
      end
  | 2%Z, L [A limit] =>
      match mk_ans tabs with
      | Some tab =>
          Some {| fm_oneshot := fun d => handle c_DeserializeError json_oneshot (tab d);
                  fm_copy := Some (copy_of (fun x => handle c_DeserializeError json_incr (tab x))
                                           (json_framer (Z.to_nat limit)));
                  fm_buf := None |}
      | None => None
      end
  | 3%Z, L [A size] =>
      match mk_ans tabs with
      | Some tab =>
          let one := fun d => handle c_DeserializeError (struct_oneshot ++ namedtuple_from_tuple) (tab d) in
          Some {| fm_oneshot := one;
                  fm_copy := Some (copy_of (fun x => rehandle fixed_incr (one x)) (rx_framer (Z.to_nat size)));
                  fm_buf := Some (buf_of (fun x => rehandle fixed_buf (one x)) (bfx_framer (Z.to_nat size))) |}
      | None => None
      end
  | 4%Z, L [B sep; A limit; A ifam] =>
      match tabs with
      | L [t1; t2] =>
          match mk_ans t1, mk_ans t2 with
          | Some tab, Some itab =>
              let lim := Z.to_nat limit in
              let one := fun d => bind_ok (handle c_DeserializeError base64_oneshot (tab d)) (inner_oneshot ifam itab) in
              Some {| fm_oneshot := one;
                      fm_copy := Some (copy_of (fun x => rehandle autosep_incr (one x)) (ru_framer sep lim false));
                      fm_buf := Some (buf_of (fun x => rehandle autosep_buf (one x)) (bru_framer sep lim false)) |}
          | _, _ => None
          end
      | _ => None
      end
  | 5%Z, L [] =>
      match mk_loader tabs with
      | Some load =>
          let st := nth 0 pickle_oneshot [] in
          (* one try statement around Unpickler.load(): EOFError is just one more class for it *)
          Some {| fm_oneshot := fun d => match load d with
                                         | LEof _ => ORaise (through_try st c_EOFError)
                                         | LRaise k _ => ORaise (through_try st k)
                                         | LDone p pos => match skipn pos d with [] => OOk p | _ => ORaise c_DeserializeError end
                                         end;
                  fm_copy := None; fm_buf := None |}
      | None => None
      end
  | 6%Z, L [A which; A ifam] =>
      match tabs with
      | L [t1; t2] =>
          match mk_decompress t1, mk_ans t2 with
          | Some dd, Some itab =>
              let expected := if Z.eqb which 0 then zlib_expected else bz2_expected in
              let inner := inner_oneshot ifam itab in
              let gen (declared : list Z) :=
                cz_framer dobj dnew dd deof dunused
                  (fun k => memZ k expected && memZ cz_incr_raised declared) inner
                  (fun k => memZ (through_try cz_incr_inner k) declared) in
              Some {| fm_oneshot := cz_deserialize dobj dnew dd deof dunused (fun k => memZ k expected)
                                      cz_oneshot_raised c_DeserializeError inner;
                      fm_copy := Some (wrap_generic (gen stream_declared));
                      fm_buf := Some (bwrap_generic (gen bstream_declared) cz_alloc) |}
          | _, _ => None
          end
      | _ => None
      end
  | 7%Z, L [A limit; ex] =>
      match mk_loader tabs, as_list_of as_Z ex with
      | Some load, Some expected =>
          let lim := Z.to_nat limit in
          let gen (declared : list Z) :=
            fb_framer lim load (fun k => memZ k expected && memZ fb_incr_raised declared) in
          Some {| fm_oneshot := fb_deserialize load (fun k => memZ k expected) fb_oneshot_eof_raised fb_oneshot_raised
                                  c_DeserializeError;
                  fm_copy := Some (wrap_generic (gen stream_declared));
                  fm_buf := Some (bwrap_generic (gen bstream_declared) (fb_alloc lim)) |}
      | _, _ => None
      end
  | _, _ => None
  end.

Definition pkt_sx (p : pk) : sx := match p with Some b => L [A 0; B b] | None => L [A (-1)] end%Z.

Definition oneshot_sx (o : ores pk) : sx :=
  match o with
  | OOk p => pkt_sx p
  | ORaise k => if memZ k deserialize_codes then L [A 1%Z] else L [A 2%Z; A k]
  end.

Definition dgram_sx (o : ores pk) : sx :=
  match dgram_build dgram_protocol o with
  | OOk p => pkt_sx p
  | ORaise k => if Z.eqb k c_DatagramProtocolParseError then L [A 1%Z] else L [A 2%Z; A k]
  end.

Definition run_all_modes (m : fam_model) (data : bytes) (chunks : list bytes) (hint : nat) : sx :=
  let fuel := S (S (total_len chunks)) in
  let o := fm_oneshot m data in
  L [oneshot_sx o; dgram_sx o;
     match fm_copy m with Some F => L (rc_all F fuel (cinit F) chunks) | None => L [] end;
     match fm_buf m with Some F => L (rb2_all F hint fuel (bcinit F) chunks) | None => L [] end].

(* the simple instantiations (no exception classes): inner codec as in Run/Stream.v *)
Definition simple_inner (dec : decoder pk) : bytes -> ores pk :=
  fun x => match dec x with Some p => OOk p | None => ORaise c_DeserializeError end.

Definition run (i : sx) : sx :=
  match i with
  | L (A 20%Z :: A fam :: cfg :: tabs :: B data :: chs :: A hint :: _) =>
      do chunks <- as_list_of as_bytes chs;
      do m <- family fam cfg tabs;
      run_all_modes m data chunks (Z.to_nat hint)
  | L (A kind :: cfg :: tabs :: chs :: _) =>
      do chunks <- as_list_of as_bytes chs;
      let fuel := S (S (total_len chunks)) in
      match kind, cfg with
      (* kinds 0..3: the same dispatch as Run/Stream.v's run (not referenced by name: the extracted program must
         contain a single function called run) *)
      | 0%Z, L [B sep; A limit; A ke] =>
          do dec <- mk_dec tabs;
          L (rc_all (ru_framer sep (Z.to_nat limit) (Z.eqb ke 1) dec) fuel (cinit _) chunks)
      | 1%Z, L [B sep; A limit; A ke; A hint] =>
          do dec <- mk_dec tabs;
          L (rb_all (bru_framer sep (Z.to_nat limit) (Z.eqb ke 1) dec) (Z.to_nat hint) fuel (bcinit _) chunks)
      | 2%Z, L [A size] =>
          do dec <- mk_dec tabs;
          L (rc_all (rx_framer (Z.to_nat size) dec) fuel (cinit _) chunks)
      | 3%Z, L [A size; A hint] =>
          do dec <- mk_dec tabs;
          L (rb_all (bfx_framer (Z.to_nat size) dec) (Z.to_nat hint) fuel (bcinit _) chunks)
      | 4%Z, L [A limit] =>
          do dec <- mk_dec tabs;
          let F := json_framer (Z.to_nat limit) dec in
          L (rc_all F fuel (cinit F) chunks)
      | 5%Z, L [A limit; ex] =>
          do load <- mk_loader tabs;
          do expected <- as_list_of as_Z ex;
          let F := wrap_generic (fb_framer (Z.to_nat limit) load (fun k => memZ k expected)) in
          L (rc_all F fuel (cinit F) chunks)
      | 6%Z, L [A limit; ex; A hint] =>
          do load <- mk_loader tabs;
          do expected <- as_list_of as_Z ex;
          let lim := Z.to_nat limit in
          let F := bwrap_generic (fb_framer lim load (fun k => memZ k expected)) (fb_alloc lim) in
          L (rb2_all F (Z.to_nat hint) fuel (bcinit F) chunks)
      | 7%Z, L [ex] =>
          match tabs with
          | L [t1; t2] =>
              do dd <- mk_decompress t1;
              do dec <- mk_dec t2;
              do expected <- as_list_of as_Z ex;
              let F := wrap_generic (cz_framer dobj dnew dd deof dunused (fun k => memZ k expected) (simple_inner dec)
                                       (fun k => Z.eqb k c_DeserializeError)) in
              L (rc_all F fuel (cinit F) chunks)
          | _ => bad_input
          end
      | 8%Z, L [ex; A hint] =>
          match tabs with
          | L [t1; t2] =>
              do dd <- mk_decompress t1;
              do dec <- mk_dec t2;
              do expected <- as_list_of as_Z ex;
              let F := bwrap_generic (cz_framer dobj dnew dd deof dunused (fun k => memZ k expected) (simple_inner dec)
                                        (fun k => Z.eqb k c_DeserializeError)) cz_alloc in
              L (rb2_all F (Z.to_nat hint) fuel (bcinit F) chunks)
          | _ => bad_input
          end
      | _, _ => bad_input
      end
  | _ => bad_input
  end.
