(* C07 uses the stream runner extended with the raw-JSON / file-based framers (Run/C06.v delegates kinds 0..3 to
   Run/Stream.v unchanged) *)
From EN Require Export Run.C06.
