(* C05 runner.  input = L [A kind; cfg; L ops; impl; A endpoint; bufopt]   (impl selects the real serializer; endpoint:
   0 DatagramEndpoint/socket pair, 1 AsyncDatagramEndpoint/in-memory, 2 UDPNetworkClient, 3 AsyncUDPNetworkClient;
   4 UDPNetworkClient over AF_INET6; for 3 the transport ignores empty payloads on send iff
   Gen.ParamsC05.async_transport_drops_empty, recorded on every run.  bufopt = L [] | L [A n]: the size given to recv(2) is
   n (SocketDatagramTransport(max_datagram_size=n)), else Gen.ParamsC05.max_datagram_bufsize (regenerated from
   lowlevel/constants.py) for the blocking transports 0/2/4, 256 KiB (asyncio) for 3, unbounded for the in-memory 1)
     kind 0  any one-shot serializer (+converter) as a black box: the codec is the table carried by the ops
             cfg = L []
             op  = L [A 0; B dgram; res]     the peer sends dgram; res = what a FRESH protocol object makes of dgram alone:
                                              L [A 0; B pkt] | L [A 1; A errcode] | L [A 2]
                 | L [A 1; B pkt; B dgram]   send_packet(pkt); dgram = a fresh serializer's output for pkt
                 | L [A 3]                   recv_packet()
                 | L [A 5; B pkt; B dgram]   send_packet(obj) where obj is ONE mutable object of the case, updated in place to pkt
                 | L [A 6]                   recv_packet() in a task that is cancelled one loop iteration later (async endpoints)
                 | L [A 7]                   an asynchronous socket error is reported to the asyncio protocol (error_received)
                 | L [A 8; A n; B token; rw; rt]  the peer sends a LARGE datagram of n bytes (content not shipped to the model,
                                              named by token); rw / rt = fresh-protocol result for the whole datagram / for its
                                              first max_datagram_bufsize bytes: the model picks rw iff n <= the recv size
                 | L [A 9; B pkt]            send_packet(pkt) where serializing pkt raises: RuntimeError, no datagram
                 | L [A 12]                  the asyncio transport is aborted (fatal error, no aclose()): modelled in this runner
                                             only: what is queued is still delivered in order, then every receive fails
                                             with the closed-transport error, printed L [A 6; A 1] (iterator: L [A 3])
                 | L [A 11]                  next() on the client's ONE iter_received_packets(timeout=0) iterator: like
                                             recv_packet, except that an OSError (nothing queued, socket error) ends that
                                             call with StopIteration -- printed L [A 3]; a parse error propagates and the
                                             iterator goes on with the next datagram afterwards
     kind 1  one-shot interface derived from read_until:  cfg = L [B sep; A limit; A keep_end; A decmode; A conv]
     kind 2  one-shot interface derived from read_exactly: cfg = L [A size; A decmode; A conv]
     kind 3  StringLineSerializer one-shot codec (Frame/LineOneShot.v): cfg = L [B sep; A keep_end; A ascii]
     kind 4  NamedTupleStructSerializer with one "<n>s" field (Frame/StructStrOneShot.v): cfg = L [A n; A strip]
     kind 0 arrivals may carry a 4th field L [B pkt]: dgram is the serialization of pkt, and the model then answers pkt
             (round-trip hypothesis of dgram_send_roundtrip, validated by execution) instead of the tabulated result.
     A crash (RuntimeError) of the receive path is never an acceptable outcome: the model prints it as L [A (-2)].
             op  = L [A 0; B dgram] | L [A 1; B payload] | L [A 3]
             decmode 0 identity | 1 ascii (DeserializeError on a byte >= 128); conv 1: converter rejecting "!..." packets
   output = L [per op: L []  (arrive) | L [L [A 4; B dgram]] (send: what the peer receives)
                     | L [L [A 0; B pkt]] | L [L [A 1; A errcode]] | L [L [A 2]] | L [L [A 3]] (recv; 3 = nothing queued)
                     | L [L [A 5]] (cancelled, nothing consumed) | L [L [A 6; A 0]] (the socket error, at its position)] *)
From EN Require Import Lib.Bytes Lib.Sx Frame.Framer Frame.ReadUntil Frame.OneShot Frame.LineOneShot Frame.StructStrOneShot IO.DgramEndpoint Gen.ParamsC05.

Definition err_code (e : err) : Z :=
  match e with ELimit => 0 | EDecode => 1 | EConvert => 2 | EMissing => 3 | EExtra => 4 end%Z.

Definition code_err (z : Z) : err :=
  match z with 0 => ELimit | 2 => EConvert | 3 => EMissing | 4 => EExtra | _ => EDecode end%Z.

Definition rres_sx (r : rres bytes) : sx :=
  match r with
  | RPacket q => L [A 0; B q]
  | RParseError e => L [A 1; A (err_code e)]
  | RCrashed => L [A (-2)]
  | RNoData => L [A 3]
  | RCancelled => L [A 5]
  | RSockError => L [A 6; A 0]
  | RSendFailed => L [A 7]
  end%Z.

(* kind 0: table built from the arrive ops; an untabulated datagram crashes (always a disagreement) *)
Definition res_of (r : sx) : ores bytes :=
  match r with
  | L [A 0%Z; B p] => OOk p
  | L [A 1%Z; A c] => OErr (code_err c)
  | _ => OCrash
  end.

Fixpoint table_of (bufsize : N) (ops : list sx) : list (bytes * ores bytes) :=
  match ops with
  | [] => []
  | L [A 0%Z; B d; _; L [B p]] :: r => (d, OOk p) :: table_of bufsize r
  | L [A 8%Z; A n; B tok; rw; rt] :: r =>
      (tok, res_of (if (Z.to_N n <=? bufsize)%N then rw else rt)) :: table_of bufsize r
  | L [A 0%Z; B d; L [A 0%Z; B p]] :: r => (d, OOk p) :: table_of bufsize r
  | L [A 0%Z; B d; L [A 1%Z; A c]] :: r => (d, OErr (code_err c)) :: table_of bufsize r
  | L [A 0%Z; B d; L [A 2%Z]] :: r => (d, OCrash) :: table_of bufsize r
  | _ :: r => table_of bufsize r
  end.

Fixpoint lookup (t : list (bytes * ores bytes)) (d : bytes) : ores bytes :=
  match t with
  | [] => OCrash
  | (k, v) :: t' => if bytes_eqb k d then v else lookup t' d
  end.

Fixpoint enc_table_of (ops : list sx) : list (bytes * bytes) :=
  match ops with
  | [] => []
  | L [A 1%Z; B p; B d] :: r => (p, d) :: enc_table_of r
  | L [A 5%Z; B p; B d] :: r => (p, d) :: enc_table_of r
  | _ :: r => enc_table_of r
  end.

Fixpoint enc_lookup (t : list (bytes * bytes)) (p : bytes) : bytes :=
  match t with
  | [] => []
  | (k, v) :: t' => if bytes_eqb k p then v else enc_lookup t' p
  end.

Definition is_iter_op (x : sx) : bool := match x with L [A 11%Z] => true | _ => false end.
Definition is_abort_op (x : sx) : bool := match x with L [A 12%Z] => true | _ => false end.

Definition iter_sx (r : rres bytes) : sx :=
  match r with
  | RSockError | RNoData => L [A 3%Z]
  | _ => rres_sx r
  end.

Definition dec_op (x : sx) : option (op (Q := bytes)) :=
  match x with
  | L [A 11%Z] => Some OpRecv
  | L [A 12%Z] => Some OpSendFail        (* placeholder, never executed: see [go] *)
  | L (A 0%Z :: B d :: _) => Some (OpArrive d)
  | L (A 1%Z :: B p :: _) => Some (OpSend p)
  | L (A 5%Z :: B p :: _) => Some (OpSend p)
  | L [A 3%Z] => Some OpRecv
  | L [A 6%Z] => Some OpRecvCancel
  | L [A 7%Z] => Some OpSockError
  | L (A 8%Z :: A _ :: B tok :: _) => Some (OpArrive tok)
  | L (A 9%Z :: _) => Some OpSendFail
  | _ => None
  end.

Definition mk_dec (m : Z) : decoder bytes :=
  match m with
  | 1%Z => fun x => if forallb (fun b => N.ltb b 128) x then Some x else None
  | _ => fun x => Some x
  end.

Definition mk_conv (c : Z) : bytes -> option bytes :=
  match c with
  | 1%Z => fun p => match p with 33%N :: _ => None | _ => Some p end
  | _ => fun p => Some p
  end.

Section Go.
  Variable serialize : bytes -> bytes.
  Variable deserialize : bytes -> ores bytes.
  Variable from_dto : bytes -> option bytes.
  Variable bufsize : N.
  Variable drop_empty : bool.

  Definition closed_sx (it : bool) (x : sx) : sx :=
    match x with
    | L [A 3%Z] | L [A 5%Z] => if it then L [A 3%Z] else L [A 6%Z; A 1%Z]
    | _ => x
    end.

  Fixpoint go (closed : bool) (t : transport) (ops : list (op (Q := bytes) * (bool * bool))) : list sx :=
    match ops with
    | [] => []
    | (_, (_, true)) :: r => L [] :: go true t r
    | (o, (it, false)) :: r =>
        let '(t', rs) := do_op serialize deserialize (fun q => q) from_dto bufsize drop_empty t o in
        let out :=
          match o with
          | OpSend _ => map (fun d => L [A 4; B d]) (skipn (length (outq t)) (outq t'))
          | _ => map (fun x => let y := (if it then iter_sx else rres_sx) x in if closed then closed_sx it y else y) rs
          end in
        L out :: go closed t' r
    end.
End Go.

Definition t0 : transport := {| inq := []; outq := [] |}.

Definition run (i : sx) : sx :=
  match i with
  | L (A kind :: cfg :: L rawops :: _ :: A ep :: bo :: _) =>
      do ops0 <- map_opt dec_op rawops;
      let ops := combine ops0 (combine (map is_iter_op rawops) (map is_abort_op rawops)) in
      do bopt <- as_opt as_Z bo;
      let de := Z.eqb ep 3 && async_transport_drops_empty in
      let bs := match bopt with
                | Some n => Z.to_N n
                | None => match ep with
                          | 1%Z => 1099511627776%N
                          | 3%Z => 262144%N
                          | _ => max_datagram_bufsize
                          end
                end in
      match kind, cfg with
      | 0%Z, _ =>
          let tb := table_of bs rawops in
          let et := enc_table_of rawops in
          L (go (enc_lookup et) (lookup tb) (fun p => Some p) bs de false t0 ops)
      | 1%Z, L [B sep; A limit; A ke; A dm; A cv] =>
          let F := ru_framer sep (Z.to_nat limit) (Z.eqb ke 1) (mk_dec dm) in
          L (go (fun p => oneshot_serialize (until_parts sep p)) (oneshot_deserialize F) (mk_conv cv) bs de false t0 ops)
      | 2%Z, L [A size; A dm; A cv] =>
          let F := rx_framer (Z.to_nat size) (mk_dec dm) in
          L (go (fun p => oneshot_serialize (exact_parts p)) (oneshot_deserialize F) (mk_conv cv) bs de false t0 ops)
      | 3%Z, L [B sep; A ke; A asc] =>
          L (go line_serialize (line_deserialize sep (Z.eqb ke 1) (Z.eqb asc 1)) (fun p => Some p) bs de false t0 ops)
      | 4%Z, L [A n; A st] =>
          L (go (struct_s_serialize (Z.to_nat n)) (struct_s_deserialize (Z.to_nat n) (Z.eqb st 1)) (fun p => Some p) bs de false t0 ops)
      | _, _ => bad_input
      end
  | _ => bad_input
  end.
