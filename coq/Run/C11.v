(* C11 entry point: run the timeout-budget models on one scripted case.
   tmo = L [] (inf / None) | L [A ticks];  sel answer = L [A ready; A elapsed];  wait = L [A write?; tmo]
   lock = A 0 (free) | L [A acquired; A elapsed] (held) | A (-1) (no lock layer: endpoint level)

   op 0  SelectorBaseTransport._retry(callback, T)
         input  L [A 0; tmo T; tmo ri; L cb_script; L sel_script]     cb answer = L [A kind; A cost]
                                                                       kind 0 returns | 1 WouldBlockOnRead | 2 WouldBlockOnWrite | 5 raises
         output L [A code; L [tmo T'] | L []; L waits; A dt]
   op 1  a sequence of recv_packet(timeout=T_i) calls on one StreamEndpoint / TCPNetworkClient
         input  L [A 1; tmo ri; A N; A bufsize; L [L [tmo T; lock] ...]; L recv_script; L sel_script; ...]
                recv answer = L [A kind; B data; A cost]   kind 0 data (empty = EOF) | 1,2 would-block-on-read
                                                            | 3 would-block-on-write (TLS) | 5 connection error
         output L [L [outcome; L waits; A dt; L lockwaits] ...]   outcome = L [A 0; B packet] | L [A code]
   op 2  ClientRecvIterator: iter_received_packets(timeout=T), one __next__ per lock answer
         input  L [A 2; tmo ri; A N; A bufsize; tmo T; L locks; L recv_script; L sel_script; ...]
         output as op 1 (code 1, 2, 5 are StopIteration in the implementation; the harness maps them back)
   op 3  TCPNetworkClient.send_packet(chunks, timeout=T)
         input  L [A 3; A has_sendmsg; A iov; L chunks; tmo T; tmo ri; lock; L sock_script; L sel_script; ...]
         output L [A code; B wire; L waits; A dt; L lockwaits]
   op 4  UDPNetworkClient.recv_packet(timeout=T) / DatagramEndpoint (one _retry behind lock_with_timeout)
         input  L [A 4; tmo ri; tmo T; lock; L recv_script; L sel_script; ...]      output as one op 1 entry
   op 5  UDPNetworkClient.send_packet(data, timeout=T)
         input  L [A 5; tmo ri; tmo T; lock; B data; L sock_script; L sel_script; ...]   output as op 3
   op 6  _retry in a time-indexed environment (IO/RetryEnv.v): the fd becomes ready at tick tau, spurious readiness at
         the ticks `spur`; the callback and the selector are functions of the virtual time
         input  L [A 6; tmo T; tmo ri; A tau; L [A s ...]; (A cost per callback call)]     output as op 0
   op 8  real loopback sockets (TCPNetworkClient.recv_packet / iter_received_packets, StreamEndpoint over real TLS):
         input  L [A 8; A N; A bufsize; A ncalls; tmo T (inf or 0); stream spec (B | L [A seed; A len]); ...]
         output L [L [A 0; digest packet] | L [A code] ...]
   op 9  lock discipline of TCPNetworkClient / UDPNetworkClient under real threads (IO/ClientLocks.v)
         input  L [A 9; L labels; A kind (0 TCP client: ConnectionError -> ECONNABORTED, 1 UDP client); ...]   label = L [A 0; A k; A method (0 send_packet, 1 recv_packet, 2 is_closed); tmo T]
                                                 | L [A 1; A k] grant | L [A 2; A k] give up | L [A 3; A k; A ok] finish
         output L [L enabled; L [L [A k; L [A 0; A code] done | L [A 1] in its body | L [A 2] waiting for a lock] ...];
                   A send_lock_free; A recv_lock_free]
   op 7  AsyncClientRecvIterator: iter_received_packets(timeout=T) on the asyncio backend, one __anext__ per arrival
         input  L [A 7; tmo T; L [A d (packet after d ticks, 0 = buffered) | A (-1) (connection error) ...]]
         output L [L [A code; A dt] ...]                                                                      *)
From EN Require Import Lib.Bytes Lib.Sx IO.Retry IO.RetryEnv IO.SendAll IO.SendMsg IO.Budget IO.Datagram IO.Payload IO.ClientLocks Run.IOCommon Gen.ParamsC11.
Open Scope Z_scope.

Definition as_recvans (x : sx) : option recvans :=
  match x with
  | L [A k; B d; A c] =>
      if k =? 0 then Some (RData d c)
      else if (k =? 1) || (k =? 2) then Some (RBlock false c)
      else if k =? 3 then Some (RBlock true c)
      else if k =? 5 then Some (RErr c)
      else None
  | _ => None
  end.

(* ---- op 0 *)
Definition cb_script := list (Z * Z).
Definition cb_step (s : cb_script) : cbres unit * cb_script * Z :=
  match s with
  | [] => (CbOk tt, [], 0)
  | (k, c) :: rest =>
      ((if k =? 0 then CbOk tt else if k =? 1 then CbBlock false else if k =? 2 then CbBlock true else CbRaise 30), rest, c)
  end.

Definition as_cbans (x : sx) : option (Z * Z) :=
  match x with L [A k; A c] => Some (k, c) | _ => None end.

Definition run_retry (T ri : tmo) (cbs : cb_script) (sels : list selans) : sx :=
  let r := retry cb_step (length cbs + 1) ri T cbs sels in
  let '(code, ret) := match rr_out r with
                      | ROk _ t => (0, L [of_tmo t])
                      | RTimeout => (E_TIMEOUT, L [])
                      | RRaise c => (c, L [])
                      | RFuel => (9, L [])
                      end in
  L [A code; ret; L (map of_wait (rr_waits r)); A (rr_dt r)].

(* ---- op 1 / 2 / 4 *)
Definition of_rvout (o : rvout) : sx :=
  match o with
  | RvPkt p => L [A 0; B p]
  | RvExc c => L [A c]
  | RvFuel => L [A 9]
  end.

Definition of_call (r : rvres) (lw : list tmo) : sx :=
  L [of_rvout (rv_out r); L (map of_wait (rv_waits r)); A (rv_dt r); L (map of_tmo lw); locks_after].

Definition recv_fuel (s : list recvans) : nat :=
  length s + fold_right (fun a n => match a with RData b _ => length b + n | _ => n end)%nat 0%nat s + 2.

Fixpoint calls_run (F : nat) (ri : tmo) (N bufsize : nat) (calls : list (tmo * option lockans))
         (buf : bytes) (eof : bool) (s : list recvans) (sels : list selans) : list sx :=
  match calls with
  | [] => []
  | (T, lk) :: calls' =>
      let '(r, lw) :=
        match lk with
        | Some l => let c := client_recv F ri N bufsize F T l buf eof s sels in (cl_rv c, cl_lockwaits c)
        | None => (receive F ri N bufsize F T buf eof s sels, [])
        end in
      of_call r lw :: calls_run F ri N bufsize calls' (rv_buf r) (rv_eof r) (rv_sock r) (rv_sels r)
  end.

Definition as_call (x : sx) : option (tmo * option lockans) :=
  match x with
  | L [t; l] => match as_tmo t, as_lock l with Some t, Some l => Some (t, l) | _, _ => None end
  | _ => None
  end.

Definition of_itstep (s : itstep) : sx :=
  L [of_rvout (it_out s); L (map of_wait (it_waits s)); A (it_dt s); L (map of_tmo (it_lockwaits s)); locks_after].

(* ---- datagram (op 4, 5): IO/Datagram.v *)
Definition run_dgram_recv (ri T : tmo) (lk : option lockans) (s : list recvans) (sels : list selans) : sx :=
  let F := (length s + length sels + 2)%nat in
  match udp_recv_packet F ri T lk s sels with
  | (k, None) => L [L [A (lk_exc k)]; L []; A (lk_dt k); L (map of_tmo (lk_waits k)); locks_after]
  | (k, Some r) =>
      let o := match rr_out r with ROk p _ => L [A 0; B p] | RTimeout => L [A E_TIMEOUT] | RRaise c => L [A c] | RFuel => L [A 9] end in
      L [o; L (map of_wait (rr_waits r)); A (lk_dt k + rr_dt r); L (map of_tmo (lk_waits k)); locks_after]
  end.

Definition run_dgram_send (ri T : tmo) (lk : option lockans) (data : bytes) (script : list sockans) (sels : list selans) : sx :=
  let F := (length script + 2)%nat in
  let s := mk_sock script [] in
  match udp_send_packet F ri T lk data s sels with
  | (k, None) => of_csres (mk_sres (SExc (lk_exc k)) s sels (lk_dt k) [] 0) (lk_waits k)
  | (k, Some r) =>
      of_csres (mk_sres (rout_fail (rr_out r)) (rr_st r) (rr_sels r) (lk_dt k + rr_dt r) (rr_waits r) (rr_calls r)) (lk_waits k)
  end.

Definition run (i : sx) : sx :=
  match i with
  | L (A 0 :: T :: ri :: cbs :: sels :: _) =>
      do T <- as_tmo T; do ri <- as_tmo ri;
      do cbs <- as_list_of as_cbans cbs; do sels <- as_list_of as_selans sels;
      run_retry T ri cbs sels
  | L (A 1 :: ri :: A N :: A bufsize :: calls :: script :: sels :: _) =>
      do ri <- as_tmo ri; do calls <- as_list_of as_call calls;
      do script <- as_list_of as_recvans script; do sels <- as_list_of as_selans sels;
      L (calls_run (recv_fuel script) ri (Z.to_nat N) (Z.to_nat bufsize) calls [] false script sels)
  | L (A 2 :: ri :: A N :: A bufsize :: T :: locks :: script :: sels :: _) =>
      do ri <- as_tmo ri; do T <- as_tmo T;
      do locks <- as_list_of as_lock locks;
      do locks <- map_opt (fun l => l) locks;
      do script <- as_list_of as_recvans script; do sels <- as_list_of as_selans sels;
      let F := recv_fuel script in
      L (map of_itstep (iter_run F ri (Z.to_nat N) (Z.to_nat bufsize) F T locks [] false script sels))
  | L (A 3 :: A has_sendmsg :: A iov :: chunks :: T :: ri :: lk :: script :: sels :: _) =>
      do chunks <- as_list_of as_bytes chunks;
      do T <- as_tmo T; do ri <- as_tmo ri; do lk <- as_lock lk;
      do script <- as_list_of as_sockans script; do sels <- as_list_of as_selans sels;
      do hs <- as_bool (A has_sendmsg);
      let F := fuel_bound chunks script in
      let s := mk_sock script [] in
      match lk with
      | Some l => let c := client_send sendmsg_drops_empty_views hs iov F F ri chunks T l s sels in
                  of_csres (cs_sr c) (cs_lockwaits c)
      | None => of_csres (send_iter sendmsg_drops_empty_views hs iov F F ri chunks T s sels) []
      end
  | L (A 4 :: ri :: T :: lk :: script :: sels :: _) =>
      do ri <- as_tmo ri; do T <- as_tmo T; do lk <- as_lock lk;
      do script <- as_list_of as_recvans script; do sels <- as_list_of as_selans sels;
      run_dgram_recv ri T lk script sels
  | L (A 5 :: ri :: T :: lk :: B data :: script :: sels :: _) =>
      do ri <- as_tmo ri; do T <- as_tmo T; do lk <- as_lock lk;
      do script <- as_list_of as_sockans script; do sels <- as_list_of as_selans sels;
      run_dgram_send ri T lk data script sels
  | L (A 6 :: T :: ri :: A tau :: spur :: A c :: _) =>
      do T <- as_tmo T; do ri <- as_tmo ri; do spur <- as_list_of as_Z spur;
      let r := retry_envc (mk_envc (mk_env tau spur) c) (Z.to_nat (Z.max 0 tau) + 3) ri T 0 in
      let '(code, ret) := match rr_out r with
                          | ROk _ t => (0, L [of_tmo t])
                          | RTimeout => (E_TIMEOUT, L [])
                          | RRaise c => (c, L [])
                          | RFuel => (9, L [])
                          end in
      L [A code; ret; L (map of_wait (rr_waits r)); A (rr_dt r)]
  | L (A 6 :: T :: ri :: A tau :: spur :: _) =>
      do T <- as_tmo T; do ri <- as_tmo ri; do spur <- as_list_of as_Z spur;
      let r := retry_env (mk_env tau spur) (Z.to_nat (Z.max 0 tau) + 3) ri T 0 in
      let '(code, ret) := match rr_out r with
                          | ROk _ t => (0, L [of_tmo t])
                          | RTimeout => (E_TIMEOUT, L [])
                          | RRaise c => (c, L [])
                          | RFuel => (9, L [])
                          end in
      L [A code; ret; L (map of_wait (rr_waits r)); A (rr_dt r)]
  | L (A 9 :: labels :: A kind :: _) => run_lock_history labels kind
  | L (A 8 :: A N :: A bufsize :: A ncalls :: T :: stream :: _) =>
      (* real sockets: the whole stream is (eventually) there, then EOF; only outcomes (packet digests) are compared *)
      do T <- as_tmo T; do stream <- as_chunk stream;
      let script := [RData stream 0] in
      let F := recv_fuel script in
      let steps := iter_run F None (Z.to_nat N) (Z.to_nat bufsize) F T (repeat LFree (Z.to_nat ncalls)) [] false script [] in
      (* with T = inf / 0 and no waits the budget never changes between calls, so iter_run = a sequence of calls *)
      L (map (fun st => match it_out st with
                        | RvPkt p => L [A 0; digest p]
                        | RvExc c => L [A c]
                        | RvFuel => L [A 9]
                        end) steps)
  | L (A 7 :: T :: arr :: _) =>
      do T <- as_tmo T;
      do arr <- as_list_of (fun x => match x with A d => Some (if d <? 0 then ArrErr else ArrAfter d) | _ => None end) arr;
      L (map (fun st => L [A (as_out st); A (as_dt st)]) (aiter_run T arr))
  | _ => bad_input
  end.
