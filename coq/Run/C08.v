(* C08 runner: a recorded full-duplex trace of one AsyncTLSStreamTransport (which task consumed which answer of the SSL
   object / of the wrapped transport / acquired which lock, in global order) is replayed through the multi-task pump
   model of Conc/TlsPump.v; the model must emit the same actions on the wrapped transport and the BIOs, and the same
   result for every pumped call. *)
From EN Require Import Lib.Bytes Lib.Sx Conc.TlsBase Conc.TlsPump Conc.TlsEof Gen.ParamsC08.
Open Scope Z_scope.

Definition zeros (n : nat) : bytes := repeat 0%N n.

Definition dec_meth (z : Z) : option meth :=
  match z with 0 => Some MHandshake | 1 => Some MRead | 2 => Some MWrite | 3 => Some MUnwrap | _ => None end.

Definition dec_out (code : Z) (v : nat) : option sslout :=
  match code with
  | 0 => Some (SOk v) | 1 => Some SWantRead | 2 => Some SWantWrite
  | 3 => Some (SErr EZeroReturn) | 4 => Some (SErr ESslEof) | 5 => Some (SErr ESslEofStr) | 6 => Some (SErr ESyscall)
  | 7 => Some (SErr ESslOther) | 8 => Some (SErr ECert) | 9 => Some SOSErr | 10 => Some SOther
  | _ => None
  end.

Definition dec_lab (x : sx) : option slab :=
  match x with
  | L [A 0; A m; A buf; L ls] =>
      match dec_meth m, map_opt as_nat ls with
      | Some m', Some ns => Some (SSpawn m' (Z.to_nat buf) (map zeros ns))
      | _, _ => None
      end
  | L [A 1; A t; A 0; A m; A arg; A code; A v; A wd] =>
      match dec_meth m, dec_out code (Z.to_nat v) with
      | Some m', Some o =>
          Some (SStep (Z.to_nat t) (LSsl {| a_meth := m'; a_arg := Z.to_nat arg; a_out := o; a_wdelta := zeros (Z.to_nat wd) |}))
      | _, _ => None
      end
  | L [A 1; A t; A 1] => Some (SStep (Z.to_nat t) LGo)
  | L [A 1; A t; A 2; A 0; A n] => Some (SStep (Z.to_nat t) (LT (TRcvd (zeros (Z.to_nat n)))))
  | L [A 1; A t; A 2; A 1; A _] => Some (SStep (Z.to_nat t) (LT TRecvErr))
  | L [A 1; A t; A 2; A 2; A _] => Some (SStep (Z.to_nat t) (LT TSent))
  | L [A 1; A t; A 2; A 3; A _] => Some (SStep (Z.to_nat t) (LT TSendErr))
  | L [A 1; A t; A 2; A 4; A _] => Some (SStep (Z.to_nat t) (LT (TCancel true)))
  | L [A 1; A t; A 2; A 5; A _] => Some (SStep (Z.to_nat t) (LT (TCancel false)))
  | _ => None
  end.

Definition enc_act (ta : nat * act) : sx :=
  let '(t, a) := ta in
  match a with
  | ASend p => L [of_nat t; A 0; of_nat (length p)]
  | ARecv => L [of_nat t; A 1; A 0]
  | AFeed d => L [of_nat t; A 2; of_nat (length d)]
  | AReof => L [of_nat t; A 3; A 0]
  | AWeof => L [of_nat t; A 4; A 0]
  | AClose => L [of_nat t; A 5; A 0]
  | ADesync => L [of_nat t; A 6; A 0]
  end.

Definition sslerr_code (e : sslerr) : Z :=
  match e with EZeroReturn => 3 | ESslEof => 4 | ESslEofStr => 5 | ESyscall => 6 | ESslOther => 7 | ECert => 8 end.

Definition enc_task (tk : task) : sx :=
  match t_pc tk with
  | PEnd (ROk v) => L [A 0; of_nat v]
  | PEnd (RSsl e) => L [A 1; A (sslerr_code e)]
  | PEnd ROSErr => L [A 1; A 9]
  | PEnd ROther => L [A 1; A 10]
  | PEnd (RCancel true) => L [A 1; A 11]
  | PEnd (RCancel false) => L [A 1; A 12]
  | PEnd RDesync => L [A 2; A 0]
  | _ => L [A 9; A 9]
  end.

Definition run_trace (labs : list sx) : sx :=
      do ls <- map_opt dec_lab labs;
      let '(y, acts) := sys_run tls_flags sys0 ls in
      L [L (map enc_act acts); L (map enc_task (y_tasks y)); of_nat (length (wbio (y_sh y)));
         of_bool (send_lock (y_sh y)); of_bool (recv_lock (y_sh y))].

(* blocking transport: every thread's calls against its own sub-sequence of the raw SSL answers *)
Definition dec_sop (x : sx) : option op :=
  match x with
  | L [A 0; _] => Some OWrap
  | L [A 1; A n] => Some (ORecv (Z.to_nat n))
  | L [A 2; A n] => Some (ORecvInto (Z.to_nat n))
  | L [A 3; L _] => Some (OSend [])
  | L [A 4; _] => Some OClose
  | _ => None
  end.

Definition dec_sans (x : sx) : option sans :=
  match x with
  | L [A m; A code; A v] =>
      match dec_meth m, dec_out code (Z.to_nat v) with
      | Some m', Some o => Some {| s_meth := m'; s_out := o |}
      | _, _ => None
      end
  | _ => None
  end.

Definition enc_xres (r : apires) : sx :=
  match r with
  | Ret v => L [A 1; A 0; of_nat v]
  | Raise (XR x) =>
      L [A 1; A 1; A (match x with
                      | XWantRead => 1 | XWantWrite => 2 | XSsl e => sslerr_code e | XOSError => 9 | XOther => 10
                      end)]
  | Raise XTimeout => L [A 1; A 1; A 11]
  | Raise XCancelled => L [A 1; A 1; A 12]
  | Desync => L [A 1; A 2; A 0]
  end.

Definition run_thread (std : bool) (x : sx) : sx :=
  match x with
  | L [L ops; L answers] =>
      do ops' <- map_opt dec_sop ops;
      do ans' <- map_opt dec_sans answers;
      let '(ob, rest) := sync_ops true std ops' {| s_closed := false |} ans' in
      L (fold_right (fun o acc => match o with SRes r => enc_xres r :: acc | _ => acc end) [] ob)
  | _ => bad_input
  end.

Definition run (x : sx) : sx :=
  match x with
  | L (A 1 :: A std :: L threads :: _) => L [L (map (run_thread (Z.eqb std 1)) threads)]
  (* a trace recorded for one state of the fixes (flag = f_recheck + 2 * f_skiplock) is only meaningful in that state *)
  | L (L labs :: L (B _ :: A flag :: _) :: _) =>
      if Z.eqb flag ((if f_recheck tls_flags then 1 else 0) + (if f_skiplock tls_flags then 2 else 0) + (if f_lazyread tls_flags then 4 else 0)) then run_trace labs else L [A 777]
  | L (L labs :: _) =>
      do ls <- map_opt dec_lab labs;
      let '(y, acts) := sys_run tls_flags sys0 ls in
      L [L (map enc_act acts); L (map enc_task (y_tasks y)); of_nat (length (wbio (y_sh y)));
         of_bool (send_lock (y_sh y)); of_bool (recv_lock (y_sh y))]
  | _ => bad_input
  end.
