(* C13: decode a case (program + controller schedule), run the cancel-scope model, encode the observable trace. *)
From Coq Require Import ZArith List Bool Arith.
From EN Require Import Lib.Bytes Lib.Sx Conc.CancelScope Gen.ParamsC13.
Import ListNotations.

Definition as_onat (x : sx) : option (option nat) := as_opt as_nat x.

Fixpoint dprog (fuel : nat) (x : sx) : option prog :=
  match fuel with
  | 0 => None
  | S fu =>
      match x with
      | L [A 0%Z] => Some PSkip
      | L [A 1%Z; p; q] =>
          match dprog fu p, dprog fu q with Some p, Some q => Some (PSeq p q) | _, _ => None end
      | L [A 2%Z; id; d] =>
          match as_nat id, as_nat d with Some id, Some d => Some (PSleep id d) | _, _ => None end
      | L [A 3%Z; id] => match as_nat id with Some id => Some (PCheckpoint id) | _ => None end
      | L [A 4%Z; id] => match as_nat id with Some id => Some (PShYield id) | _ => None end
      | L [A 5%Z; d] => match as_nat d with Some d => Some (PBlock d) | _ => None end
      | L [A 6%Z; id; kind; pre; delay; body] =>
          match as_nat id, as_bool kind, as_bool pre, as_onat delay, dprog fu body with
          | Some id, Some kind, Some pre, Some delay, Some body =>
              Some (PScope id (if kind then KTimeout else KMoveOn) pre delay body)
          | _, _, _, _, _ => None
          end
      | L [A 7%Z; id; body] =>
          match as_nat id, dprog fu body with Some id, Some body => Some (PShield id body) | _, _ => None end
      | L [A 8%Z; k] => match as_nat k with Some k => Some (PCancel k) | _ => None end
      | L [A 9%Z; k; d] =>
          match as_nat k, as_onat d with Some k, Some d => Some (PResched k d) | _, _ => None end
      | L [A 11%Z; id; d] =>
          match as_nat id, as_nat d with Some id, Some d => Some (PFail id d) | _, _ => None end
      | L [A 10%Z; id; c; body] =>
          match as_nat id, as_nat c, dprog fu body with
          | Some id, Some c, Some body =>
              Some (PCatch id (match c with 0 => CCancel | 1 => CTimeout | _ => CAll end) body)
          | _, _, _ => None
          end
      | _ => None
      end
  end.

Definition dturn (x : sx) : option (nat * bool * nat) :=
  match x with
  | L [n; front] => match as_nat n, as_bool front with Some n, Some f => Some (n, f, 0) | _, _ => None end
  | L [n; front; act] =>
      match as_nat n, as_bool front, as_nat act with Some n, Some f, Some a => Some (n, f, a) | _, _, _ => None end
  | _ => None
  end.

Definition enc_event (e : event) : sx :=
  match e with
  | EvStart id t => L [A 0; of_nat id; of_nat t]
  | EvDone id t => L [A 1; of_nat id; of_nat t]
  | EvExit id t called caught cnt sw exc =>
      L [A 2; of_nat id; of_nat t; of_bool called; of_bool caught; of_nat cnt; of_bool sw; of_nat exc]
  | EvCatch id t exc => L [A 3; of_nat id; of_nat t; of_nat exc]
  | EvExt t n sh => L [A 4; of_nat t; of_nat n; of_bool sh]
  | EvCancel id t => L [A 5; of_nat id; of_nat t]
  | EvResched id t dl => L [A 6; of_nat id; of_nat t; of_opt of_nat dl]
  | EvActor id t => L [A 7; of_nat id; of_nat t]
  end.

(* outcome of the task: 0 returned, 1 cancelled, 2 TimeoutError, 3 other exception, 8 out of fuel, 9 loop blocked *)
Definition outcome (st : state) : nat :=
  match md st with
  | MDone r => oexn_code r
  | MDead => 9
  | _ => 8
  end.

Definition run_case (p : prog) (timers : list nat) (turns : list (nat * bool * nat)) (k fuel : nat) : state :=
  run_steps fuel (init exit_takes_back_leftover uncancel_message_fallback p timers turns k).

Definition run (x : sx) : sx :=
  match x with
  | L (p :: timers :: turns :: k :: fuel :: _) =>
      do p <- dprog 64 p;
      do timers <- as_list_of as_nat timers;
      do turns <- as_list_of dturn turns;
      do k <- as_nat k;
      do fuel <- as_nat fuel;
      let st := run_case p timers turns k fuel in
      L [L (map enc_event (rev (trace st))); of_nat (outcome st); of_nat (t_cnt st)]
  | _ => bad_input
  end.
