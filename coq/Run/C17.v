(* C17 case runner.
   input  = L [A srv; A scen; ...]       srv: 0 plain TCP, 1 TLS (standard compatible), 2 UDP, 3 TLS (not standard compatible)
     scen 0 (fault in a hook)      L [A srv; A 0; A pos; exc1; opt exc2; ...]     (exc2 = second fault, raised by on_disconnection)
     scen 1 (set-up fault)         L [A srv; A 1; A stage; exc; ...]              stage 0 = accepted-socket factory, 1 = TLS handshake
     scen 3 (final forced close)   L [A srv; A 3; A leaf; exc1; ...]                the socket shutdown of the final close raises that leaf kind
                                                                                   after the handler failed with exc1 (srv 4 = UDP with asyncio.eager_task_factory)
     scen 2 (exit-callback fault)  L [A srv; A 2; exc; ...]                       the transport close inside aclosing() raises (TLS)
     exc = L [A 0; A leaf] | L [A 1; L [A leaf ...]]
   output = L [A aliveA; A aliveB; A crashed; A closed_or_fresh; L hooks; L logs]                                      *)
From EN Require Import Lib.Bytes Lib.Sx Conc.ExcKinds Gen.ParamsC17 Conc.Isolation.
Open Scope Z_scope.

Definition dec_leaf (x : sx) : option leaf := match x with A z => leaf_of_code z | _ => None end.

Definition dec_exc (x : sx) : option exc :=
  match x with
  | L [A 0; k] => match dec_leaf k with Some k => Some (Naked k) | None => None end
  | L [A 1; L ks] => match map_opt dec_leaf ks with Some g => Some (Group g) | None => None end
  | _ => None
  end.

Definition flavour_of (srv : Z) : flavour :=
  match srv with 1 => FTlsCompat | 3 => FTls | _ => FPlain end.

Definition enc_list (l : list Z) : sx := L (map A l).

Definition enc_out (raises : option exc) (flag : bool) (hooks logs : list Z) : sx :=
  let crashed := match raises with None => false | Some _ => true end in
  L [of_bool (negb crashed); of_bool (negb crashed); of_bool crashed; of_bool flag; enc_list hooks; enc_list logs].

(* A failure that escapes while further datagrams of the address are queued (UBurstQueued): the server is going down,
   but the done-callback still restarts the client coroutine for what is queued.  Scheduling detail of the world, not of
   the library: with the eager task factory every restart runs inside the callback (all four generators start), with the
   default factory only the first restart is scheduled before the cancellation of the server's task group arrives. *)
Definition escaped_burst_hooks (eager : bool) (p : upos) (o : uoutcome) : list Z :=
  match u_raises o, p with
  | Some _, UBurstQueued => if eager then [2; 3; 2; 3; 2; 3; 2; 3] else [2; 3; 2; 3]
  | _, _ => u_hooks o
  end.
(* ... and each of those rounds logs what its filters swallowed of the group *)
Definition escaped_burst_logs (eager : bool) (p : upos) (o : uoutcome) : list Z :=
  match u_raises o, p with
  | Some _, UBurstQueued =>
      let lg := u_logs o in if eager then lg ++ lg ++ lg ++ lg else lg ++ lg
  | _, _ => u_logs o
  end.

Definition run (x : sx) : sx :=
  match x with
  | L (A srv :: A 0 :: A p :: e1 :: e2 :: _) =>
      do e1 <- dec_exc e1;
      do e2 <- as_opt dec_exc e2;
      if Z.eqb srv 2 || Z.eqb srv 4 then
        do p <- upos_of_code p;
        let o := udp_client_task p e1 in
        enc_out (u_raises o) (u_fresh o) (escaped_burst_hooks (Z.eqb srv 4) p o) (escaped_burst_logs (Z.eqb srv 4) p o)
      else
        do p <- pos_of_code p;
        let o := tcp_client_task (flavour_of srv) p e1 e2 in
        enc_out (o_raises o) (o_closed o) (o_hooks o) (o_logs o)
  | L (A srv :: A 1 :: A st :: e :: _) =>
      do e <- dec_exc e;
      let o := setup_task (if Z.eqb st 0 then StConnect else StHandshake) e in
      enc_out (o_raises o) (o_closed o) (o_hooks o) (o_logs o)
  | L (A srv :: A 3 :: k :: e1 :: _) =>
      do k <- dec_leaf k;
      do e1 <- dec_exc e1;
      let o := tcp_final_close_fault (flavour_of srv) e1 k in
      enc_out (o_raises o) (o_closed o) (o_hooks o) (o_logs o)
  | L (A srv :: A 2 :: e :: _) =>
      do e <- dec_exc e;
      let o := tcp_exit_callback_fault (flavour_of srv) SAclosing e in
      enc_out (o_raises o) (o_closed o) (o_hooks o) (o_logs o)
  | _ => bad_input
  end.
