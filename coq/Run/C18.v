(* C18 case runner (asynchronous servers; the standalone servers embed the same state machine, see Run part 2 below).
   input  = L [A kind; L [A gate_factory; A gate_init; A gate_client]; L [A label ...]; ...]
     labels: 0 serve_forever  1 shutdown  2 server_close  3 connect a client  4 disconnect a client  5 (nothing: observe)
             6 release the listeners factory  7 release service_init  8 release the clients' teardown
             9 UDP: a datagram is queued behind a suspended handler of the same address
             10 (standalone) shutdown() pre-empted right before its event wait   11 that thread resumes
             12 (standalone) NetworkServerThread(server).start(): two status slots (start(), the thread's serve_forever)
             17 (async) the held listeners factory fails with a bind error (OSError: status 7)
             18 (standalone) a request handler calls server.is_serving() / get_addresses() from inside the server thread
             19 (async, 4th gate) the service's exit stack (service_quit) is released
             13 / 14 (standalone) serve_forever held before its first / second lock acquisition; 15 server_close held before
             its second lock acquisition; 16 that call goes on
           standalone gates: [start-up window (locks held); service_init; tear-down before the bootstrap lock is re-acquired]
           released by 6 / 7 / 8
   After every label the internal transitions run to quiescence (gated completions only when released) and one
   observation is emitted:  L [L [A status ...]; A is_serving; A is_listening; A listener_socket_bound]
     (the last one is probed from outside the server by binding to its address; the model says is_listening again)
     status per call id: 0 pending, 1 returned, 2 ServerAlreadyRunning, 3 ServerClosedError, 4 BusyResourceError, 5 crashed *)
From EN Require Import Lib.Bytes Lib.Sx Gen.ParamsC18 Conc.Lifecycle.
Open Scope Z_scope.

Definition out_code (o : outcome) : Z :=
  match o with OOk => 1 | OAlreadyRunning => 2 | OClosed => 3 | OBusy => 4 | OCrash => 5 | OFail => 7 end.

Fixpoint set_nth (n : nat) (v : Z) (l : list Z) : list Z :=
  match n, l with
  | O, _ :: l' => v :: l'
  | S n', x :: l' => x :: set_nth n' v l'
  | _, [] => []
  end.

Fixpoint apply_obs (os : list obs) (stat : list Z) : list Z :=
  match os with
  | [] => stat
  | Ret id o :: os' => apply_obs os' (set_nth id (out_code o) stat)
  | Serving _ _ :: os' => apply_obs os' stat
  end.

Definition pad (n : nat) (stat : list Z) : list Z := stat ++ repeat 0 (n - length stat).

Definition FUEL : nat := 200.

Definition ext_label (c : Z) : option label :=
  match c with
  | 0 => Some LCallServe | 1 => Some LCallShutdown | 2 => Some LCallClose
  | 3 => Some LConnect | 4 => Some LDisconnect | 9 => Some LUdpQueue
  (* 20 / 21: server_close() / shutdown() whose caller is cancelled at the call's first checkpoint.  What the call does
     before that checkpoint and what its exit stack / finally clauses do while unwinding is the whole effect of the call
     on the server (the awaits only wait), so the server goes through the same states; the call itself is over at once. *)
  | 20 => Some LCallClose | 21 => Some LCallShutdown
  | _ => None
  end.

Definition first_act (s : st) : option nat :=
  match filter (fun e => match snd e with SAct => true | _ => false end) (serves s) with
  | (id, _) :: _ => Some id
  | [] => None
  end.

(* Bare server_activate() calls (label 22) live outside the LTS: the LTS knows the activation only as the first phase of
   serve_forever.  A bare activation needs the activation lock and runs the same (gated) listeners factory:
     closed server                      -> ServerClosedError at once
     listeners already there            -> returns at once
     factory gate open, nobody activating -> listeners open, returns
     otherwise it is pending ([held]): inside the gated factory, or queued on the activation lock behind the activation of
       a serve_forever; it ends when the gate is released (listeners are open then: returns), when server_close() arrives
       (its scope is cancelled / it finds the factory gone: ServerClosedError) or when the factory fails (status 7). *)
Definition resolve_held (code : Z) (held : list nat) (stat : list Z) : list Z :=
  fold_left (fun st id => set_nth id code st) held stat.

Definition call_step (s : st) (c : Z) : st * list obs :=
  match ext_label c with
  | Some l => match step s l with Some r => r | None => (s, []) end
  | None => (s, [])
  end.

Definition do_label (g : gates) (c : Z) (s : st) (held : list nat) (stat : list Z) : st * list nat * list Z :=
  let g' := match c with
            | 6 => {| g_factory := false; g_init := g_init g; g_client := g_client g; g_quit := g_quit g |}
            | 7 => {| g_factory := g_factory g; g_init := false; g_client := g_client g; g_quit := g_quit g |}
            | 8 => {| g_factory := g_factory g; g_init := g_init g; g_client := false; g_quit := g_quit g |}
            | 19 => {| g_factory := g_factory g; g_init := g_init g; g_client := g_client g; g_quit := false |}
            | _ => g
            end in
  (* 100 + 10 a + b: call a and call b (0 serve, 1 shutdown, 2 close) issued by two tasks back to back: b starts while a
     is at its first checkpoint; one observation after both *)
  let pair := (Z.leb 100 c && Z.ltb c 200)%bool in
  let ca := (c - 100) / 10 in
  let cb := (c - 100) mod 10 in
  (* 30 + k: a lone server_activate() from its own task and, k loop iterations into it, server_close().  Whether the
     activation had already finished, is refused, or is cancelled in flight depends on k and on the listeners factory; the
     server ends in the same state in all three cases (closed, no listener), and the activation call is over either way
     (its slot says 1).  Second slot: the server_close() call. *)
  let race := (Z.leb 30 c && Z.ltb c 50)%bool in
  let closes := (Z.eqb c 2 || Z.eqb c 20 || race || (pair && (Z.eqb ca 2 || Z.eqb cb 2)))%bool in
  (* the pending bare activations first: a close refuses them, a release lets them finish *)
  let '(s0, held0, stat0) :=
    if closes then (s, [], resolve_held 3 held (pad (next_id s) stat))
    else if Z.eqb c 6 then ((if closed s then s else match held with [] => s | _ => set_lst s LOpen end), [],
                            resolve_held (if closed s then 3 else 1) held (pad (next_id s) stat))
    else if Z.eqb c 17 then (s, [], resolve_held 7 held (pad (next_id s) stat))
    else (s, held, stat) in
  let '(s1, o1, held1, forced) :=
    if Z.eqb c 22 then
      let id := next_id s0 in
      let sb := bump_id s0 in
      if closed s0 then (sb, [], held0, [(id, 3)])
      else match lst s0 with
           | LEmpty => if (g_factory g' || match first_act s0 with Some _ => true | None => false end)%bool
                       then (sb, [], held0 ++ [id], [])
                       else (set_lst sb LOpen, [], held0, [(id, 1)])
           | _ => (sb, [], held0, [(id, 1)])
           end
    else if race then
      let id := next_id s0 in
      let '(sc, oc) := call_step (bump_id s0) 2 in
      (sc, oc, held0, [(id, 1)])
    else if pair then
      let '(sa, oa) := call_step s0 ca in
      let '(sb, ob) := call_step sa cb in
      (sb, oa ++ ob, held0, [])
    else
      let '(sy, oy) := match ext_label c with
                       | Some l => match step s0 l with Some r => r | None => (s0, []) end
                       | None =>
                           if Z.eqb c 17   (* the held listeners factory is released with a bind error *)
                           then match first_act s0 with
                                | Some id => match step s0 (LFactoryFail id) with Some r => r | None => (s0, []) end
                                | None => (s0, [])
                                end
                           else (s0, [])
                       end in
      (sy, oy, held0, []) in
  let '(s2, o2) := settle FUEL g' s1 in
  (* a bare activation queued behind the activation of a serve_forever ends with it *)
  let '(held2, statq) :=
    match held1, first_act s2 with
    | _ :: _, None => if g_factory g' then (held1, pad (next_id s2) stat0)
                      else ([], resolve_held (if closed s2 then 3 else 1) held1 (pad (next_id s2) stat0))
    | _, _ => (held1, pad (next_id s2) stat0)
    end in
  let stat2 := apply_obs (o1 ++ o2) statq in
  let stat3 := fold_left (fun st f => set_nth (fst f) (snd f) st) forced stat2 in
  (s2, held2,
   if (Z.eqb c 20 || Z.eqb c 21)%bool
   then (if Z.eqb (nth (next_id s) stat3 0) 0 then set_nth (next_id s) 1 stat3 else stat3)
   else stat3).

Fixpoint run_labels (g : gates) (cs : list Z) (s : st) (held : list nat) (stat : list Z) : list sx :=
  match cs with
  | [] => []
  | c :: cs' =>
      let '(s', held', stat') := do_label g c s held stat in
      L [L (map A stat'); of_bool (is_serving s'); of_bool (is_listening s'); of_bool (is_listening s')]
        :: run_labels g cs' s' held' stat'
  end.

(* ---- standalone (threaded) servers: BaseStandaloneNetworkServerImpl around a FRESH asynchronous server per
   serve_forever (server_factory), observed at quiescence:
     serve_forever : ServerClosedError if __is_closed, ServerAlreadyRunning if the threading event is cleared, else a
                     new asynchronous server runs; when its serve_forever ends the wrapper closes it
                     (`async with server`), drops the portal and sets the threading event
     shutdown      : portal.run_coroutine(server.shutdown) if a portal exists, then waits for the threading event
     server_close  : under the close lock, portal.run_coroutine(server.server_close) if a portal exists; sets __is_closed
   kinds 2 (TCP) and 3 (UDP). ---- *)
Record sst := { tclosed : bool; arun : option st; cur : nat; sstat : list Z;
                window : bool;                 (* the serving thread is inside the start-up window: both locks held *)
                blocked : list (Z * nat);      (* calls blocked on those locks: label, status index *)
                pre : option (nat * bool);     (* a shutdown call pre-empted right before its event wait; was the run it saw over? *)
                hung : list nat;               (* shutdown calls waiting for the threading event *)
                tdown : option Z;              (* the serving thread is paused in its tear-down, before it re-acquires the
                                                  bootstrap lock (portal dead, fields not reset, event not set); outcome of its call *)
                isup : bool;                   (* the is_up event of the current run has been set *)
                starts : list (nat * nat);     (* NetworkServerThread.start() calls waiting: its slot, the slot of the thread's run *)
                paused : option (Z * nat);     (* a call held by the harness between two lock acquisitions: label 13/14/15, slot *)
                heldc : bool; heldb : bool }.  (* the close lock / the bootstrap lock is held by that paused call *)

Record sgates := { sg_window : bool; sg_init : bool; sg_teardown : bool }.

Fixpoint serve_outcome (os : list obs) : Z :=
  match os with
  | [] => 1
  | Ret O o :: _ => out_code o
  | _ :: os' => serve_outcome os'
  end.

Definition upd (x : sst) (tc : bool) (ar : option st) (cu : nat) (ss : list Z) : sst :=
  {| tclosed := tc; arun := ar; cur := cu; sstat := ss; window := window x; blocked := blocked x;
     pre := pre x; hung := hung x; tdown := tdown x; isup := isup x; starts := starts x; paused := paused x; heldc := heldc x; heldb := heldb x |}.
Definition set_window (x : sst) (w : bool) (b : list (Z * nat)) : sst :=
  {| tclosed := tclosed x; arun := arun x; cur := cur x; sstat := sstat x; window := w; blocked := b;
     pre := pre x; hung := hung x; tdown := tdown x; isup := isup x; starts := starts x; paused := paused x; heldc := heldc x; heldb := heldb x |}.
Definition set_pre_hung (x : sst) (p : option (nat * bool)) (h : list nat) : sst :=
  {| tclosed := tclosed x; arun := arun x; cur := cur x; sstat := sstat x; window := window x; blocked := blocked x;
     pre := p; hung := h; tdown := tdown x; isup := isup x; starts := starts x; paused := paused x; heldc := heldc x; heldb := heldb x |}.
Definition set_tdown (x : sst) (t : option Z) : sst :=
  {| tclosed := tclosed x; arun := arun x; cur := cur x; sstat := sstat x; window := window x; blocked := blocked x;
     pre := pre x; hung := hung x; tdown := t; isup := isup x; starts := starts x; paused := paused x; heldc := heldc x; heldb := heldb x |}.
Definition set_up_starts (x : sst) (u : bool) (l : list (nat * nat)) : sst :=
  {| tclosed := tclosed x; arun := arun x; cur := cur x; sstat := sstat x; window := window x; blocked := blocked x;
     pre := pre x; hung := hung x; tdown := tdown x; isup := u; starts := l; paused := paused x; heldc := heldc x; heldb := heldb x |}.

Definition set_paused (x : sst) (p : option (Z * nat)) (c b : bool) : sst :=
  {| tclosed := tclosed x; arun := arun x; cur := cur x; sstat := sstat x; window := window x; blocked := blocked x;
     pre := pre x; hung := hung x; tdown := tdown x; isup := isup x; starts := starts x; paused := p; heldc := c; heldb := b |}.

Fixpoint set_all (is : list nat) (v : Z) (l : list Z) : list Z :=
  match is with [] => l | i :: is' => set_all is' v (set_nth i v l) end.

(* the serving thread finishes its tear-down: bootstrap lock re-acquired, reset_values, event set *)
Definition finish_run (x : sst) (code : Z) : sst :=
  set_pre_hung (upd x (tclosed x) None (cur x) (set_all (hung x) 1 (set_nth (cur x) code (sstat x)))) (pre x) [].

(* the asynchronous run has ended: the loop is over, the portal is dead, the asynchronous server closed; the serving
   thread goes on to its tear-down (held back before the lock re-acquisition when that gate is armed) *)
Definition wrap_up (hold : bool) (x : sst) (a : st) (oa : list obs) : sst :=
  if ev a
  then if hold then set_tdown (upd x (tclosed x) None (cur x) (sstat x)) (Some (serve_outcome oa))
       else finish_run x (serve_outcome oa)
  else upd x (tclosed x) (Some a) (cur x) (sstat x).

Definition async_do (g : sgates) (open_init : bool) (x : sst) (l : label) : sst :=
  match arun x with
  | None => x
  | Some a =>
      let '(a1, o1) := match step a l with Some r => r | None => (a, []) end in
      let '(a2, o2) := settle FUEL {| g_factory := false; g_init := sg_init g && negb open_init; g_client := false; g_quit := false |} a1 in
      wrap_up (sg_teardown g) x a2 (o1 ++ o2)
  end.

Definition set_stat (x : sst) (i : nat) (v : Z) : sst := upd x (tclosed x) (arun x) (cur x) (set_nth i v (sstat x)).

Definition running (x : sst) : bool :=
  match arun x, tdown x with None, None => false | _, _ => true end.

(* a call that has got past the locks; its status slot is i *)
Definition exec_call (g : sgates) (c : Z) (i : nat) (x : sst) : sst :=
  match c with
  | 0 =>
      if tclosed x then set_stat x i 3
      else if window x || running x then set_stat x i 2          (* the event of the current run is not set *)
      else if sg_window g
           then set_window (set_up_starts (upd x (tclosed x) None i (sstat x)) false (starts x)) true (blocked x)
           else async_do g false (set_up_starts (upd x (tclosed x) (Some init) i (sstat x)) false (starts x)) LCallServe
  | 1 =>
      let x := async_do g false x LCallShutdown in
      match tdown x with
      | Some _ => set_pre_hung x (pre x) (i :: hung x)     (* dead portal: RuntimeError suppressed, then waits for the event *)
      | None => set_stat x i 1
      end
  | 2 =>
      (* the asynchronous server_close() raises BusyResourceError while serve_forever is in its set-up (close guard).
         As found, suppress(RuntimeError) swallows it: server_close() returns normally and __is_closed is set although
         nothing was closed; with standalone_close_propagates_busy it reaches the caller and nothing changes. *)
      let busy := match arun x with
                  | Some a => match guard a with Some _ => true | None => false end
                  | None => false
                  end in
      if busy && standalone_close_propagates_busy then set_stat x i 4
      else let x := set_stat (async_do g false x LCallClose) i 1 in upd x true (arun x) (cur x) (sstat x)
  | _ => x
  end.

Fixpoint exec_blocked (g : sgates) (bs : list (Z * nat)) (x : sst) : sst :=
  match bs with
  | [] => x
  | (c, i) :: bs' => exec_blocked g bs' (exec_call g c i x)
  end.

(* does call c have to wait for a lock?  serve_forever and server_close need both locks, shutdown the bootstrap lock *)
Definition blocks (x : sst) (c : Z) : bool :=
  window x || (heldc x && (Z.eqb c 0 || Z.eqb c 2)) || (heldb x && (Z.eqb c 0 || Z.eqb c 1 || Z.eqb c 2)).

Definition lock_flags (l : lockid) : bool * bool := match l with LClose => (true, false) | LBoot => (false, true) end.

Definition sdo_label (g : sgates) (c : Z) (x : sst) : sst :=
  match c with
  | 0 | 1 | 2 =>
      let i := length (sstat x) in
      let x := upd x (tclosed x) (arun x) (cur x) (sstat x ++ [0]) in
      if blocks x c
      then set_window x (window x) (blocked x ++ [(c, i)])
      else exec_call g c i x
  | 13 =>
      (* serve_forever held before its FIRST lock acquisition (after whatever it does lock-free) *)
      let i := length (sstat x) in
      let x := upd x (tclosed x) (arun x) (cur x) (sstat x ++ [0]) in
      if negb serve_closed_check_under_lock && tclosed x then set_stat x i 3
      else set_paused x (Some (13, i)) false false
  | 14 =>
      (* serve_forever held before its SECOND lock acquisition: it holds its first lock and has made the test that goes with it *)
      let i := length (sstat x) in
      let x := upd x (tclosed x) (arun x) (cur x) (sstat x ++ [0]) in
      let refused := match serve_first_lock with
                     | LClose => if serve_closed_check_under_lock && tclosed x then 3 else 0
                     | LBoot => if running x then 2 else 0
                     end in
      if negb (Z.eqb refused 0) then set_stat x i refused
      else let '(hc, hb) := lock_flags serve_first_lock in set_paused x (Some (14, i)) hc hb
  | 15 =>
      (* server_close held before its SECOND lock acquisition *)
      let i := length (sstat x) in
      let x := upd x (tclosed x) (arun x) (cur x) (sstat x ++ [0]) in
      let '(hc, hb) := lock_flags close_first_lock in set_paused x (Some (15, i)) hc hb
  | 16 =>
      match paused x with
      | None => x
      | Some (k, i) =>
          let bs := blocked x in
          let x := set_window (set_paused x None false false) (window x) [] in
          let x := exec_call g (if Z.eqb k 15 then 2 else 0) i x in
          exec_blocked g bs x
      end
  | 3 => async_do g false x LConnect
  | 4 => async_do g false x LDisconnect
  | 6 =>
      if window x
      then
        let bs := blocked x in
        let x := set_window (upd x (tclosed x) (Some init) (cur x) (sstat x)) false [] in
        exec_blocked g bs (async_do g false x LCallServe)
      else x
  | 7 => async_do g true x LQuery                      (* service_init released: the set-up goes on *)
  | 8 =>
      match tdown x with
      | Some code => finish_run (set_tdown x None) code  (* tear-down released *)
      | None => x
      end
  | 9 => async_do g false x LUdpQueue
  | 10 =>
      (* shutdown(), stopped by the scheduler right before its Event.wait(): its locked section has run *)
      let i := length (sstat x) in
      let x := upd x (tclosed x) (arun x) (cur x) (sstat x ++ [0]) in
      let x := async_do g false x LCallShutdown in        (* portal.run_coroutine(server.shutdown) if a server is running *)
      set_pre_hung x (Some (i, negb (running x))) (hung x)
  | 11 =>
      (* the pre-empted shutdown resumes.  As found it waits for the one shared event, whatever run cleared it;
         guarded (one event per run, captured under the lock) it waits for the event of the run it saw. *)
      match pre x with
      | None => x
      | Some (i, seen_over) =>
          let returns := negb (running x) || (standalone_shutdown_guarded && seen_over) in
          if returns
          then set_pre_hung (set_stat x i 1) None (hung x)
          else set_pre_hung x None (i :: hung x)
      end
  | 12 =>
      (* NetworkServerThread(server).start(): two slots, the start() call and the thread's serve_forever *)
      let i := length (sstat x) in
      let x := upd x (tclosed x) (arun x) (cur x) (sstat x ++ [0; 0]) in
      let x := if blocks x 0 then set_window x (window x) (blocked x ++ [(0, S i)]) else exec_call g 0 (S i) x in
      set_up_starts x (isup x) (starts x ++ [(i, S i)])
  | _ => x
  end.

(* is_up_event.set(): by the asynchronous serve_forever once the listeners run, and by NetworkServerThread.run when
   serve_forever has ended (always if it does so in a finally clause; only on an exception otherwise) *)
Definition async_up (x : sst) : bool :=
  match arun x with
  | Some a => existsb (fun e => match snd e with SMain | SWait => true | _ => false end) (serves a)
  | None => false
  end.

Fixpoint resolve_starts (x : sst) (up : bool) (l : list (nat * nat)) : list Z * list (nat * nat) :=
  match l with
  | [] => (sstat x, [])
  | (si, ri) :: l' =>
      let '(ss, rest) := resolve_starts x up l' in
      let code := nth ri (sstat x) 0 in
      let ended := negb (Z.eqb code 0) in
      let woken := (ended && (nst_sets_up_in_finally || negb (Z.eqb code 1))) || (Nat.eqb ri (cur x) && up) in
      if woken then (set_nth si 1 ss, rest) else (ss, (si, ri) :: rest)
  end.

Definition post_label (x : sst) : sst :=
  let up := isup x || async_up x in
  let '(ss, rest) := resolve_starts x up (starts x) in
  set_up_starts (upd x (tclosed x) (arun x) (cur x) ss) up rest.

Fixpoint srun_labels (g : sgates) (cs : list Z) (x : sst) : list sx :=
  match cs with
  | [] => []
  | c :: cs' =>
      let x' := post_label (sdo_label g c x) in
      let sv := match arun x' with Some a => is_serving a | None => false end in
      let ls := match arun x' with Some a => is_listening a | None => false end in
      L [L (map A (sstat x')); of_bool sv; of_bool ls; of_bool ls] :: srun_labels g cs' x'
  end.

(* standalone world "the service's tear-down fails" (init gate value 2, labels 0 / 1 / 2 only, so call slot i belongs to
   label i): a callback pushed by service_init raises while the server is torn down.  A serve_forever call that got as far
   as serving (every other one is refused with status 2 / 3) ends with that error (status 10) instead of returning;
   shutdown() and server_close() are not affected: they return once serving has stopped. *)
Fixpoint mark_failed (cs : list Z) (st : list sx) : list sx :=
  match cs, st with
  | c :: cs', A v :: st' => A (if (Z.eqb c 0 && Z.eqb v 1)%bool then 10 else v) :: mark_failed cs' st'
  | _, _ => st
  end.

Definition failing_teardown (cs : list Z) (out : sx) : sx :=
  match out with
  | L obs => L (map (fun o => match o with
                              | L (L st :: rest) => L (L (mark_failed cs st) :: rest)
                              | _ => o
                              end) obs)
  | _ => out
  end.

Definition run (x : sx) : sx :=
  match x with
  | L (A k :: L [A gf; A gi; A gc; A gq] :: L cs :: _) =>
      do cs <- map_opt as_Z cs;
      L (run_labels {| g_factory := negb (Z.eqb gf 0); g_init := negb (Z.eqb gi 0); g_client := negb (Z.eqb gc 0);
                       g_quit := negb (Z.eqb gq 0) |} cs init [] [])
  | L (A k :: L [A gf; A gi; A gc] :: L cs :: _) =>
      do cs <- map_opt as_Z cs;
      if Z.leb 2 k
      then (if Z.eqb gi 2 then failing_teardown cs else (fun x => x)) (L (srun_labels {| sg_window := negb (Z.eqb gf 0); sg_init := Z.eqb gi 1; sg_teardown := negb (Z.eqb gc 0) |} cs
                {| tclosed := false; arun := None; cur := O; sstat := []; window := false; blocked := []; pre := None;
                   hung := []; tdown := None; isup := false; starts := []; paused := None; heldc := false; heldb := false |}))
      else
      L (run_labels {| g_factory := negb (Z.eqb gf 0); g_init := negb (Z.eqb gi 0); g_client := negb (Z.eqb gc 0);
                       g_quit := false |} cs init [] [])
  | _ => bad_input
  end.
