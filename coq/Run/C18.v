(* C18 case runner (asynchronous servers; the standalone servers embed the same state machine, see Run part 2 below).
   input  = L [A kind; L [A gate_factory; A gate_init; A gate_client]; L [A label ...]; ...]
     labels: 0 serve_forever  1 shutdown  2 server_close  3 connect a client  4 disconnect a client  5 (nothing: observe)
             6 release the listeners factory  7 release service_init  8 release the clients' teardown
             9 UDP: a datagram is queued behind a suspended handler of the same address
             10 (standalone) shutdown() pre-empted right before its event wait   11 that thread resumes
   After every label the internal transitions run to quiescence (gated completions only when released) and one
   observation is emitted:  L [L [A status ...]; A is_serving; A is_listening; A listener_socket_bound]
     (the last one is probed from outside the server by binding to its address; the model says is_listening again)
     status per call id: 0 pending, 1 returned, 2 ServerAlreadyRunning, 3 ServerClosedError, 4 BusyResourceError, 5 crashed *)
From EN Require Import Lib.Bytes Lib.Sx Gen.ParamsC18 Conc.Lifecycle.
Open Scope Z_scope.

Definition out_code (o : outcome) : Z :=
  match o with OOk => 1 | OAlreadyRunning => 2 | OClosed => 3 | OBusy => 4 | OCrash => 5 end.

Fixpoint set_nth (n : nat) (v : Z) (l : list Z) : list Z :=
  match n, l with
  | O, _ :: l' => v :: l'
  | S n', x :: l' => x :: set_nth n' v l'
  | _, [] => []
  end.

Fixpoint apply_obs (os : list obs) (stat : list Z) : list Z :=
  match os with
  | [] => stat
  | Ret id o :: os' => apply_obs os' (set_nth id (out_code o) stat)
  | Serving _ _ :: os' => apply_obs os' stat
  end.

Definition pad (n : nat) (stat : list Z) : list Z := stat ++ repeat 0 (n - length stat).

Definition FUEL : nat := 200.

Definition ext_label (c : Z) : option label :=
  match c with
  | 0 => Some LCallServe | 1 => Some LCallShutdown | 2 => Some LCallClose
  | 3 => Some LConnect | 4 => Some LDisconnect | 9 => Some LUdpQueue
  | _ => None
  end.

Definition do_label (g : gates) (c : Z) (s : st) (stat : list Z) : st * list Z :=
  let g' := match c with
            | 6 => {| g_factory := false; g_init := g_init g; g_client := g_client g |}
            | 7 => {| g_factory := g_factory g; g_init := false; g_client := g_client g |}
            | 8 => {| g_factory := g_factory g; g_init := g_init g; g_client := false |}
            | _ => g
            end in
  let '(s1, o1) := match ext_label c with
                   | Some l => match step s l with Some r => r | None => (s, []) end
                   | None => (s, [])
                   end in
  let '(s2, o2) := settle FUEL g' s1 in
  (s2, apply_obs (o1 ++ o2) (pad (next_id s2) stat)).

Fixpoint run_labels (g : gates) (cs : list Z) (s : st) (stat : list Z) : list sx :=
  match cs with
  | [] => []
  | c :: cs' =>
      let '(s', stat') := do_label g c s stat in
      L [L (map A stat'); of_bool (is_serving s'); of_bool (is_listening s'); of_bool (is_listening s')] :: run_labels g cs' s' stat'
  end.

(* ---- standalone (threaded) servers: BaseStandaloneNetworkServerImpl around a FRESH asynchronous server per
   serve_forever (server_factory), observed at quiescence:
     serve_forever : ServerClosedError if __is_closed, ServerAlreadyRunning if the threading event is cleared, else a
                     new asynchronous server runs; when its serve_forever ends the wrapper closes it
                     (`async with server`), drops the portal and sets the threading event
     shutdown      : portal.run_coroutine(server.shutdown) if a portal exists, then waits for the threading event
     server_close  : under the close lock, portal.run_coroutine(server.server_close) if a portal exists; sets __is_closed
   kinds 2 (TCP) and 3 (UDP). ---- *)
Record sst := { tclosed : bool; arun : option st; cur : nat; sstat : list Z;
                window : bool;                 (* the serving thread is inside the start-up window: both locks held *)
                blocked : list (Z * nat);      (* calls blocked on those locks: label, status index *)
                pre : option (nat * bool);     (* a shutdown call pre-empted right before its event wait; was the run it saw over? *)
                hung : list nat }.             (* shutdown calls waiting for the threading event *)

Definition no_gates : gates := {| g_factory := false; g_init := false; g_client := false |}.

Fixpoint serve_outcome (os : list obs) : Z :=
  match os with
  | [] => 1
  | Ret O o :: _ => out_code o
  | _ :: os' => serve_outcome os'
  end.

Definition upd (x : sst) (tc : bool) (ar : option st) (cu : nat) (ss : list Z) : sst :=
  {| tclosed := tc; arun := ar; cur := cu; sstat := ss; window := window x; blocked := blocked x;
     pre := pre x; hung := hung x |}.

Fixpoint set_all (is : list nat) (v : Z) (l : list Z) : list Z :=
  match is with [] => l | i :: is' => set_all is' v (set_nth i v l) end.

(* the asynchronous run has ended (its event is set): the serving thread leaves serve_forever *)
Definition wrap_up (x : sst) (a : st) (oa : list obs) : sst :=
  if ev a
  then {| tclosed := tclosed x; arun := None; cur := cur x;
          sstat := set_all (hung x) 1 (set_nth (cur x) (serve_outcome oa) (sstat x));   (* the event is set *)
          window := window x; blocked := blocked x; pre := pre x; hung := [] |}
  else upd x (tclosed x) (Some a) (cur x) (sstat x).

Definition async_do (x : sst) (l : label) : sst :=
  match arun x with
  | None => x
  | Some a =>
      let '(a1, o1) := match step a l with Some r => r | None => (a, []) end in
      let '(a2, o2) := settle FUEL no_gates a1 in
      wrap_up x a2 (o1 ++ o2)
  end.

Definition set_stat (x : sst) (i : nat) (v : Z) : sst := upd x (tclosed x) (arun x) (cur x) (set_nth i v (sstat x)).

(* a call that has got past the locks; its status slot is i *)
Definition exec_call (c : Z) (i : nat) (gated : bool) (x : sst) : sst :=
  match c with
  | 0 =>
      if tclosed x then set_stat x i 3
      else if window x then set_stat x i 2          (* unreachable: the locks are held during the window *)
      else match arun x with
           | Some _ => set_stat x i 2
           | None =>
               if gated
               then {| tclosed := tclosed x; arun := None; cur := i; sstat := sstat x; window := true; blocked := blocked x;
                       pre := pre x; hung := hung x |}
               else async_do (upd x (tclosed x) (Some init) i (sstat x)) LCallServe
           end
  | 1 => set_stat (async_do x LCallShutdown) i 1
  | 2 => let x := set_stat (async_do x LCallClose) i 1 in upd x true (arun x) (cur x) (sstat x)
  | _ => x
  end.

Fixpoint exec_blocked (bs : list (Z * nat)) (gated : bool) (x : sst) : sst :=
  match bs with
  | [] => x
  | (c, i) :: bs' => exec_blocked bs' gated (exec_call c i gated x)
  end.

Definition sdo_label (gated : bool) (c : Z) (x : sst) : sst :=
  match c with
  | 0 | 1 | 2 =>
      let i := length (sstat x) in
      let x := upd x (tclosed x) (arun x) (cur x) (sstat x ++ [0]) in
      if window x
      then {| tclosed := tclosed x; arun := arun x; cur := cur x; sstat := sstat x; window := true;
              blocked := blocked x ++ [(c, i)]; pre := pre x; hung := hung x |}
      else exec_call c i gated x
  | 3 => async_do x LConnect
  | 4 => async_do x LDisconnect
  | 6 =>
      if window x
      then
        let bs := blocked x in
        let x := {| tclosed := tclosed x; arun := Some init; cur := cur x; sstat := sstat x; window := false; blocked := [];
                    pre := pre x; hung := hung x |} in
        exec_blocked bs gated (async_do x LCallServe)
      else x
  | 9 => async_do x LUdpQueue
  | 10 =>
      (* shutdown(), stopped by the scheduler right before its Event.wait(): its locked section has run *)
      let i := length (sstat x) in
      let x := upd x (tclosed x) (arun x) (cur x) (sstat x ++ [0]) in
      let x := async_do x LCallShutdown in        (* portal.run_coroutine(server.shutdown) if a server is running *)
      {| tclosed := tclosed x; arun := arun x; cur := cur x; sstat := sstat x; window := window x;
         blocked := blocked x; pre := Some (i, match arun x with None => true | Some _ => false end); hung := hung x |}
  | 11 =>
      (* the pre-empted shutdown resumes.  As found it waits for the one shared event, whatever run cleared it;
         guarded (one event per run, captured under the lock) it waits for the event of the run it saw. *)
      match pre x with
      | None => x
      | Some (i, seen_over) =>
          let returns := match arun x with None => true | Some _ => standalone_shutdown_guarded && seen_over end in
          if returns
          then {| tclosed := tclosed x; arun := arun x; cur := cur x; sstat := set_nth i 1 (sstat x);
                  window := window x; blocked := blocked x; pre := None; hung := hung x |}
          else {| tclosed := tclosed x; arun := arun x; cur := cur x; sstat := sstat x;
                  window := window x; blocked := blocked x; pre := None; hung := i :: hung x |}
      end
  | _ => x
  end.

Fixpoint srun_labels (gated : bool) (cs : list Z) (x : sst) : list sx :=
  match cs with
  | [] => []
  | c :: cs' =>
      let x' := sdo_label gated c x in
      let sv := match arun x' with Some a => is_serving a | None => false end in
      let ls := match arun x' with Some a => is_listening a | None => false end in
      L [L (map A (sstat x')); of_bool sv; of_bool ls; of_bool ls] :: srun_labels gated cs' x'
  end.

Definition run (x : sx) : sx :=
  match x with
  | L (A k :: L [A gf; A gi; A gc] :: L cs :: _) =>
      do cs <- map_opt as_Z cs;
      if Z.leb 2 k
      then L (srun_labels (negb (Z.eqb gf 0)) cs {| tclosed := false; arun := None; cur := O; sstat := []; window := false; blocked := []; pre := None; hung := [] |})
      else
      L (run_labels {| g_factory := negb (Z.eqb gf 0); g_init := negb (Z.eqb gi 0); g_client := negb (Z.eqb gc 0) |}
                    cs init [])
  | _ => bad_input
  end.
