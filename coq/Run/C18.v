(* C18 case runner (asynchronous servers; the standalone servers embed the same state machine, see Run part 2 below).
   input  = L [A kind; L [A gate_factory; A gate_init; A gate_client]; L [A label ...]; ...]
     labels: 0 serve_forever  1 shutdown  2 server_close  3 connect a client  4 disconnect a client  5 (nothing: observe)
             6 release the listeners factory  7 release service_init  8 release the clients' teardown
             9 UDP: a datagram is queued behind a suspended handler of the same address
   After every label the internal transitions run to quiescence (gated completions only when released) and one
   observation is emitted:  L [L [A status ...]; A is_serving; A is_listening]
     status per call id: 0 pending, 1 returned, 2 ServerAlreadyRunning, 3 ServerClosedError, 4 BusyResourceError, 5 crashed *)
From EN Require Import Lib.Bytes Lib.Sx Conc.Lifecycle.
Open Scope Z_scope.

Definition out_code (o : outcome) : Z :=
  match o with OOk => 1 | OAlreadyRunning => 2 | OClosed => 3 | OBusy => 4 | OCrash => 5 end.

Fixpoint set_nth (n : nat) (v : Z) (l : list Z) : list Z :=
  match n, l with
  | O, _ :: l' => v :: l'
  | S n', x :: l' => x :: set_nth n' v l'
  | _, [] => []
  end.

Fixpoint apply_obs (os : list obs) (stat : list Z) : list Z :=
  match os with
  | [] => stat
  | Ret id o :: os' => apply_obs os' (set_nth id (out_code o) stat)
  | Serving _ _ :: os' => apply_obs os' stat
  end.

Definition pad (n : nat) (stat : list Z) : list Z := stat ++ repeat 0 (n - length stat).

Definition FUEL : nat := 200.

Definition ext_label (c : Z) : option label :=
  match c with
  | 0 => Some LCallServe | 1 => Some LCallShutdown | 2 => Some LCallClose
  | 3 => Some LConnect | 4 => Some LDisconnect | 9 => Some LUdpQueue
  | _ => None
  end.

Definition do_label (g : gates) (c : Z) (s : st) (stat : list Z) : st * list Z :=
  let g' := match c with
            | 6 => {| g_factory := false; g_init := g_init g; g_client := g_client g |}
            | 7 => {| g_factory := g_factory g; g_init := false; g_client := g_client g |}
            | 8 => {| g_factory := g_factory g; g_init := g_init g; g_client := false |}
            | _ => g
            end in
  let '(s1, o1) := match ext_label c with
                   | Some l => match step s l with Some r => r | None => (s, []) end
                   | None => (s, [])
                   end in
  let '(s2, o2) := settle FUEL g' s1 in
  (s2, apply_obs (o1 ++ o2) (pad (next_id s2) stat)).

Fixpoint run_labels (g : gates) (cs : list Z) (s : st) (stat : list Z) : list sx :=
  match cs with
  | [] => []
  | c :: cs' =>
      let '(s', stat') := do_label g c s stat in
      L [L (map A stat'); of_bool (is_serving s'); of_bool (is_listening s')] :: run_labels g cs' s' stat'
  end.

Definition run (x : sx) : sx :=
  match x with
  | L (A _ :: L [A gf; A gi; A gc] :: L cs :: _) =>
      do cs <- map_opt as_Z cs;
      L (run_labels {| g_factory := negb (Z.eqb gf 0); g_init := negb (Z.eqb gi 0); g_client := negb (Z.eqb gc 0) |}
                    cs init [])
  | _ => bad_input
  end.
