(* C16 runner: input = L [A naddr; L labels; ...]  (the remaining fields are the script for the real server)
   label  = L [A 0; A a; B d] Arrive | L [A 1; A susp] HStart | L [A 2; A a] HResume | L [A 3; A a] TaskStart
          | L [A 4; A a] GSuspend | L [A 5; A a] GResume | L [A 6; A a; t] GYield (t = L [] | L [A ticks])
          | L [A 7; A a] GReturn | L [A 8; A a] GRaise | L [A 9; A a] PopWake | L [A 10; A a] Timeout
          | L [A 11; A a; A restart] GCancel
   output = L [L obs; L summary; L stuck]   obs = L [A 0; A a; B d] | L [A 1; A a] | L [A 2; A a; B d] | L [A 3; A a] | L [A 9]
            (a label that is not enabled ends the run with obs L [A (-1); A index])
            summary: per address L [A gens; A active; L (B d) received]
            stuck: the internal steps still enabled in the final state (the real server is idle when the script ends, so
                   this must be empty): L [A 1] a handler task has not run | L [A 2; A a] suspended handler | L [A 3; A a]
                   pending restart task | L [A 9; A a] coroutine waiting in pop_datagram although its queue is not empty *)
From EN Require Import Lib.Bytes Lib.Sx Conc.DgramServer Conc.DgramListener.

Definition dec_label (x : sx) : option label :=
  match x with
  | L [A 0%Z; a; B d] => match as_nat a with Some a => Some (Arrive a d) | None => None end
  | L [A 1%Z; b] => match as_bool b with Some b => Some (HStart b) | None => None end
  | L [A 2%Z; a] => option_map HResume (as_nat a)
  | L [A 3%Z; a] => option_map TaskStart (as_nat a)
  | L [A 4%Z; a] => option_map GSuspend (as_nat a)
  | L [A 5%Z; a] => option_map GResume (as_nat a)
  | L [A 6%Z; a; t] =>
      match as_nat a, as_opt as_Z t with
      | Some a, Some t => Some (GYield a t)
      | _, _ => None
      end
  | L [A 7%Z; a] => option_map GReturn (as_nat a)
  | L [A 8%Z; a] => option_map GRaise (as_nat a)
  | L [A 9%Z; a] => option_map PopWake (as_nat a)
  | L [A 10%Z; a] => option_map Timeout (as_nat a)
  | L [A 11%Z; a; r] =>
      match as_nat a, as_bool r with
      | Some a, Some r => Some (GCancel a r)
      | _, _ => None
      end
  | _ => None
  end.

Definition obs_sx (o : obs) : sx :=
  match o with
  | OHStart a d => L [A 0; of_nat a; B d]
  | OGenNew a => L [A 1; of_nat a]
  | ORecv a d => L [A 2; of_nat a; B d]
  | OThrow a => L [A 3; of_nat a]
  | OCrash => L [A 9]
  end%Z.

Definition active_now (c : client) : nat := match pc c with PIdle => 0 | _ => 1 end.

Definition summary (s : state) (naddr : nat) : list sx :=
  map (fun a => let c := cl s a in
                L [of_nat (gens c); of_nat (active_now c); L (map B (delivered c))]) (seq 0 naddr).

(* internal (scheduler) steps enabled in s: an idle event loop means none *)
Definition stuck_of (s : state) (naddr : nat) : list sx :=
  match cur s with
  | Some _ => []
  | None =>
      (match spawned s with [] => [] | _ :: _ => [L [A 1%Z]] end) ++
      flat_map (fun a =>
                  let c := cl s a in
                  (match hsusp c with 0 => [] | S _ => [L [A 2%Z; of_nat a]] end) ++
                  (match st c with TPending => [L [A 3%Z; of_nat a]] | _ => [] end) ++
                  (match pc c, queue c with PWait _, _ :: _ => [L [A 9%Z; of_nat a]] | _, _ => [] end))
               (seq 0 naddr)
  end.

(* listener kind: input = L [A (-1); L llabels]   llabel = L [A 0; A a; B d] arrive | L [A 1] serve | L [A 2] cancel
   output = L [L dispatched (L [A a; B d]); A stuck-index or -1]                                                   *)
Definition dec_llabel (x : sx) : option llabel :=
  match x with
  | L [A 0%Z; a; B d] => match as_nat a with Some a => Some (LArrive a d) | None => None end
  | L [A 1%Z] => Some LServe
  | L [A 2%Z] => Some LCancel
  | _ => None
  end.

Fixpoint lexec (n : nat) (s : lstate) (ls : list llabel) : lstate * Z :=
  match ls with
  | [] => (s, (-1)%Z)
  | l :: r => match lstep s l with Some s' => lexec (S n) s' r | None => (s, Z.of_nat n) end
  end.

Definition run_listener (ls : sx) : sx :=
  do labels <- as_list_of dec_llabel ls;
  let '(s, stuck) := lexec 0 lstate0 labels in
  L [L (map (fun x => L [of_nat (fst x); B (snd x)]) (dispatched s)); A stuck].

Definition run (i : sx) : sx :=
  match i with
  | L (A (-1)%Z :: ls :: _) => run_listener ls
  | L (A (-2)%Z :: _) => L [A 0]         (* witness of a known finding: evaluated by the property oracle only *)
  | L (n :: ls :: _) =>
      do naddr <- as_nat n;
      do labels <- as_list_of dec_label ls;
      let '(s, o, stuck) := exec 0 state0 labels [] in
      let o' := map obs_sx o ++ match stuck with Some k => [L [A (-1); of_nat k]] | None => [] end in
      L [L o'; L (summary s naddr); L (if err s then [] else stuck_of s naddr)]
  | _ => bad_input
  end.
