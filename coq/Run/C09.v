(* C09 runner: decodes a case (configuration, API calls, recorded/scripted answers of the SSL object and of the wrapped
   transport), runs the model of Conc/TlsEof.v, encodes every action and every reported result. *)
From EN Require Import Lib.Bytes Lib.Sx Conc.TlsBase Conc.TlsPump Conc.TlsEof Gen.ParamsC09 Gen.ParamsC08.
From EN Require Run.C08.
Open Scope Z_scope.

Definition zeros (n : nat) : bytes := repeat 0%N n.

Definition dec_meth (z : Z) : option meth :=
  match z with 0 => Some MHandshake | 1 => Some MRead | 2 => Some MWrite | 3 => Some MUnwrap | _ => None end.

Definition dec_out (code : Z) (v : nat) : option sslout :=
  match code with
  | 0 => Some (SOk v) | 1 => Some SWantRead | 2 => Some SWantWrite
  | 3 => Some (SErr EZeroReturn) | 4 => Some (SErr ESslEof) | 5 => Some (SErr ESslEofStr) | 6 => Some (SErr ESyscall)
  | 7 => Some (SErr ESslOther) | 8 => Some (SErr ECert) | 9 => Some SOSErr | 10 => Some SOther
  | _ => None
  end.

Definition dec_ans (x : sx) : option ans :=
  match x with
  | L [A 0; A m; A arg; A code; A v; A wd] =>
      match dec_meth m, dec_out code (Z.to_nat v) with
      | Some m', Some o => Some (AS {| a_meth := m'; a_arg := Z.to_nat arg; a_out := o; a_wdelta := zeros (Z.to_nat wd) |})
      | _, _ => None
      end
  | L [A 1; A 0; A n] => Some (AT (TRcvd (zeros (Z.to_nat n))))
  | L [A 1; A 1; A _] => Some (AT TRecvErr)
  | L [A 1; A 2; A _] => Some (AT TSent)
  | L [A 1; A 3; A _] => Some (AT TSendErr)
  | L [A 1; A 4; A _] => Some (AT (TCancel true))
  | L [A 1; A 5; A _] => Some (AT (TCancel false))
  | _ => None
  end.

Definition dec_op (x : sx) : option op :=
  match x with
  | L [A 0; _] => Some OWrap
  | L [A 1; A n] => Some (ORecv (Z.to_nat n))
  | L [A 2; A n] => Some (ORecvInto (Z.to_nat n))
  | L [A 3; L ls] =>
      match map_opt as_nat ls with Some ns => Some (OSend (map zeros ns)) | None => None end
  | L [A 4; _] => Some OClose
  | _ => None
  end.

Definition dec_sans (x : sx) : option sans :=
  match x with
  | L [A m; A code; A v] =>
      match dec_meth m, dec_out code (Z.to_nat v) with
      | Some m', Some o => Some {| s_meth := m'; s_out := o |}
      | _, _ => None
      end
  | _ => None
  end.

Definition exc_code (x : exc) : Z :=
  match x with
  | XWantRead => 1 | XWantWrite => 2
  | XSsl EZeroReturn => 3 | XSsl ESslEof => 4 | XSsl ESslEofStr => 5 | XSsl ESyscall => 6 | XSsl ESslOther => 7
  | XSsl ECert => 8 | XOSError => 9 | XOther => 10
  end.

Definition enc_res (r : apires) : sx :=
  match r with
  | Ret v => L [A 1; A 0; of_nat v]
  | Raise (XR x) => L [A 1; A 1; A (exc_code x)]
  | Raise XTimeout => L [A 1; A 1; A 11]
  | Raise XCancelled => L [A 1; A 1; A 12]
  | Desync => L [A 1; A 2; A 0]
  end.

Definition enc_act (a : act) : sx :=
  match a with
  | ASend p => L [A 0; A 0; of_nat (length p)]
  | ARecv => L [A 0; A 1; A 0]
  | AFeed d => L [A 0; A 2; of_nat (length d)]
  | AReof => L [A 0; A 3; A 0]
  | AWeof => L [A 0; A 4; A 0]
  | AClose => L [A 0; A 5; A 0]
  | ADesync => L [A 0; A 6; A 0]
  end.

Definition enc_obs (o : obs) : sx := match o with OAct a => enc_act a | ORes r => enc_res r end.

Definition enc_sobs (o : sobs) : sx :=
  match o with
  | SAct SWaitRead => L [A 0; A 7; A 0]
  | SAct SWaitWrite => L [A 0; A 8; A 0]
  | SAct SSockClose => L [A 0; A 9; A 0]
  | SAct SDesync => L [A 0; A 6; A 0]
  | SRes r => enc_res r
  end.

Definition is_wait (o : sobs) : bool :=
  match o with SAct SWaitRead | SAct SWaitWrite => true | _ => false end.

Definition run (x : sx) : sx :=
  match x with
  (* corpus witness recorded for one state of the close_notify-after-failed-unwrap fix *)
  | L (A 0 :: A std :: L ops :: L answers :: L _ :: A st :: _) =>
      if Bool.eqb (Z.eqb st 1) (f_close_flush tls_flags) then
        do ops' <- map_opt dec_op ops;
        do ans' <- map_opt dec_ans answers;
        let '(ob, rest) := run_ops tls_flags (Z.eqb std 1) ops' tstate0 ans' in
        L [L (map enc_obs ob); of_nat (length rest)]
      else L [A 777]
  | L (A 0 :: A std :: L ops :: L answers :: _) =>
      do ops' <- map_opt dec_op ops;
      do ans' <- map_opt dec_ans answers;
      let '(ob, rest) := run_ops tls_flags (Z.eqb std 1) ops' tstate0 ans' in
      L [L (map enc_obs ob); of_nat (length rest)]
  | L (A 1 :: A std :: L ops :: L answers :: A raw :: A log_waits :: _) =>
      do ops' <- map_opt dec_op ops;
      do ans' <- map_opt dec_sans answers;
      let '(ob, rest) := sync_ops (Z.eqb raw 1) (Z.eqb std 1) ops' {| s_closed := false |} ans' in
      let ob' := if Z.eqb log_waits 1 then ob else filter (fun o => negb (is_wait o)) ob in
      L [L (map enc_sobs ob'); of_nat (length rest)]
  (* the library's own default client path (ssl=True): first and last report + is the option still set afterwards *)
  | L (A 2 :: A std :: L ops :: L answers :: A which :: _) =>
      do ops' <- map_opt dec_op ops;
      do ans' <- map_opt dec_sans answers;
      let '(ob, rest) := sync_ops true (Z.eqb std 1) ops' {| s_closed := false |} ans' in
      let rs := filter (fun o => match o with SRes _ => true | _ => false end) ob in
      let reduce (o : sobs) := match o with
                               | SRes (Ret (S _)) => L [A 1; A 0; A 1]
                               | o' => enc_sobs o'
                               end in
      L [reduce (hd (SRes Desync) rs); reduce (last rs (SRes Desync));
         A (if nth (Z.to_nat which) client_default_ctx_clears_ignore_eof false then 0 else 1)]
  (* the same through the asynchronous client: full pump model, reduced to first / last report *)
  | L (A 4 :: A std :: L ops :: L answers :: A which :: _) =>
      do ops' <- map_opt dec_op ops;
      do ans' <- map_opt dec_ans answers;
      let '(ob, rest) := run_ops tls_flags (Z.eqb std 1) ops' tstate0 ans' in
      let rs := filter (fun o => match o with ORes _ => true | _ => false end) ob in
      let reduce (o : obs) := match o with
                              | ORes (Ret (S _)) => L [A 1; A 0; A 1]
                              | o' => enc_obs o'
                              end in
      L [reduce (hd (ORes Desync) rs); reduce (last rs (ORes Desync));
         A (if nth (Z.to_nat which) client_default_ctx_clears_ignore_eof false then 0 else 1)]
  (* recv() in one task while another task closes: the recorded multi-task trace of the pumped calls (recv, unwrap)
     through the pump model shared with C08; tagged with the state of the C08 fixes it was recorded in *)
  | L (A 5 :: A _ :: L labs :: L (B _ :: A flag :: _) :: _) =>
      if Z.eqb flag ((if f_recheck tls_flags then 1 else 0) + (if f_skiplock tls_flags then 2 else 0) + (if f_lazyread tls_flags then 4 else 0)) then
        match C08.run_trace labs with
        | L (acts :: results :: _) => L [acts; results]
        | other => other
        end
      else L [A 777]
  | L [A 3; A which] =>
      L [A (if nth (Z.to_nat which) client_default_ctx_clears_ignore_eof false then 0 else 1)]
  | _ => bad_input
  end.
