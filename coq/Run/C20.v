(* C20 entry point: replay a harness script on the FlowControl model.

   input  = L [A kind; cfg; A ntasks; L actions]
     kind 0  WriteFlowControl alone (pause/resume/lost/closing are script actions)         cfg = L []
     kind 1  AsyncioTransportStreamSocketAdapter.send_all                (write + drain)
     kind 2  AsyncioTransportStreamSocketAdapter.send_all_from_iterable  (writelines + drain)
     kind 3  DatagramEndpoint.sendto      kind 4  DatagramListenerSocketAdapter.send_to    (sendto + drain)
             cfg = L [A high_water; A low_water; A writelines_pauses]   (read from the real transport / interpreter)
     action kind 0 : L[A 0;A t] drain   L[A 1] pause   L[A 2] resume   L[A 3;A e] connection_lost(e)   L[A 4;A b] is_closing:=b
            kind>0 : L[A 0;A t;A n;A k] send n bytes, kernel takes k at once     L[A 1;A k] socket writable, kernel takes k
                     (datagram kinds: k datagrams)   L[A 3;A e] transport dies (connection_lost(e) follows)   L[A 4] close()
                     L[A 8] create a task running the adapter's aclose() (= transport.close() + wait for connection_lost,
                     shielded)   L[A 9] cancel that task (no effect on the senders: the wait is shielded)
            both   : L[A 5;A t] task.cancel()   L[A 6] one loop iteration   L[A 7] run until idle
   output = L snapshots, one per action 6/7: L [A buffer_size; A deque_length; A write_paused; L statuses]
     status 0 never ran, 1 pending, 10 returned, 11 CancelledError, 12 the connection's exception, 13 OSError(errno)

   Scheduling = asyncio's FIFO ready queue: a completed future schedules its done-callback then the task wake-up; a
   bare yield reschedules the task; a dead transport schedules connection_lost.                                      *)
From EN Require Import Lib.Bytes Lib.Sx Conc.FlowControl.

Inductive entry := EStart (t : tid) | EWake (t : tid) | ECb (f : fid) | ELost (e : bool) | EAclose.

Record rs := mkRs {
  r_kind : Z;
  r_a : ad;
  r_ready : list entry;
  r_pend : list (option (nat * nat));
  r_cs : list bool;
  r_res : list Z;
  r_bad : bool
}.

Definition set_a (a : ad) (rd : list entry) (r : rs) : rs := mkRs (r_kind r) a rd (r_pend r) (r_cs r) (r_res r) (r_bad r).
Definition set_bad (r : rs) : rs := mkRs (r_kind r) (r_a r) (r_ready r) (r_pend r) (r_cs r) (r_res r) true.

Definition code (d : dres) : Z := match d with ROk => 10 | RCancelled => 11 | RConnExc => 12 | RErrno => 13 end%Z.

Fixpoint record_obs (o : list wobs) (res : list Z) : list Z :=
  match o with
  | [] => res
  | ODrain t d :: o' => record_obs o' (upd t (code d) res)
  | OParked _ :: o' => record_obs o' res
  end.

(* futures of the deque that are pending, in deque order, with their task *)
Fixpoint find_parked (f : fid) (n : nat) (ts : list ttask) : option tid :=
  match ts with
  | [] => None
  | TParked g FPending :: r => if Nat.eqb f g then Some n else find_parked f (S n) r
  | _ :: r => find_parked f (S n) r
  end.

Definition pending_list (w : wfc) : list (fid * tid) :=
  flat_map (fun f => match find_parked f 0 (w_tasks w) with Some t => [(f, t)] | None => [] end) (w_deque w).

(* pending futures that are not pending any more (the task cannot have run in between) *)
Definition newly_done (before : list (fid * tid)) (w : wfc) : list entry :=
  flat_map (fun ft => match nth_error (w_tasks w) (snd ft) with
                      | Some (TParked g FPending) => if Nat.eqb g (fst ft) then [] else [ECb (fst ft); EWake (snd ft)]
                      | _ => [ECb (fst ft); EWake (snd ft)]
                      end) before.

(* futures cancelled outside the deque walk: a cancelled pending future that is in the deque is found by newly_done;
   nothing else to do *)

Definition yielded (t : tid) (a : ad) : list entry :=
  match get_task t (a_w a) with Some (TYield _) => [EWake t] | _ => [] end.

Definition apply_label (l : alabel) (extra : ad -> list entry) (r : rs) : rs :=
  let before := pending_list (a_w (r_a r)) in
  match ad_step (r_a r) l with
  | Some (a', o) =>
      mkRs (r_kind r) a' (r_ready r ++ newly_done before (a_w a') ++ extra a') (r_pend r) (r_cs r)
           (record_obs o (r_res r)) (r_bad r)
  | None => set_bad r
  end.

(* free protocol callbacks of kind 0 act on the WriteFlowControl part only *)
Definition apply_w (f : wfc -> wfc) (r : rs) : rs :=
  let before := pending_list (a_w (r_a r)) in
  let a' := with_w (f (a_w (r_a r))) (r_a r) in
  set_a a' (r_ready r ++ newly_done before (a_w a')) r.

Definition send_label (kind : Z) (t : tid) (n k : nat) : alabel :=
  match kind with
  | 1%Z => ASend t n k
  | 2%Z => ASendIter t n k
  | _ => ASendTo t n (0 <? k)
  end.

Definition close_now (r : rs) : rs :=
  if w_closing (a_w (r_a r)) then r
  else apply_label AClose (fun a' => if a_dead a' then [ELost false] else []) r.

(* the aclose() task: slot n (= number of sender tasks) of r_pend / r_cs: Some (0,0) created, Some (1,1) has run;
   r_cs: cancelled before its first step *)
Definition closer_slot (r : rs) : nat := pred (length (r_pend r)).

Definition proc1 (r : rs) : rs :=
  match r_ready r with
  | [] => r
  | e :: rd =>
      let r0 := mkRs (r_kind r) (r_a r) rd (r_pend r) (r_cs r) (r_res r) (r_bad r) in
      match e with
      | EStart t =>
          match nth t (r_pend r) None with
          | None => set_bad r0
          | Some (n, k) =>
              let r1 := mkRs (r_kind r) (r_a r) rd (upd t None (r_pend r)) (upd t false (r_cs r)) (r_res r) (r_bad r) in
              if nth t (r_cs r) false then
                mkRs (r_kind r1) (r_a r1) (r_ready r1) (r_pend r1) (r_cs r1) (upd t 11%Z (r_res r1)) (r_bad r1)
              else if Z.eqb (r_kind r) 0 then
                let before := pending_list (a_w (r_a r1)) in
                match wfc_step (a_w (r_a r1)) (WDrain t) with
                | Some (w', o) =>
                    let a' := with_w w' (r_a r1) in
                    mkRs (r_kind r1) a' (r_ready r1 ++ yielded t a') (r_pend r1) (r_cs r1) (record_obs o (r_res r1)) (r_bad r1)
                | None => set_bad r1
                end
              else apply_label (send_label (r_kind r) t n k) (yielded t) r1
          end
      | EWake t => apply_label (AWake t) (fun _ => []) r0
      | ECb f => apply_label (ACallback f) (fun _ => []) r0
      | ELost e =>
          match ad_step (r_a r0) (ALost e) with
          | Some _ => apply_label (ALost e) (fun _ => []) r0
          | None => r0
          end
      | EAclose =>
          let c := closer_slot r0 in
          let r1 := mkRs (r_kind r0) (r_a r0) (r_ready r0) (upd c (Some (1, 1)) (r_pend r0)) (r_cs r0) (r_res r0) (r_bad r0) in
          if nth c (r_cs r0) false then r1 else close_now r1
      end
  end.

Fixpoint proc_n (n : nat) (r : rs) : rs := match n with 0 => r | S k => proc_n k (proc1 r) end.

Fixpoint settle (fuel : nat) (r : rs) : rs :=
  match fuel with
  | 0 => set_bad r
  | S f => match r_ready r with [] => r | _ => settle f (proc_n (length (r_ready r)) r) end
  end.

Definition task_idle (t : tid) (r : rs) : bool :=
  match nth t (r_pend r) None, get_task t (a_w (r_a r)) with
  | None, Some TIdle => true
  | _, _ => false
  end.

Definition act_send (t n k : nat) (r : rs) : rs :=
  if task_idle t r then
    mkRs (r_kind r) (r_a r) (r_ready r ++ [EStart t]) (upd t (Some (n, k)) (r_pend r)) (r_cs r) (r_res r) (r_bad r)
  else r.

Definition act_cancel (t : tid) (r : rs) : rs :=
  match nth t (r_pend r) None with
  | Some _ => mkRs (r_kind r) (r_a r) (r_ready r) (r_pend r) (upd t true (r_cs r)) (r_res r) (r_bad r)
  | None =>
      match get_task t (a_w (r_a r)) with
      | Some (TYield _) | Some (TParked _ _) => apply_label (ACancel t) (fun _ => []) r
      | _ => r
      end
  end.

(* number of bytes of the first j buffered datagrams *)
Definition first_dgrams (j : nat) (b : list (tid * nat)) : nat := buf_size (firstn j b).

Definition act_ready (k : nat) (r : rs) : rs :=
  let b := a_buf (r_a r) in
  let bytes := if (Z.eqb (r_kind r) 3 || Z.eqb (r_kind r) 4)%bool then first_dgrams k b else Nat.min k (buf_size b) in
  match b with
  | [] => r
  | _ => if bytes =? 0 then r else apply_label (AReady bytes) (fun _ => []) r
  end.

Definition act_kill (e : bool) (r : rs) : rs :=
  if a_dead (r_a r) then r else apply_label AKill (fun _ => [ELost e]) r.

Definition act_close (r : rs) : rs := close_now r.

Definition act_aclose (r : rs) : rs :=
  let c := closer_slot r in
  match nth c (r_pend r) None with
  | None => mkRs (r_kind r) (r_a r) (r_ready r ++ [EAclose]) (upd c (Some (0, 0)) (r_pend r)) (r_cs r) (r_res r) (r_bad r)
  | Some _ => r
  end.

Definition act_cancel_aclose (r : rs) : rs :=
  let c := closer_slot r in
  match nth c (r_pend r) None with
  | Some (0, 0) => mkRs (r_kind r) (r_a r) (r_ready r) (r_pend r) (upd c true (r_cs r)) (r_res r) (r_bad r)
  | _ => r
  end.

Definition status (t : nat) (r : rs) : Z :=
  if task_idle t r then nth t (r_res r) 0%Z else 1%Z.

Definition snapshot (obs : bool) (n : nat) (r : rs) : sx :=
  L [of_nat (buf_size (a_buf (r_a r))); of_nat (if obs then length (w_deque (a_w (r_a r))) else 0); of_bool (w_paused (a_w (r_a r)));
     L (map (fun t => A (status t r)) (seq 0 n))].

Fixpoint replay (obs : bool) (fuel n : nat) (acts : list sx) (r : rs) (snaps : list sx) : rs * list sx :=
  match acts with
  | [] => (r, rev snaps)
  | a :: acts' =>
      let k0 := Z.eqb (r_kind r) 0 in
      match a with
      | L [A 0%Z; A t] => replay obs fuel n acts' (act_send (Z.to_nat t) 0 0 r) snaps
      | L [A 0%Z; A t; A m; A k] => replay obs fuel n acts' (act_send (Z.to_nat t) (Z.to_nat m) (Z.to_nat k) r) snaps
      | L [A 1%Z] => replay obs fuel n acts' (apply_w wfc_pause r) snaps
      | L [A 1%Z; A k] => replay obs fuel n acts' (act_ready (Z.to_nat k) r) snaps
      | L [A 2%Z] => replay obs fuel n acts' (apply_w wfc_resume r) snaps
      | L [A 3%Z; A e] =>
          if k0 then replay obs fuel n acts' (apply_w (wfc_lost (Z.eqb e 1)) r) snaps
          else replay obs fuel n acts' (act_kill (Z.eqb e 1) r) snaps
      | L [A 4%Z; A b] => replay obs fuel n acts' (apply_w (wfc_closing (Z.eqb b 1)) r) snaps
      | L [A 4%Z] => replay obs fuel n acts' (act_close r) snaps
      | L [A 5%Z; A t] => replay obs fuel n acts' (act_cancel (Z.to_nat t) r) snaps
      | L [A 8%Z] => replay obs fuel n acts' (act_aclose r) snaps
      | L [A 9%Z] => replay obs fuel n acts' (act_cancel_aclose r) snaps
      | L [A 6%Z] => let r' := proc_n (length (r_ready r)) r in replay obs fuel n acts' r' (snapshot obs n r' :: snaps)
      | L [A 7%Z] => let r' := settle fuel r in replay obs fuel n acts' r' (snapshot obs n r' :: snaps)
      | _ => (set_bad r, rev snaps)
      end
  end.

Definition run (i : sx) : sx :=
  match i with
  | L (A kind :: cfg :: A nt :: L acts :: rest) =>
      (* 5th field A 0: the waiter deque is not observable in this implementation (private attribute renamed): its
         length is reported as 0 on both sides *)
      let obs := match rest with A 0%Z :: _ => false | _ => true end in
      let n := Z.to_nat nt in
      let c := match cfg with
               | L [A h; A l; A wl] => mkCfg (Z.to_nat h) (Z.to_nat l) (Z.eqb wl 1)
               | _ => mkCfg 0 0 true
               end in
      let r0 := mkRs kind (ad_init c n) [] (repeat None (S n)) (repeat false (S n)) (repeat 0%Z n) false in
      let '(r, snaps) := replay obs (8 + 4 * length acts) n acts r0 [] in
      if r_bad r then bad_input else L snaps
  | _ => bad_input
  end.
