(* Decoding / encoding shared by Run/C04.v and Run/C11.v (no dependency on the generated parameter files). *)
From EN Require Import Lib.Bytes Lib.Sx IO.Retry IO.SendAll IO.SendMsg IO.Budget IO.SslMap IO.ClientLocks.
Open Scope Z_scope.

Definition as_tmo (x : sx) : option tmo := as_opt as_Z x.
Definition of_tmo (t : tmo) : sx := of_opt A t.
Definition of_wait (w : wait) : sx := L [of_bool (w_write w); of_tmo (w_req w)].

Definition as_selans (x : sx) : option selans :=
  match x with
  | L [A r; A e] => match as_bool (A r) with Some b => Some {| sa_ready := b; sa_el := e |} | None => None end
  | _ => None
  end.

(* one scripted answer of the socket / SSL object: kind 0 done (n bytes) | 1,2 BlockingIOError, InterruptedError,
   SSLWantWrite | 3 SSLWantRead | 4 SSLSyscallError | 5 ConnectionResetError, SSLZeroReturn; the mapping to
   WouldBlockOnWrite / WouldBlockOnRead / ECONNRESET is IO/SslMap.v (_try_ssl_method) *)
Definition as_sslans (x : sx) : option sslans :=
  match x with
  | L [A k; A n; A c] =>
      if k =? 0 then (if n <? 0 then None else Some (SslDone (Z.to_nat n) c))
      else if (k =? 1) || (k =? 2) then Some (SslWantWrite c)
      else if k =? 3 then Some (SslWantRead c)
      else if k =? 4 then Some (SslSyscall c)
      else if k =? 5 then Some (SslZeroReturn c)
      else None
  | _ => None
  end.

Definition as_sockans (x : sx) : option sockans := option_map ssl_send_answer (as_sslans x).

(* Some None = no lock layer *)
Definition as_lock (x : sx) : option (option lockans) :=
  match x with
  | A 0 => Some (Some LFree)
  | A (-1) => Some None
  | L [A a; A e] => match as_bool (A a) with Some b => Some (Some (LHeld b e)) | None => None end
  | _ => None
  end.

(* locks at the end of a call: send lock free, receive lock free (IO/ClientLocks.v: every lock acquired is released
   when the call ends), waits on the OTHER lock (none: a receive never touches the send lock and vice versa) *)
Definition locks_after : sx := L [A 1; A 1; L []].

Definition of_csres (r : sres) (lw : list tmo) : sx :=
  L [A (match sr_out r with SOk => 0 | SExc c => c | SFuel => 9 end); B (sk_wire (sr_sock r));
     L (map of_wait (sr_waits r)); A (sr_dt r); L (map of_tmo lw); locks_after].


(* TCPNetworkClient.send_packet(chunks, timeout=T) behind the send lock (or transport level when there is no lock layer) *)
Definition run_client_send_case (drop_empty : bool) (hs : bool) (iov : Z) (chunks : list bytes) (T ri : tmo)
           (lk : option lockans) (script : list sockans) (sels : list selans) : sx :=
  let F := fuel_bound chunks script in
  let s := mk_sock script [] in
  match lk with
  | Some l => let c := client_send drop_empty hs iov F F ri chunks T l s sels in of_csres (cs_sr c) (cs_lockwaits c)
  | None => of_csres (send_iter drop_empty hs iov F F ri chunks T s sels) []
  end.

(* lock discipline: a history of calls on one client, replayed by real threads (IO/ClientLocks.v) *)
Definition run_lock_history (labels : sx) (kind : Z) : sx :=

      do labels <- as_list_of (fun x =>
          match x with
          | L [A 0; A k; A m; T] =>
              match as_tmo T with
              | Some T => Some (Start (Z.to_nat k) (if m =? 0 then MSend else if m =? 1 then MRecv else MQuick) T)
              | None => None
              end
          | L [A 1; A k] => Some (Grant (Z.to_nat k))
          | L [A 2; A k] => Some (GiveUp (Z.to_nat k))
          | L [A 3; A k; A ok] => Some (Finish (Z.to_nat k) (negb (ok =? 0)))
          | _ => None
          end) labels;
      let '(sf, en) := run_labels cst0 labels in
      L [L (map of_bool en);
         L (map (fun c => L [of_nat (c_id c);
                             match c_ph c with
                             | PDone code => L [A 0; A (if kind =? 0 then convert_code code else code)]
                             | PHold => L [A 1]
                             | PWait _ => L [A 2]
                             end]) (cs sf));
         of_bool (is_none (o_send sf)); of_bool (is_none (o_recv sf))].
