(* C12 entry point: replay a harness script on the SendSerial model.

   input  = L [A kind; L progs; L actions]
     kind    0 FairLock + ResourceGuard driven directly      1/2 AsyncTCPNetworkClient (asyncio.Lock / FairLock)
             3 AsyncStreamEndpoint without any lock          4/5 server-side _ConnectedClientAPI (asyncio.Lock / FairLock)
             (1 and 4: Conc.AsyncioLock is the send lock; 3: no lock; otherwise Conc.FairLock)
     progs   one program per task: L [packet; ...], packet = L [B piece; ...]
     action  L [A 0; A t] create task t        L [A 1; A t] complete t's transport suspension
             L [A 2; A t] fail t's transport suspension        L [A 3; A t] task.cancel() on t
             L [A 4] run one event-loop iteration              L [A 5] run the loop until nothing is ready
   output = L [L snapshots; B wire]   snapshot (after each action 4/5) = L [A wire_length; L [A status_t ...]]
     status  0 not created, 1 pending outside the transport, 2 suspended inside the transport,
             10 returned, 11 cancelled, 12 BusyResourceError, 13 connection error

   Scheduling: asyncio's FIFO ready queue.  Creating a task, completing/failing/cancelling the future a task awaits
   and setting a lock waiter's event each append the task's wake-up to the queue (once); an iteration processes the
   entries present at its beginning.  A task whose cancellation was requested gets CancelledError at its await
   whatever woke it up.  Every processed entry is ONE label of Conc.SendSerial.                                  *)
From EN Require Import Lib.Bytes Lib.Sx Conc.FairLock Conc.AsyncioLock Conc.Guard Conc.SendSerial.

Record rs := mkRs {
  r_st : st;
  r_ready : list tid;
  r_created : list bool;
  r_cancel : list bool;
  r_outcome : list (option bool);
  r_bad : bool
}.

Definition in_ready (t : tid) (r : rs) : bool := mem_tid t (r_ready r).

Definition woken_tids (s : st) : list tid :=
  match s_lk s with
  | LNone => []
  | LFair => map w_tid (filter w_set (fl_waiters (s_lock s)))
  | LAsyncio => map aw_tid (filter is_woken (al_waiters (s_alock s)))
  end.

Definition enqueue_woken (s : st) (ready : list tid) : list tid :=
  fold_left (fun rd t => if negb (mem_tid t rd) then rd ++ [t] else rd) (woken_tids s) ready.

Definition label_for (t : tid) (r : rs) : option slabel :=
  match get_task t (r_st r) with
  | Some (TDone _) | None => None
  | Some ts =>
      if nth t (r_cancel r) false then Some (SCancel t)
      else match ts with
           | TNew _ => Some (SStart t)
           | TRun => None
           | TWait _ _ => Some (SResume t)
           | TSend _ _ => match nth t (r_outcome r) None with
                          | Some true => Some (SWrite t)
                          | Some false => Some (SFail t)
                          | None => None
                          end
           | TDone _ => None
           end
  end.

(* process the first ready entry *)
Definition proc1 (r : rs) : rs :=
  match r_ready r with
  | [] => r
  | t :: rd =>
      match label_for t r with
      | None => mkRs (r_st r) rd (r_created r) (r_cancel r) (r_outcome r) true
      | Some l =>
          match s_next (r_st r) l with
          | None => mkRs (r_st r) rd (r_created r) (r_cancel r) (r_outcome r) true
          | Some s' =>
              mkRs s' (enqueue_woken s' rd) (r_created r) (upd t false (r_cancel r)) (upd t None (r_outcome r)) (r_bad r)
          end
      end
  end.

Fixpoint proc_n (n : nat) (r : rs) : rs :=
  match n with 0 => r | S k => proc_n k (proc1 r) end.

Fixpoint settle (fuel : nat) (r : rs) : rs :=
  match fuel with
  | 0 => mkRs (r_st r) (r_ready r) (r_created r) (r_cancel r) (r_outcome r) true
  | S f => match r_ready r with [] => r | _ => settle f (proc_n (length (r_ready r)) r) end
  end.

Definition is_done (t : tid) (r : rs) : bool :=
  match get_task t (r_st r) with Some (TDone _) => true | _ => false end.
Definition is_sending (t : tid) (r : rs) : bool :=
  match get_task t (r_st r) with Some (TSend _ _) => true | _ => false end.

Definition push (t : tid) (r : rs) : list tid := if in_ready t r then r_ready r else r_ready r ++ [t].

Definition act_start (t : tid) (r : rs) : rs :=
  if nth t (r_created r) true then r
  else mkRs (r_st r) (push t r) (upd t true (r_created r)) (r_cancel r) (r_outcome r) (r_bad r).

Definition act_gate (ok : bool) (t : tid) (r : rs) : rs :=
  if is_sending t r && negb (nth t (r_cancel r) false)
     && match nth t (r_outcome r) None with None => true | Some _ => false end
  then mkRs (r_st r) (push t r) (r_created r) (r_cancel r) (upd t (Some ok) (r_outcome r)) (r_bad r)
  else r.

(* task.cancel(): the awaited future is cancelled at once when it is pending (asyncio.Lock looks at that: SFutCancel),
   the task is scheduled and will get CancelledError *)
Definition act_cancel (t : tid) (r : rs) : rs :=
  if nth t (r_created r) false && negb (is_done t r) && negb (nth t (r_cancel r) false)
  then let s1 := match s_next (r_st r) (SFutCancel t) with Some s' => s' | None => r_st r end in
       mkRs s1 (push t r) (r_created r) (upd t true (r_cancel r)) (r_outcome r) (r_bad r)
  else r.

Definition status (n : nat) (r : rs) (ts : tstate) : Z :=
  match ts with
  | TNew _ => if nth n (r_created r) false then 1 else 0
  | TWait _ _ => 1
  | TRun => 1
  | TSend _ _ => 2
  | TDone c => c
  end%Z.

Fixpoint statuses (n : nat) (r : rs) (ts : list tstate) : list sx :=
  match ts with [] => [] | x :: ts' => A (status n r x) :: statuses (S n) r ts' end.

Definition snapshot (r : rs) : sx :=
  L [of_nat (length (s_wire (r_st r))); L (statuses 0 r (s_tasks (r_st r)))].

Fixpoint replay (fuel : nat) (acts : list sx) (r : rs) (snaps : list sx) : rs * list sx :=
  match acts with
  | [] => (r, rev snaps)
  | a :: acts' =>
      match a with
      | L [A 0%Z; A t] => replay fuel acts' (act_start (Z.to_nat t) r) snaps
      | L [A 1%Z; A t] => replay fuel acts' (act_gate true (Z.to_nat t) r) snaps
      | L [A 2%Z; A t] => replay fuel acts' (act_gate false (Z.to_nat t) r) snaps
      | L [A 3%Z; A t] => replay fuel acts' (act_cancel (Z.to_nat t) r) snaps
      | L [A 4%Z] => let r' := proc_n (length (r_ready r)) r in replay fuel acts' r' (snapshot r' :: snaps)
      | L [A 5%Z] => let r' := settle fuel r in replay fuel acts' r' (snapshot r' :: snaps)
      | _ => (mkRs (r_st r) (r_ready r) (r_created r) (r_cancel r) (r_outcome r) true, rev snaps)
      end
  end.

(* ------------------------------------------------------------------------------------------------------------
   kinds 6/7: AsyncTLSStreamTransport.send_all under concurrent senders (Conc.TlsSend); same script language; a task
   program is a list of packets, a packet the list of its chunks (one chunk: send_all, else send_all_from_iterable);
   4th input field = L [A t ...]: the tasks that call recv() instead (they flush pending ciphertext, then wait for data).  output = L [L snapshots; L [B plaintext carried by each transport.send_all call]],
   snapshot = L [A number_of_transport_calls; L statuses] (status 2 = suspended in the underlying transport.send_all) *)
From EN Require Import Conc.TlsSend.

Record xs := mkXs {
  q_st : tls; q_ready : list tid; q_created : list bool; q_cancel : list bool; q_outcome : list (option bool); q_bad : bool
}.

Definition x_enqueue_woken (s : tls) (ready : list tid) : list tid :=
  fold_left (fun rd w => if w_set w && negb (mem_tid (w_tid w) rd) then rd ++ [w_tid w] else rd)
            (fl_waiters (x_lock s)) ready.

Definition x_label_for (t : tid) (r : xs) : option xlabel :=
  match nth_error (x_tasks (q_st r)) t with
  | Some (XDone _) | None | Some XRun => None
  | Some ts =>
      if nth t (q_cancel r) false then Some (TCancel t)
      else match ts with
           | XNew _ => Some (TStart t)
           | XWait _ | XRdWait => Some (TResume t)
           | XFlush _ => match nth t (q_outcome r) None with
                         | Some true => Some (TWrite t)
                         | Some false => Some (TFail t)
                         | None => None
                         end
           | XRdFlush => match nth t (q_outcome r) None with
                         | Some true => Some (TWrite t)
                         | _ => None
                         end
           | _ => None
           end
  end.

Definition x_proc1 (r : xs) : xs :=
  match q_ready r with
  | [] => r
  | t :: rd =>
      match x_label_for t r with
      | None => mkXs (q_st r) rd (q_created r) (q_cancel r) (q_outcome r) true
      | Some l =>
          match x_next (q_st r) l with
          | None => mkXs (q_st r) rd (q_created r) (q_cancel r) (q_outcome r) true
          | Some s' => mkXs s' (x_enqueue_woken s' rd) (q_created r) (upd t false (q_cancel r)) (upd t None (q_outcome r)) (q_bad r)
          end
      end
  end.

Fixpoint x_proc_n (n : nat) (r : xs) : xs := match n with 0 => r | S k => x_proc_n k (x_proc1 r) end.

Fixpoint x_settle (fuel : nat) (r : xs) : xs :=
  match fuel with
  | 0 => mkXs (q_st r) (q_ready r) (q_created r) (q_cancel r) (q_outcome r) true
  | S f => match q_ready r with [] => r | _ => x_settle f (x_proc_n (length (q_ready r)) r) end
  end.

Definition x_push (t : tid) (r : xs) : list tid := if mem_tid t (q_ready r) then q_ready r else q_ready r ++ [t].
Definition x_is_done (t : tid) (r : xs) : bool :=
  match nth_error (x_tasks (q_st r)) t with Some (XDone _) => true | _ => false end.
Definition x_is_flushing (t : tid) (r : xs) : bool :=
  match nth_error (x_tasks (q_st r)) t with Some (XFlush _) | Some XRdFlush => true | _ => false end.

Definition x_act_start (t : tid) (r : xs) : xs :=
  if nth t (q_created r) true then r
  else mkXs (q_st r) (x_push t r) (upd t true (q_created r)) (q_cancel r) (q_outcome r) (q_bad r).
Definition x_act_gate (ok : bool) (t : tid) (r : xs) : xs :=
  if x_is_flushing t r && negb (nth t (q_cancel r) false)
     && match nth t (q_outcome r) None with None => true | Some _ => false end
  then mkXs (q_st r) (x_push t r) (q_created r) (q_cancel r) (upd t (Some ok) (q_outcome r)) (q_bad r)
  else r.
Definition x_act_cancel (t : tid) (r : xs) : xs :=
  if nth t (q_created r) false && negb (x_is_done t r) && negb (nth t (q_cancel r) false)
  then mkXs (q_st r) (x_push t r) (q_created r) (upd t true (q_cancel r)) (q_outcome r) (q_bad r)
  else r.

Definition x_status (n : nat) (r : xs) (ts : xstate) : Z :=
  match ts with
  | XNew _ => if nth n (q_created r) false then 1 else 0
  | XRun => 1
  | XWait _ | XRdWait | XRecv => 1
  | XFlush _ | XRdFlush => 2
  | XDone c => c
  end%Z.
Fixpoint x_statuses (n : nat) (r : xs) (ts : list xstate) : list sx :=
  match ts with [] => [] | x :: ts' => A (x_status n r x) :: x_statuses (S n) r ts' end.
Definition x_snapshot (r : xs) : sx :=
  L [of_nat (length (x_calls (q_st r))); L (x_statuses 0 r (x_tasks (q_st r)))].

Fixpoint x_replay (fuel : nat) (acts : list sx) (r : xs) (snaps : list sx) : xs * list sx :=
  match acts with
  | [] => (r, rev snaps)
  | a :: acts' =>
      match a with
      | L [A 0%Z; A t] => x_replay fuel acts' (x_act_start (Z.to_nat t) r) snaps
      | L [A 1%Z; A t] => x_replay fuel acts' (x_act_gate true (Z.to_nat t) r) snaps
      | L [A 2%Z; A t] => x_replay fuel acts' (x_act_gate false (Z.to_nat t) r) snaps
      | L [A 3%Z; A t] => x_replay fuel acts' (x_act_cancel (Z.to_nat t) r) snaps
      | L [A 4%Z] => let r' := x_proc_n (length (q_ready r)) r in x_replay fuel acts' r' (x_snapshot r' :: snaps)
      | L [A 5%Z] => let r' := x_settle fuel r in x_replay fuel acts' r' (x_snapshot r' :: snaps)
      | _ => (mkXs (q_st r) (q_ready r) (q_created r) (q_cancel r) (q_outcome r) true, rev snaps)
      end
  end.

(* the payload of a transport call reaches the peer in two halves, the second one when the call returns: the plaintext of
   the call in flight (the newest one, if a task is suspended in the transport) is not decoded yet *)
Definition in_flight (s : tls) : bool :=
  existsb (fun x => match x with XFlush _ | XRdFlush => true | _ => false end) (x_tasks s).
Definition decoded_calls (s : tls) : list bytes :=
  match x_calls s with
  | c :: r => rev ((if in_flight s then [] else c) :: r)
  | [] => []
  end.

Definition run_tls (pr : sx) (rd : sx) (acts : list sx) : sx :=
  do readers <- as_list_of as_nat rd;
  do progs <- as_list_of (as_list_of (as_list_of as_bytes)) pr;
  let n := length progs in
  let fuel := fold_right (fun p k => 3 * S (length p) + k) 8 progs in
  let r0 := mkXs (tls_init progs readers) [] (repeat false n) (repeat false n) (repeat None n) false in
  let '(r, snaps) := x_replay fuel acts r0 [] in
  if q_bad r || x_crashed (q_st r) then bad_input
  else L [L snaps; L (map B (decoded_calls (q_st r)))].

(* ------------------------------------------------------------------------------------------------------------
   kinds 8/9: blocking TCPNetworkClient / UDPNetworkClient with real threads.  Which waiting thread gets
   threading.Lock next is the operating system's choice, so only schedule-independent observables are compared: once
   every send has been allowed to finish, the peer has received exactly the packets of the started threads, whole (the
   harness parses the stream / collects the datagrams and sorts them).  output = L [L sorted packets; L statuses] *)
Fixpoint bytes_leb (a b : bytes) : bool :=
  match a, b with
  | [], _ => true
  | _ :: _, [] => false
  | x :: a', y :: b' => if N.ltb x y then true else if N.ltb y x then false else bytes_leb a' b'
  end.
Fixpoint insert_sorted (x : bytes) (l : list bytes) : list bytes :=
  match l with
  | [] => [x]
  | y :: r => if bytes_leb x y then x :: l else y :: insert_sorted x r
  end.
Definition sort_bytes (l : list bytes) : list bytes := fold_right insert_sorted [] l.

(* script: L[A 0;A t] start thread t; L[A 6;A t;A c] start thread t whose send_packet uses timeout 0 (c=0), a short positive one (c=1, also
   L[A 6;A t]) math.inf (c=2) or a generous finite one (c=3): both behave like no timeout; with c=0/1 it fails with
   TimeoutError iff the lock is held when it starts, i.e. iff some started thread still has a send call to make:
   a thread inside send is parked until released); L[A 1;_] release whichever thread is parked inside socket.send.
   pending = number of socket send calls the started threads still have to make. *)
Definition gates_of (kind : Z) (prog : list packet) : nat :=
  if Z.eqb kind 9 then length prog else fold_right (fun p n => length p + n) 0 prog.

Fixpoint thr_replay (kind : Z) (progs : list (list packet)) (acts : list sx) (pending : nat) (st : list (option bool))
  : list (option bool) :=
  match acts with
  | [] => st
  | L [A 0%Z; A t] :: r =>
      let t := Z.to_nat t in
      match nth t st None with
      | None => thr_replay kind progs r (pending + gates_of kind (nth t progs [])) (upd t (Some true) st)
      | Some _ => thr_replay kind progs r pending st
      end
  | L [A 6%Z; A t; A 2%Z] :: r | L [A 6%Z; A t; A 3%Z] :: r =>
      (* timeout = math.inf, or finite but generous (never expires: the holder is released by the script while the caller
         waits): the waiter is granted like an untimed one and releases the lock at the end of its body *)
      let t := Z.to_nat t in
      match nth t st None with
      | None => thr_replay kind progs r (pending + gates_of kind (nth t progs [])) (upd t (Some true) st)
      | Some _ => thr_replay kind progs r pending st
      end
  | L (A 6%Z :: A t :: _) :: r =>     (* timeout 0 or a short positive one: TimeoutError iff the lock is held *)
      let t := Z.to_nat t in
      match nth t st None with
      | None => if 0 <? pending then thr_replay kind progs r pending (upd t (Some false) st)
                else thr_replay kind progs r (pending + gates_of kind (nth t progs [])) (upd t (Some true) st)
      | Some _ => thr_replay kind progs r pending st
      end
  | L [A 1%Z; _] :: r => thr_replay kind progs r (pred pending) st
  | _ :: r => thr_replay kind progs r pending st
  end.

Definition run_threads (kind : Z) (progs : list (list packet)) (acts : list sx) : sx :=
  let st := thr_replay kind progs acts 0 (repeat None (length progs)) in
  let pk := flat_map (fun x => match fst x with Some true => map pkt_bytes (snd x) | _ => [] end) (combine st progs) in
  L [L (map B (sort_bytes pk));
     L (map (fun o : option bool => A (match o with Some true => 10 | Some false => 13 | None => 0 end)%Z) st)].

Definition as_packet (x : sx) : option packet := as_list_of as_bytes x.
Definition as_prog (x : sx) : option (list packet) := as_list_of as_packet x.

Definition prog_size (pr : list packet) : nat := fold_right (fun p n => S (S (length p)) + n) 2 pr.

Definition run (i : sx) : sx :=
  match i with
  | L (A 6%Z :: pr :: L acts :: rd :: _) | L (A 7%Z :: pr :: L acts :: rd :: _) => run_tls pr rd acts
  | L (A 8%Z :: pr :: L acts :: _) => do progs <- as_list_of as_prog pr; run_threads 8 progs acts
  | L (A 9%Z :: pr :: L acts :: _) => do progs <- as_list_of as_prog pr; run_threads 9 progs acts
  | L (A kind :: pr :: L acts :: _) =>
      do progs <- as_list_of as_prog pr;
      let n := length progs in
      let fuel := fold_right (fun p k => prog_size p + k) 8 progs in
      let lk := if Z.eqb kind 3 then LNone else if (Z.eqb kind 1 || Z.eqb kind 4)%bool then LAsyncio else LFair in
      let r0 := mkRs (st_init lk progs) [] (repeat false n) (repeat false n) (repeat None n) false in
      let '(r, snaps) := replay fuel acts r0 [] in
      if r_bad r || s_crashed (r_st r) then bad_input
      else L [L snaps; B (s_wire (r_st r))]
  | _ => bad_input
  end.
