(* C12 entry point: replay a harness script on the SendSerial model.

   input  = L [A kind; L progs; L actions]
     kind    0 FairLock + ResourceGuard driven directly      1/2 AsyncTCPNetworkClient (asyncio.Lock / FairLock)
             3 AsyncStreamEndpoint without any lock          4/5 server-side _ConnectedClientAPI (asyncio.Lock / FairLock)
             (the model is the same for all but 3, where no lock is taken)
     progs   one program per task: L [packet; ...], packet = L [B piece; ...]
     action  L [A 0; A t] create task t        L [A 1; A t] complete t's transport suspension
             L [A 2; A t] fail t's transport suspension        L [A 3; A t] task.cancel() on t
             L [A 4] run one event-loop iteration              L [A 5] run the loop until nothing is ready
   output = L [L snapshots; B wire]   snapshot (after each action 4/5) = L [A wire_length; L [A status_t ...]]
     status  0 not created, 1 pending outside the transport, 2 suspended inside the transport,
             10 returned, 11 cancelled, 12 BusyResourceError, 13 connection error

   Scheduling: asyncio's FIFO ready queue.  Creating a task, completing/failing/cancelling the future a task awaits
   and setting a lock waiter's event each append the task's wake-up to the queue (once); an iteration processes the
   entries present at its beginning.  A task whose cancellation was requested gets CancelledError at its await
   whatever woke it up.  Every processed entry is ONE label of Conc.SendSerial.                                  *)
From EN Require Import Lib.Bytes Lib.Sx Conc.FairLock Conc.Guard Conc.SendSerial.

Record rs := mkRs {
  r_st : st;
  r_ready : list tid;
  r_created : list bool;
  r_cancel : list bool;
  r_outcome : list (option bool);
  r_bad : bool
}.

Definition in_ready (t : tid) (r : rs) : bool := mem_tid t (r_ready r).

Definition enqueue_woken (s : st) (ready : list tid) : list tid :=
  fold_left (fun rd w => if w_set w && negb (mem_tid (w_tid w) rd) then rd ++ [w_tid w] else rd)
            (fl_waiters (s_lock s)) ready.

Definition label_for (t : tid) (r : rs) : option slabel :=
  match get_task t (r_st r) with
  | Some (TDone _) | None => None
  | Some ts =>
      if nth t (r_cancel r) false then Some (SCancel t)
      else match ts with
           | TNew _ => Some (SStart t)
           | TRun => None
           | TWait _ _ => Some (SResume t)
           | TSend _ _ => match nth t (r_outcome r) None with
                          | Some true => Some (SWrite t)
                          | Some false => Some (SFail t)
                          | None => None
                          end
           | TDone _ => None
           end
  end.

(* process the first ready entry *)
Definition proc1 (r : rs) : rs :=
  match r_ready r with
  | [] => r
  | t :: rd =>
      match label_for t r with
      | None => mkRs (r_st r) rd (r_created r) (r_cancel r) (r_outcome r) true
      | Some l =>
          match s_next (r_st r) l with
          | None => mkRs (r_st r) rd (r_created r) (r_cancel r) (r_outcome r) true
          | Some s' =>
              mkRs s' (enqueue_woken s' rd) (r_created r) (upd t false (r_cancel r)) (upd t None (r_outcome r)) (r_bad r)
          end
      end
  end.

Fixpoint proc_n (n : nat) (r : rs) : rs :=
  match n with 0 => r | S k => proc_n k (proc1 r) end.

Fixpoint settle (fuel : nat) (r : rs) : rs :=
  match fuel with
  | 0 => mkRs (r_st r) (r_ready r) (r_created r) (r_cancel r) (r_outcome r) true
  | S f => match r_ready r with [] => r | _ => settle f (proc_n (length (r_ready r)) r) end
  end.

Definition is_done (t : tid) (r : rs) : bool :=
  match get_task t (r_st r) with Some (TDone _) => true | _ => false end.
Definition is_sending (t : tid) (r : rs) : bool :=
  match get_task t (r_st r) with Some (TSend _ _) => true | _ => false end.

Definition push (t : tid) (r : rs) : list tid := if in_ready t r then r_ready r else r_ready r ++ [t].

Definition act_start (t : tid) (r : rs) : rs :=
  if nth t (r_created r) true then r
  else mkRs (r_st r) (push t r) (upd t true (r_created r)) (r_cancel r) (r_outcome r) (r_bad r).

Definition act_gate (ok : bool) (t : tid) (r : rs) : rs :=
  if is_sending t r && negb (nth t (r_cancel r) false)
     && match nth t (r_outcome r) None with None => true | Some _ => false end
  then mkRs (r_st r) (push t r) (r_created r) (r_cancel r) (upd t (Some ok) (r_outcome r)) (r_bad r)
  else r.

Definition act_cancel (t : tid) (r : rs) : rs :=
  if nth t (r_created r) false && negb (is_done t r) && negb (nth t (r_cancel r) false)
  then mkRs (r_st r) (push t r) (r_created r) (upd t true (r_cancel r)) (r_outcome r) (r_bad r)
  else r.

Definition status (n : nat) (r : rs) (ts : tstate) : Z :=
  match ts with
  | TNew _ => if nth n (r_created r) false then 1 else 0
  | TWait _ _ => 1
  | TRun => 1
  | TSend _ _ => 2
  | TDone c => c
  end%Z.

Fixpoint statuses (n : nat) (r : rs) (ts : list tstate) : list sx :=
  match ts with [] => [] | x :: ts' => A (status n r x) :: statuses (S n) r ts' end.

Definition snapshot (r : rs) : sx :=
  L [of_nat (length (s_wire (r_st r))); L (statuses 0 r (s_tasks (r_st r)))].

Fixpoint replay (fuel : nat) (acts : list sx) (r : rs) (snaps : list sx) : rs * list sx :=
  match acts with
  | [] => (r, rev snaps)
  | a :: acts' =>
      match a with
      | L [A 0%Z; A t] => replay fuel acts' (act_start (Z.to_nat t) r) snaps
      | L [A 1%Z; A t] => replay fuel acts' (act_gate true (Z.to_nat t) r) snaps
      | L [A 2%Z; A t] => replay fuel acts' (act_gate false (Z.to_nat t) r) snaps
      | L [A 3%Z; A t] => replay fuel acts' (act_cancel (Z.to_nat t) r) snaps
      | L [A 4%Z] => let r' := proc_n (length (r_ready r)) r in replay fuel acts' r' (snapshot r' :: snaps)
      | L [A 5%Z] => let r' := settle fuel r in replay fuel acts' r' (snapshot r' :: snaps)
      | _ => (mkRs (r_st r) (r_ready r) (r_created r) (r_cancel r) (r_outcome r) true, rev snaps)
      end
  end.

Definition as_packet (x : sx) : option packet := as_list_of as_bytes x.
Definition as_prog (x : sx) : option (list packet) := as_list_of as_packet x.

Definition prog_size (pr : list packet) : nat := fold_right (fun p n => S (S (length p)) + n) 2 pr.

Definition run (i : sx) : sx :=
  match i with
  | L (A kind :: pr :: L acts :: _) =>
      do progs <- as_list_of as_prog pr;
      let n := length progs in
      let fuel := fold_right (fun p k => prog_size p + k) 8 progs in
      let r0 := mkRs (st_init (negb (Z.eqb kind 3)) progs) [] (repeat false n) (repeat false n) (repeat None n) false in
      let '(r, snaps) := replay fuel acts r0 [] in
      if r_bad r || s_crashed (r_st r) then bad_input
      else L [L snaps; B (s_wire (r_st r))]
  | _ => bad_input
  end.
