(* Receive loops of the stream endpoints.

   Transcribes  lowlevel/api_sync/endpoints/stream.py  _DataReceiverImpl.receive / _BufferedReceiverImpl.receive  and
                lowlevel/api_async/endpoints/stream.py _DataReceiverImpl.receive / _BufferedReceiverImpl.receive
   over the consumer models of Stream/Consumer.v, plus clients/_iter.py (ClientRecvIterator / AsyncClientRecvIterator)
   and the clients' error conversion (clients/tcp.py, clients/async_tcp.py  __convert_socket_error).

   The transport is an oracle: a time line of what the peer/kernel does.
     TData chunk dt   [chunk] bytes become available; the transport call that first touches them takes [dt] ticks.
                      A call offering less room than [length chunk] takes a prefix and leaves the rest (dt := 0).
                      An empty chunk is what the code tests for: `if not chunk` = end of stream.
     TEof             recv returns b"" / recv_into returns 0
     TWouldTimeout    a silence longer than any finite timeout: a call with a finite timeout raises TimeoutError
                      (asynchronous flavour: the caller's timeout scope cancels the call); a call without timeout
                      waits through it.
     TRaise k         the transport call raises an OSError of kind k (0 ConnectionError family, 1 closed-socket errno,
                      2 unrelated OSError)
   An exhausted oracle answers end-of-stream.  No proofs here. *)
From EN Require Import Lib.Bytes Frame.Framer Stream.Consumer.

Inductive titem := TData (chunk : bytes) (dt : nat) | TEof | TWouldTimeout | TRaise (k : nat).
Definition oracle := list titem.

(* outcome of one recv_packet call *)
Inductive rres (P : Type) :=
| RecvPkt (p : P)          (* returned a packet *)
| RecvErr (e : err)        (* StreamProtocolParseError *)
| RecvAborted              (* ConnectionAbortedError (end-of-stream) *)
| RecvTimeout              (* TimeoutError *)
| RecvRaised (k : nat)     (* OSError of kind k out of the transport *)
| RecvClosed               (* ClientClosedError (clients only: converted closed-socket errno) *)
| RecvCrash.               (* RuntimeError out of the consumer *)
Arguments RecvPkt {P}. Arguments RecvErr {P}. Arguments RecvAborted {P}. Arguments RecvTimeout {P}.
Arguments RecvRaised {P}. Arguments RecvClosed {P}. Arguments RecvCrash {P}.

Definition of_nres {P} (r : nres P) : rres P :=
  match r with RPkt p => RecvPkt p | RErr e => RecvErr e | RStop => RecvCrash | RCrash => RecvCrash end.

Definition item_size (i : titem) : nat := match i with TData ch _ => S (length ch) | _ => 1 end.
Definition oracle_size (o : oracle) : nat := fold_right (fun i n => item_size i + n) 0 o.

(* What both receiver implementations need from their consumer:
     mdrain c       = consumer.next(None)
     mtake c avail  = one transport read while [avail] (non-empty) is available:
                        copying : chunk = transport.recv(bufsize) ; consumer.next(chunk)
                        buffered: n = transport.recv_into(consumer.get_write_buffer()) ; consumer.next(n)
                      Some (state, result of next, bytes taken, room offered) ; None = get_write_buffer() raised *)
Record machine (P C : Type) := {
  mdrain : C -> C * nres P;
  mtake : C -> bytes -> option (C * nres P * nat * nat)
}.
Arguments mdrain {P C}. Arguments mtake {P C}.

Inductive emode := Blocking | Async.

Section Loop.
  Context {P C : Type}.
  Variable M : machine P C.
  Variable mode : emode.

  Record lstate := { lc : C; leof : bool }.   (* consumer, _eof_reached *)

  (* the `while not self._eof_reached` loop; timeout None = math.inf / no timeout scope; [el] = ticks spent in
     transport calls so far.  Result: consumer, _eof_reached, rest of the oracle, outcome, elapsed. *)
  Fixpoint rloop (fuel : nat) (t : option nat) (c : C) (o : oracle) (el : nat) : C * bool * oracle * rres P * nat :=
    match fuel with
    | 0 => (c, false, o, RecvCrash, el)
    | S f =>
        match o with
        | [] => (c, true, [], RecvAborted, el)
        | TEof :: o' => (c, true, o', RecvAborted, el)
        | TRaise k :: o' => (c, false, o', RecvRaised k, el)
        | TWouldTimeout :: o' =>
            match t with
            | None => rloop f t c o' el
            | Some tmo => (c, false, o', RecvTimeout, el + tmo)
            end
        | TData [] dt :: o' => (c, true, o', RecvAborted, el + dt)
        | TData ch dt :: o' =>
            match mtake M c ch with
            | None => (c, false, o, RecvCrash, el)
            | Some (c', r, n, room) =>
                let o'' := if Nat.ltb n (length ch) then TData (skipn n ch) 0 :: o' else o' in
                let el' := el + dt in
                match r with
                | RStop =>
                    match mode, t with
                    | Async, _ => rloop f t c' o'' el'
                    | Blocking, None => rloop f t c' o'' el'
                    | Blocking, Some tmo =>
                        if Nat.ltb 0 tmo then rloop f (Some (tmo - dt)) c' o'' el'      (* recompute_timeout *)
                        else if Nat.ltb n room then (c', false, o'', RecvTimeout, el') (* short read: break *)
                        else rloop f t c' o'' el'
                    end
                | _ => (c', false, o'', of_nres r, el')
                end
            end
        end
    end.

  (* receiver.receive(timeout): the consumer is drained before the transport or the latch is looked at *)
  Definition receive (t : option nat) (st : lstate) (o : oracle) : lstate * oracle * rres P * nat :=
    match mdrain M (lc st) with
    | (c', RStop) =>
        if leof st then ({| lc := c'; leof := true |}, o, RecvAborted, 0)
        else
          let '(c'', eof', o', r, el) := rloop (S (oracle_size o)) t c' o 0 in
          ({| lc := c''; leof := eof' |}, o', r, el)
    | (c', r) => ({| lc := c'; leof := leof st |}, o, of_nres r, 0)
    end.

  (* a history of recv_packet calls; each result is paired with the oracle left after the call *)
  Fixpoint run_calls (st : lstate) (o : oracle) (ts : list (option nat)) : list (rres P * oracle) * lstate * oracle :=
    match ts with
    | [] => ([], st, o)
    | t :: ts' =>
        let '(st', o', r, _) := receive t st o in
        let '(rs, st'', o'') := run_calls st' o' ts' in
        ((r, o') :: rs, st'', o'')
    end.

  (* ClientRecvIterator.__next__ / AsyncClientRecvIterator.__anext__ called up to [n] times: an OSError (timeout,
     abort, transport error) ends the iteration; a parse error propagates and leaves the budget untouched; after a
     packet the budget is recomputed with the time the call took. *)
  Fixpoint iter_next (n : nat) (t : option nat) (st : lstate) (o : oracle) : list (rres P * oracle) * lstate * oracle :=
    match n with
    | 0 => ([], st, o)
    | S n' =>
        let '(st', o', r, el) := receive t st o in
        match r with
        | RecvPkt _ =>
            let '(rs, st'', o'') := iter_next n' (option_map (fun tmo => tmo - el) t) st' o' in ((r, o') :: rs, st'', o'')
        | RecvErr _ =>
            let '(rs, st'', o'') := iter_next n' t st' o' in ((r, o') :: rs, st'', o'')
        | _ => ([(r, o')], st', o')
        end
    end.
End Loop.
Arguments lc {C}. Arguments leof {C}.

(* TCPNetworkClient / AsyncTCPNetworkClient.__convert_socket_error applied to the endpoint's outcome:
   ConnectionError -> ECONNABORTED ; errno in CLOSED_SOCKET_ERRNOS -> ClientClosedError ; others unchanged *)
Definition client_convert {P} (r : rres P) : rres P :=
  match r with
  | RecvRaised 0 => RecvAborted
  | RecvRaised 1 => RecvClosed
  | _ => r
  end.

Section Machines.
  Context {P : Type}.

  (* _DataReceiverImpl over StreamDataConsumer *)
  Definition copy_machine (F : framer P) (bufsize : nat) : machine P (cstate F) :=
    {| mdrain := fun c => cnext F c None;
       mtake := fun c avail =>
         let n := Nat.min bufsize (length avail) in
         let '(c', r) := cnext F c (Some (firstn n avail)) in
         Some (c', r, n, bufsize) |}.

  (* _BufferedReceiverImpl over BufferedStreamDataConsumer(protocol, max_recv_size) *)
  Definition buf_machine (F : bframer P) (sizehint : nat) : machine P (bcstate F) :=
    {| mdrain := fun c => bcnext F sizehint c None;
       mtake := fun c avail =>
         let '(c1, v) := bc_get_write_buffer F sizehint c in
         match v with
         | None => None
         | Some (_, len) =>
             let d := firstn len avail in
             let c2 := bc_fill F c1 d in
             let '(c3, r) := bcnext F sizehint c2 (Some (length d)) in
             Some (c3, r, length d, len)
         end |}.
End Machines.

Definition linit {C} (c : C) : lstate := {| lc := c; leof := false |}.
