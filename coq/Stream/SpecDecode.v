(* The abstract specification of stream decoding for separator framing: frame-by-frame splitting at the first
   separator occurrence.  No chunks, no buffers, no offsets. *)
From EN Require Import Lib.Bytes Frame.Framer Stream.Consumer.

Section Spec.
  Context {P : Type}.
  Variable sep : bytes.
  Variable keep_end : bool.
  Variable dec : decoder P.

  Definition frame_event (s : bytes) (p : nat) : nres P :=
    match dec (firstn (if keep_end then p + length sep else p) s) with
    | Some x => RPkt x
    | None => RErr EDecode
    end.

  Fixpoint spec_fuel (f : nat) (s : bytes) : list (nres P) * bytes :=
    match f with
    | 0 => ([], s)
    | S f' =>
        match find0 sep s with
        | None => ([], s)
        | Some p =>
            let '(evs, r) := spec_fuel f' (skipn (p + length sep) s) in
            (frame_event s p :: evs, r)
        end
    end.

  (* events delivered for the byte stream s, and the undelivered tail (an incomplete frame) *)
  Definition spec_events (s : bytes) : list (nres P) * bytes := spec_fuel (length s) s.

  (* every frame is within the limit: payloads <= limit, and the unterminated tail cannot trigger an overrun *)
  Inductive safe (limit : nat) : bytes -> Prop :=
  | safe_end s : find0 sep s = None -> length s + 1 - length sep <= limit -> safe limit s
  | safe_frame s p : find0 sep s = Some p -> p <= limit -> safe limit (skipn (p + length sep) s) -> safe limit s.
End Spec.

(* fixed-size framing: the stream is a sequence of [size]-byte records *)
Section SpecFixed.
  Context {P : Type}.
  Variable size : nat.
  Variable dec : decoder P.

  Definition record_event (r : bytes) : nres P :=
    match dec r with Some x => RPkt x | None => RErr EDecode end.

  Fixpoint fx_fuel (f : nat) (s : bytes) : list (nres P) * bytes :=
    match f with
    | 0 => ([], s)
    | S f' =>
        if Nat.ltb (length s) size then ([], s)
        else let '(evs, r) := fx_fuel f' (skipn size s) in (record_event (firstn size s) :: evs, r)
    end.

  Definition fx_events (s : bytes) : list (nres P) * bytes := fx_fuel (length s) s.
End SpecFixed.
