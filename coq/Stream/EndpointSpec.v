(* Specification vocabulary for C03 (definitions only, no proofs): the interface a consumer has to satisfy, the
   peer's stream read off the transport oracle, and the expected sequence of results. *)
From EN Require Import Lib.Bytes Frame.Framer Stream.Consumer Stream.Endpoint.

(* ------------------------------------------------------------------------------------------------------------------
   The interface a consumer has to satisfy: frame-by-frame decoding that does not depend on how the bytes were cut.
   [spec d] = the events (packets and parse errors, in order) of the byte string d;
   [R c d k] = "consumer state c has been fed exactly d and has already handed out the first k events of spec d". *)
Section Interface.
  Context {P C : Type}.
  Variable M : machine P C.
  Variable spec : bytes -> list (nres P).

  Record consumer_ok (R : C -> bytes -> nat -> Prop) : Prop := {
    (* more bytes only append events *)
    ok_mono : forall d x, exists tl, spec (d ++ x) = spec d ++ tl;
    (* consumer.next(None): the next event not handed out yet, or StopIteration when there is none *)
    ok_drain : forall c d k c' r, R c d k -> mdrain M c = (c', r) ->
        match r with
        | RStop => k = length (spec d) /\ R c' d k
        | _ => nth_error (spec d) k = Some r /\ R c' d (S k)
        end;
    (* one transport read on a drained consumer: takes 1..len bytes, never fails to offer room *)
    ok_take : forall c d k avail, R c d k -> k = length (spec d) -> avail <> [] ->
        exists c' r n room, mtake M c avail = Some (c', r, n, room) /\
          1 <= n <= length avail /\
          match r with
          | RStop => length (spec (d ++ firstn n avail)) = k /\ R c' (d ++ firstn n avail) k
          | _ => nth_error (spec (d ++ firstn n avail)) k = Some r /\ R c' (d ++ firstn n avail) (S k)
          end
  }.
End Interface.

(* The same interface relativised to a predicate G on byte streams (e.g. "every frame stays inside the safe band of the
   limit"), prefix-closed; obligations are only required while the bytes fed so far, including the ones about to be fed,
   satisfy G.  [D c d] = "c is a drained state (the last next() raised StopIteration) that has been fed exactly d":
   a transport read is only ever issued from such a state. *)
Section InterfaceRel.
  Context {P C : Type}.
  Variable M : machine P C.
  Variable spec : bytes -> list (nres P).
  Variable G : bytes -> Prop.

  Record consumer_ok_rel (R : C -> bytes -> nat -> Prop) (D : C -> bytes -> Prop) : Prop := {
    okr_prefix : forall d x, G (d ++ x) -> G d;
    okr_mono : forall d x, exists tl, spec (d ++ x) = spec d ++ tl;
    okr_D_R : forall c d, D c d -> R c d (length (spec d));
    okr_drain : forall c d k c' r, G d -> R c d k -> mdrain M c = (c', r) ->
        match r with
        | RStop => k = length (spec d) /\ D c' d
        | _ => nth_error (spec d) k = Some r /\ R c' d (S k)
        end;
    okr_take : forall c d avail, D c d -> avail <> [] -> G (d ++ avail) ->
        exists c' r n room, mtake M c avail = Some (c', r, n, room) /\
          1 <= n <= length avail /\
          match r with
          | RStop => length (spec (d ++ firstn n avail)) = length (spec d) /\ D c' (d ++ firstn n avail)
          | _ => nth_error (spec (d ++ firstn n avail)) (length (spec d)) = Some r /\
                 R c' (d ++ firstn n avail) (S (length (spec d)))
          end
  }.
End InterfaceRel.

(* the bytes the peer sent before it closed *)
Fixpoint stream_of (o : oracle) : bytes :=
  match o with
  | [] => []
  | TData [] _ :: _ => []
  | TData ch _ :: o' => ch ++ stream_of o'
  | TEof :: _ => []
  | TWouldTimeout :: o' => stream_of o'
  | TRaise _ :: o' => stream_of o'
  end.

(* results that are neither a timeout nor a transport error *)
Definition is_delivered {P} (r : rres P) : bool :=
  match r with RecvTimeout | RecvRaised _ => false | _ => true end.
Definition delivered {P} (rs : list (rres P)) : list (rres P) := filter is_delivered rs.

(* the i-th entry of  spec s ++ [ConnectionAborted; ConnectionAborted; ...] *)
Definition expected {P} (evs : list (nres P)) (i : nat) : rres P :=
  match nth_error evs i with Some e => of_nres e | None => RecvAborted end.


Definition results {P S : Type} (x : list (rres P * oracle) * S * oracle) : list (rres P) := map fst (fst (fst x)).

(* ---- transport errors are finite: counting them bounds how many calls without timeout can fail to deliver *)
Definition raises (o : oracle) : nat :=
  fold_right (fun it n => match it with TRaise _ => S n | _ => n end) 0 o.
Definition is_raised {P} (r : rres P) : nat := match r with RecvRaised _ => 1 | _ => 0 end.

