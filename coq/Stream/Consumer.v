(* StreamDataConsumer and BufferedStreamDataConsumer (lowlevel/_stream.py) over an arbitrary framer *)
From EN Require Import Lib.Bytes Frame.Framer.

Inductive nres (P : Type) := RPkt (p : P) | RErr (e : err) | RStop | RCrash.
Arguments RPkt {P}. Arguments RErr {P}. Arguments RStop {P}. Arguments RCrash {P}.

Section Consumer.
  Context {P : Type}.
  Variable F : framer P.

  Record cstate := { cbuf : bytes; ccons : option (fst_ F) }.
  Definition cinit : cstate := {| cbuf := []; ccons := None |}.

  Definition cfeed (c : cstate) (data : bytes) : cstate * nres P :=
    let st := match ccons c with Some s => s | None => finit F end in
    match ffeed F st data with
    | Need s => ({| cbuf := []; ccons := Some s |}, RStop)
    | Done p rest => ({| cbuf := rest; ccons := None |}, RPkt p)
    | Fail e rest => ({| cbuf := rest; ccons := None |}, RErr e)
    | Crash => ({| cbuf := []; ccons := None |}, RCrash)
    end.

  (* StreamDataConsumer.next(received_chunk) *)
  Definition cnext (c : cstate) (chunk : option bytes) : cstate * nres P :=
    match chunk with
    | None | Some [] =>
        match cbuf c with
        | [] => (c, RStop)
        | b => cfeed c b
        end
    | Some ch => cfeed c (cbuf c ++ ch)
    end.

  (* what a receive endpoint does with one incoming chunk: next(chunk), then next(None) until StopIteration.
     fuel bounds the number of drain calls; every event consumes at least... nothing is assumed here: the fuel is
     explicit and proofs show length-of-buffer + 1 suffices for the framers of this development. *)
  Fixpoint cdrain (fuel : nat) (c : cstate) : cstate * list (nres P) :=
    match fuel with
    | 0 => (c, [])
    | S f =>
        match cnext c None with
        | (c', RStop) => (c', [])
        | (c', r) => let '(c'', rs) := cdrain f c' in (c'', r :: rs)
        end
    end.

  Definition cstep (fuel : nat) (c : cstate) (chunk : bytes) : cstate * list (nres P) :=
    match cnext c (Some chunk) with
    | (c', RStop) => (c', [])
    | (c', r) => let '(c'', rs) := cdrain fuel c' in (c'', r :: rs)
    end.

  Fixpoint cdeliver (fuel : nat) (c : cstate) (chunks : list bytes) : cstate * list (nres P) :=
    match chunks with
    | [] => (c, [])
    | ch :: chs =>
        let '(c', rs) := cstep fuel c ch in
        let '(c'', rs') := cdeliver fuel c' chs in
        (c'', rs ++ rs')
    end.
End Consumer.
Arguments cbuf {P F}. Arguments ccons {P F}.

Definition write_at (mem : bytes) (off : nat) (data : bytes) : bytes :=
  firstn off mem ++ data ++ skipn (off + length data) mem.

Section BufConsumer.
  Context {P : Type}.
  Variable F : bframer P.
  Variable sizehint : nat.

  Record bcstate := {
    bmem : option bytes;              (* __buffer *)
    bstart : nat;                     (* __buffer_start *)
    balready : nat;                   (* __already_written *)
    bexported : option (nat * nat);   (* __exported_write_buffer_view as (offset, length) *)
    bcons : option (bst_ F)
  }.
  Definition bcinit : bcstate :=
    {| bmem := None; bstart := 0; balready := 0; bexported := None; bcons := None |}.

  (* get_write_buffer(): None = RuntimeError("The start position is set to the end of the buffer") *)
  Definition bc_get_write_buffer (c : bcstate) : bcstate * option (nat * nat) :=
    match bexported c with
    | Some v => (c, Some v)
    | None =>
        let mem := match bmem c with Some m => m | None => repeat 0%N (balloc F sizehint) end in
        let '(cons0, start) :=
          match bcons c with
          | Some s => (s, bstart c)
          | None => binit F
          end in
        let off := start + balready c in
        let len := length mem - off in
        let c' := {| bmem := Some mem; bstart := start; balready := balready c; bexported := None; bcons := Some cons0 |} in
        if Nat.eqb len 0 then (c', None)
        else ({| bmem := Some mem; bstart := start; balready := balready c; bexported := Some (off, len); bcons := Some cons0 |},
              Some (off, len))
    end.

  (* the transport's recv_into(view) writing [data] at the start of the exported view *)
  Definition bc_fill (c : bcstate) (data : bytes) : bcstate :=
    match bmem c, bexported c with
    | Some mem, Some (off, _) =>
        {| bmem := Some (write_at mem off data); bstart := bstart c; balready := balready c;
           bexported := bexported c; bcons := bcons c |}
    | _, _ => c
    end.

  Definition bc_save_remainder (c : bcstate) (rest : bytes) : bcstate :=
    match rest with
    | [] => c
    | _ =>
        let '(c1, v) := bc_get_write_buffer c in
        match bmem c1, v with
        | Some mem, Some (off, _) =>
            {| bmem := Some (write_at mem off rest); bstart := bstart c1; balready := balready c1 + length rest;
               bexported := None; bcons := bcons c1 |}
        | _, _ => c1
        end
    end.

  (* BufferedStreamDataConsumer.next(nb_updated_bytes); RCrash also stands for the RuntimeErrors of misuse *)
  Definition bcnext (c : bcstate) (n : option nat) : bcstate * nres P :=
    let bad := match n with
               | None => false
               | Some k => match bexported c with
                           | None => true
                           | Some (_, len) => Nat.ltb len k
                           end
               end in
    if bad then (c, RCrash) else
    let nb0 := match n with None => 0 | Some k => k end in
    match bcons c with
    | None => (c, RStop)
    | Some st =>
        let nb := nb0 + balready c in
        let c1 := {| bmem := bmem c; bstart := bstart c; balready := 0; bexported := None; bcons := bcons c |} in
        if Nat.eqb nb 0 then (c1, RStop) else
        let mem := match bmem c with Some m => m | None => [] end in
        let c2 := {| bmem := bmem c; bstart := bstart c; balready := 0; bexported := None; bcons := None |} in
        match bfeed F st mem nb with
        | BNeed s start =>
            ({| bmem := bmem c; bstart := start; balready := 0; bexported := None; bcons := Some s |}, RStop)
        | BDone p rest => (bc_save_remainder c2 rest, RPkt p)
        | BFail e rest => (bc_save_remainder c2 rest, RErr e)
        | BCrash => ({| bmem := None; bstart := bstart c; balready := 0; bexported := None; bcons := None |}, RCrash)
        end
    end.

  (* one receive round of the buffered endpoint: get_write_buffer, recv_into writes [data] (truncated to the view),
     next(len), then next(None) until StopIteration *)
  Fixpoint bcdrain (fuel : nat) (c : bcstate) : bcstate * list (nres P) :=
    match fuel with
    | 0 => (c, [])
    | S f =>
        match bcnext c None with
        | (c', RStop) => (c', [])
        | (c', r) => let '(c'', rs) := bcdrain f c' in (c'', r :: rs)
        end
    end.

  Definition bcstep (fuel : nat) (c : bcstate) (data : bytes) : bcstate * list (nres P) * nat :=
    let '(c1, v) := bc_get_write_buffer c in
    match v with
    | None => (c1, [RCrash], 0)
    | Some (_, len) =>
        let d := firstn len data in
        let c2 := bc_fill c1 d in
        match bcnext c2 (Some (length d)) with
        | (c3, RStop) => (c3, [], length d)
        | (c3, r) => let '(c4, rs) := bcdrain fuel c3 in (c4, r :: rs, length d)
        end
    end.

  (* a chunk of transport data is consumed by as many recv_into rounds as needed (each takes what fits the view) *)
  Fixpoint bcchunk (rounds fuel : nat) (c : bcstate) (data : bytes) : bcstate * list (nres P) :=
    match rounds with
    | 0 => (c, [])
    | S k =>
        match data with
        | [] => (c, [])
        | _ =>
            let '(c', rs, n) := bcstep fuel c data in
            let '(c'', rs') := bcchunk k fuel c' (skipn n data) in
            (c'', rs ++ rs')
        end
    end.

  Fixpoint bcdeliver (fuel : nat) (c : bcstate) (chunks : list bytes) : bcstate * list (nres P) :=
    match chunks with
    | [] => (c, [])
    | ch :: chs =>
        let '(c', rs) := bcchunk (S (length ch)) fuel c ch in
        let '(c'', rs') := bcdeliver fuel c' chs in
        (c'', rs ++ rs')
    end.

  (* the same deliveries seen round by round: every element is what one recv_into wrote (at most the view) *)
  Fixpoint bcfills (fuel : nat) (c : bcstate) (fills : list bytes) : bcstate * list (nres P) :=
    match fills with
    | [] => (c, [])
    | d :: ds =>
        let '(c', rs, _) := bcstep fuel c d in
        let '(c'', rs') := bcfills fuel c' ds in
        (c'', rs ++ rs')
    end.

  (* size of the view get_write_buffer() would export now, and "every fill is non-empty and fits the view it is
     written into" — what recv_into guarantees *)
  Definition view_len (c : bcstate) : nat :=
    match snd (bc_get_write_buffer c) with Some (_, len) => len | None => 0 end.

  Fixpoint fills_fit (fuel : nat) (c : bcstate) (fills : list bytes) : Prop :=
    match fills with
    | [] => True
    | d :: ds => d <> [] /\ length d <= view_len c /\ fills_fit fuel (fst (fst (bcstep fuel c d))) ds
    end.
End BufConsumer.
Arguments bmem {P F}. Arguments bstart {P F}. Arguments balready {P F}. Arguments bexported {P F}. Arguments bcons {P F}.
