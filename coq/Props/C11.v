(* C11 — theorems (statements in full; proofs in Proofs/C11_*.v).
   Models: IO/Retry.v (_retry, ElapsedTime.recompute_timeout), IO/Budget.v (endpoint receive loop, lock_with_timeout,
   client recv/send, client iterator), IO/SendMsg.v.  Time is in integer ticks; `None` is math.inf.
   A `wait` records the wait requested from the selector (w_req) and what the selector answered (w_ready, w_el =
   how long the wait really took).  All theorems are for every callback / socket script, every selector script and
   every fuel (a truncated run is a prefix of the real one). *)
From Coq Require Import ZArith List Bool Lia.
From EN Require Import Lib.Bytes IO.Retry IO.RetryEnv IO.SendAll IO.SendMsg IO.Budget Proofs.C11_retry Proofs.C11_budget Proofs.C11_env IO.ClientLocks Proofs.C11_locks IO.Datagram IO.SslMap Proofs.C11_dgram_ssl.
Import ListNotations.
Open Scope Z_scope.

(* budget_ok t ws (Proofs/C11_retry.v), restated here so the theorems below can be read on their own:
   before every wait, the time left (t minus the time all previous waits took) is positive and the wait requested
   is finite, positive and not larger than the time left. *)
Fixpoint within_budget (t : Z) (ws : list wait) : Prop :=
  match ws with
  | [] => True
  | w :: ws' => 0 < t /\ (exists r, w_req w = Some r /\ 0 < r <= t) /\ within_budget (t - w_el w) ws'
  end.

(* retry_budget: _retry(callback, T) with any positive (or infinite) retry_interval. *)
Theorem retry_budget :
  forall (St R : Type) (cb : St -> cbres R * St * Z) (fuel : nat) (ri : tmo) (t : Z) (st : St) (sels : list selans),
    (match ri with None => True | Some x => 0 < x end) ->
    within_budget t (rr_waits (retry cb fuel ri (Some t) st sels)).
Proof. exact retry_budget_proof. Qed.
Print Assumptions retry_budget.

(* total_wait_le_T: if no wait lasts longer than requested, the waits of any budgeted trace sum up to at most T;
   in general everything but the last wait fits strictly inside T (only the last wait can overshoot). *)
Theorem total_wait_le_T :
  forall (ws : list wait) (t : Z),
    0 <= t -> within_budget t ws ->
    Forall (fun w => exists r, w_req w = Some r /\ w_el w <= r) ws ->
    sum_wait_el ws <= t.
Proof. exact budget_total. Qed.
Print Assumptions total_wait_le_T.

Theorem total_wait_overshoot_last_only :
  forall (ws0 : list wait) (wl : wait) (t : Z),
    within_budget t (ws0 ++ [wl]) -> sum_wait_el ws0 < t.
Proof. exact budget_all_but_last. Qed.
Print Assumptions total_wait_overshoot_last_only.

(* zero_timeout_never_waits: on every path. *)
Theorem zero_timeout_never_waits_retry :
  forall (St R : Type) (cb : St -> cbres R * St * Z) (fuel : nat) (ri : tmo) (st : St) (sels : list selans),
    rr_waits (retry cb fuel ri (Some 0) st sels) = [].
Proof. exact retry_zero_no_wait. Qed.
Print Assumptions zero_timeout_never_waits_retry.

Theorem zero_timeout_never_waits_recv :
  forall (F : nat) (ri : tmo) (N bufsize fuel : nat) (l : lockans) (buf : bytes) (eof : bool)
         (s : list recvans) (sels : list selans),
    cl_lockwaits (client_recv F ri N bufsize fuel (Some 0) l buf eof s sels) = []
    /\ rv_waits (cl_rv (client_recv F ri N bufsize fuel (Some 0) l buf eof s sels)) = []
    /\ rv_waits (receive F ri N bufsize fuel (Some 0) buf eof s sels) = [].
Proof.
  intros. destruct (client_recv_zero F ri N bufsize fuel l buf eof s sels) as [A B].
  split; [exact A|]. split; [exact B|]. apply receive_zero.
Qed.
Print Assumptions zero_timeout_never_waits_recv.

Theorem zero_timeout_never_waits_sendmsg :
  forall (F : nat) (ri : tmo) (iov fuel : nat) (bufs : list bytes) (s : sock) (sels : list selans),
    sr_waits (sendmsg_loop F ri iov fuel bufs (Some 0) s sels) = [].
Proof. exact sendmsg_loop_zero. Qed.
Print Assumptions zero_timeout_never_waits_sendmsg.

(* timeout_only_if_exhausted: _retry raises TimeoutError only when the waits have used up T, provided the selector
   reports "not ready" only after the full requested wait; with an infinite timeout it never raises it. *)
Theorem timeout_only_if_exhausted :
  forall (St R : Type) (cb : St -> cbres R * St * Z) (fuel : nat) (ri : tmo) (t : Z) (st : St) (sels : list selans),
    rr_out (retry cb fuel ri (Some t) st sels) = RTimeout ->
    Forall (fun w => w_ready w = false -> exists r, w_req w = Some r /\ r <= w_el w)
           (rr_waits (retry cb fuel ri (Some t) st sels)) ->
    t <= sum_wait_el (rr_waits (retry cb fuel ri (Some t) st sels)).
Proof. exact retry_timeout_exhausted_proof. Qed.
Print Assumptions timeout_only_if_exhausted.

Theorem infinite_timeout_never_times_out :
  forall (St R : Type) (cb : St -> cbres R * St * Z) (fuel : nat) (ri : tmo) (st : St) (sels : list selans),
    rr_out (retry cb fuel ri None st sels) <> RTimeout.
Proof. intros. unfold retry. simpl. apply retry_loop_inf_no_timeout. Qed.
Print Assumptions infinite_timeout_never_times_out.

(* op_budget, recv_packet at endpoint level: over any number of partial reads the waits stay inside T
   (call costs of the scripted socket are assumed non-negative: time does not run backwards). *)
Theorem op_budget_recv_packet :
  forall (F : nat) (ri : tmo) (N bufsize fuel : nat) (t : Z) (buf : bytes) (eof : bool)
         (s : list recvans) (sels : list selans),
    (match ri with None => True | Some x => 0 < x end) ->
    Forall (fun a => 0 <= match a with RData _ c => c | RBlock _ c => c | RErr c => c end) s ->
    within_budget t (rv_waits (receive F ri N bufsize fuel (Some t) buf eof s sels)).
Proof. exact receive_budget. Qed.
Print Assumptions op_budget_recv_packet.

(* op_budget, TCPNetworkClient.recv_packet: the lock wait (if any) followed by the selector waits stays inside T. *)
Theorem op_budget_client_recv_packet :
  forall (F : nat) (ri : tmo) (N bufsize fuel : nat) (t : Z) (l : lockans) (buf : bytes) (eof : bool)
         (s : list recvans) (sels : list selans),
    (match ri with None => True | Some x => 0 < x end) ->
    Forall (fun a => 0 <= match a with RData _ c => c | RBlock _ c => c | RErr c => c end) s ->
    let k := lock_with_timeout (Some t) l in
    within_budget t
      (map (fun req => {| w_write := false; w_req := req; w_ready := true; w_el := lk_dt k |}) (lk_waits k)
       ++ rv_waits (cl_rv (client_recv F ri N bufsize fuel (Some t) l buf eof s sels))).
Proof. exact client_recv_budget. Qed.
Print Assumptions op_budget_client_recv_packet.

(* op_budget, send_packet at transport level (send_all_from_iterable on every path: sendmsg loop with any
   SC_IOV_MAX, join + send_all), k partial writes: the waits stay inside T. *)
Theorem op_budget_send_all_from_iterable :
  forall (drop_empty has_sendmsg : bool) (iov : Z) (F fuel : nat) (ri : tmo) (chunks : list bytes) (t : Z)
         (s : sock) (sels : list selans),
    (match ri with None => True | Some x => 0 < x end) ->
    Forall (fun a => 0 <= match a with SSent _ c => c | SBlock _ c => c | SErr c => c end) (sk_script s) ->
    within_budget t (sr_waits (send_iter drop_empty has_sendmsg iov F fuel ri chunks (Some t) s sels)).
Proof. exact send_iter_budget. Qed.
Print Assumptions op_budget_send_all_from_iterable.

(* The LOWER half through the send loops (TimeoutError only if the operation really could not complete within T):
   _retry never charges more than the time its waits took -- the timeout it hands back is at least T minus that time -- *)
Theorem retry_never_overcharges :
  forall (St R : Type) (cb : St -> cbres R * St * Z) (fuel : nat) (ri : tmo) (t : Z) (st : St) (sels : list selans)
         (v : R) (T' : tmo),
    rr_out (retry_loop cb fuel ri (Some t) st sels) = ROk v T' ->
    exists t', T' = Some t' /\ t - sum_wait_el (rr_waits (retry_loop cb fuel ri (Some t) st sels)) <= t'.
Proof. exact retry_loop_ok_remaining. Qed.
Print Assumptions retry_never_overcharges.

(* ... and send_all_from_iterable (sendmsg loop reusing the timeout handed back by _retry, or join + send_all recomputing
   from the elapsed time of each send) raises TimeoutError only when the call really took at least T, provided the
   selector reports "not ready" only after the full requested wait and call costs are not negative: no early timeout,
   in particular no wait is charged twice. *)
Theorem timeout_only_if_exhausted_send :
  forall (drop_empty has_sendmsg : bool) (iov : Z) (F fuel : nat) (ri : tmo) (chunks : list bytes) (t : Z)
         (s : sock) (sels : list selans),
    Forall (fun a => 0 <= match a with SSent _ c => c | SBlock _ c => c | SErr c => c end) (sk_script s) ->
    sr_out (send_iter drop_empty has_sendmsg iov F fuel ri chunks (Some t) s sels) = SExc E_TIMEOUT ->
    Forall (fun w => w_ready w = false -> exists r, w_req w = Some r /\ r <= w_el w)
           (sr_waits (send_iter drop_empty has_sendmsg iov F fuel ri chunks (Some t) s sels)) ->
    t <= sr_dt (send_iter drop_empty has_sendmsg iov F fuel ri chunks (Some t) s sels).
Proof. exact send_iter_timeout_exhausted. Qed.
Print Assumptions timeout_only_if_exhausted_send.

(* for the sendmsg loop alone the waits themselves account for T (call costs are not charged there) *)
Theorem timeout_only_if_exhausted_sendmsg :
  forall (F : nat) (ri : tmo) (iov fuel : nat) (bufs : list bytes) (t : Z) (s : sock) (sels : list selans),
    sr_out (sendmsg_loop F ri iov fuel bufs (Some t) s sels) = SExc E_TIMEOUT ->
    Forall (fun w => w_ready w = false -> exists r, w_req w = Some r /\ r <= w_el w)
           (sr_waits (sendmsg_loop F ri iov fuel bufs (Some t) s sels)) ->
    t <= sum_wait_el (sr_waits (sendmsg_loop F ri iov fuel bufs (Some t) s sels)).
Proof. exact sendmsg_loop_timeout_exhausted. Qed.
Print Assumptions timeout_only_if_exhausted_sendmsg.

(* op_budget, TCPNetworkClient.send_packet: lock wait + k partial writes. *)
Theorem op_budget_client_send_packet :
  forall (drop_empty has_sendmsg : bool) (iov : Z) (F fuel : nat) (ri : tmo) (chunks : list bytes) (t : Z)
         (l : lockans) (s : sock) (sels : list selans),
    (match ri with None => True | Some x => 0 < x end) ->
    Forall (fun a => 0 <= match a with SSent _ c => c | SBlock _ c => c | SErr c => c end) (sk_script s) ->
    let k := lock_with_timeout (Some t) l in
    within_budget t
      (map (fun req => {| w_write := false; w_req := req; w_ready := true; w_el := lk_dt k |}) (lk_waits k)
       ++ sr_waits (cs_sr (client_send drop_empty has_sendmsg iov F fuel ri chunks (Some t) l s sels))).
Proof. exact client_send_budget. Qed.
Print Assumptions op_budget_client_send_packet.

(* op_budget, iter_received_packets(timeout=T) of the blocking client: the remaining budget is carried across
   packets.  The trace is every __next__ up to and including the first one that does not return a packet
   (StopIteration ends the loop); per __next__: the blocking lock acquire (if any), then the selector waits. *)
Theorem op_budget_iter_received_packets :
  forall (F : nat) (ri : tmo) (N bufsize fuel : nat) (locks : list lockans) (t : Z) (buf : bytes) (eof : bool)
         (s : list recvans) (sels : list selans),
    (match ri with None => True | Some x => 0 < x end) ->
    Forall (fun a => 0 <= match a with RData _ c => c | RBlock _ c => c | RErr c => c end) s ->
    within_budget t
      ((fix log (steps : list itstep) : list wait :=
          match steps with
          | [] => []
          | st :: rest =>
              (map (fun req => {| w_write := false; w_req := req; w_ready := true; w_el := it_lockdt st |})
                   (it_lockwaits st) ++ it_waits st)
              ++ match it_out st with RvPkt _ => log rest | _ => [] end
          end) (iter_run F ri N bufsize fuel (Some t) locks buf eof s sels)).
Proof. exact iter_budget. Qed.
Print Assumptions op_budget_iter_received_packets.

(* op_budget, asynchronous iterator (AsyncClientRecvIterator, backend timeout scope): whenever the packets
   arrive, the time spent up to and including the first StopAsyncIteration is at most T; with T = 0 no __anext__
   takes any time. *)
Theorem op_budget_async_iterator :
  forall (arr : list arrival) (t : Z),
    0 <= t -> Forall (fun a => match a with ArrAfter d => 0 <= d | ArrErr => True end) arr ->
    (fix time (steps : list astep) : Z :=
       match steps with
       | [] => 0
       | st :: rest => as_dt st + (if as_out st =? 0 then time rest else 0)
       end) (aiter_run (Some t) arr) <= t.
Proof. exact aiter_budget. Qed.
Print Assumptions op_budget_async_iterator.

Theorem zero_timeout_async_iterator :
  forall arr : list arrival,
    Forall (fun a => match a with ArrAfter d => 0 <= d | ArrErr => True end) arr ->
    Forall (fun st => as_dt st = 0) (aiter_run (Some 0) arr).
Proof. exact aiter_zero. Qed.
Print Assumptions zero_timeout_async_iterator.

Theorem async_iterator_none_never_times_out :
  forall arr : list arrival, Forall (fun st => as_out st <> E_TIMEOUT) (aiter_run None arr).
Proof. exact aiter_none_never_times_out. Qed.
Print Assumptions async_iterator_none_never_times_out.

(* zero_timeout_never_waits on the send side, every path (sendmsg loop, join + send_all) and the client (lock). *)
Theorem zero_timeout_never_waits_send :
  forall (drop_empty has_sendmsg : bool) (iov : Z) (F fuel : nat) (ri : tmo) (chunks : list bytes) (l : lockans)
         (s : sock) (sels : list selans),
    Forall (fun a => 0 <= match a with SSent _ c => c | SBlock _ c => c | SErr c => c end) (sk_script s) ->
    sr_waits (send_iter drop_empty has_sendmsg iov F fuel ri chunks (Some 0) s sels) = []
    /\ cs_lockwaits (client_send drop_empty has_sendmsg iov F fuel ri chunks (Some 0) l s sels) = []
    /\ sr_waits (cs_sr (client_send drop_empty has_sendmsg iov F fuel ri chunks (Some 0) l s sels)) = [].
Proof.
  intros. split; [apply send_iter_zero; assumption|]. apply client_send_zero; assumption.
Qed.
Print Assumptions zero_timeout_never_waits_send.

(* retry_interval_irrelevant.  Environment indexed by virtual time (IO/RetryEnv.v): the fd is ready for good from
   tick e_tau on, the selector also reports spurious readiness at the ticks e_spur, processing takes no time.
   Then the outcome of _retry (including the timeout it hands back) and the time it takes do not depend on
   retry_interval (any two positive or infinite values; fuel only has to be enough for each run). *)
Theorem retry_interval_irrelevant :
  forall (e : env) (T : tmo) (now : Z) (ri1 ri2 : tmo) (fuel1 fuel2 : nat),
    (match ri1 with None => True | Some x => 0 < x end) ->
    (match ri2 with None => True | Some x => 0 < x end) ->
    rr_out (retry_env e fuel1 ri1 T now) <> RFuel ->
    rr_out (retry_env e fuel2 ri2 T now) <> RFuel ->
    rr_out (retry_env e fuel1 ri1 T now) = rr_out (retry_env e fuel2 ri2 T now)
    /\ rr_dt (retry_env e fuel1 ri1 T now) = rr_dt (retry_env e fuel2 ri2 T now).
Proof. exact retry_interval_irrelevant_proof. Qed.
Print Assumptions retry_interval_irrelevant.

(* ... and what that common outcome is: with a finite T >= 0, success after max(0, tau - now) iff tau <= now + T,
   otherwise TimeoutError after exactly T; with an infinite T, success after max(0, tau - now). *)
Theorem retry_env_outcome :
  forall (e : env) (fuel : nat) (ri T : tmo) (now : Z),
    (match ri with None => True | Some x => 0 < x end) ->
    (match T with Some t => 0 <= t | None => True end) ->
    rr_out (retry_w (cb_env e) (sel_env e) fuel ri T now) <> RFuel ->
    match T with
    | Some t =>
        if e_tau e <=? now + t
        then rr_out (retry_w (cb_env e) (sel_env e) fuel ri T now) = ROk tt (Some (t - Z.max 0 (e_tau e - now)))
             /\ rr_dt (retry_w (cb_env e) (sel_env e) fuel ri T now) = Z.max 0 (e_tau e - now)
        else rr_out (retry_w (cb_env e) (sel_env e) fuel ri T now) = RTimeout
             /\ rr_dt (retry_w (cb_env e) (sel_env e) fuel ri T now) = t
    | None => rr_out (retry_w (cb_env e) (sel_env e) fuel ri T now) = ROk tt None
              /\ rr_dt (retry_w (cb_env e) (sel_env e) fuel ri T now) = Z.max 0 (e_tau e - now)
    end.
Proof. exact retry_w_env_spec. Qed.
Print Assumptions retry_env_outcome.

(* retry_interval with NON-ZERO processing costs (every callback invocation takes ec_cost ticks, which _retry does not
   charge to the timeout).  Then the retry interval is NOT irrelevant in general: each wake-up buys one more attempt,
   so for now+T < tau <= now+T+(call costs) the outcome can depend on it.  The strongest statements that hold for every
   retry interval (W = time spent in select(); rr_dt - W = the costs of the callback invocations):
     - only success or TimeoutError;   success  => max(0, tau-now) <= rr_dt  and  W <= max(0, tau-now)
                                       timeout  => tau > now+T               and  W = T
     - if the fd is ready within T (tau <= now+T, costs not counted) the call succeeds whatever the retry interval. *)
Theorem retry_interval_with_costs :
  forall (e : envc) (fuel : nat) (ri T : tmo) (now : Z),
    0 <= ec_cost e -> (match ri with None => True | Some x => 0 < x end) ->
    (match T with Some t => 0 <= t | None => True end) ->
    let r := retry_w (cb_envc e) (sel_envc e) fuel ri T now in
    rr_out r <> RFuel ->
    (((exists v T', rr_out r = ROk v T') /\ Z.max 0 (e_tau (ec_env e) - now) <= rr_dt r
      /\ 0 <= sum_wait_el (rr_waits r) <= Z.max 0 (e_tau (ec_env e) - now))
     \/ (rr_out r = RTimeout /\ exists t, T = Some t /\ now + t < e_tau (ec_env e) /\ sum_wait_el (rr_waits r) = t))
    /\ (match T with Some t => e_tau (ec_env e) <= now + t | None => True end -> exists v T', rr_out r = ROk v T').
Proof. exact retry_envc_facts. Qed.
Print Assumptions retry_interval_with_costs.

(* ... and two successful runs with different retry intervals differ in elapsed time by at most the call costs of
   the slower one (the extra wake-ups). *)
Theorem retry_interval_costs_elapsed_gap :
  forall (e : envc) (T : tmo) (now : Z) (ri1 ri2 : tmo) (fuel1 fuel2 : nat),
    0 <= ec_cost e ->
    (match ri1 with None => True | Some x => 0 < x end) -> (match ri2 with None => True | Some x => 0 < x end) ->
    (match T with Some t => 0 <= t | None => True end) ->
    let r1 := retry_w (cb_envc e) (sel_envc e) fuel1 ri1 T now in
    let r2 := retry_w (cb_envc e) (sel_envc e) fuel2 ri2 T now in
    (exists v T', rr_out r1 = ROk v T') -> (exists v T', rr_out r2 = ROk v T') ->
    rr_dt r1 - rr_dt r2 <= rr_dt r1 - sum_wait_el (rr_waits r1).
Proof. exact retry_envc_elapsed_gap. Qed.
Print Assumptions retry_interval_costs_elapsed_gap.

(* the outcome does depend on the retry interval inside the window: tau = 10, T = 8, cost 1 per call *)
Example retry_interval_matters_with_costs :
  rr_out (retry_envc (mk_envc (mk_env 10 []) 1) 20 None (Some 8) 0) = RTimeout
  /\ rr_out (retry_envc (mk_envc (mk_env 10 []) 1) 20 (Some 2) (Some 8) 0) = ROk tt (Some 2).
Proof. vm_compute. split; reflexivity. Qed.

(* the world-state loop retry_w used above is the validated retry_loop: on the world (callback state, answer list)
   it produces the same outcome, state, elapsed time, waits and number of calls. *)
Theorem retry_w_is_retry_loop :
  forall (St R : Type) (cb : St -> cbres R * St * Z) (fuel : nat) (ri T : tmo) (st : St) (sels : list selans),
    let r := retry_loop cb fuel ri T st sels in
    let r' := retry_w (fun w : St * list selans => let '(x, st1, c) := cb (fst w) in (x, (st1, snd w), c))
                      (fun (w : St * list selans) (_ : tmo) => let '(a, sels1) := next_sel (snd w) in (a, (fst w, sels1)))
                      fuel ri T (st, sels) in
    rr_out r' = rr_out r /\ rr_st r' = (rr_st r, rr_sels r) /\ rr_dt r' = rr_dt r
    /\ rr_waits r' = rr_waits r /\ rr_calls r' = rr_calls r.
Proof. exact retry_w_list_instance. Qed.
Print Assumptions retry_w_is_retry_loop.

(* ---- UDP client (IO/Datagram.v): lock_with_timeout, then one _retry around socket.recv() / socket.send().
   The waits of the call = the blocking lock acquire (if any) followed by the selector waits. *)
Theorem op_budget_udp_recv_packet :
  forall (F : nat) (ri : tmo) (t : Z) (l : lockans) (s : list recvans) (sels : list selans),
    (match ri with None => True | Some x => 0 < x end) ->
    let res := udp_recv_packet F ri (Some t) (Some l) s sels in
    within_budget t
      (map (fun req => {| w_write := false; w_req := req; w_ready := true; w_el := lk_dt (fst res) |}) (lk_waits (fst res))
       ++ match snd res with Some r => rr_waits r | None => [] end).
Proof. intros. apply (locked_retry_budget _ _ dgram_recv). assumption. Qed.
Print Assumptions op_budget_udp_recv_packet.

Theorem op_budget_udp_send_packet :
  forall (F : nat) (ri : tmo) (t : Z) (l : lockans) (data : bytes) (s : sock) (sels : list selans),
    (match ri with None => True | Some x => 0 < x end) ->
    let res := udp_send_packet F ri (Some t) (Some l) data s sels in
    within_budget t
      (map (fun req => {| w_write := false; w_req := req; w_ready := true; w_el := lk_dt (fst res) |}) (lk_waits (fst res))
       ++ match snd res with Some r => rr_waits r | None => [] end).
Proof. intros. apply (locked_retry_budget _ _ (dgram_send data)). assumption. Qed.
Print Assumptions op_budget_udp_send_packet.

Theorem udp_zero_and_infinite_timeout :
  forall (F : nat) (ri : tmo) (lk : option lockans) (data : bytes) (rs : list recvans) (s : sock) (sels : list selans),
    (* timeout 0: no blocking lock acquire, no selector wait, for receive and send *)
    (lk_waits (fst (udp_recv_packet F ri (Some 0) lk rs sels)) = []
     /\ match snd (udp_recv_packet F ri (Some 0) lk rs sels) with Some r => rr_waits r = [] | None => True end)
    /\ (lk_waits (fst (udp_send_packet F ri (Some 0) lk data s sels)) = []
        /\ match snd (udp_send_packet F ri (Some 0) lk data s sels) with Some r => rr_waits r = [] | None => True end)
    (* timeout None: never TimeoutError *)
    /\ (forall r, snd (udp_recv_packet F ri None lk rs sels) = Some r -> rr_out r <> RTimeout)
    /\ (forall r, snd (udp_send_packet F ri None lk data s sels) = Some r -> rr_out r <> RTimeout).
Proof.
  intros. unfold udp_recv_packet, udp_send_packet.
  destruct (locked_retry_zero _ _ dgram_recv F ri lk rs sels) as [A1 A2].
  destruct (locked_retry_zero _ _ (dgram_send data) F ri lk s sels) as [B1 B2].
  unfold locked_waits in A1, B1.
  split; [split; [exact A2|]|split; [split; [exact B2|]|split]].
  - destruct (snd (locked_retry dgram_recv F ri (Some 0) lk rs sels)); [|exact I].
    apply app_eq_nil in A1. apply A1.
  - destruct (snd (locked_retry (dgram_send data) F ri (Some 0) lk s sels)); [|exact I].
    apply app_eq_nil in B1. apply B1.
  - intros r. apply locked_retry_inf_no_timeout.
  - intros r. apply locked_retry_inf_no_timeout.
Qed.
Print Assumptions udp_zero_and_infinite_timeout.

(* ---- SSLStreamTransport (IO/SslMap.v: _try_ssl_method).  A send through the SSL object keeps the budget, and its
   i-th selector wait waits for exactly the event the i-th blocking SSL answer asked for: readability after
   SSLWantRead / SSLSyscallError, writability after SSLWantWrite.  (The receive direction is op_budget_recv_packet,
   which holds for every receive script, in particular ssl_recv_answer's.) *)
Theorem op_budget_ssl_send :
  forall (F : nat) (ri : tmo) (t : Z) (data : bytes) (script : list sslans) (wire : bytes) (sels : list selans),
    (match ri with None => True | Some x => 0 < x end) ->
    within_budget t (rr_waits (ssl_send F ri (Some t) data script wire sels)).
Proof. exact ssl_send_budget. Qed.
Print Assumptions op_budget_ssl_send.

Theorem ssl_wait_mapping :
  forall (F : nat) (ri T : tmo) (data : bytes) (script : list sslans) (wire : bytes) (sels : list selans),
    let r := ssl_send F ri T data script wire sels in
    map w_write (rr_waits r) = firstn (length (rr_waits r)) (ssl_wait_events script).
Proof. exact ssl_send_wait_mapping. Qed.
Print Assumptions ssl_wait_mapping.

(* ---- lock discipline of TCPNetworkClient / UDPNetworkClient (IO/ClientLocks.v): send lock + receive lock, the
   calls of several threads as a labelled transition system (Start / Grant / GiveUp / Finish), any history. *)

(* every lock acquired is released when the call ends: a lock is owned only by a call that is inside its body, *)
Theorem lock_owner_is_in_body :
  forall (s : cst) (l : lockid) (k : nat),
    reachable s -> owner s l = Some k ->
    exists c, lookup k (cs s) = Some c /\ c_ph c = PHold /\ lock_of (c_m c) = l.
Proof. exact owner_is_in_body. Qed.
Print Assumptions lock_owner_is_in_body.

(* ... hence once every call has returned or raised (whatever the interleaving, give-ups and failures), both locks are free. *)
Theorem locks_free_at_quiescence :
  forall s : cst,
    reachable s -> (forall c, In c (cs s) -> exists code, c_ph c = PDone code) ->
    o_send s = None /\ o_recv s = None.
Proof. exact quiescent_locks_free. Qed.
Print Assumptions locks_free_at_quiescence.

(* a receive never waits on the send lock: with the receive lock free it is inside its body at once, whoever owns
   the send lock (which it leaves untouched); and symmetrically for a send. *)
Theorem recv_never_waits_on_send_lock :
  forall (s : cst) (k : nat) (T : tmo),
    lookup k (cs s) = None -> o_recv s = None -> tmo_neg T = false ->
    exists s', step s (Start k MRecv T) = Some s'
               /\ lookup k (cs s') = Some (mk_call k MRecv PHold) /\ o_send s' = o_send s.
Proof. exact recv_ignores_send_lock. Qed.
Print Assumptions recv_never_waits_on_send_lock.

Theorem send_never_waits_on_recv_lock :
  forall (s : cst) (k : nat) (T : tmo),
    lookup k (cs s) = None -> o_send s = None -> tmo_neg T = false ->
    exists s', step s (Start k MSend T) = Some s'
               /\ lookup k (cs s') = Some (mk_call k MSend PHold) /\ o_recv s' = o_recv s.
Proof. exact send_ignores_recv_lock. Qed.
Print Assumptions send_never_waits_on_recv_lock.

(* a waiting call can be granted as soon as its OWN lock is free; a zero timeout never parks a call on a lock. *)
Theorem grant_needs_own_lock_only :
  forall (s : cst) (k : nat) (c : call) (f : bool),
    lookup k (cs s) = Some c -> c_ph c = PWait f -> owner s (lock_of (c_m c)) = None ->
    exists s', step s (Grant k) = Some s'.
Proof. exact grant_depends_on_own_lock_only. Qed.
Print Assumptions grant_needs_own_lock_only.

Theorem zero_timeout_never_waits_on_a_lock :
  forall (s : cst) (k : nat) (m : meth) (s' : cst) (c : call),
    timed m = true -> step s (Start k m (Some 0)) = Some s' -> lookup k (cs s') = Some c ->
    forall f, c_ph c <> PWait f.
Proof. exact zero_timeout_never_waits_on_lock. Qed.
Print Assumptions zero_timeout_never_waits_on_a_lock.

(* ---- non-vacuity: a drip-fed 3-byte packet, retry interval 2, T = 8: four waits, all inside the budget *)
Example drip_feed :
  let s := [RBlock false 0; RData [1%N] 0; RBlock false 0; RData [2%N] 0; RBlock false 0; RBlock false 0; RData [3%N] 0] in
  let sels := [{| sa_ready := true; sa_el := 1 |}; {| sa_ready := true; sa_el := 2 |};
               {| sa_ready := false; sa_el := 2 |}; {| sa_ready := true; sa_el := 1 |}] in
  let r := receive 9 (Some 2) 3 4 9 (Some 8) [] false s sels in
  rv_out r = RvPkt [1%N; 2%N; 3%N]
  /\ map w_req (rv_waits r) = [Some 2; Some 2; Some 2; Some 2] /\ rv_dt r = 6.
Proof. vm_compute. repeat split. Qed.

Example drip_feed_times_out :
  let s := [RBlock false 0; RData [1%N] 0; RBlock false 0] in
  let sels := [{| sa_ready := true; sa_el := 2 |}; {| sa_ready := false; sa_el := 1 |}] in
  let r := receive 9 None 3 4 9 (Some 3) [] false s sels in
  rv_out r = RvExc E_TIMEOUT /\ map w_req (rv_waits r) = [Some 3; Some 1] /\ rv_dt r = 3.
Proof. vm_compute. repeat split. Qed.

Example env_run_ri2 : let r := retry_env (mk_env 5 [1; 3]) 9 (Some 2) (Some 8) 0 in
  rr_out r = ROk tt (Some 3) /\ rr_dt r = 5 /\ length (rr_waits r) = 3%nat.
Proof. vm_compute. repeat split. Qed.
Example env_run_riinf : let r := retry_env (mk_env 5 [1; 3]) 9 None (Some 8) 0 in
  rr_out r = ROk tt (Some 3) /\ rr_dt r = 5.
Proof. vm_compute. repeat split. Qed.

Example lock_history :
  let '(sf, en) := run_labels cst0 [Start 0 MSend None; Start 1 MSend (Some 5); Start 2 MRecv (Some 0); Finish 2 true;
                                    Finish 0 true; Grant 1; Finish 1 false; Start 3 MSend (Some 0); Finish 3 true] in
  forallb (fun b => b) en = true /\ o_send sf = None /\ o_recv sf = None
  /\ map c_ph (cs sf) = [PDone 0; PDone E_CONN; PDone 0; PDone 0].
Proof. vm_compute. repeat split. Qed.
