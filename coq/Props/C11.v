(* C11 — theorems (statements in full; proofs in Proofs/C11_*.v). *)
From Coq Require Import ZArith List Bool Lia.
From EN Require Import Lib.Bytes IO.Retry Proofs.C11_retry.
Import ListNotations.
Open Scope Z_scope.

(* _retry with timeout 0 never calls the selector, whatever the callback does. *)
Theorem zero_timeout_never_waits_retry :
  forall (St R : Type) (cb : St -> cbres R * St * Z) (fuel : nat) (ri : tmo) (st : St) (sels : list selans),
    rr_waits (retry cb fuel ri (Some 0) st sels) = [].
Proof. exact retry_zero_no_wait. Qed.
Print Assumptions zero_timeout_never_waits_retry.
