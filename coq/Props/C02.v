(* C02 — parsing depends only on the bytes; a bad frame costs exactly one error. *)
From Coq Require Import List Arith.
From EN Require Import Lib.Bytes Frame.Framer Frame.ReadUntil Frame.BufReadUntil Stream.Consumer Stream.SpecDecode
  Frame.JsonRaw Frame.JsonGrammar Proofs.C07_extra Proofs.C01_generic Proofs.C01_json Proofs.C02_extra
  Frame.Convert Proofs.Convert_proofs Proofs.BufConvert_proofs Proofs.C02_proofs Proofs.Fixed_proofs Proofs.BufFixed_proofs.
Import ListNotations.

(* For every byte stream whose frames are safely within the limit (payload + separator < limit, the band in which
   the buffer-filling path is cut-independent), every two chunkings, both receive paths and every buffer-size hint:
   the delivered events are the same, and equal frame-by-frame decoding [spec_events] of the stream. *)
Theorem events_chunk_independent :
  forall (P : Type) (sep : bytes) (keep_end : bool) (dec : decoder P) (limit sizehint : nat),
    sep <> [] -> length sep + 1 <= limit ->
    forall (s : bytes) (cs1 cs2 : list bytes) (fuel : nat),
      safe sep (limit - 1 - length sep) s ->
      Forall (fun ch => ch <> []) cs1 -> concat cs1 = s -> concat cs2 = s -> length s < fuel ->
      exists c1 c2,
        cdeliver (ru_framer sep limit keep_end dec) fuel (cinit _) cs1 = (c1, fst (spec_events sep keep_end dec s)) /\
        bcdeliver (bru_framer sep limit keep_end dec) sizehint fuel (bcinit _) cs2 = (c2, fst (spec_events sep keep_end dec s)).
Proof.
  intros P sep keep_end dec limit sizehint Hne Hl s cs1 cs2 fuel Hs H1 H2 H3 Hf.
  exact (paths_agree_l sep keep_end dec Hne limit sizehint s cs1 cs2 fuel Hl Hs H1 H2 H3 Hf).
Qed.
Print Assumptions events_chunk_independent.

(* Protocols with a converter (StreamProtocol / BufferedStreamProtocol (serializer, converter)): same statement; the events
   are those of frame-by-frame decoding with every decoded DTO passed through create_from_dto_packet — a DTO the converter
   rejects (PacketConversionError) yields exactly one parse error in its place ([conv_ev]), consumes exactly its frame, and
   every other frame is delivered intact, on both receive paths, whatever the chunking. *)
Theorem events_chunk_independent_with_converter :
  forall (Q P : Type) (sep : bytes) (keep_end : bool) (dec : decoder Q) (from_dto : Q -> option P) (limit sizehint : nat),
    sep <> [] -> length sep + 1 <= limit ->
    forall (s : bytes) (cs1 cs2 : list bytes) (fuel : nat),
      safe sep (limit - 1 - length sep) s ->
      Forall (fun ch => ch <> []) cs1 -> concat cs1 = s -> concat cs2 = s -> length s < fuel ->
      snd (cdeliver (conv_framer from_dto (ru_framer sep limit keep_end dec)) fuel (cinit _) cs1)
        = map (conv_ev from_dto) (fst (spec_events sep keep_end dec s)) /\
      snd (bcdeliver (conv_bframer from_dto (bru_framer sep limit keep_end dec)) sizehint fuel (bcinit _) cs2)
        = map (conv_ev from_dto) (fst (spec_events sep keep_end dec s)).
Proof.
  intros Q P sep keep_end dec from_dto limit sizehint Hne Hl s cs1 cs2 fuel Hs H1 H2 H3 Hf.
  destruct (paths_agree_l sep keep_end dec Hne limit sizehint s cs1 cs2 fuel Hl Hs H1 H2 H3 Hf) as (c1 & c2 & Hd1 & Hd2).
  split.
  - pose proof (cdeliver_conv from_dto (ru_framer sep limit keep_end dec) fuel cs1 (cinit _)) as H.
    change (conv_st from_dto (ru_framer sep limit keep_end dec) (cinit (ru_framer sep limit keep_end dec)))
      with (cinit (conv_framer from_dto (ru_framer sep limit keep_end dec))) in H.
    rewrite H, Hd1. reflexivity.
  - pose proof (bcdeliver_conv from_dto (bru_framer sep limit keep_end dec) sizehint fuel cs2 (bcinit _)) as H.
    change (bconv_st from_dto (bru_framer sep limit keep_end dec) (bcinit (bru_framer sep limit keep_end dec)))
      with (bcinit (conv_bframer from_dto (bru_framer sep limit keep_end dec))) in H.
    rewrite H, Hd2. reflexivity.
Qed.
Print Assumptions events_chunk_independent_with_converter.

(* Fixed-size framing (FixedSizePacketSerializer, struct serializers): ANY byte stream (no size band: records cannot be
   oversized), any chunking on the copying path, any sequence of fitting recv_into fills and any size hint on the
   buffer-filling path: the same events, namely record-by-record decoding. *)
Theorem fixed_size_paths_agree :
  forall (P : Type) (size sizehint : nat) (dec : decoder P),
    1 <= size ->
    forall (s : bytes) (chunks fills : list bytes) (fuel : nat),
      Forall (fun ch => ch <> []) chunks -> concat chunks = s -> concat fills = s -> length s < fuel ->
      fills_fit (bfx_framer size dec) sizehint fuel (bcinit _) fills ->
      exists c1 c2,
        cdeliver (rx_framer size dec) fuel (cinit _) chunks = (c1, fst (fx_events size dec s)) /\
        bcfills (bfx_framer size dec) sizehint fuel (bcinit _) fills = (c2, fst (fx_events size dec s)).
Proof.
  intros P size sizehint dec Hs s chunks fills fuel Hne H1 H2 Hf Hfit.
  destruct (xdeliver_spec size dec Hs chunks (cinit _) [] fuel (xrep_idle size dec) Hne) as (c1 & Hd1 & _);
    [cbn [app]; rewrite H1; exact Hf |].
  destruct (bfx_fills_spec size dec sizehint Hs fuel fills (bcinit _) [] (frep_idle size dec sizehint None 0 I) Hfit) as (c2 & Hd2 & _);
    [cbn [app]; rewrite H2; exact Hf |].
  cbn [app] in *. rewrite H1 in Hd1. rewrite H2 in Hd2. exists c1, c2. split; assumption.
Qed.
Print Assumptions fixed_size_paths_agree.

(* ======================= raw JSON (JSONSerializer(use_lines=False)) =======================
   Vocabulary (Proofs/C02_extra.v): jframe = any byte string the scanner closes (non-empty, not starting with whitespace)
   or atom ++ newline: every grammar document, every balanced-but-invalid text such as [1,,], stray closing brackets;
   jframe_ok limit d := jframe d /\ length d <= limit; jev dec d = RPkt p when dec d = Some p, RErr EDecode otherwise. *)

(* Streams of frames within the limit (valid or undecodable): for every chunking the events are frame-by-frame decoding. *)
Theorem json_events_chunk_independent :
  forall (P : Type) (limit : nat) (dec : decoder P) (docs chunks : list bytes) (fuel : nat),
    Forall (fun ch => ch <> []) chunks -> Forall (jframe_ok limit) docs -> concat chunks = concat docs ->
    length (concat chunks) < fuel ->
    exists c', cdeliver (json_framer limit dec) fuel (cinit _) chunks = (c', map (jev dec) docs) /\ cbuf c' = [] /\ ccons c' = None.
Proof. intros P limit dec docs chunks fuel. exact (json_events_chunk_independent_l limit dec docs chunks fuel). Qed.
Print Assumptions json_events_chunk_independent.

Theorem json_two_chunkings_agree :
  forall (P : Type) (limit : nat) (dec : decoder P) (docs chunks1 chunks2 : list bytes) (fuel : nat),
    Forall (jframe_ok limit) docs ->
    Forall (fun ch => ch <> []) chunks1 -> concat chunks1 = concat docs ->
    Forall (fun ch => ch <> []) chunks2 -> concat chunks2 = concat docs -> length (concat docs) < fuel ->
    snd (cdeliver (json_framer limit dec) fuel (cinit _) chunks1) = snd (cdeliver (json_framer limit dec) fuel (cinit _) chunks2).
Proof. intros P limit dec docs c1 c2 fuel. exact (json_two_chunkings_agree_l limit dec docs c1 c2 fuel). Qed.
Print Assumptions json_two_chunkings_agree.

(* An undecodable frame costs exactly one error; frames before and after are intact. *)
Theorem json_bad_document_costs_one :
  forall (P : Type) (limit : nat) (dec : decoder P) (ds1 ds2 : list bytes) (bad : bytes) (chunks : list bytes) (fuel : nat),
    dec bad = None -> Forall (jframe_ok limit) (ds1 ++ bad :: ds2) ->
    Forall (fun ch => ch <> []) chunks -> concat chunks = concat (ds1 ++ bad :: ds2) -> length (concat chunks) < fuel ->
    exists c', cdeliver (json_framer limit dec) fuel (cinit _) chunks
               = (c', map (jev dec) ds1 ++ RErr EDecode :: map (jev dec) ds2) /\ cbuf c' = [] /\ ccons c' = None.
Proof. intros P limit dec ds1 ds2 bad chunks fuel. exact (json_bad_document_costs_one_l limit dec ds1 ds2 bad chunks fuel). Qed.
Print Assumptions json_bad_document_costs_one.

(* Resynchronisation (a): an oversized frame closed inside the data of one read: the remainder is exactly what follows,
   later frames are intact. *)
Theorem json_overrun_resync :
  forall (P : Type) (limit : nat) (dec : decoder P) (big x : bytes) (docs cs : list bytes) (fuel : nat),
    closes big -> limit < length big -> Forall (jframe_ok limit) docs -> Forall (fun ch => ch <> []) cs ->
    x ++ concat cs = concat docs -> length (x ++ concat cs) < fuel ->
    exists c', cdeliver (json_framer limit dec) fuel (cinit _) ((big ++ x) :: cs) = (c', RErr ELimit :: map (jev dec) docs) /\
               cbuf c' = [] /\ ccons c' = None.
Proof. intros P limit dec big x docs cs fuel. exact (json_overrun_resync_l limit dec big x docs cs fuel). Qed.
Print Assumptions json_overrun_resync.

(* Resynchronisation (b), what IS true for an unterminated oversized document: the read that takes the data beyond the
   limit raises, the remainder is EMPTY, and the parser restarts on the next read wherever it falls. (So later frames are
   intact exactly when the later reads are a sequence of frames; raw JSON has no terminator to look for: observation
   json_unterminated_overrun_is_chunk_dependent_observed in Proofs/C02_extra.v, replayed on /repo.) *)
Theorem json_overrun_restart :
  forall (P : Type) (limit : nat) (dec : decoder P) (pre cs : list bytes) (fuel : nat) (cj : jcount),
    pre <> [] -> Forall (fun ch => ch <> []) pre -> jscan [] (concat pre) jcount0 = JSMore cj ->
    limit < length (concat pre) -> length (concat (removelast pre)) <= limit ->
    cdeliver (json_framer limit dec) fuel (cinit _) (pre ++ cs)
    = (let '(c', evs) := cdeliver (json_framer limit dec) fuel (cinit _) cs in (c', RErr ELimit :: evs)).
Proof. intros P limit dec pre cs fuel cj. exact (json_overrun_restart_l limit dec pre cs fuel cj). Qed.
Print Assumptions json_overrun_restart.

(* In the specification a malformed (undecodable) frame between whole frames f1 and any continuation f2 yields exactly
   one parse error, consumes exactly that frame, and every later frame is decoded as if the bad frame were absent.
   With events_chunk_independent this holds for every chunking and both paths. *)
Theorem bad_frame_costs_one :
  forall (P : Type) (sep : bytes) (keep_end : bool) (dec : decoder P),
    sep <> [] ->
    forall (f1 bad f2 : bytes),
      snd (spec_events sep keep_end dec f1) = [] ->
      find0 sep (bad ++ sep) = Some (length bad) ->
      dec (if keep_end then bad ++ sep else bad) = None ->
      spec_events sep keep_end dec (f1 ++ (bad ++ sep) ++ f2) =
        (fst (spec_events sep keep_end dec f1) ++ [RErr EDecode] ++ fst (spec_events sep keep_end dec f2),
         snd (spec_events sep keep_end dec f2)).
Proof. intros P sep keep_end dec Hne f1 bad f2. exact (bad_frame_costs_one_l sep keep_end dec Hne 0 f1 bad f2). Qed.
Print Assumptions bad_frame_costs_one.

(* Resynchronisation, copying path (StreamDataConsumer over read_until): a frame u of ANY size (far over the limit,
   right at it, or small) followed by its terminator and then a stream [rest] within the limit: for every chunking the
   consumer emits a non-empty list of junk events for u (containing a limit error when u is longer than the limit),
   and then delivery resumes intact: exactly the events of [rest], nothing of [rest] lost to the junk. *)
Theorem resync_after_overrun_copying :
  forall (P : Type) (sep : bytes) (keep_end : bool) (dec : decoder P) (limit : nat),
    sep <> [] ->
    forall (u rest : bytes) (chunks : list bytes) (fuel : nat),
      find0 sep (u ++ sep) = Some (length u) ->
      safe sep limit rest ->
      Forall (fun ch => ch <> []) chunks -> concat chunks = u ++ sep ++ rest -> length (concat chunks) < fuel ->
      exists c' junk,
        cdeliver (ru_framer sep limit keep_end dec) fuel (cinit _) chunks =
          (c', junk ++ fst (spec_events sep keep_end dec rest)) /\
        cbuf c' = [] /\ junk <> [] /\ (limit < length u -> In (RErr ELimit) junk).
Proof. intros P sep keep_end dec limit Hne u rest chunks fuel. exact (resync_copying_l sep keep_end dec Hne limit u rest chunks fuel). Qed.
Print Assumptions resync_after_overrun_copying.

(* Resynchronisation, buffer-filling path (BufferedStreamDataConsumer over _buffered_readuntil, the code repaired by the
   first fix: commit): same statement, for every sequence of recv_into fills (each non-empty and fitting the exported view)
   and every size hint; the rest must be inside the buffered band (payload + separator < limit). The junk contains a limit
   error whenever the skipped frame cannot fit the buffer. False of the code before the fix (F1). *)
Theorem resync_after_overrun_buffered :
  forall (P : Type) (sep : bytes) (keep_end : bool) (dec : decoder P) (limit sizehint : nat),
    sep <> [] -> length sep + 1 <= limit ->
    forall (u rest : bytes) (fills : list bytes) (fuel : nat),
      find0 sep (u ++ sep) = Some (length u) ->
      safe sep (limit - 1 - length sep) rest ->
      concat fills = u ++ sep ++ rest -> length (concat fills) < fuel ->
      fills_fit (bru_framer sep limit keep_end dec) sizehint fuel (bcinit _) fills ->
      exists c' junk,
        bcfills (bru_framer sep limit keep_end dec) sizehint fuel (bcinit _) fills =
          (c', junk ++ fst (spec_events sep keep_end dec rest)) /\
        junk <> [] /\ (limit < length u + length sep -> In (RErr ELimit) junk).
Proof.
  intros P sep keep_end dec limit sizehint Hne Hl u rest fills fuel.
  exact (resync_buffered_l sep keep_end dec Hne limit sizehint u rest fills fuel Hl).
Qed.
Print Assumptions resync_after_overrun_buffered.

(* the witness of F1, on the repaired model: limit 10, CRLF, "abcdefgh\r" then "\nhello\r\n" *)
Example resync_buffered_f1_witness :
  let dec := fun b : bytes => Some b in
  snd (bcfills (bru_framer [13; 10]%N 10 false dec) 64 60 (bcinit _)
         [[97; 98; 99; 100; 101; 102; 103; 104; 13]; [10; 104; 101; 108; 108; 111; 13; 10]]%N)
  = [RErr ELimit; RPkt []; RPkt [104; 101; 108; 108; 111]%N].
Proof. vm_compute. reflexivity. Qed.

Example resync_example :
  let dec := fun b : bytes => Some b in
  cdeliver (ru_framer [13; 10]%N 4 false dec) 40 (cinit _) [[1; 2; 3; 4; 5; 13]; [10; 7; 13]; [10]]%N
  = (@Build_cstate bytes (ru_framer [13; 10]%N 4 false dec) [] None, [RErr ELimit; RPkt []; RPkt [7%N]]).
Proof. vm_compute. reflexivity. Qed.

(* non-vacuity: a stream with a bad frame in the middle is safe for limit 12 and decodes as stated *)
Example bad_frame_example :
  let dec := fun b : bytes => if forallb (fun x => N.ltb x 128) b then Some b else None in
  spec_events [10%N] false dec ([65; 10] ++ ([200] ++ [10]) ++ [66; 10])%N
  = ([RPkt [65%N]; RErr EDecode; RPkt [66%N]], []).
Proof. vm_compute. reflexivity. Qed.
