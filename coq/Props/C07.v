(* C07 — receive buffering is bounded by the configured limit (separator-framed readers, copying path fully;
   buffer-filling path: the allocation is the bound by construction, acceptance proved in the safe band). *)
From Coq Require Import List Arith.
From EN Require Import Lib.Bytes Frame.Framer Frame.ReadUntil Frame.BufReadUntil Stream.Consumer Stream.SpecDecode
  Proofs.ReadUntil_proofs Proofs.C07_proofs.
Import ListNotations.

(* Whatever bytes arrive, in whatever non-empty chunks (no assumption on the stream at all: oversized, malformed,
   unterminated), after each receive round the copying consumer holds no leftover buffer and its suspended generator
   holds a separator-free tail of at most limit + seplen - 1 bytes: a peer that never completes a frame cannot make
   the receiver keep more than the limit plus one separator between reads (plus the read itself during a call). *)
Theorem held_bound_copying :
  forall (P : Type) (sep : bytes) (limit : nat) (keep_end : bool) (dec : decoder P),
    sep <> [] ->
    forall (chunks : list bytes) (fuel : nat),
      Forall (fun ch => ch <> []) chunks -> length (concat chunks) < fuel ->
      exists c' evs,
        cdeliver (ru_framer sep limit keep_end dec) fuel (cinit _) chunks = (c', evs) /\
        cbuf c' = [] /\
        match ccons c' with
        | Some (Some (buf, _)) => length buf + 1 <= limit + length sep /\ find0 sep buf = None
        | _ => True
        end.
Proof. intros P sep limit keep_end dec Hne chunks fuel. exact (held_bound_copying_l sep limit keep_end dec Hne chunks fuel). Qed.
Print Assumptions held_bound_copying.

(* Unterminated data longer than limit + seplen - 1 always raises the limit error, whatever the chunking. *)
Theorem overrun_is_raised_copying :
  forall (P : Type) (sep : bytes) (limit : nat) (keep_end : bool) (dec : decoder P),
    sep <> [] ->
    forall (chunks : list bytes) (fuel : nat),
      Forall (fun ch => ch <> []) chunks ->
      find0 sep (concat chunks) = None ->
      limit + length sep < length (concat chunks) + 1 ->
      exists c' evs, cdeliver (ru_framer sep limit keep_end dec) fuel (cinit _) chunks = (c', RErr ELimit :: evs).
Proof. intros P sep limit keep_end dec Hne chunks fuel. exact (overrun_raised_l sep limit keep_end dec Hne chunks fuel). Qed.
Print Assumptions overrun_is_raised_copying.

(* Conversely a stream all of whose frames are within the limit (copying path: payload <= limit) is never rejected
   for its size, whatever the chunking: no limit error among the delivered events. *)
Theorem safe_never_rejected_copying :
  forall (P : Type) (sep : bytes) (limit : nat) (keep_end : bool) (dec : decoder P),
    sep <> [] ->
    forall (chunks : list bytes) (fuel : nat),
      Forall (fun ch => ch <> []) chunks -> safe sep limit (concat chunks) -> length (concat chunks) < fuel ->
      exists c' evs, cdeliver (ru_framer sep limit keep_end dec) fuel (cinit _) chunks = (c', evs) /\ ~ In (RErr ELimit) evs.
Proof. intros P sep limit keep_end dec Hne chunks fuel. exact (safe_never_rejected_copying_l sep limit keep_end dec Hne chunks fuel). Qed.
Print Assumptions safe_never_rejected_copying.

(* Buffer-filling path: frames with payload + separator < limit are never rejected, for every delivery pattern and
   buffer-size hint. *)
Theorem safe_never_rejected_buffered :
  forall (P : Type) (sep : bytes) (limit sizehint : nat) (keep_end : bool) (dec : decoder P),
    sep <> [] -> length sep + 1 <= limit ->
    forall (chunks : list bytes) (fuel : nat),
      safe sep (limit - 1 - length sep) (concat chunks) -> length (concat chunks) < fuel ->
      exists c' evs, bcdeliver (bru_framer sep limit keep_end dec) sizehint fuel (bcinit _) chunks = (c', evs) /\
                     ~ In (RErr ELimit) evs.
Proof. intros P sep limit sizehint keep_end dec Hne Hl chunks fuel. exact (safe_never_rejected_buffered_l sep limit sizehint keep_end dec Hne Hl chunks fuel). Qed.
Print Assumptions safe_never_rejected_buffered.

(* Buffer-filling path, ANY input: for every sequence of recv_into fills (non-empty, fitting the exported view) the buffer is
   the limit-byte allocation made once, and after each round the suspended generator holds at most limit - 2 bytes. *)
Theorem held_bound_buffered :
  forall (P : Type) (sep : bytes) (limit sizehint : nat) (keep_end : bool) (dec : decoder P),
    sep <> [] -> length sep + 1 <= limit ->
    forall (fills : list bytes) (fuel : nat),
      length (concat fills) < fuel ->
      fills_fit (bru_framer sep limit keep_end dec) sizehint fuel (bcinit _) fills ->
      exists c' evs,
        bcfills (bru_framer sep limit keep_end dec) sizehint fuel (bcinit _) fills = (c', evs) /\
        match bmem c' with Some m => length m = limit | None => True end /\
        match bcons c' with Some (buflen, _) => buflen + 2 <= limit | None => True end.
Proof. intros P sep limit sizehint keep_end dec Hne Hl fills fuel. exact (held_bound_buffered_l sep limit sizehint keep_end dec Hne Hl fills fuel). Qed.
Print Assumptions held_bound_buffered.

(* Buffer-filling path: unterminated data of limit - 1 bytes or more always raises the limit error. *)
Theorem overrun_is_raised_buffered :
  forall (P : Type) (sep : bytes) (limit sizehint : nat) (keep_end : bool) (dec : decoder P),
    sep <> [] -> length sep + 1 <= limit ->
    forall (fills : list bytes) (fuel : nat),
      find0 sep (concat fills) = None -> limit < length (concat fills) + 2 -> length (concat fills) < fuel ->
      fills_fit (bru_framer sep limit keep_end dec) sizehint fuel (bcinit _) fills ->
      exists c' evs, bcfills (bru_framer sep limit keep_end dec) sizehint fuel (bcinit _) fills = (c', RErr ELimit :: evs).
Proof. intros P sep limit sizehint keep_end dec Hne Hl fills fuel. exact (overrun_raised_buffered_l sep limit sizehint keep_end dec Hne Hl fills fuel). Qed.
Print Assumptions overrun_is_raised_buffered.

(* non-vacuity / tightness witnesses *)
Example overrun_witness :
  exists c' evs, cdeliver (ru_framer [10%N] 3 false (fun b : bytes => Some b)) 20 (cinit _) [[1; 2]; [3; 4]; [5]]%N
                 = (c', RErr ELimit :: evs).
Proof. eexists; eexists. vm_compute. reflexivity. Qed.
