(* C07 — receive buffering is bounded by the configured limit (separator-framed readers, copying path fully;
   buffer-filling path: the allocation is the bound by construction, acceptance proved in the safe band). *)
From Coq Require Import List Arith ZArith NArith Lia ZifyBool ZifyN ZifyNat.
From EN Require Gen.ParamsC07.
From EN Require Import Lib.Bytes Frame.Framer Frame.ReadUntil Frame.BufReadUntil Frame.JsonRaw Frame.Generic
  Stream.Consumer Stream.SpecDecode Proofs.ReadUntil_proofs Proofs.C07_proofs Proofs.C06_progress Proofs.C07_extra.
Import ListNotations.

(* Whatever bytes arrive, in whatever non-empty chunks (no assumption on the stream at all: oversized, malformed,
   unterminated), after each receive round the copying consumer holds no leftover buffer and its suspended generator
   holds a separator-free tail of at most limit + seplen - 1 bytes: a peer that never completes a frame cannot make
   the receiver keep more than the limit plus one separator between reads (plus the read itself during a call). *)
Theorem held_bound_copying :
  forall (P : Type) (sep : bytes) (limit : nat) (keep_end : bool) (dec : decoder P),
    sep <> [] ->
    forall (chunks : list bytes) (fuel : nat),
      Forall (fun ch => ch <> []) chunks -> length (concat chunks) < fuel ->
      exists c' evs,
        cdeliver (ru_framer sep limit keep_end dec) fuel (cinit _) chunks = (c', evs) /\
        cbuf c' = [] /\
        match ccons c' with
        | Some (Some (buf, _)) => length buf + 1 <= limit + length sep /\ find0 sep buf = None
        | _ => True
        end.
Proof. intros P sep limit keep_end dec Hne chunks fuel. exact (held_bound_copying_l sep limit keep_end dec Hne chunks fuel). Qed.
Print Assumptions held_bound_copying.

(* Unterminated data longer than limit + seplen - 1 always raises the limit error, whatever the chunking. *)
Theorem overrun_is_raised_copying :
  forall (P : Type) (sep : bytes) (limit : nat) (keep_end : bool) (dec : decoder P),
    sep <> [] ->
    forall (chunks : list bytes) (fuel : nat),
      Forall (fun ch => ch <> []) chunks ->
      find0 sep (concat chunks) = None ->
      limit + length sep < length (concat chunks) + 1 ->
      exists c' evs, cdeliver (ru_framer sep limit keep_end dec) fuel (cinit _) chunks = (c', RErr ELimit :: evs).
Proof. intros P sep limit keep_end dec Hne chunks fuel. exact (overrun_raised_l sep limit keep_end dec Hne chunks fuel). Qed.
Print Assumptions overrun_is_raised_copying.

(* Conversely a stream all of whose frames are within the limit (copying path: payload <= limit) is never rejected
   for its size, whatever the chunking: no limit error among the delivered events. *)
Theorem safe_never_rejected_copying :
  forall (P : Type) (sep : bytes) (limit : nat) (keep_end : bool) (dec : decoder P),
    sep <> [] ->
    forall (chunks : list bytes) (fuel : nat),
      Forall (fun ch => ch <> []) chunks -> safe sep limit (concat chunks) -> length (concat chunks) < fuel ->
      exists c' evs, cdeliver (ru_framer sep limit keep_end dec) fuel (cinit _) chunks = (c', evs) /\ ~ In (RErr ELimit) evs.
Proof. intros P sep limit keep_end dec Hne chunks fuel. exact (safe_never_rejected_copying_l sep limit keep_end dec Hne chunks fuel). Qed.
Print Assumptions safe_never_rejected_copying.

(* Buffer-filling path: frames with payload + separator < limit are never rejected, for every delivery pattern and
   buffer-size hint. *)
Theorem safe_never_rejected_buffered :
  forall (P : Type) (sep : bytes) (limit sizehint : nat) (keep_end : bool) (dec : decoder P),
    sep <> [] -> length sep + 1 <= limit ->
    forall (chunks : list bytes) (fuel : nat),
      safe sep (limit - 1 - length sep) (concat chunks) -> length (concat chunks) < fuel ->
      exists c' evs, bcdeliver (bru_framer sep limit keep_end dec) sizehint fuel (bcinit _) chunks = (c', evs) /\
                     ~ In (RErr ELimit) evs.
Proof. intros P sep limit sizehint keep_end dec Hne Hl chunks fuel. exact (safe_never_rejected_buffered_l sep limit sizehint keep_end dec Hne Hl chunks fuel). Qed.
Print Assumptions safe_never_rejected_buffered.

(* Buffer-filling path, ANY input: for every sequence of recv_into fills (non-empty, fitting the exported view) the buffer is
   the limit-byte allocation made once, and after each round the suspended generator holds at most limit - 2 bytes. *)
Theorem held_bound_buffered :
  forall (P : Type) (sep : bytes) (limit sizehint : nat) (keep_end : bool) (dec : decoder P),
    sep <> [] -> length sep + 1 <= limit ->
    forall (fills : list bytes) (fuel : nat),
      length (concat fills) < fuel ->
      fills_fit (bru_framer sep limit keep_end dec) sizehint fuel (bcinit _) fills ->
      exists c' evs,
        bcfills (bru_framer sep limit keep_end dec) sizehint fuel (bcinit _) fills = (c', evs) /\
        match bmem c' with Some m => length m = limit | None => True end /\
        match bcons c' with Some (buflen, _) => buflen + 2 <= limit | None => True end.
Proof. intros P sep limit sizehint keep_end dec Hne Hl fills fuel. exact (held_bound_buffered_l sep limit sizehint keep_end dec Hne Hl fills fuel). Qed.
Print Assumptions held_bound_buffered.

(* Buffer-filling path: unterminated data of limit - 1 bytes or more always raises the limit error. *)
Theorem overrun_is_raised_buffered :
  forall (P : Type) (sep : bytes) (limit sizehint : nat) (keep_end : bool) (dec : decoder P),
    sep <> [] -> length sep + 1 <= limit ->
    forall (fills : list bytes) (fuel : nat),
      find0 sep (concat fills) = None -> limit < length (concat fills) + 2 -> length (concat fills) < fuel ->
      fills_fit (bru_framer sep limit keep_end dec) sizehint fuel (bcinit _) fills ->
      exists c' evs, bcfills (bru_framer sep limit keep_end dec) sizehint fuel (bcinit _) fills = (c', RErr ELimit :: evs).
Proof. intros P sep limit sizehint keep_end dec Hne Hl fills fuel. exact (overrun_raised_buffered_l sep limit sizehint keep_end dec Hne Hl fills fuel). Qed.
Print Assumptions overrun_is_raised_buffered.

(* ======================= raw JSON (JSONSerializer(use_lines=False), _JSONParser.raw_parse) ======================= *)

(* For ANY chunk list, after each receive round the copying consumer has no leftover buffer and the suspended raw_parse
   holds at most [limit] bytes (+ the current read while a call is running), in both phases. *)
Theorem held_bound_json :
  forall (P : Type) (limit : nat) (dec : decoder P) (chunks : list bytes) (fuel : nat),
    Forall (fun ch => ch <> []) chunks -> length (concat chunks) <= fuel ->
    exists c' evs,
      cdeliver (json_framer limit dec) fuel (cinit _) chunks = (c', evs) /\ cbuf c' = [] /\
      match ccons c' with
      | Some (JEnc doc _) | Some (JPlain doc) => length doc <= limit
      | _ => True
      end.
Proof. intros P limit dec chunks fuel. exact (json_held_bound_l limit dec chunks fuel). Qed.
Print Assumptions held_bound_json.

(* An enclosure that never closes (also: whitespace only): limit error on the read that takes the received data beyond
   [limit] bytes, for every chunking. *)
Theorem overrun_is_raised_json :
  forall (P : Type) (limit : nat) (dec : decoder P) (chunks : list bytes) (fuel : nat) (c : jcount),
    Forall (fun ch => ch <> []) chunks ->
    jscan [] (concat chunks) jcount0 = JSMore c -> limit < length (concat chunks) ->
    exists c' evs, cdeliver (json_framer limit dec) fuel (cinit _) chunks = (c', RErr ELimit :: evs).
Proof. intros P limit dec chunks fuel c. exact (json_overrun_raised_l limit dec chunks fuel c). Qed.
Print Assumptions overrun_is_raised_json.

(* A plain value (number / literal) that never ends: limit error once the value itself exceeds [limit]. *)
Theorem overrun_is_raised_json_plain :
  forall (P : Type) (limit : nat) (dec : decoder P) (chunks : list bytes) (fuel off : nat),
    Forall (fun ch => ch <> []) chunks ->
    jscan [] (concat chunks) jcount0 = JSPlain off -> find_nonvalue (skipn off (concat chunks)) = None ->
    limit < length (concat chunks) - off ->
    exists c' evs, cdeliver (json_framer limit dec) fuel (cinit _) chunks = (c', RErr ELimit :: evs).
Proof. intros P limit dec chunks fuel off. exact (json_overrun_raised_plain_l limit dec chunks fuel off). Qed.
Print Assumptions overrun_is_raised_json_plain.

(* A document whose closing byte is among the first [limit] bytes is never rejected for its size, whatever the chunking
   and whatever follows it in the same read. *)
Theorem safe_never_rejected_json :
  forall (P : Type) (limit : nat) (dec : decoder P) (chunks : list bytes) (fuel n : nat),
    Forall (fun ch => ch <> []) chunks ->
    jscan [] (concat chunks) jcount0 = JSClosed n -> n <= limit ->
    exists c' r evs, cdeliver (json_framer limit dec) fuel (cinit _) chunks = (c', r :: evs) /\ r <> RErr ELimit /\ r <> RStop.
Proof. intros P limit dec chunks fuel n. exact (json_safe_never_rejected_l limit dec chunks fuel n). Qed.
Print Assumptions safe_never_rejected_json.

(* Plain value: band = leading whitespace <= limit and value length <= limit. *)
Theorem safe_never_rejected_json_plain :
  forall (P : Type) (limit : nat) (dec : decoder P) (chunks : list bytes) (fuel off idx : nat),
    Forall (fun ch => ch <> []) chunks ->
    jscan [] (concat chunks) jcount0 = JSPlain off -> find_nonvalue (skipn off (concat chunks)) = Some idx ->
    off <= limit -> idx <= limit ->
    exists c' r evs, cdeliver (json_framer limit dec) fuel (cinit _) chunks = (c', r :: evs) /\ r <> RErr ELimit /\ r <> RStop.
Proof. intros P limit dec chunks fuel off idx. exact (json_safe_never_rejected_plain_l limit dec chunks fuel off idx). Qed.
Print Assumptions safe_never_rejected_json_plain.

(* ======================= file based (FileBasedPacketSerializer through the generic wrapper) ======================= *)
(* the loader (load_from_file) is arbitrary; hypotheses = it reports a position inside the buffer on EOF and consumes
   at least one byte when it returns or raises *)
Theorem held_bound_filebased :
  forall (P : Type) (limit : nat) (load : bytes -> lres P) (expected : Z -> bool),
    (forall content pos, load content = LEof pos -> pos <= length content) ->
    (forall content p pos, load content = LDone p pos -> 1 <= pos) ->
    (forall content k pos, load content = LRaise k pos -> 1 <= pos) ->
    forall (chunks : list bytes) (fuel : nat),
      Forall (fun ch => ch <> []) chunks -> length (concat chunks) <= fuel ->
      exists c' evs,
        cdeliver (wrap_generic (fb_framer limit load expected)) fuel (cinit _) chunks = (c', evs) /\ cbuf c' = [] /\
        match ccons c' with Some (Some (content, _)) => length content <= limit | _ => True end.
Proof. intros P limit load expected H1 H2 H3 chunks fuel. exact (fb_held_bound_l limit load expected H1 H2 H3 chunks fuel). Qed.
Print Assumptions held_bound_filebased.

(* A record that never completes: limit error on the read that takes the accumulated data beyond [limit]. *)
Theorem overrun_is_raised_filebased :
  forall (P : Type) (limit : nat) (load : bytes -> lres P) (expected : Z -> bool) (chunks : list bytes) (fuel : nat),
    Forall (fun ch => ch <> []) chunks ->
    (forall k, k <= length (concat chunks) -> load (firstn k (concat chunks)) = LEof k) ->
    limit < length (concat chunks) ->
    exists c' evs, cdeliver (wrap_generic (fb_framer limit load expected)) fuel (cinit _) chunks = (c', RErr ELimit :: evs).
Proof. intros P limit load expected chunks fuel. exact (fb_overrun_raised_l limit load expected chunks fuel). Qed.
Print Assumptions overrun_is_raised_filebased.

(* No limit error while everything received since the previous event fits in [limit]. (Cut dependent above that: what is
   checked is the accumulated buffer = record + whatever arrived in the same reads; Example fb_limit_depends_on_the_read.) *)
Theorem safe_never_rejected_filebased :
  forall (P : Type) (limit : nat) (load : bytes -> lres P) (expected : Z -> bool),
    (forall content pos, load content = LEof pos -> pos <= length content) ->
    forall (chunks : list bytes) (fuel : nat) r,
      Forall (fun ch => ch <> []) chunks -> length (concat chunks) <= limit ->
      first_event (wrap_generic (fb_framer limit load expected)) None chunks = Some r ->
      exists c' evs, cdeliver (wrap_generic (fb_framer limit load expected)) fuel (cinit _) chunks
                     = (c', nres_of (wrap_generic (fb_framer limit load expected)) r :: evs) /\
                     nres_of (wrap_generic (fb_framer limit load expected)) r <> RErr ELimit.
Proof. intros P limit load expected H1 chunks fuel r. exact (fb_safe_never_rejected_l limit load expected H1 chunks fuel r). Qed.
Print Assumptions safe_never_rejected_filebased.

(* The receive buffers of the model have the sizes the source allocates: the allocation functions below are REGENERATED
   from the bodies of create_deserializer_buffer on every run (Gen/ParamsC07.v).  In particular the separator-framed
   serializers allocate exactly [limit] bytes whatever the size hint (so the buffer-filling theorems above, stated for a
   buffer of [limit] bytes, speak about the buffer the code uses). *)
Theorem receive_buffer_sizes_match_source :
  forall (P : Type) (sep : bytes) (limit size hint : nat) (ke : bool) (dec : decoder P),
    N.of_nat (balloc (bru_framer sep limit ke dec) hint) = Gen.ParamsC07.autosep_alloc (N.of_nat hint) (N.of_nat limit)
    /\ N.of_nat (balloc (bru_framer sep limit ke dec) hint) = Gen.ParamsC07.line_alloc (N.of_nat hint) (N.of_nat limit)
    /\ N.of_nat (balloc (bfx_framer size dec) hint) = Gen.ParamsC07.fixed_alloc (N.of_nat hint) (N.of_nat size)
    /\ N.of_nat (fb_alloc limit hint) = Gen.ParamsC07.filebased_alloc (N.of_nat hint) (N.of_nat limit)
    /\ N.of_nat (cz_alloc hint) = Gen.ParamsC07.compressor_alloc (N.of_nat hint) (N.of_nat limit).
Proof.
  intros P sep limit size hint ke dec.
  unfold Gen.ParamsC07.autosep_alloc, Gen.ParamsC07.line_alloc, Gen.ParamsC07.fixed_alloc,
         Gen.ParamsC07.filebased_alloc, Gen.ParamsC07.compressor_alloc, fb_alloc, cz_alloc.
  cbn [balloc bru_framer bfx_framer].
  repeat split; repeat match goal with |- context [if ?c then _ else _] => destruct c eqn:? end; lia.
Qed.
Print Assumptions receive_buffer_sizes_match_source.

(* non-vacuity / tightness witnesses *)
Example overrun_witness :
  exists c' evs, cdeliver (ru_framer [10%N] 3 false (fun b : bytes => Some b)) 20 (cinit _) [[1; 2]; [3; 4]; [5]]%N
                 = (c', RErr ELimit :: evs).
Proof. eexists; eexists. vm_compute. reflexivity. Qed.
