From EN Require Import Lib.Bytes.
Theorem placeholder_c07 : True. Proof. exact I. Qed.
Print Assumptions placeholder_c07.
