(* C06 -- theorems are added below as their proofs land in Proofs/C06_*.v *)
From EN Require Import Lib.Bytes Run.C06.
Theorem placeholder_c06 : True. Proof. exact I. Qed.
Print Assumptions placeholder_c06.
