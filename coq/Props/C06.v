(* C06 -- malformed network input only ever surfaces as a parse error.
   Statements in full; proofs in Proofs/C06_nocrash.v, C06_progress.v, C06_buffered.v. *)
From Coq Require Import ZArith List Bool Lia Arith.
From EN Require Import Lib.Bytes Frame.Framer Frame.ReadUntil Frame.BufReadUntil Frame.JsonRaw Frame.ErrSites Frame.Generic
  Stream.Consumer Gen.ParamsC06 Run.C06 Proofs.C06_nocrash Proofs.C06_progress Proofs.C06_buffered Proofs.C06_bufloop Proofs.C06_suffix Proofs.C06_main.
Import ListNotations.

(* ------------------------------------------------------------------------------------------------------------------
   (i) parse_total.  Every framer / consumer is a total Coq function into Need | Done | Fail | Crash (resp. RPkt | RErr |
   RStop | RCrash): that part is the typing of Frame/*.v and Stream/Consumer.v.  What is proved here is where Crash can
   come from: never from the hand-written scanners, only from an inner library call that answers with a class that
   the except clause guarding it does not name.
   ------------------------------------------------------------------------------------------------------------------ *)
Theorem parse_total_scanners :
  (forall P sep limit ke (dec : decoder P) st chunk, ffeed (ru_framer sep limit ke dec) st chunk <> Crash) /\
  (forall P size (dec : decoder P) st chunk, ffeed (rx_framer size dec) st chunk <> Crash) /\
  (forall limit st chunk, ffeed (jraw_framer limit) st chunk <> Crash) /\
  (forall P limit (dec : decoder P) st chunk, ffeed (json_framer limit dec) st chunk <> Crash) /\
  (forall P sep limit ke (dec : decoder P) st mem n, bfeed (bru_framer sep limit ke dec) st mem n <> BCrash) /\
  (forall P size (dec : decoder P) st mem n, bfeed (bfx_framer size dec) st mem n <> BCrash).
Proof. exact parse_total_scanners_pf. Qed.
Print Assumptions parse_total_scanners.

(* a Crash of the separator / fixed-size / raw-JSON deserializers (copying and buffer-filling) exhibits a payload on
   which the one-shot codec g raised a class k outside [declared] *)
Theorem parse_total_crash_origin :
  forall P (declared : list Z) (g : bytes -> ores P),
  (forall sep limit ke st chunk,
      ffeed (lift_framer (ru_framer sep limit ke (dec_of_ores declared g))) st chunk = Crash ->
      exists x k, g x = ORaise k /\ memZ k declared = false) /\
  (forall size st chunk,
      ffeed (lift_framer (rx_framer size (dec_of_ores declared g))) st chunk = Crash ->
      exists x k, g x = ORaise k /\ memZ k declared = false) /\
  (forall limit st chunk,
      ffeed (lift_framer (json_framer limit (dec_of_ores declared g))) st chunk = Crash ->
      exists x k, g x = ORaise k /\ memZ k declared = false) /\
  (forall sep limit ke st mem n,
      bfeed (lift_bframer (bru_framer sep limit ke (dec_of_ores declared g))) st mem n = BCrash ->
      exists x k, g x = ORaise k /\ memZ k declared = false) /\
  (forall size st mem n,
      bfeed (lift_bframer (bfx_framer size (dec_of_ores declared g))) st mem n = BCrash ->
      exists x k, g x = ORaise k /\ memZ k declared = false).
Proof. exact parse_total_crash_origin_pf. Qed.
Print Assumptions parse_total_crash_origin.

(* the generic deserializers: a Crash exhibits a loader / decompressor / inner serializer answer outside the expected set *)
Theorem parse_total_generic :
  (forall P limit (load : bytes -> lres P) expected st chunk,
      ffeed (fb_framer limit load expected) st chunk = Crash ->
      exists content k pos, load content = LRaise k pos /\ expected k = false) /\
  (forall P D dnew (dd : D -> bytes -> (D * bytes) + Z) deof dunused expected (inner : bytes -> ores P) inner_declared st chunk,
      ffeed (cz_framer D dnew dd deof dunused expected inner inner_declared) st chunk = Crash ->
      (exists d c k, dd d c = inr k /\ expected k = false) \/
      (exists x k, inner x = ORaise k /\ inner_declared k = false)) /\
  (forall P (F : framer P) s c, ffeed (wrap_generic F) s c = Crash <-> ffeed F s c = Crash) /\
  (forall P (F : framer P) alloc s m n, bfeed (bwrap_generic F alloc) s m n = BCrash <-> ffeed F s (firstn n m) = Crash).
Proof. exact parse_total_generic_pf. Qed.
Print Assumptions parse_total_generic.

(* ------------------------------------------------------------------------------------------------------------------
   (ii) no_crash_if_declared.
   ------------------------------------------------------------------------------------------------------------------ *)
(* framer level: if the one-shot codec only raises classes of [declared], no Crash is reachable from any state *)
Theorem no_crash_if_declared :
  forall P (declared : list Z) (g : bytes -> ores P), all_declared declared g ->
  (forall sep limit ke st chunk, ffeed (lift_framer (ru_framer sep limit ke (dec_of_ores declared g))) st chunk <> Crash) /\
  (forall size st chunk, ffeed (lift_framer (rx_framer size (dec_of_ores declared g))) st chunk <> Crash) /\
  (forall limit st chunk, ffeed (lift_framer (json_framer limit (dec_of_ores declared g))) st chunk <> Crash) /\
  (forall sep limit ke st mem n, bfeed (lift_bframer (bru_framer sep limit ke (dec_of_ores declared g))) st mem n <> BCrash) /\
  (forall size st mem n, bfeed (lift_bframer (bfx_framer size (dec_of_ores declared g))) st mem n <> BCrash).
Proof. exact no_crash_if_declared_pf. Qed.
Print Assumptions no_crash_if_declared.

Theorem no_crash_if_declared_generic :
  (forall P limit (load : bytes -> lres P) expected,
      (forall content k pos, load content = LRaise k pos -> expected k = true) ->
      forall st chunk, ffeed (wrap_generic (fb_framer limit load expected)) st chunk <> Crash) /\
  (forall P D dnew (dd : D -> bytes -> (D * bytes) + Z) deof dunused expected (inner : bytes -> ores P) inner_declared,
      (forall d c k, dd d c = inr k -> expected k = true) ->
      (forall x k, inner x = ORaise k -> inner_declared k = true) ->
      forall st chunk, ffeed (wrap_generic (cz_framer D dnew dd deof dunused expected inner inner_declared)) st chunk <> Crash).
Proof. exact no_crash_if_declared_generic_pf. Qed.
Print Assumptions no_crash_if_declared_generic.

(* from library answers to [all_declared]: H_declared says that every exception a library raises at call site s is
   caught by one of the handlers of the try statement guarding that site; then what leaves the method is a declared
   class, provided every handler of the table raises a declared class *)
Theorem declared_answers_give_declared_codec :
  forall P (declared : list Z) own (sites : list trysite) (tab : bytes -> ans P),
  sites_ok declared sites = true -> memZ own declared = true ->
  (forall x s k, tab x = ARaise s k -> caught_at sites s k = true) ->
  all_declared declared (fun x => handle own sites (tab x)).
Proof. exact declared_answers_give_declared_codec_pf. Qed.
Print Assumptions declared_answers_give_declared_codec.

(* the tables regenerated from /repo's except clauses: every handler of every deserializer raises a class that its caller
   turns into a parse error (one-shot: DeserializeError family; stream protocols: what build_packet_from_chunks /
   build_packet_from_buffer convert to StreamProtocolParseError; datagram: DatagramProtocolParseError).
   Finite table, checked completely by vm_compute. *)
Theorem declared_sites_sound :
  sites_ok deserialize_codes (json_oneshot ++ line_oneshot ++ struct_oneshot ++ namedtuple_from_tuple ++ base64_oneshot ++ pickle_oneshot) = true /\
  forallb (fun k => memZ k deserialize_codes) [c_DeserializeError; fb_oneshot_eof_raised; fb_oneshot_raised; cz_oneshot_raised] = true /\
  sites_ok stream_declared (json_incr ++ line_incr ++ [fixed_incr; autosep_incr; cz_incr_inner]) = true /\
  sites_ok bstream_declared (line_buf ++ [fixed_buf; autosep_buf; cz_incr_inner]) = true /\
  forallb (fun k => memZ k stream_declared && memZ k bstream_declared) [fb_incr_raised; cz_incr_raised] = true /\
  (* the handler around self.deserialize(data) of the base classes turns the whole DeserializeError family into a class
     the stream protocol converts (stated on the effect of the try statement, so that it reads the same on a table
     obtained from the AST and on one obtained by probing the real method) *)
  forallb (fun k => forallb (fun t => memZ (through_try t k) stream_declared) [fixed_incr; autosep_incr; cz_incr_inner]) deserialize_codes = true /\
  forallb (fun k => forallb (fun t => memZ (through_try t k) bstream_declared) [fixed_buf; autosep_buf; cz_incr_inner]) deserialize_codes = true /\
  forallb (fun k => Z.eqb (through_try dgram_protocol k) c_DatagramProtocolParseError) deserialize_codes = true.
Proof. exact declared_sites_sound_pf. Qed.
Print Assumptions declared_sites_sound.

(* the flagship instance, closed: JSONSerializer (raw mode) through StreamProtocol and StreamDataConsumer, with the
   regenerated tables: if str() and JSONDecoder.decode only raise classes their except clauses name, no chunking of no
   input makes the consumer raise RuntimeError *)
Theorem json_consumer_no_crash_if_declared :
  forall limit (tab : bytes -> ans pk),
  (forall x, tab x <> ABad) ->
  (forall x s k, tab x = ARaise s k -> caught_at json_incr s k = true) ->
  let F := lift_framer (json_framer limit (dec_of_ores stream_declared (fun x => handle c_DeserializeError json_incr (tab x)))) in
  forall fuel chunks, Forall (fun r => r <> RCrash) (snd (cdeliver F fuel (cinit F) chunks)).
Proof. exact json_consumer_no_crash_if_declared_pf. Qed.
Print Assumptions json_consumer_no_crash_if_declared.

(* consumer level, any framer: no RCrash event for any chunk list *)
Theorem consumer_no_crash :
  forall P (F : framer P), (forall s c, ffeed F s c <> Crash) ->
  forall fuel chunks c, Forall (fun r => r <> RCrash) (snd (cdeliver F fuel c chunks)).
Proof. exact consumer_no_crash_pf. Qed.
Print Assumptions consumer_no_crash.

(* ------------------------------------------------------------------------------------------------------------------
   (iii) error_makes_progress: with [held s] = the bytes a suspended generator keeps, every Done and every Fail leaves
   strictly fewer bytes than it was given since its previous event (held s + length chunk); Need keeps at most that.
   ------------------------------------------------------------------------------------------------------------------ *)
Theorem error_makes_progress :
  (forall P sep limit ke (dec : decoder P), 1 <= length sep -> progressive (ru_framer sep limit ke dec) ru_held) /\
  (forall P size (dec : decoder P), 1 <= size -> progressive (rx_framer size dec) rx_held) /\
  (forall P limit (dec : decoder P), progressive (json_framer limit dec) j_held) /\
  (forall P limit (load : bytes -> lres P) expected,
      (forall content pos, load content = LEof pos -> pos <= length content) ->
      (forall content p pos, load content = LDone p pos -> 1 <= pos) ->
      (forall content k pos, load content = LRaise k pos -> 1 <= pos) ->
      progressive (fb_framer limit load expected) fb_held) /\
  (forall P D dnew (dd : D -> bytes -> (D * bytes) + Z) deof dunused expected (inner : bytes -> ores P) inner_declared,
      (forall d c d' out, dd d c = inl (d', out) -> deof d' = true -> length (dunused d') < length c) ->
      progressive (cz_framer D dnew dd deof dunused expected inner inner_declared) (fun _ => 0)) /\
  (forall P (F : framer P) held, progressive F held -> progressive (wrap_generic F) held) /\
  (forall P (F : framer (epkt P)) held, progressive F held -> progressive (lift_framer F) held).
Proof. exact error_makes_progress_pf. Qed.
Print Assumptions error_makes_progress.

Theorem error_makes_progress_buffered :
  (forall P sep limit ke (dec : decoder P) st mem n, 1 <= length sep ->
      match bfeed (bru_framer sep limit ke dec) st mem n with
      | BNeed (buflen', _) start => buflen' = fst st + n /\ start = fst st + n
      | BDone _ rest | BFail _ rest => length rest < fst st + n
      | BCrash => False
      end) /\
  (forall P size (dec : decoder P) nread mem n, 1 <= size ->
      match bfeed (bfx_framer size dec) nread mem n with
      | BNeed nread' start => nread' = nread + n /\ start = nread + n
      | BDone _ rest | BFail _ rest => length rest < nread + n
      | BCrash => False
      end) /\
  (forall P (F : framer P) held alloc, progressive F held ->
      forall s mem n, 1 <= n -> n <= length mem ->
      match bfeed (bwrap_generic F alloc) s mem n with
      | BNeed s' start => held s' <= held s + n /\ start = 0
      | BDone _ rest | BFail _ rest => length rest < held s + n
      | BCrash => True
      end).
Proof. exact error_makes_progress_buffered_pf. Qed.
Print Assumptions error_makes_progress_buffered.

(* ------------------------------------------------------------------------------------------------------------------
   skip_errors_terminates (copying consumer): a receive loop that keeps calling next() whatever it returns produces,
   over the whole chunk list, at most as many events (packets + errors + crashes) as it received bytes; what is still
   buffered at the end is bounded by the rest; and after each chunk the drain loop has stopped by itself
   (next(None) raises StopIteration) as soon as its fuel covers the backlog -- it never spins.
   ------------------------------------------------------------------------------------------------------------------ *)
Theorem skip_errors_terminates :
  forall P (F : framer P) held, progressive F held ->
  (forall fuel chunks,
      let '(c', evs) := cdeliver F fuel (cinit F) chunks in
      length evs + phi F held c' <= Proofs.C06_progress.total_len chunks) /\
  (forall fuel c (chunk : bytes), phi F held c + length chunk <= fuel ->
      let '(c', _) := cstep F fuel c chunk in snd (cnext F c' None) = RStop).
Proof. exact skip_errors_terminates_pf. Qed.
Print Assumptions skip_errors_terminates.


(* ------------------------------------------------------------------------------------------------------------------
   skip_errors_terminates for BufferedStreamDataConsumer: over any buffer-filling framer whose events make progress
   (bprogressive: _buffered_readuntil, buffered fixed-size, the generic wrapper over any progressive copying framer, and
   their lifted versions), with a non-empty receive buffer: the number of packets + parse errors plus the bytes still
   owed (re-injected remainder + what the suspended generator counts as received) never exceeds the bytes delivered,
   for every chunk list; and the drain loop of a receive round ends with StopIteration (or the round ended in a
   RuntimeError) as soon as the fuel covers the backlog.
   ------------------------------------------------------------------------------------------------------------------ *)
Theorem skip_errors_terminates_buffered :
  (forall P sep limit ke (dec : decoder P), 1 <= length sep -> bprogressive (bru_framer sep limit ke dec) fst) /\
  (forall P size (dec : decoder P), 1 <= size -> bprogressive (bfx_framer size dec) (fun n => n)) /\
  (forall P (F : framer P) held alloc, progressive F held -> bprogressive (bwrap_generic F alloc) held) /\
  (forall P (B : bframer (epkt P)) bh, bprogressive B bh -> bprogressive (lift_bframer B) bh) /\
  (forall P (B : bframer P) (sizehint : nat) (bh : bst_ B -> nat),
      bprogressive B bh -> 1 <= balloc B sizehint ->
      (forall fuel chunks,
          let '(c', evs) := bcdeliver B sizehint fuel (bcinit B) chunks in
          nevents evs + psi B bh c' <= Proofs.C06_progress.total_len chunks) /\
      (forall fuel c (data : bytes), rested_b B c -> psi B bh c + length data < fuel ->
          let '(c', evs, _) := bcstep B sizehint fuel c data in
          In RCrash evs \/ snd (bcnext B sizehint c' None) = RStop)).
Proof. exact skip_errors_terminates_buffered_pf. Qed.
Print Assumptions skip_errors_terminates_buffered.

(* ------------------------------------------------------------------------------------------------------------------
   the unread remainder: what every packet / parse error carries is exactly a suffix of the bytes the parser had been
   given since its previous event (copying: accumulated buffer ++ chunk; buffer-filling: the received prefix of the
   receive buffer; raw JSON: everything received for this document)
   ------------------------------------------------------------------------------------------------------------------ *)
Theorem error_remainder_is_suffix :
  (forall P sep limit ke (dec : decoder P) st chunk,
      event_suffix (ru_acc st ++ chunk) (ffeed (ru_framer sep limit ke dec) st chunk)) /\
  (forall P size (dec : decoder P) st chunk,
      event_suffix (rx_acc st ++ chunk) (ffeed (rx_framer size dec) st chunk)) /\
  (forall P sep limit ke (dec : decoder P) st mem n,
      bevent_suffix (firstn (fst st + n) mem) (bfeed (bru_framer sep limit ke dec) st mem n)) /\
  (forall P size (dec : decoder P) nread mem n,
      bevent_suffix (firstn (nread + n) mem) (bfeed (bfx_framer size dec) nread mem n)) /\
  (forall P limit (dec : decoder P) st chunk,
      event_suffix (j_acc st ++ chunk) (ffeed (json_framer limit dec) st chunk)).
Proof. exact error_remainder_is_suffix_pf. Qed.
Print Assumptions error_remainder_is_suffix.

(* the same for the file-based framer while its loader leaves the file position at the end after each EOFError (an
   invariant kept by such a loader), and for the compressors when unused_data is the tail of the completing chunk *)
Theorem error_remainder_is_suffix_generic :
  (forall P limit (load : bytes -> lres P) expected st chunk, fb_at_end st ->
      event_suffix (fb_acc st ++ chunk) (ffeed (fb_framer limit load expected) st chunk)) /\
  (forall P limit (load : bytes -> lres P) expected st chunk st',
      (forall content pos, load content = LEof pos -> pos = length content) ->
      ffeed (fb_framer limit load expected) st chunk = Need st' -> fb_at_end st') /\
  (forall P D dnew (dd : D -> bytes -> (D * bytes) + Z) deof dunused expected (inner : bytes -> ores P) inner_declared st chunk,
      (forall d c d' out, dd d c = inl (d', out) -> deof d' = true -> suffix_of (dunused d') c) ->
      event_suffix chunk (ffeed (cz_framer D dnew dd deof dunused expected inner inner_declared) st chunk)).
Proof. exact error_remainder_is_suffix_generic_pf. Qed.
Print Assumptions error_remainder_is_suffix_generic.

(* ------------------------------------------------------------------------------------------------------------------
   BufferedStreamDataConsumer.__save_remainder_in_buffer raises ValueError when the remainder is longer than the receive
   buffer (modelled in Run/C06.v as the event [9, 2]).  Through the generic buffered wrapper the generator is sent
   buffer[:nbytes]; the remainder is no longer than that slice -- hence fits -- for a loader that only moves forward
   (after EOF on the previous content it reads into the new slice before it can return or fail) and for a decompressor
   whose unused_data is part of the last slice.
   ------------------------------------------------------------------------------------------------------------------ *)
Theorem remainder_fits_receive_buffer :
  (forall P limit (load : bytes -> lres P) expected st (content ch : bytes),
      st = None /\ content = [] \/ st = Some (content, length content) ->
      (forall p pos, load (content ++ ch) = LDone p pos -> length content <= pos) ->
      (forall k pos, load (content ++ ch) = LRaise k pos -> length content <= pos) ->
      match ffeed (fb_framer limit load expected) st ch with
      | Done _ rest | Fail _ rest => length rest <= length ch
      | _ => True
      end) /\
  (forall P D dnew (dd : D -> bytes -> (D * bytes) + Z) deof dunused expected (inner : bytes -> ores P) inner_declared st (ch : bytes),
      (forall d c d' out, dd d c = inl (d', out) -> deof d' = true -> length (dunused d') < length c) ->
      match ffeed (cz_framer D dnew dd deof dunused expected inner inner_declared) st ch with
      | Done _ rest | Fail _ rest => length rest <= length ch
      | _ => True
      end).
Proof. exact remainder_fits_receive_buffer_pf. Qed.
Print Assumptions remainder_fits_receive_buffer.

(* ---- non-vacuity ---- *)
(* Crash is reachable: a codec that lets class 6 (RecursionError) escape, as JSONSerializer did before the F3 fix *)
Example crash_reachable_when_undeclared :
  ffeed (lift_framer (json_framer 100 (dec_of_ores [41; 42]%Z (fun _ : bytes => @ORaise bytes 6%Z)))) JInit [91; 93]%N = Crash.
Proof. vm_compute. reflexivity. Qed.

(* ... and the same input is a parse error with an empty remainder once the class is declared *)
Example fail_when_declared :
  ffeed (lift_framer (json_framer 100 (dec_of_ores [41; 42]%Z (fun _ : bytes => @ORaise bytes 41%Z)))) JInit [91; 93; 32]%N
  = Fail EDecode [].
Proof. vm_compute. reflexivity. Qed.

Example all_declared_satisfiable : all_declared [41; 42]%Z (fun x : bytes => match x with [] => OOk x | _ => ORaise 41%Z end).
Proof. intros x k. destruct x; intros H; inversion H; reflexivity. Qed.

(* a loader satisfying the three hypotheses of the file-based progress theorem: one length byte n, then n bytes *)
Definition toy_load (content : bytes) : lres bytes :=
  match content with
  | [] => LEof 0
  | n :: rest => if Nat.ltb (length rest) (N.to_nat n) then LEof (length content)
                 else LDone (firstn (N.to_nat n) rest) (S (N.to_nat n))
  end.
Example toy_load_hypotheses :
  (forall content pos, toy_load content = LEof pos -> pos <= length content) /\
  (forall content p pos, toy_load content = LDone p pos -> 1 <= pos) /\
  (forall content k pos, toy_load content = LRaise k pos -> 1 <= pos).
Proof.
  unfold toy_load. repeat split; intros content; destruct content as [|n rest]; intros;
    try destruct (Nat.ltb _ _); try congruence; inversion H; subst; simpl; lia.
Qed.

(* the progress hypothesis on the loader is necessary: a loader that fails without reading makes no progress *)
Example rewinding_loader_makes_no_progress :
  ffeed (fb_framer 100 (fun _ : bytes => @LRaise bytes 2%Z 0) (fun _ => true)) None [1; 2; 3]%N = Fail EDecode [1; 2; 3]%N.
Proof. vm_compute. reflexivity. Qed.

(* the remainder overflow is reachable in the model with a loader that reports an error position behind what it read *)
Example remainder_overflow_needs_a_backward_loader :
  ffeed (fb_framer 100 (fun c : bytes => if Nat.ltb (length c) 4 then @LEof bytes (length c) else LRaise 2%Z 1) (fun _ => true))
        (Some ([1; 2]%N, 2)) [3; 4]%N = Fail EDecode [2; 3; 4]%N.
Proof. vm_compute. reflexivity. Qed.
