(* C14 -- closing releases the underlying resource at every cancellation point: theorem statements.
   Programs, labels and worlds: Conc/Close.v.  Proofs: Proofs/C14_proofs.v.
   A label list gives the outcome chosen by the environment at each suspension point, in order (complete / OSError /
   cancel / timed scope expires); the number of suspension points of every leaf (m) and of the TLS shutdown and
   handshake (t_unwrap, t_hs) are universally quantified inside [path] / [tr] / [base]. *)
From Coq Require Import List Bool Arith Lia.
Import ListNotations.
From EN Require Import Gen.ParamsC14 Conc.Close Proofs.C14_proofs.

(* close_closes: for every close path (the teardown paths included), every transport shape, every number of
   suspension points and every choice of outcome at each of them, when nobody else is sending every leaf transport
   ends up closing.  For TLS wrap the statement is about the failing outcomes. *)
Theorem close_closes : forall (p : path) (ls : list xlabel),
  let '(r, w', ls') := run_path p env0 (world0 false) ls in
  (match p with PWrap _ _ => r <> ROk | _ => True end) ->
  forall i, In i (leaves (tr_base (path_tr p))) -> w_leaf w' i = true.
Proof. exact paths_close_all. Qed.
Print Assumptions close_closes.

(* the teardown of the server's client task -- with or without a client.aclose() by the handler first, with the send
   lock and guard free or held by a blocked sender (lock = true) -- closes every leaf, whatever happens at every
   suspension point *)
Theorem teardown_closes_always : forall t inner lock ls,
  let '(r, w', ls') := run_path (PTaskExit t inner) env0 (world0 lock) ls in
  forall i, In i (leaves (tr_base t)) -> w_leaf w' i = true.
Proof. exact teardown_closes. Qed.
Print Assumptions teardown_closes_always.

(* F7: AsyncTCPNetworkClient.aclose() cancelled while waiting for the send lock held by a suspended sender leaves
   the transport open (as long as the code has no forced fallback) *)
Theorem close_closes_client_refuted : client_forced_fallback = false ->
  let '(r, w', _) := client_aclose (TPlain (BLeaf 0 1)) env0 (world0 true) [XCancel] in
  r = RCancel /\ w_leaf w' 0 = false.
Proof. exact client_refuted. Qed.
Print Assumptions close_closes_client_refuted.

(* F8: _ConnectedClientAPI.aclose() in the same situation: the fallback goes through the send guard held by the
   sender, raises BusyResourceError instead of CancelledError and leaves the transport open *)
Theorem close_closes_api_refuted : api_fallback_bypasses_guard = false ->
  let '(r, w', _) := api_aclose (TPlain (BLeaf 0 1)) env0 (world0 true) [XCancel] in
  r = RBusy /\ w_leaf w' 0 = false.
Proof. exact api_refuted. Qed.
Print Assumptions close_closes_api_refuted.

(* The fixed shapes (meta/fixes/C14_F7.diff / C14_F8.diff; the Params switches are read from the source): whoever holds
   the send lock and the send guard, and whatever happens at every suspension point -- including cancellation while
   waiting for the lock -- every leaf ends closing. *)
Theorem close_closes_client_contended_fixed : client_forced_fallback = true ->
  forall t e w ls, fresh t w -> (w_lock w = false -> w_guard w = false) ->
  let '(r, w', ls') := client_aclose t e w ls in forall i, In i (leaves (tr_base t)) -> w_leaf w' i = true.
Proof. intros H t e w ls. exact (client_closes_contended t e w ls H). Qed.
Print Assumptions close_closes_client_contended_fixed.

Theorem close_closes_api_contended_fixed : api_fallback_bypasses_guard = true ->
  forall t e w ls, fresh t w -> (w_lock w = false -> w_guard w = false) ->
  let '(r, w', ls') := api_aclose t e w ls in forall i, In i (leaves (tr_base t)) -> w_leaf w' i = true.
Proof. intros H t e w ls. exact (api_closes_contended t e w ls H). Qed.
Print Assumptions close_closes_api_contended_fixed.

(* exactly one of the two situations holds for the tree that was translated: the defect with its witness, or the
   theorem for the contended case *)
Theorem client_lock_contention_status :
  (client_forced_fallback = false /\
   let '(r, w', _) := client_aclose (TPlain (BLeaf 0 1)) env0 (world0 true) [XCancel] in r = RCancel /\ w_leaf w' 0 = false)
  \/
  (client_forced_fallback = true /\
   forall t e w ls, fresh t w -> (w_lock w = false -> w_guard w = false) ->
   let '(r, w', ls') := client_aclose t e w ls in forall i, In i (leaves (tr_base t)) -> w_leaf w' i = true).
Proof.
  destruct (Bool.bool_dec client_forced_fallback true) as [E | E].
  - right. split; [exact E | intros t e w ls; exact (client_closes_contended t e w ls E)].
  - left. apply Bool.not_true_is_false in E. split; [exact E | exact (client_refuted E)].
Qed.
Print Assumptions client_lock_contention_status.

Theorem api_lock_contention_status :
  (api_fallback_bypasses_guard = false /\
   let '(r, w', _) := api_aclose (TPlain (BLeaf 0 1)) env0 (world0 true) [XCancel] in r = RBusy /\ w_leaf w' 0 = false)
  \/
  (api_fallback_bypasses_guard = true /\
   forall t e w ls, fresh t w -> (w_lock w = false -> w_guard w = false) ->
   let '(r, w', ls') := api_aclose t e w ls in forall i, In i (leaves (tr_base t)) -> w_leaf w' i = true).
Proof.
  destruct (Bool.bool_dec api_fallback_bypasses_guard true) as [E | E].
  - right. split; [exact E | intros t e w ls; exact (api_closes_contended t e w ls E)].
  - left. apply Bool.not_true_is_false in E. split; [exact E | exact (api_refuted E)].
Qed.
Print Assumptions api_lock_contention_status.

(* the client task's exit stack closes the transport after ANY handler that (a) never re-opens a leaf and (b) keeps
   "once the TLS layer says closing, its leaves are closed" -- true of every program of Conc/Close.v between
   complete operations (api_aclose_keeps_tls_invariant below); lock and guard may be held *)
Theorem client_task_exit_closes : forall t (handler : M) e w ls,
  (forall e w ls, tinv t w -> let '(r, w', ls') := handler e w ls in tinv t w' /\ le w w') -> tinv t w ->
  let '(r, w', ls') := client_task_exit handler t e w ls in
  forall i, In i (leaves (tr_base t)) -> w_leaf w' i = true.
Proof. exact task_exit_closes_tinv. Qed.
Print Assumptions client_task_exit_closes.

(* tinv and le written out, so that the hypothesis above cannot be weakened quietly *)
Theorem tinv_le_definitions : forall t w w',
  (tinv t w <-> match t with
                | TPlain _ => True
                | TTls _ b => w_tls_closing w = true -> forall i, In i (leaves b) -> w_leaf w i = true
                end) /\
  (le w w' <-> forall i, w_leaf w i = true -> w_leaf w' i = true).
Proof. intros t w w'. split; [destruct t; simpl; tauto | unfold le; tauto]. Qed.
Print Assumptions tinv_le_definitions.

Theorem api_aclose_keeps_tls_invariant : forall t e w ls, tinv t w ->
  let '(r, w', ls') := api_aclose t e w ls in tinv t w' /\ le w w'.
Proof. exact api_aclose_tinv. Qed.
Print Assumptions api_aclose_keeps_tls_invariant.

Theorem both_halves_closed : forall s r e w ls,
  let '(x, w', ls') := base_aclose (BStapled s r) e w ls in
  (forall i, In i (leaves s) -> w_leaf w' i = true) /\ (forall i, In i (leaves r) -> w_leaf w' i = true).
Proof. exact stapled_both. Qed.
Print Assumptions both_halves_closed.

(* after a first close that went any way at all, a second close consumes no label and returns normally -- for every
   transport without an asyncio adapter holding unflushed data *)
Theorem second_close_prompt : forall t e w ls e2, fresh t w -> no_backlog (tr_base t) = true ->
  let '(r, w1, ls1) := tr_aclose t e w ls in tr_aclose t e2 w1 ls1 = (ROk, w1, ls1).
Proof. exact tr_second_prompt. Qed.
Print Assumptions second_close_prompt.

(* F9 (observation on the asyncio socket adapter, see meta/notes/C14.md): with unflushed write data and a peer that does
   not read, a close cancelled at the close waiter -- or aclose_forcefully -- marks the transport closing but does not
   release the file descriptor, and a second close waits again *)
Theorem second_close_prompt_adapter_backlog_refuted :
  let '(r, w1, ls1) := base_aclose (BAdapter 0 true) env0 (world0 false) [XCancel; XCancel] in
  r = RCancel /\ w_leaf w1 0 = true /\ w_flushed w1 0 = false /\
  let '(r2, w2, ls2) := base_aclose (BAdapter 0 true) env0 w1 ls1 in r2 = RCancel /\ w_used w2 = 2.
Proof. exact adapter_backlog_witness. Qed.
Print Assumptions second_close_prompt_adapter_backlog_refuted.

Theorem forced_close_adapter_backlog_keeps_fd :
  let '(r, w1, ls1) := forceful (base_aclose (BAdapter 0 true)) env0 (world0 false) [] in
  r = ROk /\ w_leaf w1 0 = true /\ w_flushed w1 0 = false.
Proof. exact adapter_forced_witness. Qed.
Print Assumptions forced_close_adapter_backlog_keeps_fd.

(* ... while a close of that adapter that returns normally has released it (the peer drained the data, or the
   connection broke: OSError swallowed), or found it closing already and changed nothing *)
Theorem adapter_close_returns_released : forall i e w ls,
  let '(r, w1, ls1) := base_aclose (BAdapter i true) e w ls in
  r = ROk -> w_flushed w1 i = true \/ (w_leaf w i = true /\ w1 = w).
Proof. exact adapter_flush_releases. Qed.
Print Assumptions adapter_close_returns_released.

Theorem wrap_failure_closes : forall c b e w ls,
  let '(r, w', ls') := tls_wrap c b e w ls in r <> ROk -> forall i, In i (leaves b) -> w_leaf w' i = true.
Proof. exact wrap_failure. Qed.
Print Assumptions wrap_failure_closes.

(* non-vacuity: a TLS close over a stapled pair cancelled inside the shutdown closes both leaves; the handshake
   hypotheses of wrap_failure_closes are satisfiable *)
Example ex_tls_cancel :
  let '(r, w', _) := run_path (PTransport (TTls {| t_std := true; t_unwrap := 2; t_hs := 0; t_unread := false; t_flush := 0 |}
                                           (BStapled (BLeaf 0 1) (BLeaf 1 2)))) env0 (world0 false) [XStep; XCancel] in
  r = RCancel /\ w_leaf w' 0 = true /\ w_leaf w' 1 = true.
Proof. vm_compute. repeat split. Qed.
Example ex_wrap_timeout :
  let '(r, w', _) := tls_wrap {| t_std := true; t_unwrap := 0; t_hs := 2; t_unread := false; t_flush := 0 |} (BLeaf 0 1) env0 (world0 false) [XStep; XTimeout] in
  r = RTimeoutErr /\ w_leaf w' 0 = true.
Proof. vm_compute. split; reflexivity. Qed.

(* unread application data when the close starts: a cancellation inside the flush of the close_notify alert still
   closes the wrapped transport; a shutdown timeout there does too and aclose() returns normally *)
Example ex_tls_flush_cancel :
  let '(r, w', _) := run_path (PTransport (TTls {| t_std := true; t_unwrap := 0; t_hs := 0; t_unread := true; t_flush := 1 |}
                                           (BLeaf 0 1))) env0 (world0 false) [XCancel] in
  r = RCancel /\ w_leaf w' 0 = true.
Proof. vm_compute. split; reflexivity. Qed.
Example ex_tls_flush_timeout :
  let '(r, w', _) := run_path (PTransport (TTls {| t_std := true; t_unwrap := 0; t_hs := 0; t_unread := true; t_flush := 1 |}
                                           (BLeaf 0 1))) env0 (world0 false) [XTimeout] in
  r = ROk /\ w_leaf w' 0 = true.
Proof. vm_compute. split; reflexivity. Qed.
