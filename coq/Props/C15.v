(* C15 — stream server: each request reaches the handler exactly once, in order.  Statements only.

   Vocabulary (definitions, no proofs): Conc/StreamServer.v (the model: client_coroutine, rq_next, hact, event, final),
   Conc/StreamServerSpec.v (sstream_of, got_log, lstep/lrun), Stream/EndpointSpec.v (consumer_ok).
   The handler is universally quantified as the action list [acts0] (and [oc]: on_connection as coroutine / generator /
   closing coroutine); the peer as its time line [o] (any chunking, any arrival times, close or reset anywhere, transport
   errors); the receive path as any consumer machine M with [consumer_ok M spec R]. *)
From Coq Require Import List Arith.
From EN Require Import Lib.Bytes Frame.Framer Frame.ReadUntil Frame.BufReadUntil Stream.Consumer Stream.SpecDecode
  Stream.Endpoint Stream.EndpointSpec Conc.StreamServer Conc.StreamServerSpec Proofs.C15_proofs Proofs.C03_fixed
  Conc.StreamServerMulti Proofs.C15_multi Proofs.C15_instances.
Import ListNotations.

(* The requests sent and the parse errors thrown into the handler generators, in order and concatenated over generator
   restarts (on_connection generator, then every handle() generator), are a prefix of the frame-by-frame decoding of the
   peer's request stream — nothing duplicated, reordered or invented, errors at their position — and when the connection
   ends because the peer closed it (rather than the handler), they are ALL of it. *)
Theorem requests_exactly_once_in_order :
  forall (P C : Type) (M : machine P C) (spec : bytes -> list (nres P)) (R : C -> bytes -> nat -> Prop),
    consumer_ok M spec R ->
    forall c0 : C, R c0 [] 0 ->
    forall (oc : nat) (acts0 : list hact) (o : speer),
      let f := client_coroutine M oc acts0 c0 o in
      (exists n, got_log (ulog (f_user f)) = firstn n (spec (sstream_of o)))
      /\ (f_eof f = true -> got_log (ulog (f_user f)) = spec (sstream_of o)).
Proof. exact (@client_coroutine_req). Qed.
Print Assumptions requests_exactly_once_in_order.

(* The request receiver throws TimeoutError only for a finite yielded timeout [tm], exactly at the deadline, when the
   bytes read so far ([d ++ x]: everything the peer made available before the deadline, see the last conjunct) contain
   no complete request beyond the k already handed out, and the next item of the peer arrives at or after the deadline. *)
Theorem timeout_only_if_none_arrived :
  forall (P C : Type) (M : machine P C) (spec : bytes -> list (nres P)) (R : C -> bytes -> nat -> Prop),
    consumer_ok M spec R ->
    forall (t : option nat) (c : C) (o : speer) (now : nat) (d : bytes) (k : nat) c' o' now',
      R c d k ->
      rq_next M t c o now = (c', o', now', NThrow XTimeout) ->
      exists tm x, t = Some tm /\ now' = now + tm /\ x ++ sstream_of o' = sstream_of o /\
                   R c' (d ++ x) k /\ k = length (spec (d ++ x)) /\
                   match o' with it :: _ => now + tm <= sitem_at it | [] => False end.
Proof. exact (@rq_next_timeout). Qed.
Print Assumptions timeout_only_if_none_arrived.

(* Generator life cycle, for every consumer, peer and handler strategy: the chronological log is accepted by [lrun]
   (a generator starts only when none is active and with a fresh id, is resumed only while active, and ends — by itself
   or by GeneratorExit — only while active, hence exactly once) and at the end of the task no generator is active. *)
Theorem gen_closed_once :
  forall (P C : Type) (M : machine P C) (oc : nat) (acts0 : list hact) (c : C) (o : speer),
    exists n, lrun (ulog (f_user (client_coroutine M oc acts0 c o))) = Some (None, n).
Proof. exact (@client_coroutine_wf). Qed.
Print Assumptions gen_closed_once.

(* Whatever the consumer, the peer and the handler do (including handler exceptions), the task ends with its transport
   closed. *)
Theorem connection_closed_at_end :
  forall (P C : Type) (M : machine P C) (oc : nat) (acts0 : list hact) (c : C) (o : speer),
    f_closed (client_coroutine M oc acts0 c o) = true.
Proof. exact (@client_coroutine_closed). Qed.
Print Assumptions connection_closed_at_end.

(* closed instance: copying consumer over the fixed-size framer (interface proved in Proofs/C03_fixed.v) *)
Theorem requests_exactly_once_in_order_fixed_size :
  forall (P : Type) (size : nat) (dec : decoder P) (bufsize : nat), 0 < size -> 0 < bufsize ->
  forall (oc : nat) (acts0 : list hact) (o : speer),
    let f := client_coroutine (copy_machine (rx_framer size dec) bufsize) oc acts0 (cinit (rx_framer size dec)) o in
    (exists n, got_log (ulog (f_user f)) = firstn n (fx_spec size dec (sstream_of o)))
    /\ (f_eof f = true -> got_log (ulog (f_user f)) = fx_spec size dec (sstream_of o)).
Proof. exact (@fixed_requests_in_order). Qed.
Print Assumptions requests_exactly_once_in_order_fixed_size.

(* ==================================================================================================================
   Sorted arrivals: when the peer's arrival times never decrease ([nondecr]), a TimeoutError means that EVERYTHING the
   peer has not yet delivered arrives at or after the deadline (and there is something: the peer has not gone away). *)
Theorem timeout_only_if_none_arrived_sorted :
  forall (P C : Type) (M : machine P C) (spec : bytes -> list (nres P)) (R : C -> bytes -> nat -> Prop),
    consumer_ok M spec R ->
    forall (t : option nat) (c : C) (o : speer) (now : nat) (d : bytes) (k : nat) c' o' now',
      nondecr o ->
      R c d k ->
      rq_next M t c o now = (c', o', now', NThrow XTimeout) ->
      exists tm x, t = Some tm /\ now' = now + tm /\ x ++ sstream_of o' = sstream_of o /\
                   R c' (d ++ x) k /\ k = length (spec (d ++ x)) /\
                   o' <> [] /\ Forall (fun it => now + tm <= sitem_at it) o'.
Proof. exact (@rq_next_timeout_sorted). Qed.
Print Assumptions timeout_only_if_none_arrived_sorted.

(* ==================================================================================================================
   Separator framing: the interface relativised to a prefix-closed predicate G on the request stream. *)
Theorem requests_exactly_once_in_order_rel_generic :
  forall (P C : Type) (M : machine P C) (spec : bytes -> list (nres P)) (G : bytes -> Prop)
         (R : C -> bytes -> nat -> Prop) (D : C -> bytes -> Prop),
    consumer_ok_rel M spec G R D ->
    forall c0 : C, R c0 [] 0 ->
    forall (oc : nat) (acts0 : list hact) (o : speer),
      G (sstream_of o) ->
      let f := client_coroutine M oc acts0 c0 o in
      (exists n, got_log (ulog (f_user f)) = firstn n (spec (sstream_of o)))
      /\ (f_eof f = true -> got_log (ulog (f_user f)) = spec (sstream_of o)).
Proof. exact (@client_coroutine_req_rel). Qed.
Print Assumptions requests_exactly_once_in_order_rel_generic.

Theorem timeout_only_if_none_arrived_sorted_rel_generic :
  forall (P C : Type) (M : machine P C) (spec : bytes -> list (nres P)) (G : bytes -> Prop)
         (R : C -> bytes -> nat -> Prop) (D : C -> bytes -> Prop),
    consumer_ok_rel M spec G R D ->
    forall (t : option nat) (c : C) (o : speer) (now : nat) (d : bytes) (k : nat) c' o' now',
      G (d ++ sstream_of o) -> nondecr o ->
      R c d k ->
      rq_next M t c o now = (c', o', now', NThrow XTimeout) ->
      exists tm x, t = Some tm /\ now' = now + tm /\ x ++ sstream_of o' = sstream_of o /\
                   D c' (d ++ x) /\ k = length (spec (d ++ x)) /\
                   o' <> [] /\ Forall (fun it => now + tm <= sitem_at it) o'.
Proof. exact (@rq_next_timeout_sorted_rel). Qed.
Print Assumptions timeout_only_if_none_arrived_sorted_rel_generic.

(* closed instances: _RequestReceiver x StreamDataConsumer x read_until (both keep_end values) and
   _BufferedRequestReceiver x BufferedStreamDataConsumer x _buffered_readuntil; the only hypothesis left is that every
   frame of the request stream stays inside the safe band of the limit *)
Theorem requests_exactly_once_in_order_read_until :
  forall (P : Type) (sep : bytes) (limit : nat) (keep_end : bool) (dec : decoder P) (bufsize : nat),
    sep <> [] -> 0 < bufsize ->
  forall (oc : nat) (acts0 : list hact) (o : speer),
    safe sep limit (sstream_of o) ->
    let f := client_coroutine (copy_machine (ru_framer sep limit keep_end dec) bufsize) oc acts0
                              (cinit (ru_framer sep limit keep_end dec)) o in
    (exists n, got_log (ulog (f_user f)) = firstn n (fst (spec_events sep keep_end dec (sstream_of o))))
    /\ (f_eof f = true -> got_log (ulog (f_user f)) = fst (spec_events sep keep_end dec (sstream_of o))).
Proof. exact (@ru_requests_in_order). Qed.
Print Assumptions requests_exactly_once_in_order_read_until.

Theorem requests_exactly_once_in_order_buffered_read_until :
  forall (P : Type) (sep : bytes) (limit : nat) (keep_end : bool) (dec : decoder P) (sizehint : nat),
    sep <> [] -> length sep + 1 <= limit ->
  forall (oc : nat) (acts0 : list hact) (o : speer),
    safe sep (limit - 1 - length sep) (sstream_of o) ->
    let f := client_coroutine (buf_machine (bru_framer sep limit keep_end dec) sizehint) oc acts0
                              (bcinit (bru_framer sep limit keep_end dec)) o in
    (exists n, got_log (ulog (f_user f)) = firstn n (fst (spec_events sep keep_end dec (sstream_of o))))
    /\ (f_eof f = true -> got_log (ulog (f_user f)) = fst (spec_events sep keep_end dec (sstream_of o))).
Proof. exact (@bru_requests_in_order). Qed.
Print Assumptions requests_exactly_once_in_order_buffered_read_until.

Theorem requests_exactly_once_in_order_buffered_fixed_size :
  forall (P : Type) (size : nat) (dec : decoder P) (sizehint : nat), 1 <= size ->
  forall (oc : nat) (acts0 : list hact) (o : speer),
    let f := client_coroutine (buf_machine (bfx_framer size dec) sizehint) oc acts0 (bcinit (bfx_framer size dec)) o in
    (exists n, got_log (ulog (f_user f)) = firstn n (fst (fx_events size dec (sstream_of o))))
    /\ (f_eof f = true -> got_log (ulog (f_user f)) = fst (fx_events size dec (sstream_of o))).
Proof. exact (@bfx_requests_in_order). Qed.
Print Assumptions requests_exactly_once_in_order_buffered_fixed_size.

(* non-vacuity for the separator instances: LF framing, limit 8, ascii codec, buffer-filling consumer, max_recv_size 2;
   "a\n\200" at 0, "\nb\n" at 3, EOF at 5; one generator per event *)
Example c15_buffered_example :
  let dec := fun b : bytes => if forallb (fun x => N.ltb x 128) b then Some b else None in
  let o := [SData [97;10;200]%N 0; SData [10;98;10]%N 3; SEof 5] in
  let f := client_coroutine (buf_machine (bru_framer [10%N] 8 false dec) 2) 0
             [AYield None; AReturn; AYield None; AReturn; AYield None; AYield None] (bcinit _) o in
  safe [10%N] (8 - 1 - 1) (sstream_of o) /\ nondecr o
  /\ got_log (ulog (f_user f)) = [RPkt [97%N]; RErr EDecode; RPkt [98%N]]
  /\ f_eof f = true.
Proof.
  cbv zeta. split; [|split; [|vm_compute; repeat split]].
  - vm_compute. apply (safe_frame _ _ _ 1); [reflexivity|repeat constructor|].
    apply (safe_frame _ _ _ 1); [reflexivity|repeat constructor|].
    apply (safe_frame _ _ _ 1); [reflexivity|repeat constructor|]. apply safe_end; [reflexivity|vm_compute; repeat constructor].
  - vm_compute. repeat constructor.
Qed.

(* ==================================================================================================================
   Several connections on one server (Conc/StreamServerMulti.v): server state = list of per-connection task states,
   server label = id of the connection whose task runs one step (first anext / one receive-and-resume iteration). *)

(* frame: a step of connection a leaves the component of every other connection unchanged *)
Theorem connections_frame :
  forall (P C : Type) (M : machine P C) (s : list (@conn P C)) (a b : nat),
    a <> b -> nth_error (supdate M s a) b = nth_error s b.
Proof. exact (@supdate_other). Qed.
Print Assumptions connections_frame.

(* hence, after ANY interleaving, the component of connection a is its own task stepped as often as a was scheduled *)
Theorem connection_projection :
  forall (P C : Type) (M : machine P C) (sch : list nat) (s : list (@conn P C)) (a : nat),
    nth_error (srun M s sch) a = option_map (conn_iter M (count_occ Nat.eq_dec sch a)) (nth_error s a).
Proof. exact (@srun_projection). Qed.
Print Assumptions connection_projection.

(* and a connection scheduled often enough has run exactly the single-connection task client_coroutine *)
Theorem connection_runs_its_own_task :
  forall (P C : Type) (M : machine P C) (l : list (nat * list hact * C * speer)) (sch : list nat)
         (a oc : nat) (acts0 : list hact) (c : C) (o : speer),
    nth_error l a = Some (oc, acts0, c, o) ->
    S (S (S (length acts0))) < count_occ Nat.eq_dec sch a ->
    nth_error (srun M (accept l) sch) a = Some (CDone (client_coroutine M oc acts0 c o)).
Proof. exact (@multi_result). Qed.
Print Assumptions connection_runs_its_own_task.

(* requests_exactly_once_in_order per connection, under any interleaving with any other connections *)
Theorem requests_exactly_once_in_order_multi :
  forall (P C : Type) (M : machine P C) (spec : bytes -> list (nres P)) (G : bytes -> Prop)
         (R : C -> bytes -> nat -> Prop) (D : C -> bytes -> Prop),
    consumer_ok_rel M spec G R D ->
    forall c0 : C, R c0 [] 0 ->
    forall (l : list (nat * list hact * C * speer)) (sch : list nat) (a oc : nat) (acts0 : list hact) (o : speer),
      nth_error l a = Some (oc, acts0, c0, o) ->
      G (sstream_of o) ->
      S (S (S (length acts0))) < count_occ Nat.eq_dec sch a ->
      exists f, nth_error (srun M (accept l) sch) a = Some (CDone f) /\
                (exists n, got_log (ulog (f_user f)) = firstn n (spec (sstream_of o))) /\
                (f_eof f = true -> got_log (ulog (f_user f)) = spec (sstream_of o)).
Proof. exact (@multi_requests_in_order). Qed.
Print Assumptions requests_exactly_once_in_order_multi.

(* ---- non-vacuity: size 2, identity codec; the peer sends "ab" at 0, "c" at 3, "d" at 9, closes at 12; the handler:
   generator 0 yields None, takes "ab", yields timeout 4 (deadline 4: "c" alone completes nothing -> TimeoutError at 4),
   catches it and returns; generator 1 yields None, takes "cd" at 9, yields None, is closed by the peer's EOF. *)
Example c15_example :
  let M := copy_machine (rx_framer 2 (fun b => Some b)) 64 in
  let f := client_coroutine M 0 [AYield None; AYield (Some 4); AReturn; AYield None; AYield None] (cinit _)
             [SData [97;98]%N 0; SData [99]%N 3; SData [100]%N 9; SEof 12] in
  rev (ulog (f_user f)) =
    [EOnConn; EStart 0; EGot 0 (UReq [97;98]%N) 0; EGot 0 (UErr XTimeout) 4; EEnd 0;
     EStart 1; EGot 1 (UReq [99;100]%N) 9; EClosed 1; EOnDisc]
  /\ f_eof f = true /\ f_outcome f = None /\ f_now f = 12.
Proof. vm_compute. repeat split. Qed.
