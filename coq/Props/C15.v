(* C15 — stream server: each request reaches the handler exactly once, in order.  Statements only. *)
From EN Require Import Lib.Bytes Frame.Framer Stream.Consumer Stream.Endpoint Conc.StreamServer Proofs.C15_proofs.

(* Whatever the consumer, the peer's time line and the handler strategy (including handler exceptions), the client
   task ends with its transport closed. *)
Theorem connection_closed_at_end :
  forall (P C : Type) (M : machine P C) (oc : nat) (acts0 : list hact) (c : C) (o : speer),
    f_closed (client_coroutine M oc acts0 c o) = true.
Proof. exact (@client_coroutine_closed). Qed.
Print Assumptions connection_closed_at_end.
