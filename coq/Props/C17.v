(* C17 -- one client's failure never affects the others.  Statements only; proofs in Proofs/C17_proofs.v (finite
   domain, complete enumeration by vm_compute lifted with forallb_forall) and Proofs/C17_general.v (every exception
   group -- any number of leaves, any order, repetitions -- behaves like its canonical form, generic in the tables).
   The tables (tcp_suppress, tcp_disconnect_hook, tcp_init_stack, listener_connect, tls_wrap, udp_aexit, isinst ...)
   come from Gen/ParamsC17.v, regenerated from /repo's source on every run. *)
From Coq Require Import List Bool ZArith.
From EN Require Import Conc.ExcKinds Gen.ParamsC17 Conc.Isolation Proofs.C17_proofs Proofs.C17_general.
Import ListNotations.

(* For every Exception-derived exception value (a naked leaf kind or an exception group over any list of leaf kinds)
   raised at every hook position (incl. every kind of yielded delay: None, 0, positive, negative, inf, NaN, non-number,
   huge), with or without a second Exception-derived fault raised by on_disconnection, on the
   plain, the TLS standard-compatible and the TLS non-standard-compatible server: nothing leaves the client task (normal completion), so the task group shared with every
   other client is never cancelled. *)
Theorem client_task_never_raises :
  forall (tls : flavour) (p : position) (e1 : exc) (e2 : option exc),
    exc_is_exception e1 = true ->
    match e2 with None => true | Some e => exc_is_exception e end = true ->
    o_raises (tcp_client_task tls p e1 e2) = None.
Proof. exact tcp_never_raises_general. Qed.
Print Assumptions client_task_never_raises.

(* Set-up faults (accepted-socket factory failure, TLS handshake failure) of any Exception-derived kind: the
   connection task ends normally, the socket/stream is closed, no request-handler hook ran. *)
Theorem setup_fault_contained :
  forall (st : setup_stage) (e : exc),
    exc_is_exception e = true ->
    o_raises (setup_task st e) = None /\ o_closed (setup_task st e) = true /\ o_hooks (setup_task st e) = [].
Proof. exact setup_contained_general. Qed.
Print Assumptions setup_fault_contained.

(* A fault raised by an exit callback of the per-client stack that was registered after the suppressor (the TLS close
   handshake inside aclosing(), the linger callback, _on_disconnect) is filtered like a handler fault. *)
Theorem exit_callback_fault_contained :
  forall e : exc, exc_is_exception e = true ->
    o_raises (tcp_exit_callback_fault FTlsCompat SAclosing e) = None /\
    o_raises (tcp_exit_callback_fault FPlain SLinger e) = None /\
    o_raises (tcp_exit_callback_fault FTlsCompat SOnDisconnect e) = None /\
    o_raises (tcp_exit_callback_fault FPlain SOnDisconnect e) = None.
Proof. exact exit_callback_contained_general. Qed.
Print Assumptions exit_callback_fault_contained.

(* The final, forced close of the client task (outside every per-client filter): whatever OSError-derived kind the socket
   shutdown raises there (plain OSError such as ENOTCONN / EBADF, ConnectionError subclasses such as EPIPE, TimeoutError),
   after the handler failed with any Exception-derived value, nothing leaves the client task and the connection is closed. *)
Theorem final_close_fault_contained :
  forall (f : flavour) (e1 : exc) (k : leaf),
    exc_is_exception e1 = true -> isinst k C_OSError = true ->
    o_raises (tcp_final_close_fault f e1 k) = None /\ o_closed (tcp_final_close_fault f e1 k) = true.
Proof. exact final_close_contained_general. Qed.
Print Assumptions final_close_fault_contained.

(* The failing client's connection is closed on every path (even for kinds outside the property). *)
Theorem failing_client_closed :
  forall (tls : flavour) (p : position) (e1 : exc) (e2 : option exc),
    o_closed (tcp_client_task tls p e1 e2) = true.
Proof. exact tcp_closed_always. Qed.
Print Assumptions failing_client_closed.

(* on_disconnection runs iff on_connection had completed -- and the hook log shows it (code 4). *)
Theorem disconnect_hook_iff_connected :
  forall (tls : flavour) (p : position) (e1 : exc) (e2 : option exc),
    o_disc_called (tcp_client_task tls p e1 e2) = pos_connected p /\
    existsb (Z.eqb 4) (o_hooks (tcp_client_task tls p e1 e2)) = pos_connected p.
Proof. intros. split; [apply tcp_disc_iff_connected | apply tcp_hook4_iff_connected]. Qed.
Print Assumptions disconnect_hook_iff_connected.

(* UDP: nothing leaves the client task, the per-address state returns to None and the next datagram of that address
   starts a fresh handler. *)
Theorem udp_fresh_handler_after_failure :
  forall (p : upos) (e : exc),
    exc_is_exception e = true ->
    u_raises (udp_client_task p e) = None /\ u_state (udp_client_task p e) = CNone /\ u_fresh (udp_client_task p e) = true.
Proof. exact udp_fresh_general. Qed.
Print Assumptions udp_fresh_handler_after_failure.

(* Non-vacuity: Exception-derived kinds exist; a BaseException-only kind does escape (so the hypothesis matters and
   the model is able to express a crash); a non-canonical group is covered. *)
Example exception_kinds_exist :
  exc_is_exception (Group [KClientClosed; KGeneric; KClientClosed]) = true.
Proof. reflexivity. Qed.
Example oserror_kinds_exist :
  isinst KOSError C_OSError = true /\ isinst KTimeout C_OSError = true /\ isinst KGeneric C_OSError = false.
Proof. exact oserror_kinds_exist. Qed.
Example fatal_kind_escapes :
  o_raises (tcp_client_task FPlain PHandleAfter (Naked KFatal) None) = Some (Naked KFatal).
Proof. exact fatal_escapes_tcp. Qed.
Example fatal_group_escapes_udp :
  u_raises (udp_client_task UAfter (Group [KGeneric; KFatal])) = Some (Group [KGeneric; KFatal]).
Proof. exact fatal_group_escapes_udp. Qed.
