(* C17 -- one client's failure never affects the others.  Statements only; proofs in Proofs/C17_*.v.
   The tables (tcp_suppress, tcp_disconnect_hook, tcp_init_stack, listener_connect, tls_wrap, udp_aexit, isinst ...)
   come from Gen/ParamsC17.v, regenerated from /repo's source on every run. *)
From Coq Require Import List Bool ZArith.
From EN Require Import Conc.ExcKinds Gen.ParamsC17 Conc.Isolation Proofs.C17_proofs.
Import ListNotations.

(* For every Exception-derived kind (naked leaf or group in canonical form) at every hook position, with or without a
   second Exception-derived fault raised by on_disconnection, on the plain and the TLS server: nothing leaves the
   client task, so the task group shared with every other client is never cancelled. *)
Theorem client_task_never_raises_tcp_canon :
  forall (tls : bool) (p : position) (e1 : exc) (e2 : option exc),
    In e1 all_canon_excs -> In e2 (None :: map Some all_canon_excs) ->
    exc_is_exception e1 = true ->
    match e2 with None => true | Some e => exc_is_exception e end = true ->
    o_raises (tcp_client_task tls p e1 e2) = None.
Proof. exact tcp_never_raises_canon. Qed.
Print Assumptions client_task_never_raises_tcp_canon.

(* Set-up faults (accepted-socket factory failure, TLS handshake failure) of any Exception-derived kind: the
   connection task ends normally, the socket/stream is closed, no request-handler hook ran. *)
Theorem setup_fault_contained_canon :
  forall (st : setup_stage) (e : exc),
    In e all_canon_excs -> exc_is_exception e = true ->
    o_raises (setup_task st e) = None /\ o_closed (setup_task st e) = true /\ o_hooks (setup_task st e) = [].
Proof. exact setup_never_raises_canon. Qed.
Print Assumptions setup_fault_contained_canon.

(* The failing client's connection is closed on every path (even for kinds outside the property). *)
Theorem failing_client_closed :
  forall (tls : bool) (p : position) (e1 : exc) (e2 : option exc),
    o_closed (tcp_client_task tls p e1 e2) = true.
Proof. exact tcp_closed_always. Qed.
Print Assumptions failing_client_closed.

(* on_disconnection runs iff on_connection had completed -- and the hook log shows it (code 4). *)
Theorem disconnect_hook_iff_connected :
  forall (tls : bool) (p : position) (e1 : exc) (e2 : option exc),
    o_disc_called (tcp_client_task tls p e1 e2) = pos_connected p /\
    existsb (Z.eqb 4) (o_hooks (tcp_client_task tls p e1 e2)) = pos_connected p.
Proof. intros. split; [apply tcp_disc_iff_connected | apply tcp_hook4_iff_connected]. Qed.
Print Assumptions disconnect_hook_iff_connected.

(* UDP: nothing leaves the client task, the per-address state returns to None and the next datagram of that address
   starts a fresh handler. *)
Theorem udp_fresh_handler_after_failure_canon :
  forall (p : upos) (e : exc),
    In e all_canon_excs -> exc_is_exception e = true ->
    u_raises (udp_client_task p e) = None /\ u_state (udp_client_task p e) = CNone /\ u_fresh (udp_client_task p e) = true.
Proof. exact udp_never_raises_canon. Qed.
Print Assumptions udp_fresh_handler_after_failure_canon.

(* Non-vacuity: Exception-derived kinds exist in the domain; a BaseException-only kind does escape (so the hypothesis
   matters and the model is able to express a crash). *)
Example exception_kinds_exist :
  exc_is_exception (Group [KGeneric; KClientClosed]) = true /\ In (Group [KGeneric; KClientClosed]) all_canon_excs.
Proof. exact exception_kinds_exist. Qed.
Example fatal_kind_escapes :
  o_raises (tcp_client_task false PHandleAfter (Naked KFatal) None) = Some (Naked KFatal).
Proof. exact fatal_escapes_tcp. Qed.
