(* C03 — receive endpoints: every complete packet once, then a sticky end-of-stream.  Statements only.

   Vocabulary (definitions, no proofs): Stream/Endpoint.v (the model: receive, run_calls, copy_machine, buf_machine),
   Stream/EndpointSpec.v (consumer_ok, stream_of, delivered, expected, results, raises).
   The four main theorems hold for BOTH receiver implementations, blocking and asynchronous, for any consumer machine
   M satisfying the interface [consumer_ok M spec R] (frame-by-frame decoding independent of the cut: C02's theorem for
   the consumer models); they are then instantiated, closed, for the copying consumer over the fixed-size framer. *)
From Coq Require Import List Arith.
From EN Require Import Lib.Bytes Frame.Framer Frame.ReadUntil Stream.Consumer Stream.Endpoint Stream.EndpointSpec
  Proofs.C03_proofs Proofs.C03_fixed.
Import ListNotations.

(* For every transport oracle (chunking, silences, transport errors, position of the peer's close, even data after the
   close) and every history of recv_packet calls with timeouts in {None, 0, >0}: the j-th result that is neither a
   TimeoutError nor a transport error is the j-th element of
        frame-by-frame decoding of the peer's stream  ++  [ConnectionAborted; ConnectionAborted; ...]. *)
Theorem recv_sequence :
  forall (P C : Type) (M : machine P C) (mode : emode) (spec : bytes -> list (nres P)) (R : C -> bytes -> nat -> Prop),
    consumer_ok M spec R ->
    forall c0 : C, R c0 [] 0 ->
    forall (o : oracle) (ts : list (option nat)) (j : nat) (r : rres P),
      nth_error (delivered (results (run_calls M mode (linit c0) o ts))) j = Some r ->
      r = expected (spec (stream_of o)) j.
Proof. exact (@recv_sequence_proof). Qed.
Print Assumptions recv_sequence.

(* A trailing incomplete frame (bytes that add no event to the decoding) never produces a packet: every delivered
   result beyond the complete frames is ConnectionAborted. *)
Theorem no_partial_delivery :
  forall (P C : Type) (M : machine P C) (mode : emode) (spec : bytes -> list (nres P)) (R : C -> bytes -> nat -> Prop),
    consumer_ok M spec R ->
    forall c0 : C, R c0 [] 0 ->
    forall (o : oracle) (ts : list (option nat)) (s1 tail : bytes),
      stream_of o = s1 ++ tail -> spec (s1 ++ tail) = spec s1 ->
      forall (j : nat) (r : rres P),
        nth_error (delivered (results (run_calls M mode (linit c0) o ts))) j = Some r ->
        length (spec s1) <= j -> r = RecvAborted.
Proof. exact (@no_partial_delivery_proof). Qed.
Print Assumptions no_partial_delivery.

(* Once a call has reported ConnectionAborted, every later call reports it again, whatever its timeout, and does not
   consult the transport: the transport oracle [o'] it is given (arbitrary, it may even hold data) comes back untouched. *)
Theorem eof_sticky :
  forall (P C : Type) (M : machine P C) (mode : emode) (spec : bytes -> list (nres P)) (R : C -> bytes -> nat -> Prop),
    consumer_ok M spec R ->
    forall c0 : C, R c0 [] 0 ->
    forall (o : oracle) (ts1 : list (option nat)) rs1 st1 o1,
      run_calls M mode (linit c0) o ts1 = (rs1, st1, o1) ->
      forall t st2 o2 el, receive M mode t st1 o1 = (st2, o2, RecvAborted, el) ->
      forall (ts' : list (option nat)) (o' : oracle),
        exists st3, run_calls M mode st2 o' ts' = (map (fun _ => (RecvAborted, o')) ts', st3, o').
Proof. exact (@eof_sticky_proof). Qed.
Print Assumptions eof_sticky.

(* Timeouts (and transport errors) lose nothing: after ANY history of calls, enough calls without timeout return all
   the events of the stream, in order, then ConnectionAborted. *)
Theorem timeout_loses_nothing :
  forall (P C : Type) (M : machine P C) (mode : emode) (spec : bytes -> list (nres P)) (R : C -> bytes -> nat -> Prop),
    consumer_ok M spec R ->
    forall c0 : C, R c0 [] 0 ->
    forall (o : oracle) (ts : list (option nat)),
      let evs := spec (stream_of o) in
      firstn (S (length evs))
             (delivered (results (run_calls M mode (linit c0) o (ts ++ repeat None (S (length evs) + raises o)))))
      = map of_nres evs ++ [RecvAborted].
Proof. exact (@timeout_loses_nothing_proof). Qed.
Print Assumptions timeout_loses_nothing.

(* A call without timeout never reports a timeout (no hypothesis on the consumer). *)
Theorem blocking_call_never_times_out :
  forall (P C : Type) (M : machine P C) (mode : emode) (st : lstate) (o : oracle) st' o' r el,
    receive M mode None st o = (st', o', r, el) -> r <> RecvTimeout.
Proof. exact (@receive_none_no_timeout). Qed.
Print Assumptions blocking_call_never_times_out.

(* ---- the interface is satisfiable: the copying consumer over the fixed-size framer, any codec, any max_recv_size *)

(* fx_spec = decoding by consecutive blocks of [size] bytes; these two equations determine it *)
Theorem fx_spec_short_tail :
  forall (P : Type) (size : nat) (dec : decoder P) (d : bytes), length d < size -> fx_spec size dec d = [].
Proof. exact (@fx_spec_short). Qed.
Print Assumptions fx_spec_short_tail.

Theorem fx_spec_one_block :
  forall (P : Type) (size : nat) (dec : decoder P) (d : bytes), 0 < size -> size <= length d ->
    fx_spec size dec d = fx_event dec (firstn size d) :: fx_spec size dec (skipn size d).
Proof. exact (@fx_spec_long'). Qed.
Print Assumptions fx_spec_one_block.

Theorem fixed_size_consumer_ok :
  forall (P : Type) (size : nat) (dec : decoder P) (bufsize : nat), 0 < size -> 0 < bufsize ->
    consumer_ok (copy_machine (rx_framer size dec) bufsize) (fx_spec size dec) (fx_R size dec)
    /\ fx_R size dec (cinit (rx_framer size dec)) [] 0.
Proof. exact (@fx_ok_and_init). Qed.
Print Assumptions fixed_size_consumer_ok.

(* closed instances (no interface hypothesis left) *)
Theorem recv_sequence_fixed_size :
  forall (P : Type) (size : nat) (dec : decoder P) (bufsize : nat), 0 < size -> 0 < bufsize ->
  forall (mode : emode) (o : oracle) (ts : list (option nat)) (j : nat) (r : rres P),
    nth_error (delivered (results (run_calls (copy_machine (rx_framer size dec) bufsize) mode
                                             (linit (cinit (rx_framer size dec))) o ts))) j = Some r ->
    r = expected (fx_spec size dec (stream_of o)) j.
Proof. exact (@fixed_recv_sequence). Qed.
Print Assumptions recv_sequence_fixed_size.

Theorem no_partial_delivery_fixed_size :
  forall (P : Type) (size : nat) (dec : decoder P) (bufsize : nat), 0 < size -> 0 < bufsize ->
  forall (mode : emode) (o : oracle) (ts : list (option nat)) (s1 tail : bytes),
    stream_of o = s1 ++ tail -> length s1 = (length s1 / size) * size -> length tail < size ->
    forall (j : nat) (r : rres P),
      nth_error (delivered (results (run_calls (copy_machine (rx_framer size dec) bufsize) mode
                                               (linit (cinit (rx_framer size dec))) o ts))) j = Some r ->
      length s1 / size <= j -> r = RecvAborted.
Proof. exact (@fixed_no_partial). Qed.
Print Assumptions no_partial_delivery_fixed_size.

Theorem eof_sticky_fixed_size :
  forall (P : Type) (size : nat) (dec : decoder P) (bufsize : nat), 0 < size -> 0 < bufsize ->
  forall (mode : emode) (o : oracle) (ts1 : list (option nat)) rs1 st1 o1,
    run_calls (copy_machine (rx_framer size dec) bufsize) mode (linit (cinit (rx_framer size dec))) o ts1 = (rs1, st1, o1) ->
    forall t st2 o2 el,
      receive (copy_machine (rx_framer size dec) bufsize) mode t st1 o1 = (st2, o2, RecvAborted, el) ->
      forall (ts' : list (option nat)) (o' : oracle),
        exists st3, run_calls (copy_machine (rx_framer size dec) bufsize) mode st2 o' ts'
                    = (map (fun _ => (RecvAborted, o')) ts', st3, o').
Proof. exact (@fixed_eof_sticky). Qed.
Print Assumptions eof_sticky_fixed_size.

Theorem timeout_loses_nothing_fixed_size :
  forall (P : Type) (size : nat) (dec : decoder P) (bufsize : nat), 0 < size -> 0 < bufsize ->
  forall (mode : emode) (o : oracle) (ts : list (option nat)),
    let evs := fx_spec size dec (stream_of o) in
    firstn (S (length evs))
           (delivered (results (run_calls (copy_machine (rx_framer size dec) bufsize) mode
                                          (linit (cinit (rx_framer size dec))) o
                                          (ts ++ repeat None (S (length evs) + raises o)))))
    = map of_nres evs ++ [RecvAborted].
Proof. exact (@fixed_timeout_loses_nothing). Qed.
Print Assumptions timeout_loses_nothing_fixed_size.

(* ---- non-vacuity: a concrete history.  size 2, identity codec, max_recv_size 3; the peer sends "ab" | silence |
   "cde" then closes inside the third frame; calls: timeout 0, timeout 0, None, None, timeout 5, None. *)
Example c03_example :
  let M := copy_machine (rx_framer 2 (fun b => Some b)) 3 in
  let o := [TData [97;98]%N 1; TWouldTimeout; TData [99;100;101]%N 0; TEof; TData [102;103]%N 0] in
  results (run_calls M Blocking (linit (cinit _)) o [Some 0; Some 0; None; None; Some 5; None])
  = [RecvPkt [97;98]%N; RecvTimeout; RecvPkt [99;100]%N; RecvAborted; RecvAborted; RecvAborted]
  /\ stream_of o = [97;98;99;100;101]%N
  /\ fx_spec 2 (fun b => Some b) (stream_of o) = [RPkt [97;98]%N; RPkt [99;100]%N].
Proof. vm_compute. repeat split. Qed.
