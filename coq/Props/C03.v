(* C03 — receive endpoints: every complete packet once, then a sticky end-of-stream.  Statements only.

   Vocabulary (definitions, no proofs): Stream/Endpoint.v (the model: receive, run_calls, copy_machine, buf_machine),
   Stream/EndpointSpec.v (consumer_ok, stream_of, delivered, expected, results, raises).
   The four main theorems hold for BOTH receiver implementations, blocking and asynchronous, for any consumer machine
   M satisfying the interface [consumer_ok M spec R] (frame-by-frame decoding independent of the cut: C02's theorem for
   the consumer models); they are then instantiated, closed, for the copying consumer over the fixed-size framer. *)
From Coq Require Import List Arith.
From EN Require Import Lib.Bytes Frame.Framer Frame.ReadUntil Frame.BufReadUntil Stream.Consumer Stream.SpecDecode
  Stream.Endpoint Stream.EndpointSpec Proofs.C03_proofs Proofs.C03_fixed Proofs.C03_readuntil Proofs.C03_bufreaduntil
  Conc.RecvLock Proofs.C03_lock Proofs.C03_buffixed Proofs.C03_instances.
Import ListNotations.

(* For every transport oracle (chunking, silences, transport errors, position of the peer's close, even data after the
   close) and every history of recv_packet calls with timeouts in {None, 0, >0}: the j-th result that is neither a
   TimeoutError nor a transport error is the j-th element of
        frame-by-frame decoding of the peer's stream  ++  [ConnectionAborted; ConnectionAborted; ...]. *)
Theorem recv_sequence :
  forall (P C : Type) (M : machine P C) (mode : emode) (spec : bytes -> list (nres P)) (R : C -> bytes -> nat -> Prop),
    consumer_ok M spec R ->
    forall c0 : C, R c0 [] 0 ->
    forall (o : oracle) (ts : list (option nat)) (j : nat) (r : rres P),
      nth_error (delivered (results (run_calls M mode (linit c0) o ts))) j = Some r ->
      r = expected (spec (stream_of o)) j.
Proof. exact (@recv_sequence_proof). Qed.
Print Assumptions recv_sequence.

(* A trailing incomplete frame (bytes that add no event to the decoding) never produces a packet: every delivered
   result beyond the complete frames is ConnectionAborted. *)
Theorem no_partial_delivery :
  forall (P C : Type) (M : machine P C) (mode : emode) (spec : bytes -> list (nres P)) (R : C -> bytes -> nat -> Prop),
    consumer_ok M spec R ->
    forall c0 : C, R c0 [] 0 ->
    forall (o : oracle) (ts : list (option nat)) (s1 tail : bytes),
      stream_of o = s1 ++ tail -> spec (s1 ++ tail) = spec s1 ->
      forall (j : nat) (r : rres P),
        nth_error (delivered (results (run_calls M mode (linit c0) o ts))) j = Some r ->
        length (spec s1) <= j -> r = RecvAborted.
Proof. exact (@no_partial_delivery_proof). Qed.
Print Assumptions no_partial_delivery.

(* Once a call has reported ConnectionAborted, every later call reports it again, whatever its timeout, and does not
   consult the transport: the transport oracle [o'] it is given (arbitrary, it may even hold data) comes back untouched. *)
Theorem eof_sticky :
  forall (P C : Type) (M : machine P C) (mode : emode) (spec : bytes -> list (nres P)) (R : C -> bytes -> nat -> Prop),
    consumer_ok M spec R ->
    forall c0 : C, R c0 [] 0 ->
    forall (o : oracle) (ts1 : list (option nat)) rs1 st1 o1,
      run_calls M mode (linit c0) o ts1 = (rs1, st1, o1) ->
      forall t st2 o2 el, receive M mode t st1 o1 = (st2, o2, RecvAborted, el) ->
      forall (ts' : list (option nat)) (o' : oracle),
        exists st3, run_calls M mode st2 o' ts' = (map (fun _ => (RecvAborted, o')) ts', st3, o').
Proof. exact (@eof_sticky_proof). Qed.
Print Assumptions eof_sticky.

(* Timeouts (and transport errors) lose nothing: after ANY history of calls, enough calls without timeout return all
   the events of the stream, in order, then ConnectionAborted. *)
Theorem timeout_loses_nothing :
  forall (P C : Type) (M : machine P C) (mode : emode) (spec : bytes -> list (nres P)) (R : C -> bytes -> nat -> Prop),
    consumer_ok M spec R ->
    forall c0 : C, R c0 [] 0 ->
    forall (o : oracle) (ts : list (option nat)),
      let evs := spec (stream_of o) in
      firstn (S (length evs))
             (delivered (results (run_calls M mode (linit c0) o (ts ++ repeat None (S (length evs) + raises o)))))
      = map of_nres evs ++ [RecvAborted].
Proof. exact (@timeout_loses_nothing_proof). Qed.
Print Assumptions timeout_loses_nothing.

(* A call without timeout never reports a timeout (no hypothesis on the consumer). *)
Theorem blocking_call_never_times_out :
  forall (P C : Type) (M : machine P C) (mode : emode) (st : lstate) (o : oracle) st' o' r el,
    receive M mode None st o = (st', o', r, el) -> r <> RecvTimeout.
Proof. exact (@receive_none_no_timeout). Qed.
Print Assumptions blocking_call_never_times_out.

(* ---- the interface is satisfiable: the copying consumer over the fixed-size framer, any codec, any max_recv_size *)

(* fx_spec = decoding by consecutive blocks of [size] bytes; these two equations determine it *)
Theorem fx_spec_short_tail :
  forall (P : Type) (size : nat) (dec : decoder P) (d : bytes), length d < size -> fx_spec size dec d = [].
Proof. exact (@fx_spec_short). Qed.
Print Assumptions fx_spec_short_tail.

Theorem fx_spec_one_block :
  forall (P : Type) (size : nat) (dec : decoder P) (d : bytes), 0 < size -> size <= length d ->
    fx_spec size dec d = fx_event dec (firstn size d) :: fx_spec size dec (skipn size d).
Proof. exact (@fx_spec_long'). Qed.
Print Assumptions fx_spec_one_block.

Theorem fixed_size_consumer_ok :
  forall (P : Type) (size : nat) (dec : decoder P) (bufsize : nat), 0 < size -> 0 < bufsize ->
    consumer_ok (copy_machine (rx_framer size dec) bufsize) (fx_spec size dec) (fx_R size dec)
    /\ fx_R size dec (cinit (rx_framer size dec)) [] 0.
Proof. exact (@fx_ok_and_init). Qed.
Print Assumptions fixed_size_consumer_ok.

(* closed instances (no interface hypothesis left) *)
Theorem recv_sequence_fixed_size :
  forall (P : Type) (size : nat) (dec : decoder P) (bufsize : nat), 0 < size -> 0 < bufsize ->
  forall (mode : emode) (o : oracle) (ts : list (option nat)) (j : nat) (r : rres P),
    nth_error (delivered (results (run_calls (copy_machine (rx_framer size dec) bufsize) mode
                                             (linit (cinit (rx_framer size dec))) o ts))) j = Some r ->
    r = expected (fx_spec size dec (stream_of o)) j.
Proof. exact (@fixed_recv_sequence). Qed.
Print Assumptions recv_sequence_fixed_size.

Theorem no_partial_delivery_fixed_size :
  forall (P : Type) (size : nat) (dec : decoder P) (bufsize : nat), 0 < size -> 0 < bufsize ->
  forall (mode : emode) (o : oracle) (ts : list (option nat)) (s1 tail : bytes),
    stream_of o = s1 ++ tail -> length s1 = (length s1 / size) * size -> length tail < size ->
    forall (j : nat) (r : rres P),
      nth_error (delivered (results (run_calls (copy_machine (rx_framer size dec) bufsize) mode
                                               (linit (cinit (rx_framer size dec))) o ts))) j = Some r ->
      length s1 / size <= j -> r = RecvAborted.
Proof. exact (@fixed_no_partial). Qed.
Print Assumptions no_partial_delivery_fixed_size.

Theorem eof_sticky_fixed_size :
  forall (P : Type) (size : nat) (dec : decoder P) (bufsize : nat), 0 < size -> 0 < bufsize ->
  forall (mode : emode) (o : oracle) (ts1 : list (option nat)) rs1 st1 o1,
    run_calls (copy_machine (rx_framer size dec) bufsize) mode (linit (cinit (rx_framer size dec))) o ts1 = (rs1, st1, o1) ->
    forall t st2 o2 el,
      receive (copy_machine (rx_framer size dec) bufsize) mode t st1 o1 = (st2, o2, RecvAborted, el) ->
      forall (ts' : list (option nat)) (o' : oracle),
        exists st3, run_calls (copy_machine (rx_framer size dec) bufsize) mode st2 o' ts'
                    = (map (fun _ => (RecvAborted, o')) ts', st3, o').
Proof. exact (@fixed_eof_sticky). Qed.
Print Assumptions eof_sticky_fixed_size.

Theorem timeout_loses_nothing_fixed_size :
  forall (P : Type) (size : nat) (dec : decoder P) (bufsize : nat), 0 < size -> 0 < bufsize ->
  forall (mode : emode) (o : oracle) (ts : list (option nat)),
    let evs := fx_spec size dec (stream_of o) in
    firstn (S (length evs))
           (delivered (results (run_calls (copy_machine (rx_framer size dec) bufsize) mode
                                          (linit (cinit (rx_framer size dec))) o
                                          (ts ++ repeat None (S (length evs) + raises o)))))
    = map of_nres evs ++ [RecvAborted].
Proof. exact (@fixed_timeout_loses_nothing). Qed.
Print Assumptions timeout_loses_nothing_fixed_size.

(* ==================================================================================================================
   Separator framing.  The interface relativised to a prefix-closed predicate G on streams ([consumer_ok_rel], in
   Stream/EndpointSpec.v): the four theorems hold for every oracle whose stream satisfies G. *)
Theorem recv_sequence_rel_generic :
  forall (P C : Type) (M : machine P C) (mode : emode) (spec : bytes -> list (nres P)) (G : bytes -> Prop)
         (R : C -> bytes -> nat -> Prop) (D : C -> bytes -> Prop),
    consumer_ok_rel M spec G R D ->
    forall c0 : C, R c0 [] 0 ->
    forall (o : oracle) (ts : list (option nat)) (j : nat) (r : rres P),
      G (stream_of o) ->
      nth_error (delivered (results (run_calls M mode (linit c0) o ts))) j = Some r ->
      r = expected (spec (stream_of o)) j.
Proof. exact (@recv_sequence_rel). Qed.
Print Assumptions recv_sequence_rel_generic.

(* the interface holds for the two real consumer models over the separator framers, inside the safe band of the limit
   (copying: payload <= limit; buffer-filling: payload + separator <= limit - 1, the generator's own limit) *)
Theorem read_until_consumer_ok :
  forall (P : Type) (sep : bytes) (limit : nat) (keep_end : bool) (dec : decoder P) (bufsize : nat),
    sep <> [] -> 0 < bufsize ->
    consumer_ok_rel (copy_machine (ru_framer sep limit keep_end dec) bufsize)
                    (fun d => fst (spec_events sep keep_end dec d)) (safe sep limit)
                    (ru_R sep limit keep_end dec) (ru_D sep limit keep_end dec).
Proof. exact (@ru_consumer_ok_rel). Qed.
Print Assumptions read_until_consumer_ok.

Theorem buffered_read_until_consumer_ok :
  forall (P : Type) (sep : bytes) (limit : nat) (keep_end : bool) (dec : decoder P) (sizehint : nat),
    sep <> [] -> length sep + 1 <= limit ->
    consumer_ok_rel (buf_machine (bru_framer sep limit keep_end dec) sizehint)
                    (fun d => fst (spec_events sep keep_end dec d)) (safe sep (limit - 1 - length sep))
                    (bru_R sep limit keep_end dec) (bru_D sep limit keep_end dec).
Proof. exact (@bru_consumer_ok_rel). Qed.
Print Assumptions buffered_read_until_consumer_ok.

(* ---- closed instances, copying receiver (_DataReceiverImpl x StreamDataConsumer x read_until), both keep_end values *)
Theorem recv_sequence_read_until :
  forall (P : Type) (sep : bytes) (limit : nat) (keep_end : bool) (dec : decoder P) (bufsize : nat),
    sep <> [] -> 0 < bufsize ->
  forall (mode : emode) (o : oracle) (ts : list (option nat)) (j : nat) (r : rres P),
    safe sep limit (stream_of o) ->
    nth_error (delivered (results (run_calls (copy_machine (ru_framer sep limit keep_end dec) bufsize) mode
                                             (linit (cinit (ru_framer sep limit keep_end dec))) o ts))) j = Some r ->
    r = expected (fst (spec_events sep keep_end dec (stream_of o))) j.
Proof. exact (@ru_recv_sequence). Qed.
Print Assumptions recv_sequence_read_until.

Theorem no_partial_delivery_read_until :
  forall (P : Type) (sep : bytes) (limit : nat) (keep_end : bool) (dec : decoder P) (bufsize : nat),
    sep <> [] -> 0 < bufsize ->
  forall (mode : emode) (o : oracle) (ts : list (option nat)) (s1 tail : bytes),
    safe sep limit (stream_of o) ->
    stream_of o = s1 ++ tail -> snd (spec_events sep keep_end dec s1) = [] -> find0 sep tail = None ->
    forall (j : nat) (r : rres P),
      nth_error (delivered (results (run_calls (copy_machine (ru_framer sep limit keep_end dec) bufsize) mode
                                               (linit (cinit (ru_framer sep limit keep_end dec))) o ts))) j = Some r ->
      length (fst (spec_events sep keep_end dec s1)) <= j -> r = RecvAborted.
Proof. exact (@ru_no_partial). Qed.
Print Assumptions no_partial_delivery_read_until.

Theorem eof_sticky_read_until :
  forall (P : Type) (sep : bytes) (limit : nat) (keep_end : bool) (dec : decoder P) (bufsize : nat),
    sep <> [] -> 0 < bufsize ->
  forall (mode : emode) (o : oracle) (ts1 : list (option nat)) rs1 st1 o1,
    safe sep limit (stream_of o) ->
    run_calls (copy_machine (ru_framer sep limit keep_end dec) bufsize) mode
              (linit (cinit (ru_framer sep limit keep_end dec))) o ts1 = (rs1, st1, o1) ->
    forall t st2 o2 el,
      receive (copy_machine (ru_framer sep limit keep_end dec) bufsize) mode t st1 o1 = (st2, o2, RecvAborted, el) ->
      forall (ts' : list (option nat)) (o' : oracle),
        exists st3, run_calls (copy_machine (ru_framer sep limit keep_end dec) bufsize) mode st2 o' ts'
                    = (map (fun _ => (RecvAborted, o')) ts', st3, o').
Proof. exact (@ru_eof_sticky). Qed.
Print Assumptions eof_sticky_read_until.

Theorem timeout_loses_nothing_read_until :
  forall (P : Type) (sep : bytes) (limit : nat) (keep_end : bool) (dec : decoder P) (bufsize : nat),
    sep <> [] -> 0 < bufsize ->
  forall (mode : emode) (o : oracle) (ts : list (option nat)),
    safe sep limit (stream_of o) ->
    let evs := fst (spec_events sep keep_end dec (stream_of o)) in
    firstn (S (length evs))
           (delivered (results (run_calls (copy_machine (ru_framer sep limit keep_end dec) bufsize) mode
                                          (linit (cinit (ru_framer sep limit keep_end dec))) o
                                          (ts ++ repeat None (S (length evs) + raises o)))))
    = map of_nres evs ++ [RecvAborted].
Proof. exact (@ru_timeout_loses_nothing). Qed.
Print Assumptions timeout_loses_nothing_read_until.

(* ---- closed instances, buffer-filling receiver (_BufferedReceiverImpl x BufferedStreamDataConsumer x _buffered_readuntil) *)
Theorem recv_sequence_buffered_read_until :
  forall (P : Type) (sep : bytes) (limit : nat) (keep_end : bool) (dec : decoder P) (sizehint : nat),
    sep <> [] -> length sep + 1 <= limit ->
  forall (mode : emode) (o : oracle) (ts : list (option nat)) (j : nat) (r : rres P),
    safe sep (limit - 1 - length sep) (stream_of o) ->
    nth_error (delivered (results (run_calls (buf_machine (bru_framer sep limit keep_end dec) sizehint) mode
                                             (linit (bcinit (bru_framer sep limit keep_end dec))) o ts))) j = Some r ->
    r = expected (fst (spec_events sep keep_end dec (stream_of o))) j.
Proof. exact (@bru_recv_sequence). Qed.
Print Assumptions recv_sequence_buffered_read_until.

Theorem no_partial_delivery_buffered_read_until :
  forall (P : Type) (sep : bytes) (limit : nat) (keep_end : bool) (dec : decoder P) (sizehint : nat),
    sep <> [] -> length sep + 1 <= limit ->
  forall (mode : emode) (o : oracle) (ts : list (option nat)) (s1 tail : bytes),
    safe sep (limit - 1 - length sep) (stream_of o) ->
    stream_of o = s1 ++ tail -> snd (spec_events sep keep_end dec s1) = [] -> find0 sep tail = None ->
    forall (j : nat) (r : rres P),
      nth_error (delivered (results (run_calls (buf_machine (bru_framer sep limit keep_end dec) sizehint) mode
                                               (linit (bcinit (bru_framer sep limit keep_end dec))) o ts))) j = Some r ->
      length (fst (spec_events sep keep_end dec s1)) <= j -> r = RecvAborted.
Proof. exact (@bru_no_partial). Qed.
Print Assumptions no_partial_delivery_buffered_read_until.

Theorem eof_sticky_buffered_read_until :
  forall (P : Type) (sep : bytes) (limit : nat) (keep_end : bool) (dec : decoder P) (sizehint : nat),
    sep <> [] -> length sep + 1 <= limit ->
  forall (mode : emode) (o : oracle) (ts1 : list (option nat)) rs1 st1 o1,
    safe sep (limit - 1 - length sep) (stream_of o) ->
    run_calls (buf_machine (bru_framer sep limit keep_end dec) sizehint) mode
              (linit (bcinit (bru_framer sep limit keep_end dec))) o ts1 = (rs1, st1, o1) ->
    forall t st2 o2 el,
      receive (buf_machine (bru_framer sep limit keep_end dec) sizehint) mode t st1 o1 = (st2, o2, RecvAborted, el) ->
      forall (ts' : list (option nat)) (o' : oracle),
        exists st3, run_calls (buf_machine (bru_framer sep limit keep_end dec) sizehint) mode st2 o' ts'
                    = (map (fun _ => (RecvAborted, o')) ts', st3, o').
Proof. exact (@bru_eof_sticky). Qed.
Print Assumptions eof_sticky_buffered_read_until.

Theorem timeout_loses_nothing_buffered_read_until :
  forall (P : Type) (sep : bytes) (limit : nat) (keep_end : bool) (dec : decoder P) (sizehint : nat),
    sep <> [] -> length sep + 1 <= limit ->
  forall (mode : emode) (o : oracle) (ts : list (option nat)),
    safe sep (limit - 1 - length sep) (stream_of o) ->
    let evs := fst (spec_events sep keep_end dec (stream_of o)) in
    firstn (S (length evs))
           (delivered (results (run_calls (buf_machine (bru_framer sep limit keep_end dec) sizehint) mode
                                          (linit (bcinit (bru_framer sep limit keep_end dec))) o
                                          (ts ++ repeat None (S (length evs) + raises o)))))
    = map of_nres evs ++ [RecvAborted].
Proof. exact (@bru_timeout_loses_nothing). Qed.
Print Assumptions timeout_loses_nothing_buffered_read_until.

(* ---- closed instances, buffer-filling receiver x fixed-size framing (FixedSizePacketSerializer.buffered_incremental_
   deserialize): no hypothesis on the stream at all *)
Theorem buffered_fixed_size_consumer_ok :
  forall (P : Type) (size : nat) (dec : decoder P) (sizehint : nat), 1 <= size ->
    consumer_ok_rel (buf_machine (bfx_framer size dec) sizehint) (fun d => fst (fx_events size dec d)) (fun _ => True)
                    (bfx_R size dec sizehint) (bfx_D size dec sizehint).
Proof. exact (@bfx_consumer_ok_rel). Qed.
Print Assumptions buffered_fixed_size_consumer_ok.

Theorem recv_sequence_buffered_fixed_size :
  forall (P : Type) (size : nat) (dec : decoder P) (sizehint : nat), 1 <= size ->
  forall (mode : emode) (o : oracle) (ts : list (option nat)) (j : nat) (r : rres P),
    nth_error (delivered (results (run_calls (buf_machine (bfx_framer size dec) sizehint) mode
                                             (linit (bcinit (bfx_framer size dec))) o ts))) j = Some r ->
    r = expected (fst (fx_events size dec (stream_of o))) j.
Proof. exact (@bfx_recv_sequence). Qed.
Print Assumptions recv_sequence_buffered_fixed_size.

Theorem no_partial_delivery_buffered_fixed_size :
  forall (P : Type) (size : nat) (dec : decoder P) (sizehint : nat), 1 <= size ->
  forall (mode : emode) (o : oracle) (ts : list (option nat)) (s1 tail : bytes),
    stream_of o = s1 ++ tail -> snd (fx_events size dec s1) = [] -> length tail < size ->
    forall (j : nat) (r : rres P),
      nth_error (delivered (results (run_calls (buf_machine (bfx_framer size dec) sizehint) mode
                                               (linit (bcinit (bfx_framer size dec))) o ts))) j = Some r ->
      length (fst (fx_events size dec s1)) <= j -> r = RecvAborted.
Proof. exact (@bfx_no_partial). Qed.
Print Assumptions no_partial_delivery_buffered_fixed_size.

Theorem eof_sticky_buffered_fixed_size :
  forall (P : Type) (size : nat) (dec : decoder P) (sizehint : nat), 1 <= size ->
  forall (mode : emode) (o : oracle) (ts1 : list (option nat)) rs1 st1 o1,
    run_calls (buf_machine (bfx_framer size dec) sizehint) mode (linit (bcinit (bfx_framer size dec))) o ts1 = (rs1, st1, o1) ->
    forall t st2 o2 el,
      receive (buf_machine (bfx_framer size dec) sizehint) mode t st1 o1 = (st2, o2, RecvAborted, el) ->
      forall (ts' : list (option nat)) (o' : oracle),
        exists st3, run_calls (buf_machine (bfx_framer size dec) sizehint) mode st2 o' ts'
                    = (map (fun _ => (RecvAborted, o')) ts', st3, o').
Proof. exact (@bfx_eof_sticky). Qed.
Print Assumptions eof_sticky_buffered_fixed_size.

Theorem timeout_loses_nothing_buffered_fixed_size :
  forall (P : Type) (size : nat) (dec : decoder P) (sizehint : nat), 1 <= size ->
  forall (mode : emode) (o : oracle) (ts : list (option nat)),
    let evs := fst (fx_events size dec (stream_of o)) in
    firstn (S (length evs))
           (delivered (results (run_calls (buf_machine (bfx_framer size dec) sizehint) mode
                                          (linit (bcinit (bfx_framer size dec))) o
                                          (ts ++ repeat None (S (length evs) + raises o)))))
    = map of_nres evs ++ [RecvAborted].
Proof. exact (@bfx_timeout_loses_nothing). Qed.
Print Assumptions timeout_loses_nothing_buffered_fixed_size.

(* non-vacuity of the safe-band hypothesis: CRLF framing, limit 8, ascii codec; "a\r\n" | silence | "\200\r" "\nbc" (peer
   closes inside the third frame): safe for both bands, decodes to [packet "a"; decode error], both paths agree *)
Example c03_read_until_example :
  let dec := fun b : bytes => if forallb (fun x => N.ltb x 128) b then Some b else None in
  let o := [TData [97;13;10]%N 0; TWouldTimeout; TData [200;13]%N 2; TData [10;98;99]%N 0; TEof] in
  safe [13;10]%N 8 (stream_of o) /\ safe [13;10]%N (8 - 1 - 2) (stream_of o)
  /\ fst (spec_events [13;10]%N false dec (stream_of o)) = [RPkt [97%N]; RErr EDecode]
  /\ results (run_calls (copy_machine (ru_framer [13;10]%N 8 false dec) 2) Blocking (linit (cinit _)) o
                        [Some 0; Some 0; None; None; Some 3])
     = [RecvPkt [97%N]; RecvTimeout; RecvErr EDecode; RecvAborted; RecvAborted]
  /\ results (run_calls (buf_machine (bru_framer [13;10]%N 8 false dec) 2) Async (linit (bcinit _)) o
                        [Some 0; Some 0; None; None; Some 3])
     = [RecvPkt [97%N]; RecvTimeout; RecvErr EDecode; RecvAborted; RecvAborted].
Proof.
  cbv zeta. split; [|split; [|vm_compute; repeat split]].
  - vm_compute. apply (safe_frame _ _ _ 1); [reflexivity|repeat constructor|].
    apply (safe_frame _ _ _ 1); [reflexivity|repeat constructor|]. apply safe_end; [reflexivity|vm_compute; repeat constructor].
  - vm_compute. apply (safe_frame _ _ _ 1); [reflexivity|repeat constructor|].
    apply (safe_frame _ _ _ 1); [reflexivity|repeat constructor|]. apply safe_end; [reflexivity|vm_compute; repeat constructor].
Qed.

(* ==================================================================================================================
   The blocking TCP client's receive lock (Conc/RecvLock.v): two threads call recv_packet(timeout=None) on one client,
   the scheduler is arbitrary ([sch] = which thread runs next; a thread is preempted when it waits for the lock or is
   parked inside a transport call).  [Hprog]: a transport read takes at least one byte when bytes are available. *)

(* The calls, in the order they RETURN, have exactly the results of the same number of calls made one after the other
   by a single thread: concurrent calls are serialised. *)
Theorem recv_lock_serialises :
  forall (P C : Type) (M : machine P C),
    (forall c ch c' r n room, mtake M c ch = Some (c', r, n, room) -> ch <> [] -> 1 <= n) ->
    forall (c0 : C) (o : oracle) (na nb : nat) (sch : list bool),
      let s := trun M (tinit c0 o na nb) sch in
      map snd (rev (t_log s)) =
      firstn (length (t_log s)) (results (run_calls M Blocking (linit c0) o (repeat None (na + nb)))).
Proof. exact (@lock_serialises_prog). Qed.
Print Assumptions recv_lock_serialises.

(* At most one thread is inside the receive (parked in the transport) at any time, and it is the lock holder. *)
Theorem recv_lock_mutex :
  forall (P C : Type) (M : machine P C),
    (forall c ch c' r n room, mtake M c ch = Some (c', r, n, room) -> ch <> [] -> 1 <= n) ->
    forall (c0 : C) (o : oracle) (na nb : nat) (sch : list bool),
      let s := trun M (tinit c0 o na nb) sch in
      forall (i : bool) (n : nat), tget s i = TParked n ->
        t_lock s = Some i /\ (forall m, tget s (negb i) <> TParked m).
Proof. exact (@lock_mutex_prog). Qed.
Print Assumptions recv_lock_mutex.

(* Hence recv_sequence for two threads and every schedule: the returned calls deliver the events of the stream in order,
   then ConnectionAborted — nothing is delivered after end-of-stream, nothing received before the close is withheld. *)
Theorem recv_sequence_two_threads :
  forall (P C : Type) (M : machine P C),
    (forall c ch c' r n room, mtake M c ch = Some (c', r, n, room) -> ch <> [] -> 1 <= n) ->
    forall (spec : bytes -> list (nres P)) (R : C -> bytes -> nat -> Prop), consumer_ok M spec R ->
    forall c0 : C, R c0 [] 0 ->
    forall (o : oracle) (na nb : nat) (sch : list bool) (j : nat) (r : rres P),
      nth_error (delivered (map snd (rev (t_log (trun M (tinit c0 o na nb) sch))))) j = Some r ->
      r = expected (spec (stream_of o)) j.
Proof. exact (@threads_recv_sequence). Qed.
Print Assumptions recv_sequence_two_threads.

(* The timed branch of lock_with_timeout.  [LTry i]: thread i, not in a call, makes an extra recv_packet(timeout=0) while
   the receive lock is held; it gets TimeoutError ([t_try]) and nothing else changes: *)
Theorem recv_lock_timeout_untouched :
  forall (P C : Type) (s : @tstate P C) (i : bool),
    t_a (ttry s i) = t_a s /\ t_b (ttry s i) = t_b s /\ t_lock (ttry s i) = t_lock s /\ t_c (ttry s i) = t_c s /\
    t_eof (ttry s i) = t_eof s /\ t_o (ttry s i) = t_o s /\ t_log (ttry s i) = t_log s.
Proof. exact (@lock_timeout_untouched). Qed.
Print Assumptions recv_lock_timeout_untouched.

(* hence, with such calls anywhere in the schedule, the sequence of the other calls is what it would be without them *)
Theorem recv_lock_serialises_with_lock_timeouts :
  forall (P C : Type) (M : machine P C),
    (forall c ch c' r n room, mtake M c ch = Some (c', r, n, room) -> ch <> [] -> 1 <= n) ->
    forall (c0 : C) (o : oracle) (na nb : nat) (sch : list tlabel),
      let s := trun_l M (tinit c0 o na nb) sch in
      map snd (rev (t_log s)) =
      firstn (length (t_log s)) (results (run_calls M Blocking (linit c0) o (repeat None (na + nb)))).
Proof. exact (@lock_serialises_l_prog). Qed.
Print Assumptions recv_lock_serialises_with_lock_timeouts.

Theorem recv_lock_serialises_with_lock_timeouts_rel :
  forall (P C : Type) (M : machine P C) (spec : bytes -> list (nres P)) (G : bytes -> Prop)
         (R : C -> bytes -> nat -> Prop) (D : C -> bytes -> Prop),
    consumer_ok_rel M spec G R D ->
    forall c0 : C, R c0 [] 0 ->
    forall (o : oracle) (na nb : nat) (sch : list tlabel), G (stream_of o) ->
      let s := trun_l M (tinit c0 o na nb) sch in
      map snd (rev (t_log s)) =
      firstn (length (t_log s)) (results (run_calls M Blocking (linit c0) o (repeat None (na + nb)))).
Proof. exact (@lock_serialises_l_rel). Qed.
Print Assumptions recv_lock_serialises_with_lock_timeouts_rel.

(* the same two theorems with progress required only on the states the loop reaches, obtained from the (relativised)
   consumer interface: this covers the buffer-filling machines *)
Theorem recv_lock_serialises_rel :
  forall (P C : Type) (M : machine P C) (spec : bytes -> list (nres P)) (G : bytes -> Prop)
         (R : C -> bytes -> nat -> Prop) (D : C -> bytes -> Prop),
    consumer_ok_rel M spec G R D ->
    forall c0 : C, R c0 [] 0 ->
    forall (o : oracle) (na nb : nat) (sch : list bool), G (stream_of o) ->
      let s := trun M (tinit c0 o na nb) sch in
      map snd (rev (t_log s)) =
      firstn (length (t_log s)) (results (run_calls M Blocking (linit c0) o (repeat None (na + nb)))).
Proof. exact (@lock_serialises_rel). Qed.
Print Assumptions recv_lock_serialises_rel.

Theorem recv_lock_mutex_rel :
  forall (P C : Type) (M : machine P C) (spec : bytes -> list (nres P)) (G : bytes -> Prop)
         (R : C -> bytes -> nat -> Prop) (D : C -> bytes -> Prop),
    consumer_ok_rel M spec G R D ->
    forall c0 : C, R c0 [] 0 ->
    forall (o : oracle) (na nb : nat) (sch : list bool), G (stream_of o) ->
      let s := trun M (tinit c0 o na nb) sch in
      forall (i : bool) (n : nat), tget s i = TParked n ->
        t_lock s = Some i /\ (forall m, tget s (negb i) <> TParked m).
Proof. exact (@lock_mutex_rel). Qed.
Print Assumptions recv_lock_mutex_rel.

Theorem recv_sequence_two_threads_buffered_read_until :
  forall (P : Type) (sep : bytes) (limit : nat) (keep_end : bool) (dec : decoder P) (sizehint : nat),
    sep <> [] -> length sep + 1 <= limit ->
  forall (o : oracle) (na nb : nat) (sch : list bool) (j : nat) (r : rres P),
    safe sep (limit - 1 - length sep) (stream_of o) ->
    nth_error (delivered (map snd (rev (t_log (trun (buf_machine (bru_framer sep limit keep_end dec) sizehint)
                                               (tinit (bcinit (bru_framer sep limit keep_end dec)) o na nb) sch))))) j = Some r ->
    r = expected (fst (spec_events sep keep_end dec (stream_of o))) j.
Proof. exact (@bru_threads_recv_sequence). Qed.
Print Assumptions recv_sequence_two_threads_buffered_read_until.

Theorem recv_sequence_two_threads_buffered_fixed_size :
  forall (P : Type) (size : nat) (dec : decoder P) (sizehint : nat), 1 <= size ->
  forall (o : oracle) (na nb : nat) (sch : list bool) (j : nat) (r : rres P),
    nth_error (delivered (map snd (rev (t_log (trun (buf_machine (bfx_framer size dec) sizehint)
                                               (tinit (bcinit (bfx_framer size dec)) o na nb) sch))))) j = Some r ->
    r = expected (fst (fx_events size dec (stream_of o))) j.
Proof. exact (@bfx_threads_recv_sequence). Qed.
Print Assumptions recv_sequence_two_threads_buffered_fixed_size.

Theorem recv_sequence_two_threads_read_until :
  forall (P : Type) (sep : bytes) (limit : nat) (keep_end : bool) (dec : decoder P) (bufsize : nat),
    sep <> [] -> 0 < bufsize ->
  forall (o : oracle) (na nb : nat) (sch : list bool) (j : nat) (r : rres P),
    safe sep limit (stream_of o) ->
    nth_error (delivered (map snd (rev (t_log (trun (copy_machine (ru_framer sep limit keep_end dec) bufsize)
                                               (tinit (cinit (ru_framer sep limit keep_end dec)) o na nb) sch))))) j = Some r ->
    r = expected (fst (spec_events sep keep_end dec (stream_of o))) j.
Proof. exact (@ru_threads_recv_sequence). Qed.
Print Assumptions recv_sequence_two_threads_read_until.

Theorem recv_sequence_two_threads_fixed_size :
  forall (P : Type) (size : nat) (dec : decoder P) (bufsize : nat), 0 < size -> 0 < bufsize ->
  forall (o : oracle) (na nb : nat) (sch : list bool) (j : nat) (r : rres P),
    nth_error (delivered (map snd (rev (t_log (trun (copy_machine (rx_framer size dec) bufsize)
                                               (tinit (cinit (rx_framer size dec)) o na nb) sch))))) j = Some r ->
    r = expected (fx_spec size dec (stream_of o)) j.
Proof. exact (@fx_threads_recv_sequence). Qed.
Print Assumptions recv_sequence_two_threads_fixed_size.

(* non-vacuity: LF framing, "A\nB\n" in one segment then the close; thread 0 starts and parks, thread 1 starts while
   thread 0 is parked and waits for the lock; thread 0 is served: it returns A, thread 1 takes the lock and returns B from
   the buffer without touching the transport; the third call reports end-of-stream. *)
Example c03_two_threads_example :
  let M := copy_machine (ru_framer [10%N] 16 false (fun b => Some b)) 64 in
  let o := [TData [65;10;66;10]%N 0; TEof] in
  let s1 := trun M (tinit (cinit _) o 2 1) [false; true] in
  let s := trun M (tinit (cinit _) o 2 1) [false; true; false; true; false; false] in
  (t_a s1, t_b s1, t_lock s1) = (TParked 1, TBlocked 0, Some false)
  /\ rev (t_log s) = [(false, RecvPkt [65%N]); (true, RecvPkt [66%N]); (false, RecvAborted)].
Proof. vm_compute. split; reflexivity. Qed.

(* ---- non-vacuity: a concrete history.  size 2, identity codec, max_recv_size 3; the peer sends "ab" | silence |
   "cde" then closes inside the third frame; calls: timeout 0, timeout 0, None, None, timeout 5, None. *)
Example c03_example :
  let M := copy_machine (rx_framer 2 (fun b => Some b)) 3 in
  let o := [TData [97;98]%N 1; TWouldTimeout; TData [99;100;101]%N 0; TEof; TData [102;103]%N 0] in
  results (run_calls M Blocking (linit (cinit _)) o [Some 0; Some 0; None; None; Some 5; None])
  = [RecvPkt [97;98]%N; RecvTimeout; RecvPkt [99;100]%N; RecvAborted; RecvAborted; RecvAborted]
  /\ stream_of o = [97;98;99;100;101]%N
  /\ fx_spec 2 (fun b => Some b) (stream_of o) = [RPkt [97;98]%N; RPkt [99;100]%N].
Proof. vm_compute. repeat split. Qed.
