(* C03 — receive endpoints: every complete packet once, then a sticky end-of-stream.  Statements only. *)
From EN Require Import Lib.Bytes Frame.Framer Stream.Consumer Stream.Endpoint Proofs.C03_proofs.

(* A recv_packet call without timeout (blocking endpoint: timeout=None; asynchronous endpoint: no timeout scope)
   never reports a timeout, whatever the consumer, the receive path, the state and the transport do. *)
Theorem blocking_call_never_times_out :
  forall (P C : Type) (M : machine P C) (mode : emode) (st : lstate) (o : oracle) st' o' r el,
    receive M mode None st o = (st', o', r, el) -> r <> RecvTimeout.
Proof. exact (@receive_none_no_timeout). Qed.
Print Assumptions blocking_call_never_times_out.
