(* C12 theorems -- being grown; see Proofs/C12_*.v *)
From EN Require Import Lib.Bytes Conc.FairLock Conc.Guard Conc.SendSerial.
Theorem placeholder_c12 : True. Proof. exact I. Qed.
Print Assumptions placeholder_c12.
