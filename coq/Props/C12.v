(* C12 -- concurrent senders never interleave packets.  Statements only; proofs in Proofs/C12_*.v. *)
From Coq Require Import List Arith Bool Sorting.Sorted.
From EN Require Import Lib.Bytes Conc.FairLock Conc.Guard Conc.SendSerial Conc.AsyncioLock Proofs.C12_fairlock Proofs.C12_asynciolock Proofs.C12_wire Proofs.C12_guard Proofs.C12_order Conc.TlsSend Proofs.C12_tls IO.Retry IO.ClientLocks Conc.BlockingSend Proofs.C12_blocking Gen.ParamsC12 Proofs.C12_source.
Import ListNotations.
Open Scope nat_scope.

(* FairLock, every label sequence (acquire / resume / cancel of ANY waiter at ANY time / release): at most one holder,
   and a holder implies _locked *)
Theorem fairlock_mutex :
  forall (ls : list flabel) (s : fl), fl_run fl_init ls = Some s ->
    length (fl_holders s) <= 1 /\ (fl_holders s <> [] -> fl_locked s = true).
Proof. exact fairlock_mutex_proof. Qed.
Print Assumptions fairlock_mutex.

(* Tickets are arrival ranks (the k-th acquire() call gets ticket k, see fl_acquire).  The tickets that acquired,
   in acquisition order, followed by the tickets still queued, are strictly increasing: acquisition order = arrival
   order among the non-cancelled; and every ticket handed out so far is exactly one of acquired / queued / cancelled. *)
Theorem fairlock_fifo :
  forall (ls : list flabel) (s : fl), fl_run fl_init ls = Some s ->
    StronglySorted lt (fl_acq s ++ map w_ticket (fl_waiters s)) /\
    (forall k, count_occ Nat.eq_dec (fl_acq s ++ map w_ticket (fl_waiters s) ++ fl_cancelled s) k
               = if k <? fl_next s then 1 else 0).
Proof. exact fairlock_fifo_proof. Qed.
Print Assumptions fairlock_fifo.

(* free lock + non-empty queue => the head's event is set, its resumption is enabled and gives it the lock *)
Theorem fairlock_no_lost_wakeup :
  forall (ls : list flabel) (s : fl) (w : waiter) (r : list waiter), fl_run fl_init ls = Some s ->
    fl_locked s = false -> fl_waiters s = w :: r ->
    w_set w = true /\
    exists s', fl_step s (FResume (w_tid w)) = Some (s', [OAcquired (w_tid w)]) /\
               fl_holders s' = [w_tid w] /\ fl_waiters s' = r.
Proof. exact fairlock_no_lost_wakeup_proof. Qed.
Print Assumptions fairlock_no_lost_wakeup.

(* nobody is stranded: if somebody waits, somebody holds the lock or the head of the queue has been woken *)
Theorem fairlock_no_deadlock :
  forall (ls : list flabel) (s : fl), fl_run fl_init ls = Some s -> fl_waiters s <> [] ->
    (exists t, fl_holders s = [t]) \/ (exists w r, fl_waiters s = w :: r /\ w_set w = true).
Proof. exact fairlock_no_deadlock_proof. Qed.
Print Assumptions fairlock_no_deadlock.

(* non-vacuity: a run with contention and a cancellation of a woken waiter *)
Example fairlock_run_example :
  exists s, fl_run fl_init [FAcquire 0; FAcquire 1; FAcquire 2; FRelease 0; FCancel 1; FResume 2] = Some s
            /\ fl_holders s = [2] /\ fl_acq s = [0; 2] /\ fl_cancelled s = [1].
Proof. eexists. split; [vm_compute; reflexivity|]. repeat split. Qed.

(* CPython 3.12's asyncio.Lock (Conc/AsyncioLock.v), every label sequence (acquire / a pending waiter's future cancelled
   at once by task.cancel() / resume / CancelledError at the await, for a cancelled OR an already woken waiter /
   release): at most one holder, a holder implies _locked *)
Theorem asynciolock_mutex :
  forall (ls : list alabel) (s : al), al_run al_init ls = Some s ->
    length (al_holders s) <= 1 /\ (al_holders s <> [] -> al_locked s = true).
Proof. exact asynciolock_mutex_proof. Qed.
Print Assumptions asynciolock_mutex.

(* free lock + non-empty queue: the head's future is done and its continuation is enabled: woken -> it takes the lock;
   cancelled -> it leaves and, the lock being free, wakes the next waiter *)
Theorem asynciolock_no_lost_wakeup :
  forall (ls : list alabel) (s : al) (w : awaiter) (r : list awaiter), al_run al_init ls = Some s ->
    al_locked s = false -> al_waiters s = w :: r ->
    (aw_st w = WWoken /\ exists s', al_step s (ALResume (aw_tid w)) = Some (s', [OAcquired (aw_tid w)]) /\
                                    al_holders s' = [aw_tid w] /\ al_waiters s' = r) \/
    (aw_st w = WCancelled /\ exists s', al_step s (ALCancel (aw_tid w)) = Some (s', [OCancelled (aw_tid w)]) /\
                                        al_waiters s' = al_wake_first r /\ al_locked s' = false).
Proof. exact asynciolock_no_lost_wakeup_proof. Qed.
Print Assumptions asynciolock_no_lost_wakeup.

Theorem asynciolock_no_deadlock :
  forall (ls : list alabel) (s : al), al_run al_init ls = Some s -> al_waiters s <> [] ->
    (exists t, al_holders s = [t]) \/ (exists w r, al_waiters s = w :: r /\ aw_st w <> WPending).
Proof. exact asynciolock_no_deadlock_proof. Qed.
Print Assumptions asynciolock_no_deadlock.

(* The fairness asyncio.Lock has (weaker than FairLock's): tickets are arrival ranks; the tickets that acquired, in
   acquisition order, followed by the tickets of the LIVE (not cancelled) queued waiters, are strictly increasing: no live
   waiter is ever overtaken, a newcomer on the fast path can only pass waiters whose future is already cancelled (they
   never take the lock); and every ticket handed out is exactly one of acquired / queued / gone with CancelledError. *)
Theorem asynciolock_fifo_among_live :
  forall (ls : list alabel) (s : al), al_run al_init ls = Some s ->
    StronglySorted lt (al_acq s ++ map aw_ticket (filter live (al_waiters s))) /\
    (forall k, count_occ Nat.eq_dec (al_acq s ++ map aw_ticket (al_waiters s) ++ al_gone s) k
               = if k <? al_next s then 1 else 0).
Proof. exact asynciolock_fifo_among_live_proof. Qed.
Print Assumptions asynciolock_fifo_among_live.

(* the overtaking it does allow: B queued, its future cancelled, A releases, newcomer C takes the lock before B has left *)
Example asynciolock_overtakes_cancelled_only :
  exists s, al_run al_init [ALAcquire 0; ALAcquire 1; ALFutCancel 1; ALRelease 0; ALAcquire 2] = Some s
            /\ al_holders s = [2] /\ al_acq s = [0; 2] /\ map aw_ticket (al_waiters s) = [1].
Proof. eexists. split; [vm_compute; reflexivity|]. repeat split. Qed.

(* N senders, any programs, whatever the send lock (k = LFair: the FairLock of /repo; LAsyncio: CPython's asyncio.Lock,
   what AsyncTCPNetworkClient and the server-side client get on the asyncio backend; LNone: AsyncStreamEndpoint used directly), every label sequence (start / resume / transport suspension ends
   normally or with an error / cancellation of any task at any await):
   - the wire is the concatenation, in the order in which the sends got hold of the transport, of one segment per send;
   - a segment is a prefix (whole pieces) of its packet, and the whole packet when the send completed;
   - only the newest segment can still be in progress: packets never interleave;
   - when every send completed (nothing cancelled or failed), the wire is exactly the concatenation of the packets. *)
Theorem wire_is_concat_of_packets :
  forall (k : lkind) (progs : list (list packet)) (ls : list slabel) (s : st),
    s_run (st_init k progs) ls = Some s ->
    s_wire s = concat (map seg_bytes (rev (s_segs s))) /\
    (forall g, In g (s_segs s) ->
       seg_bytes g = concat (firstn (sg_written g) (sg_pkt g)) /\ sg_written g <= length (sg_pkt g) /\
       (sg_st g = SgComplete -> seg_bytes g = pkt_bytes (sg_pkt g))) /\
    Forall not_active (tl (s_segs s)) /\
    (all_complete (s_segs s) -> s_wire s = concat (map (fun g => pkt_bytes (sg_pkt g)) (rev (s_segs s)))).
Proof. exact wire_is_concat_of_packets_proof. Qed.
Print Assumptions wire_is_concat_of_packets.

(* With the client lock (AsyncTCPNetworkClient, server-side client), every label sequence: no task ever ends with
   BusyResourceError; neither the lock (RuntimeError "Lock not acquired") nor the guard (AssertionError) is ever misused;
   a task suspended inside the transport is THE lock holder and holds the guard. *)
Theorem guard_never_busy_under_lock :
  forall (progs : list (list packet)) (ls : list slabel) (s : st),
    s_run (st_init LFair progs) ls = Some s ->
    (forall t, nth_error (s_tasks s) t <> Some (TDone c_busy)) /\ s_crashed s = false /\
    (forall t todo rest, nth_error (s_tasks s) t = Some (TSend todo rest) ->
       fl_holders (s_lock s) = [t] /\ s_guard s = true).
Proof. exact guard_never_busy_under_lock_proof. Qed.
Print Assumptions guard_never_busy_under_lock.

(* Per-sender order, with or without the lock, every label sequence: the packets for which task t got hold of the
   transport (owned t, newest first), oldest first, followed by what t still has to send, are exactly t's program: each
   packet of a sender reaches the transport at most once and in program order; `rem_ok`: a task that has not started has
   sent nothing, a task waiting for the lock still has its current packet to send, a task that returned normally
   (c_ok) has nothing left: all its packets are segments of the wire (wire_is_concat_of_packets). *)
Theorem per_sender_order :
  forall (k : lkind) (progs : list (list packet)) (ls : list slabel) (s : st),
    s_run (st_init k progs) ls = Some s ->
    forall (t : tid) (ts : tstate), nth_error (s_tasks s) t = Some ts ->
      exists rem, rev (owned t (s_segs s)) ++ rem = nth t progs [] /\
                  match ts with
                  | TNew p => rem = p
                  | TRun => True
                  | TWait c r => rem = c :: r
                  | TSend _ r => rem = r
                  | TDone c => c = c_ok -> rem = []
                  end.
Proof. exact per_sender_order_proof. Qed.
Print Assumptions per_sender_order.

(* AsyncTLSStreamTransport.send_all / send_all_from_iterable under concurrent senders (ideal record layer: a record is its plaintext), every
   label sequence incl. cancellation, transport errors and tasks blocked in recv() that flush pending ciphertext: the bytes handed to the underlying transport so far
   (x_calls, one entry per transport.send_all call), followed by what is still pending in the write BIO, are the
   synchronous writes to the SSL object in the order they were made: nothing is reordered, lost or duplicated. *)
Theorem tls_wire_order :
  forall (progs : list (list (list bytes))) (readers : list tid) (ls : list xlabel) (s : tls),
    x_run (tls_init progs readers) ls = Some s ->
    concat (rev (x_calls s)) ++ concat (x_wbio s) = concat (rev (x_writes s)).
Proof. exact tls_wire_order_proof. Qed.
Print Assumptions tls_wire_order.

Example tls_example :
  exists s, x_run (tls_init [[[[1%N]; [5%N]]; [[4%N]]]; [[[2%N]]]; []] [2]) [TStart 0; TStart 1; TStart 2; TWrite 0; TResume 1] = Some s
            /\ rev (x_calls s) = [[1%N; 5%N]; [2%N; 4%N]] /\ x_wbio s = [] /\ nth_error (x_tasks s) 2 = Some XRdWait.
Proof. eexists. split; [vm_compute; reflexivity|]. repeat split. Qed.

(* Blocking TCPNetworkClient / UDPNetworkClient.  IO/ClientLocks.v (builder-io; its theorems locks_free_at_quiescence,
   send_never_waits_on_recv_lock ... are in Props/C11.v) gives: a lock is owned only by a call inside its body.  The
   converse, for every reachable ClientLocks state: a call inside its body owns its lock, so two bodies guarded by the
   same lock (two send_packet calls; or send_packet and close()) never overlap. *)
Theorem blocking_send_bodies_exclusive :
  forall (s : cst) (k1 k2 : nat) (c1 c2 : call), reachable s ->
    lookup k1 (cs s) = Some c1 -> lookup k2 (cs s) = Some c2 -> c_ph c1 = PHold -> c_ph c2 = PHold ->
    lock_of (c_m c1) = lock_of (c_m c2) -> k1 = k2.
Proof. exact bodies_exclusive_proof. Qed.
Print Assumptions blocking_send_bodies_exclusive.

(* ClientLocks composed with the wire (Conc/BlockingSend.v): any number of threads calling send_packet (with any
   timeouts), recv_packet and the quick methods, every history of starts, grants, give-ups, partial socket writes and
   finishes (normal or by an exception in the middle of a packet): the wire is the concatenation of one segment per
   send that entered its body, in that order; a segment is a prefix of its packet and the whole packet when the call
   returned; only the newest segment -- the one of the call that owns the send lock -- can be in progress: packets of
   concurrent blocking senders are contiguous on the wire. *)
Theorem blocking_wire_is_concat_of_packets :
  forall (ls : list blabel) (s : bst), b_run b_init ls = Some s ->
    b_wire s = concat (map seg_bytes (rev (b_segs s))) /\
    (forall g, In g (b_segs s) -> (sg_written g <= length (sg_pkt g))%nat /\
                                  (sg_st g = SgComplete -> seg_bytes g = pkt_bytes (sg_pkt g))) /\
    Forall not_active (tl (b_segs s)) /\
    (forall k, in_send_body k (b_c s) = true -> o_send (b_c s) = Some k /\ exists g r, b_segs s = g :: r /\ sg_owner g = k) /\
    (all_complete (b_segs s) -> b_wire s = concat (map (fun g => pkt_bytes (sg_pkt g)) (rev (b_segs s)))).
Proof. exact blocking_wire_is_concat_of_packets_proof. Qed.
Print Assumptions blocking_wire_is_concat_of_packets.

Example blocking_example :
  exists s, b_run b_init [BLock (Start 0 MSend None) [[1%N]; [2%N]]; BLock (Start 1 MSend None) [[3%N]]; BPiece 0;
                          BLock (Start 2 MRecv None) []; BPiece 0; BLock (Finish 0 true) []; BLock (Grant 1) [];
                          BPiece 1; BLock (Finish 1 true) []] = Some s
            /\ b_wire s = [1%N; 2%N; 3%N] /\ o_send (b_c s) = None /\ o_recv (b_c s) = Some 2.
Proof. eexists. split; [vm_compute; reflexivity|]. repeat split. Qed.

(* The models are the code: read from the AST of /repo on every run (harness/c12.py source_params, fail closed).
   FairLock.acquire: the fast path is refused when somebody queues; a task leaving the queue removes ITS OWN waiter
   (`self._waiters.remove(waiter)`, what fl_resume / fl_cancel do); a cancelled waiter re-wakes the head when the lock is
   free and wakes NOBODY while the lock is held (fl_cancel's `if fl_locked`: fairlock_mutex rests on it); _wake_up_first wakes `_waiters[0]`.  AsyncTLSStreamTransport: send_all_from_iterable puts the whole packet in the
   backlog before its first await; every read of the write BIO and every send on the wrapped transport happens under
   the transport send lock (what Conc/TlsSend.v's flush does). *)
Theorem models_transcribe_the_source :
  fairlock_fast_path_checks_queue = true /\ fairlock_leave_removes_own_waiter = true /\
  fairlock_cancel_rewakes_when_free = true /\ fairlock_cancel_silent_when_held = true /\ fairlock_wakes_the_head = true /\
  tls_whole_packet_enters_backlog_at_once = true /\ tls_bio_read_under_send_lock = true /\
  tls_transport_send_under_send_lock = true.
Proof. exact models_transcribe_the_source_proof. Qed.
Print Assumptions models_transcribe_the_source.

(* non-vacuity: two senders with the lock, the second one parks, the first completes, the hand-off happens *)
Example send_serial_example :
  exists s, s_run (st_init LFair [[[[1%N]; [2%N]]]; [[[3%N]]]])
                  [SStart 0; SStart 1; SWrite 0; SWrite 0; SResume 1; SWrite 1] = Some s
            /\ s_wire s = [1%N; 2%N; 3%N] /\ all_complete (s_segs s).
Proof. eexists. split; [vm_compute; reflexivity|]. split; [reflexivity|]. repeat constructor. Qed.
