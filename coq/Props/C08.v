(* C08 — TLS transport is a transparent, encrypted byte stream.
   Statements only; proofs in Proofs/C08_proofs.v (and Proofs/C09_proofs.v for the ideal record layer).
   Models: Conc/TlsPump.v (_retry_ssl_method, __write_all_to_ssl_object, readinto, the two locks; several tasks on
   one transport, any interleaving), Conc/IdealTls.v (ideal record layer, defined).  The SSL object and the wrapped
   transport are oracles: the theorems below hold for EVERY answer they may give. *)
From Coq Require Import List Bool.
From EN Require Import Lib.Bytes Conc.TlsBase Conc.TlsPump Conc.IdealTls Conc.TlsDuplex
  Proofs.C08_proofs Proofs.Ideal_proofs Proofs.C08_locks Proofs.C08_duplex.
Import ListNotations.

(* (i) cipher_only.  For every trace (any number of tasks, any interleaving, any answers of the SSL object and of the
   wrapped transport) that the model accepts: the bytes handed to transport.send_all, in order, followed by what is
   still pending in the outgoing BIO, are exactly the bytes the SSL object appended to the outgoing BIO, in order —
   nothing else ever reaches the wire (in particular nothing from _data_deque), nothing is dropped, duplicated or
   reordered.  ADesync marks a label that does not fit the code (the model rejects such traces). *)
Theorem cipher_only : forall (fl : flags) ls y acts,
  sys_exec fl sys0 ls = Some (y, acts) -> ~ In ADesync (map snd acts) ->
  sent (map snd acts) ++ wbio (y_sh y) = produced ls.
Proof.
  intros fl ls y acts H Hd. destruct (sys_exec_flow fl ls sys0 y acts H Hd) as [F _]. exact F.
Qed.
Print Assumptions cipher_only.

(* (i') each single payload is the whole outgoing BIO at that moment (write_bio.read()), and empties it. *)
Theorem every_send_is_the_outgoing_bio : forall (fl : flags) m b s p l s' p' a w,
  step fl m b s p l = Some (s', p', a) -> In (ASend w) a -> w = wbio s /\ wbio s' = [] /\ l = LGo.
Proof. exact step_send_is_wbio. Qed.
Print Assumptions every_send_is_the_outgoing_bio.

(* (ii) pump_transparent.  The COMPOSED system of Conc/TlsDuplex.v: two TLS transports, each = the multi-task pump
   driving an ideal SSL object (Conc/IdealTls.v, any byte map E with inverse D, any record size M), joined by two FIFO
   byte queues.  A trace is any list of labels (side, spawn wrap/recv(n)/send_all(data) | task t calls the SSL object |
   task t takes its lock | task t's send_all returns | task t's recv_into returns the first k >= 1 bytes in flight):
   every fragmentation (down to 1 byte), every delay, every interleaving of any number of tasks on both sides, both
   directions at once.  For every trace the system accepts, the plaintext returned by recv on one side is a prefix of
   the plaintext handed to send_all on the other side — in order, nothing duplicated — in BOTH directions.
   Relative to IdealTls; the network is reliable (failures, end-of-file, cancellation and unwrap() are not transitions
   of the composed system — for those the pump-level theorems (i), (ii-a/b) hold with arbitrary oracles). *)
Theorem pump_transparent : forall (fl : flags) (E D : byte -> byte) (M : nat),
  (forall x, D (E x) = x) ->
  forall ls c,
  dexec fl E D M duplex0 ls = Some c ->
  is_prefix (e_got (dB c)) (e_written (dA c)) /\ is_prefix (e_got (dA c)) (e_written (dB c)).
Proof. intros fl E D M DE. exact (duplex_transparent fl E D M DE). Qed.
Print Assumptions pump_transparent.

(* (ii') ... and nothing is lost on the way: in every reachable state, for each direction, the receiver's incoming BIO,
   the bytes in flight and the sender's outgoing BIO are a sequence of whole records, and
   returned ++ decrypted-but-unreturned ++ payloads of the data records in that stream ++ sender's backlog = written. *)
Theorem pump_transparent_exact : forall (fl : flags) (E D : byte -> byte) (M : nat),
  (forall x, D (E x) = x) ->
  forall ls c,
  dexec fl E D M duplex0 ls = Some c ->
  TInv E (dA c) (dB c) (nAB c) /\ TInv E (dB c) (dA c) (nBA c).
Proof.
  intros fl E D M DE ls c H. destruct (DInv_exec fl E D M DE _ _ _ H (DInv_init E)) as [I1 [I2 _]]. auto.
Qed.
Print Assumptions pump_transparent_exact.

(* (ii-a) send side = cipher_only above, for ARBITRARY oracles: the wire carries exactly the SSL object's output, in
   order.  (ii-b) receive side: the bytes written into the incoming BIO, in order, are exactly the bytes recv_into
   returned, in order — for every trace, every fragmentation, every interleaving, every answer (incl. failures). *)
Theorem pump_data_flow : forall (fl : flags) ls y acts,
  sys_exec fl sys0 ls = Some (y, acts) -> ~ In ADesync (map snd acts) ->
  sent (map snd acts) ++ wbio (y_sh y) = produced ls /\ fed (map snd acts) = received ls.
Proof.
  intros fl ls y acts H Hd. exact (sys_exec_flow fl ls sys0 y acts H Hd).
Qed.
Print Assumptions pump_data_flow.

(* (ii-d) lock mutual exclusion, for every trace and arbitrary oracles: the send lock is held iff exactly one task is
   inside transport.send_all, the recv lock iff exactly one is inside transport.recv_into (so at most one each) ... *)
Theorem lock_mutual_exclusion : forall (fl : flags) ls y acts,
  sys_exec fl sys0 ls = Some (y, acts) ->
  count is_sending (y_tasks y) = b2n (send_lock (y_sh y)) /\
  count is_recving (y_tasks y) = b2n (recv_lock (y_sh y)) /\
  count is_sending (y_tasks y) <= 1 /\ count is_recving (y_tasks y) <= 1.
Proof.
  intros fl ls y acts H. destruct (LockInv_exec fl ls sys0 y acts H LockInv_init) as [A B].
  split; [exact A |]. split; [exact B |]. rewrite A, B.
  destruct (send_lock (y_sh y)), (recv_lock (y_sh y)); cbn; auto.
Qed.
Print Assumptions lock_mutual_exclusion.

(* ... and a send_all / recv_into on the wrapped transport is STARTED only when no other one is in flight. *)
Theorem no_overlapping_transport_calls : forall (fl : flags) ls y acts t lb y' a,
  sys_exec fl sys0 ls = Some (y, acts) -> sys_step fl y (SStep t lb) = Some (y', a) ->
  (forall w, In (t, ASend w) a -> count is_sending (y_tasks y) = 0) /\
  (In (t, ARecv) a -> count is_recving (y_tasks y) = 0).
Proof.
  intros fl ls y acts t lb y' a H S. exact (start_needs_free_lock fl y t lb y' a (LockInv_exec fl ls sys0 y acts H LockInv_init) S).
Qed.
Print Assumptions no_overlapping_transport_calls.

(* (ii-c) ideal layer: a complete record at the head of a buffer that holds any prefix (k bytes) of a record stream is
   decoded to its plaintext and the rest of the prefix is kept; an incomplete one is left alone (WantRead).  E/D: any
   byte map with D (E x) = x. *)
Theorem ideal_decodes_only_complete_records : forall (E D : byte -> byte),
  (forall x, D (E x) = x) ->
  forall t p rest k,
  parse1 D (firstn k (enc E t p ++ rest)) =
    if Nat.leb (2 + length p) k then Some (t, p, firstn (k - (2 + length p)) rest) else None.
Proof. intros E D DE. exact (parse1_prefix E D DE). Qed.
Print Assumptions ideal_decodes_only_complete_records.

(* (iii) pump_progress — FULL STATEMENT (not proved as one theorem):
     in every reachable state of two pumps over the ideal layer in which some plaintext is unread or the handshake is
     incomplete, a transition is enabled that does not depend on the blocked party.
   Proved: the local ordering facts that rule out the deadlock "waiting for the peer while our own flight is still in
   the outgoing BIO", for every state and every answer. *)

(* (iii-a) WANT_READ with ciphertext pending and the send lock free: the task's next action is send_all(everything
   pending) and it is then NOT yet reading. *)
Theorem pump_progress_partial : forall (fl : flags) m b s x,
  a_meth x = m -> a_arg x = expected_arg m b s -> a_out x = SWantRead ->
  send_lock s = false -> wbio s ++ a_wdelta x <> [] ->
  exists s1 s2,
    step fl m b s PCall (LSsl x) = Some (s1, PFlush (KRead (feeds s)), []) /\
    settle fl m s1 (PFlush (KRead (feeds s))) = (s2, PSending (KRead (feeds s)), [ASend (wbio s ++ a_wdelta x)]) /\
    wbio s2 = [].
Proof. exact wantread_flushes_first. Qed.
Print Assumptions pump_progress_partial.

(* (iii-b) a task gets to "waiting to read" only through the flush point of the WANT_READ branch: either the outgoing
   BIO was empty while it held the send lock, or its send_all of the whole outgoing BIO has returned, or (with the
   send-lock-only-if-pending fix) the outgoing BIO was empty right after the SSL call. *)
Theorem read_only_after_flush : forall (fl : flags) m b s p l s' a n,
  step fl m b s p l = Some (s', PRecvWait n, a) ->
  (p = PFlush (KRead n) /\ l = LGo /\ wbio s = [] /\ a = []) \/ (p = PSending (KRead n) /\ l = LT TSent) \/
  (p = PCall /\ (exists x, l = LSsl x /\ a_out x = SWantRead) /\ wbio s' = [] /\ a = []).
Proof. exact recvwait_only_after_flush. Qed.
Print Assumptions read_only_after_flush.

(* (iii-c) recv_into is started only from "waiting to read". *)
Theorem recv_into_only_from_waiting : forall (fl : flags) m b s p l s' p' a,
  step fl m b s p l = Some (s', p', a) -> In ARecv a -> (exists n, p = PRecvWait n) /\ l = LGo /\ p' = PRecving.
Proof. exact recv_only_from_recvwait. Qed.
Print Assumptions recv_into_only_from_waiting.

(* ---- non-vacuity: a full-duplex trace — handshake task 0 flushes its flight and reads; writer task 1 encrypts 3
   bytes; reader task 2 gets WANT_READ and flushes the WRITER's ciphertext before it reads; the writer then finds the
   outgoing BIO empty. *)
Definition ex_trace : list slab :=
  [ SSpawn MHandshake 0 [];
    SStep 0 (LSsl {| a_meth := MHandshake; a_arg := 0; a_out := SWantRead; a_wdelta := [7; 7]%N |});
    SStep 0 LGo; SStep 0 (LT TSent); SStep 0 LGo; SStep 0 (LT (TRcvd [9]%N));
    SStep 0 (LSsl {| a_meth := MHandshake; a_arg := 0; a_out := SOk 0; a_wdelta := [] |}); SStep 0 LGo;
    SSpawn MWrite 0 [[1; 2; 3]%N]; SSpawn MRead 10 [];
    SStep 1 (LSsl {| a_meth := MWrite; a_arg := 3; a_out := SOk 3; a_wdelta := [5; 5; 5; 5]%N |});
    SStep 2 (LSsl {| a_meth := MRead; a_arg := 10; a_out := SWantRead; a_wdelta := [] |});
    SStep 2 LGo; SStep 2 (LT TSent); SStep 1 LGo; SStep 2 LGo ].
Example ex_accepts :
  option_map (fun r => (map snd (snd r), wbio (y_sh (fst r)))) (sys_exec {| f_recheck := false; f_skiplock := false; f_close_flush := false |} sys0 ex_trace)
  = Some ([ASend [7; 7]%N; ARecv; AFeed [9]%N; ASend [5; 5; 5; 5]%N; ARecv], []).
Proof. vm_compute. reflexivity. Qed.
Example ex_cipher_only :
  sent [ASend [7; 7]%N; ARecv; AFeed [9]%N; ASend [5; 5; 5; 5]%N; ARecv] ++ [] = produced ex_trace.
Proof. vm_compute. reflexivity. Qed.
