From EN Require Import Lib.Bytes Conc.TlsBase Conc.TlsPump.
Theorem placeholder_c08 : True. Proof. exact I. Qed.
Print Assumptions placeholder_c08.
