(* C08 — TLS transport is a transparent, encrypted byte stream.
   Statements only; proofs in Proofs/C08_proofs.v (and Proofs/C09_proofs.v for the ideal record layer).
   Models: Conc/TlsPump.v (_retry_ssl_method, __write_all_to_ssl_object, readinto, the two locks; several tasks on
   one transport, any interleaving), Conc/IdealTls.v (ideal record layer, defined).  The SSL object and the wrapped
   transport are oracles: the theorems below hold for EVERY answer they may give. *)
From Coq Require Import List Bool.
From EN Require Import Lib.Bytes Conc.TlsBase Conc.TlsPump Conc.IdealTls Proofs.C08_proofs Proofs.C09_proofs.
Import ListNotations.

(* (i) cipher_only.  For every trace (any number of tasks, any interleaving, any answers of the SSL object and of the
   wrapped transport) that the model accepts: the bytes handed to transport.send_all, in order, followed by what is
   still pending in the outgoing BIO, are exactly the bytes the SSL object appended to the outgoing BIO, in order —
   nothing else ever reaches the wire (in particular nothing from _data_deque), nothing is dropped, duplicated or
   reordered.  ADesync marks a label that does not fit the code (the model rejects such traces). *)
Theorem cipher_only : forall ls y acts,
  sys_exec sys0 ls = Some (y, acts) -> ~ In ADesync (map snd acts) ->
  sent (map snd acts) ++ wbio (y_sh y) = produced ls.
Proof.
  intros ls y acts H Hd. destruct (sys_exec_flow ls sys0 y acts H Hd) as [F _]. exact F.
Qed.
Print Assumptions cipher_only.

(* (i') each single payload is the whole outgoing BIO at that moment (write_bio.read()), and empties it. *)
Theorem every_send_is_the_outgoing_bio : forall m b s p l s' p' a w,
  step m b s p l = Some (s', p', a) -> In (ASend w) a -> w = wbio s /\ wbio s' = [] /\ l = LGo.
Proof. exact step_send_is_wbio. Qed.
Print Assumptions every_send_is_the_outgoing_bio.

(* (ii) pump_transparent — FULL STATEMENT (not proved as one theorem):
     two pumps (or a pump and the ideal peer) joined by a transport that fragments and delays arbitrarily, both
     directions active, any interleaving: the plaintext read by one side is a prefix of the plaintext written by the
     other, in order, nothing duplicated.
   Proved here are the two halves that concern the pump, for every trace, and (in C09.v) the decoding lemma of the ideal
   layer; their composition with the ideal layer's encoder over a fragmenting network is validated on the real runs
   (end-to-end plaintext equality against real OpenSSL), not proved. *)

(* (ii-a) send side = cipher_only above: the wire carries exactly the SSL object's output, in order.
   (ii-b) receive side: the bytes written into the incoming BIO, in order, are exactly the bytes recv_into returned,
   in order — for every trace, every fragmentation (each TRcvd answer is an arbitrary fragment), every interleaving. *)
Theorem pump_transparent_partial : forall ls y acts,
  sys_exec sys0 ls = Some (y, acts) -> ~ In ADesync (map snd acts) ->
  sent (map snd acts) ++ wbio (y_sh y) = produced ls /\ fed (map snd acts) = received ls.
Proof.
  intros ls y acts H Hd. exact (sys_exec_flow ls sys0 y acts H Hd).
Qed.
Print Assumptions pump_transparent_partial.

(* (ii-c) ideal layer: a complete record at the head of a buffer that holds any prefix (k bytes) of a record stream is
   decoded to its plaintext and the rest of the prefix is kept; an incomplete one is left alone (WantRead).  E/D: any
   byte map with D (E x) = x. *)
Theorem ideal_decodes_only_complete_records : forall (E D : byte -> byte),
  (forall x, D (E x) = x) ->
  forall t p rest k,
  parse1 D (firstn k (enc E t p ++ rest)) =
    if Nat.leb (2 + length p) k then Some (t, p, firstn (k - (2 + length p)) rest) else None.
Proof. intros E D DE. exact (parse1_prefix E D DE). Qed.
Print Assumptions ideal_decodes_only_complete_records.

(* (iii) pump_progress — FULL STATEMENT (not proved as one theorem):
     in every reachable state of two pumps over the ideal layer in which some plaintext is unread or the handshake is
     incomplete, a transition is enabled that does not depend on the blocked party.
   Proved: the local ordering facts that rule out the deadlock "waiting for the peer while our own flight is still in
   the outgoing BIO", for every state and every answer. *)

(* (iii-a) WANT_READ with ciphertext pending and the send lock free: the task's next action is send_all(everything
   pending) and it is then NOT yet reading. *)
Theorem pump_progress_partial : forall m b s x,
  a_meth x = m -> a_arg x = expected_arg m b s -> a_out x = SWantRead ->
  send_lock s = false -> wbio s ++ a_wdelta x <> [] ->
  exists s1 s2,
    step m b s PCall (LSsl x) = Some (s1, PFlush KRead, []) /\
    settle m s1 (PFlush KRead) = (s2, PSending KRead, [ASend (wbio s ++ a_wdelta x)]) /\
    wbio s2 = [].
Proof. exact wantread_flushes_first. Qed.
Print Assumptions pump_progress_partial.

(* (iii-b) a task gets to "waiting to read" only through the flush point of the WANT_READ branch: either the outgoing
   BIO was empty while it held the send lock, or its send_all of the whole outgoing BIO has returned. *)
Theorem read_only_after_flush : forall m b s p l s' a,
  step m b s p l = Some (s', PRecvWait, a) ->
  (p = PFlush KRead /\ l = LGo /\ wbio s = [] /\ a = []) \/ (p = PSending KRead /\ l = LT TSent).
Proof. exact recvwait_only_after_flush. Qed.
Print Assumptions read_only_after_flush.

(* (iii-c) recv_into is started only from "waiting to read". *)
Theorem recv_into_only_from_waiting : forall m b s p l s' p' a,
  step m b s p l = Some (s', p', a) -> In ARecv a -> p = PRecvWait /\ l = LGo /\ p' = PRecving.
Proof. exact recv_only_from_recvwait. Qed.
Print Assumptions recv_into_only_from_waiting.

(* ---- non-vacuity: a full-duplex trace — handshake task 0 flushes its flight and reads; writer task 1 encrypts 3
   bytes; reader task 2 gets WANT_READ and flushes the WRITER's ciphertext before it reads; the writer then finds the
   outgoing BIO empty. *)
Definition ex_trace : list slab :=
  [ SSpawn MHandshake 0 [];
    SStep 0 (LSsl {| a_meth := MHandshake; a_arg := 0; a_out := SWantRead; a_wdelta := [7; 7]%N |});
    SStep 0 LGo; SStep 0 (LT TSent); SStep 0 LGo; SStep 0 (LT (TRcvd [9]%N));
    SStep 0 (LSsl {| a_meth := MHandshake; a_arg := 0; a_out := SOk 0; a_wdelta := [] |}); SStep 0 LGo;
    SSpawn MWrite 0 [[1; 2; 3]%N]; SSpawn MRead 10 [];
    SStep 1 (LSsl {| a_meth := MWrite; a_arg := 3; a_out := SOk 3; a_wdelta := [5; 5; 5; 5]%N |});
    SStep 2 (LSsl {| a_meth := MRead; a_arg := 10; a_out := SWantRead; a_wdelta := [] |});
    SStep 2 LGo; SStep 2 (LT TSent); SStep 1 LGo; SStep 2 LGo ].
Example ex_accepts :
  option_map (fun r => (map snd (snd r), wbio (y_sh (fst r)))) (sys_exec sys0 ex_trace)
  = Some ([ASend [7; 7]%N; ARecv; AFeed [9]%N; ASend [5; 5; 5; 5]%N; ARecv], []).
Proof. vm_compute. reflexivity. Qed.
Example ex_cipher_only :
  sent [ASend [7; 7]%N; ARecv; AFeed [9]%N; ASend [5; 5; 5; 5]%N; ARecv] ++ [] = produced ex_trace.
Proof. vm_compute. reflexivity. Qed.
