(* C08 — TLS transport is a transparent, encrypted byte stream.
   Statements only; proofs in Proofs/C08_proofs.v (and Proofs/C09_proofs.v for the ideal record layer).
   Models: Conc/TlsPump.v (_retry_ssl_method, __write_all_to_ssl_object, readinto, the two locks; several tasks on
   one transport, any interleaving), Conc/IdealTls.v (ideal record layer, defined).  The SSL object and the wrapped
   transport are oracles: the theorems below hold for EVERY answer they may give. *)
From Coq Require Import List Bool.
From EN Require Import Lib.Bytes Conc.TlsBase Conc.TlsPump Conc.IdealTls Conc.TlsDuplex
  Proofs.C08_proofs Proofs.Ideal_proofs Proofs.C08_locks Proofs.C08_duplex Proofs.C08_progress Proofs.C08_refute
  Proofs.C08_handshake.
Import ListNotations.

(* (i) cipher_only.  For every trace (any number of tasks, any interleaving, any answers of the SSL object and of the
   wrapped transport) that the model accepts: the bytes handed to transport.send_all, in order, followed by what is
   still pending in the outgoing BIO, are exactly the bytes the SSL object appended to the outgoing BIO, in order —
   nothing else ever reaches the wire (in particular nothing from _data_deque), nothing is dropped, duplicated or
   reordered.  ADesync marks a label that does not fit the code (the model rejects such traces). *)
Theorem cipher_only : forall (fl : flags) ls y acts,
  sys_exec fl sys0 ls = Some (y, acts) -> ~ In ADesync (map snd acts) ->
  sent (map snd acts) ++ wbio (y_sh y) = produced ls.
Proof.
  intros fl ls y acts H Hd. destruct (sys_exec_flow fl ls sys0 y acts H Hd) as [F _]. exact F.
Qed.
Print Assumptions cipher_only.

(* (i') each single payload is the whole outgoing BIO at that moment (write_bio.read()), and empties it. *)
Theorem every_send_is_the_outgoing_bio : forall (fl : flags) m b s p l s' p' a w,
  step fl m b s p l = Some (s', p', a) -> In (ASend w) a -> w = wbio s /\ wbio s' = [] /\ l = LGo.
Proof. exact step_send_is_wbio. Qed.
Print Assumptions every_send_is_the_outgoing_bio.

(* (ii) pump_transparent.  The COMPOSED system of Conc/TlsDuplex.v: two TLS transports, each = the multi-task pump
   driving an ideal SSL object (Conc/IdealTls.v, any byte map E with inverse D, any record size M), joined by two FIFO
   byte queues.  A trace is any list of labels (side, spawn wrap/recv(n)/send_all(data) | task t calls the SSL object |
   task t takes its lock | task t's send_all returns | task t's recv_into returns the first k >= 1 bytes in flight):
   every fragmentation (down to 1 byte), every delay, every interleaving of any number of tasks on both sides, both
   directions at once.  For every trace the system accepts, the plaintext returned by recv on one side is a prefix of
   the plaintext handed to send_all on the other side — in order, nothing duplicated — in BOTH directions.
   Relative to IdealTls; the network is reliable (failures, end-of-file, cancellation and unwrap() are not transitions
   of the composed system — for those the pump-level theorems (i), (ii-a/b) hold with arbitrary oracles). *)
Theorem pump_transparent : forall (fl : flags) (E D : byte -> byte) (M : nat),
  (forall x, D (E x) = x) ->
  forall ls c,
  dexec fl E D M duplex0 ls = Some c ->
  is_prefix (e_got (dB c)) (e_written (dA c)) /\ is_prefix (e_got (dA c)) (e_written (dB c)).
Proof. intros fl E D M DE. exact (duplex_transparent fl E D M DE). Qed.
Print Assumptions pump_transparent.

(* (ii') ... and nothing is lost on the way: in every reachable state, for each direction, the receiver's incoming BIO,
   the bytes in flight and the sender's outgoing BIO are a sequence of whole records, and
   returned ++ decrypted-but-unreturned ++ payloads of the data records in that stream ++ sender's backlog = written. *)
Theorem pump_transparent_exact : forall (fl : flags) (E D : byte -> byte) (M : nat),
  (forall x, D (E x) = x) ->
  forall ls c,
  dexec fl E D M duplex0 ls = Some c ->
  TInv E (dA c) (dB c) (nAB c) /\ TInv E (dB c) (dA c) (nBA c).
Proof.
  intros fl E D M DE ls c H. destruct (DInv_exec fl E D M DE _ _ _ H (DInv_init E)) as [I1 [I2 _]]. auto.
Qed.
Print Assumptions pump_transparent_exact.

(* (ii-a) send side = cipher_only above, for ARBITRARY oracles: the wire carries exactly the SSL object's output, in
   order.  (ii-b) receive side: the bytes written into the incoming BIO, in order, are exactly the bytes recv_into
   returned, in order — for every trace, every fragmentation, every interleaving, every answer (incl. failures). *)
Theorem pump_data_flow : forall (fl : flags) ls y acts,
  sys_exec fl sys0 ls = Some (y, acts) -> ~ In ADesync (map snd acts) ->
  sent (map snd acts) ++ wbio (y_sh y) = produced ls /\ fed (map snd acts) = received ls.
Proof.
  intros fl ls y acts H Hd. exact (sys_exec_flow fl ls sys0 y acts H Hd).
Qed.
Print Assumptions pump_data_flow.

(* (ii-d) lock mutual exclusion, for every trace and arbitrary oracles: the send lock is held iff exactly one task is
   inside transport.send_all, the recv lock iff exactly one is inside transport.recv_into (so at most one each) ... *)
Theorem lock_mutual_exclusion : forall (fl : flags) ls y acts,
  sys_exec fl sys0 ls = Some (y, acts) ->
  count is_sending (y_tasks y) = b2n (send_lock (y_sh y)) /\
  count is_recving (y_tasks y) = b2n (recv_lock (y_sh y)) /\
  count is_sending (y_tasks y) <= 1 /\ count is_recving (y_tasks y) <= 1.
Proof.
  intros fl ls y acts H. destruct (LockInv_exec fl ls sys0 y acts H LockInv_init) as [A B].
  split; [exact A |]. split; [exact B |]. rewrite A, B.
  destruct (send_lock (y_sh y)), (recv_lock (y_sh y)); cbn; auto.
Qed.
Print Assumptions lock_mutual_exclusion.

(* ... and a send_all / recv_into on the wrapped transport is STARTED only when no other one is in flight. *)
Theorem no_overlapping_transport_calls : forall (fl : flags) ls y acts t lb y' a,
  sys_exec fl sys0 ls = Some (y, acts) -> sys_step fl y (SStep t lb) = Some (y', a) ->
  (forall w, In (t, ASend w) a -> count is_sending (y_tasks y) = 0) /\
  (In (t, ARecv) a -> count is_recving (y_tasks y) = 0).
Proof.
  intros fl ls y acts t lb y' a H S. exact (start_needs_free_lock fl y t lb y' a (LockInv_exec fl ls sys0 y acts H LockInv_init) S).
Qed.
Print Assumptions no_overlapping_transport_calls.

(* (ii-c) ideal layer: a complete record at the head of a buffer that holds any prefix (k bytes) of a record stream is
   decoded to its plaintext and the rest of the prefix is kept; an incomplete one is left alone (WantRead).  E/D: any
   byte map with D (E x) = x. *)
Theorem ideal_decodes_only_complete_records : forall (E D : byte -> byte),
  (forall x, D (E x) = x) ->
  forall t p rest k,
  parse1 D (firstn k (enc E t p ++ rest)) =
    if Nat.leb (2 + length p) k then Some (t, p, firstn (k - (2 + length p)) rest) else None.
Proof. intros E D DE. exact (parse1_prefix E D DE). Qed.
Print Assumptions ideal_decodes_only_complete_records.

(* (iii) pump_progress.  Composed system as in (ii).  DISCIPLINE on the application (label_ok / gexec): on each side
   wrap() is the first call, recv()/send_all() are issued only after wrap() has returned, and at most one recv() is
   pending at a time (any number of concurrent send_all()).  `stuck c` = no transition other than a new application
   call is enabled (no task can call the SSL object, take a lock, have its send_all return, or receive a fragment —
   the network delivers whatever is in flight, so nothing here depends on a blocked party).
   In EVERY reachable stuck state:
     * every pending call is parked inside transport.recv_into and nothing is in flight towards its side;
     * both outgoing BIOs and both write backlogs are empty (no ciphertext or plaintext left behind in the pump);
     * for a side with a pending call, its incoming BIO holds only whole records and
       returned ++ decrypted ++ payloads in the incoming BIO = everything the other side has written;
     * every recv() that is still waiting has returned EVERYTHING the other side has written so far.
   Contrapositive: whenever plaintext written by one side has not been returned to a waiting recv() of the other side,
   some transition other than an application call is enabled.  For all values of the three fix flags.
   The other half of the statement (two pending wrap() calls cannot be stuck together) is pump_progress_handshake below. *)
Theorem pump_progress : forall (fl : flags) (E D : byte -> byte) (M : nat),
  (forall x, D (E x) = x) ->
  forall ls c,
  gexec fl E D M duplex0 ls = Some c -> stuck fl E D M c ->
  (forall t tk, nth_error (tasks_of (dA c)) t = Some tk -> pending tk = true -> t_pc tk = PRecving /\ nBA c = []) /\
  (forall t tk, nth_error (tasks_of (dB c)) t = Some tk -> pending tk = true -> t_pc tk = PRecving /\ nAB c = []) /\
  wbio (shp (dA c)) = [] /\ wbio (shp (dB c)) = [] /\ deque (shp (dA c)) = [] /\ deque (shp (dB c)) = [] /\
  (has_pending (dB c) -> exists recs, i_rbio (e_ideal (dB c)) = encs E recs /\
       e_got (dB c) ++ i_plain (e_ideal (dB c)) ++ data_of recs = e_written (dA c)) /\
  (has_pending (dA c) -> exists recs, i_rbio (e_ideal (dA c)) = encs E recs /\
       e_got (dA c) ++ i_plain (e_ideal (dA c)) ++ data_of recs = e_written (dB c)) /\
  (forall t tk, nth_error (tasks_of (dB c)) t = Some tk -> pending tk = true -> t_meth tk = MRead ->
       e_got (dB c) = e_written (dA c)) /\
  (forall t tk, nth_error (tasks_of (dA c)) t = Some tk -> pending tk = true -> t_meth tk = MRead ->
       e_got (dA c) = e_written (dB c)).
Proof. intros fl E D M DE. exact (duplex_progress fl E D M DE). Qed.
Print Assumptions pump_progress.

(* (iii-h) pump_progress, handshake completion.  Same system, same discipline, same `stuck`.  hs_pending e = the endpoint
   has a wrap() call (a task running do_handshake) that has not returned.  In NO reachable stuck state
     * are the wrap() of the client side and the wrap() of the server side both pending;
     * is the client's wrap() pending while the server's handshake is complete;
     * is the server's wrap() pending while the client's handshake is complete.
   So once both sides have called wrap(), some transition other than an application call stays enabled until both calls
   have returned (a wrap() may of course wait forever for a peer that never calls wrap(): that is not a fault of the
   pump).  Proof: the conversation of the ideal handshake as an invariant of the two byte streams of the system
   (incoming BIO ++ in flight ++ outgoing BIO; Proofs/C08_handshake.v, HInv): ClientHello / ServerHello / Finished are
   each in exactly one place, and a wrap() that waits for the network has no complete record in its incoming BIO; in
   a stuck state the outgoing BIOs are empty and nothing is in flight (pump_progress), so the flight the waiting side
   needs would have to be, complete, in its incoming BIO.  For all values of the fix flags. *)
Theorem pump_progress_handshake : forall (fl : flags) (E D : byte -> byte) (M : nat),
  (forall x, D (E x) = x) ->
  forall ls c,
  gexec fl E D M duplex0 ls = Some c -> stuck fl E D M c ->
  (hs_pending (dA c) -> hs_pending (dB c) -> False) /\
  (hs_pending (dA c) -> i_stage (e_ideal (dB c)) = 2 -> False) /\
  (hs_pending (dB c) -> i_stage (e_ideal (dA c)) = 2 -> False).
Proof. exact handshake_progress. Qed.
Print Assumptions pump_progress_handshake.

(* (iii') the discipline "one recv() at a time" is necessary for the code WITHOUT meta/fixes/C08_lost_wakeup.diff
   (f_recheck = false): two concurrent recv() reach a stuck state in which the second one is parked in recv_into although
   its record is complete in the incoming BIO and has not been returned (finding lost-wakeup-after-recv-lock, fixed in
   /repo; witness replayed on the real transport: corpus/C08/two_readers_ files).  stuckb is a verified decision procedure
   for `stuck` (stuckb_sound). *)
Theorem pump_progress_refuted_two_readers : forall cf lz,
  let fl := {| f_recheck := false; f_skiplock := false; f_close_flush := cf; f_lazyread := lz |} in
  exists ls c, dexec fl Ew Dw 4 duplex0 ls = Some c /\ stuck fl Ew Dw 4 c /\
    (exists t tk, nth_error (tasks_of (dB c)) t = Some tk /\ t_meth tk = MRead /\ t_pc tk = PRecving) /\
    (exists r, parse1 Dw (i_rbio (e_ideal (dB c))) = Some r) /\
    e_got (dB c) <> e_written (dA c).
Proof.
  intros cf lz fl. destruct (two_readers_stuck cf lz) as [c [Hx [Hs [Hu [Hg [Hw Ht]]]]]].
  exists (two_readers_trace lz), c. split; [exact Hx |]. split; [apply stuckb_sound; exact Hs |].
  clear Hx Hs. split.
  - destruct (tasks_of (dB c)) as [| t0 [| t1 [| t2 rest]]]; try (cbn in Ht; discriminate Ht).
    exists 2, t2. cbn in Ht. inversion Ht. cbn. auto.
  - split.
    + unfold unread_record in Hu. destruct (parse1 Dw (i_rbio (e_ideal (dB c)))) as [r |]; [eauto | discriminate].
    + rewrite Hg, Hw. discriminate.
Qed.
Print Assumptions pump_progress_refuted_two_readers.

(* (iii'') the send lock and a call that has nothing to flush (findings reader-queues-on-send-lock-with-nothing-to-flush
   and cancelled-recv-loses-decrypted-plaintext, fixed in /repo by C08_send_lock_only_if_pending.diff).
   With the fix (f_skiplock = true): after WANT_READ with an empty outgoing BIO the task goes straight for the recv
   lock whoever holds the send lock, and a successful call with nothing to flush ends at once (no checkpoint). *)
Theorem no_send_lock_when_nothing_to_flush : forall (fl : flags) m b s x,
  f_skiplock fl = true -> a_meth x = m -> a_arg x = expected_arg m b s -> wbio s ++ a_wdelta x = [] ->
  (a_out x = SWantRead -> step fl m b s PCall (LSsl x) = Some (set_wbio s [], PRecvWait (feeds s), [])) /\
  (forall v, a_out x = SOk v -> m <> MWrite -> step fl m b s PCall (LSsl x) = Some (set_wbio s [], PEnd (ROk v), [])).
Proof. exact C08_refute.no_send_lock_when_nothing_to_flush. Qed.
Print Assumptions no_send_lock_when_nothing_to_flush.

(* Without it (f_skiplock = false): the task queues on the send lock although it has nothing to send — it cannot move
   while another task's send_all is in flight — and a successful call can still be cancelled there, losing its result. *)
Theorem send_lock_taken_for_nothing_refuted : forall (fl : flags) m b s x,
  f_skiplock fl = false -> a_meth x = m -> a_arg x = expected_arg m b s -> wbio s ++ a_wdelta x = [] ->
  (a_out x = SWantRead ->
     step fl m b s PCall (LSsl x) = Some (set_wbio s [], PFlush (KRead (feeds s)), []) /\
     (send_lock s = true -> go fl m (set_wbio s []) (PFlush (KRead (feeds s))) = None)) /\
  (forall v bt, a_out x = SOk v -> m <> MWrite -> f_lazyread fl = false ->
     step fl m b s PCall (LSsl x) = Some (set_wbio s [], PFlush (KRet v), []) /\
     step fl m b (set_wbio s []) (PFlush (KRet v)) (LT (TCancel bt)) = Some (set_wbio s [], PEnd (RCancel bt), [])).
Proof. exact send_lock_taken_for_nothing. Qed.
Print Assumptions send_lock_taken_for_nothing_refuted.

(* (iii-d) a successful read and ciphertext of OTHER tasks pending in the outgoing BIO (finding
   cancelled-recv-loses-plaintext-behind-pending-ciphertext: a send_all queued behind a send_all parked by back-pressure
   has left its records in the BIO; reproduced on the real transport with real OpenSSL, corpus/C08/cancel-read-pending-bio_ files).
   With meta/fixes/C08_read_result_without_checkpoint.diff (f_lazyread = true): in EVERY state, whatever is pending and
   whoever holds the locks, ssl_object.read() -> bytes is followed by the return: no lock acquisition, no transport call,
   no point at which a cancellation can be delivered (a read that returned plaintext never queues on the send lock). *)
Theorem read_result_returned_at_once : forall (fl : flags) b s x v,
  f_lazyread fl = true -> a_meth x = MRead -> a_arg x = expected_arg MRead b s -> a_out x = SOk v ->
  step fl MRead b s PCall (LSsl x) = Some (set_wbio s (wbio s ++ a_wdelta x), PEnd (ROk v), []).
Proof. exact C08_refute.read_result_returned_at_once. Qed.
Print Assumptions read_result_returned_at_once.

(* Without it (f_lazyread = false): with anything pending in the outgoing BIO the reader goes to the flush point holding
   its bytes; it cannot move while the send lock is held, and a cancellation delivered there ends the call without the
   bytes (the SSL object has already consumed them). *)
Theorem read_result_lost_behind_pending_ciphertext_refuted : forall (fl : flags) b s x v bt,
  f_lazyread fl = false -> a_meth x = MRead -> a_arg x = expected_arg MRead b s -> a_out x = SOk v ->
  wbio s ++ a_wdelta x <> [] ->
  let s1 := set_wbio s (wbio s ++ a_wdelta x) in
  step fl MRead b s PCall (LSsl x) = Some (s1, PFlush (KRet v), []) /\
  (send_lock s = true -> go fl MRead s1 (PFlush (KRet v)) = None) /\
  step fl MRead b s1 (PFlush (KRet v)) (LT (TCancel bt)) = Some (s1, PEnd (RCancel bt), []).
Proof. exact read_result_lost_behind_pending_ciphertext. Qed.
Print Assumptions read_result_lost_behind_pending_ciphertext_refuted.

(* Local ordering facts that rule out "waiting for the peer while our own flight is still in the outgoing BIO",
   for every state and every answer: *)

(* (iii-a) WANT_READ with ciphertext pending and the send lock free: the task's next action is send_all(everything
   pending) and it is then NOT yet reading. *)
Theorem pump_progress_partial : forall (fl : flags) m b s x,
  a_meth x = m -> a_arg x = expected_arg m b s -> a_out x = SWantRead ->
  send_lock s = false -> wbio s ++ a_wdelta x <> [] ->
  exists s1 s2,
    step fl m b s PCall (LSsl x) = Some (s1, PFlush (KRead (feeds s)), []) /\
    settle fl m s1 (PFlush (KRead (feeds s))) = (s2, PSending (KRead (feeds s)), [ASend (wbio s ++ a_wdelta x)]) /\
    wbio s2 = [].
Proof. exact wantread_flushes_first. Qed.
Print Assumptions pump_progress_partial.

(* (iii-b) a task gets to "waiting to read" only through the flush point of the WANT_READ branch: either the outgoing
   BIO was empty while it held the send lock, or its send_all of the whole outgoing BIO has returned, or (with the
   send-lock-only-if-pending fix) the outgoing BIO was empty right after the SSL call. *)
Theorem read_only_after_flush : forall (fl : flags) m b s p l s' a n,
  step fl m b s p l = Some (s', PRecvWait n, a) ->
  (p = PFlush (KRead n) /\ l = LGo /\ wbio s = [] /\ a = []) \/ (p = PSending (KRead n) /\ l = LT TSent) \/
  (p = PCall /\ (exists x, l = LSsl x /\ a_out x = SWantRead) /\ wbio s' = [] /\ a = []).
Proof. exact recvwait_only_after_flush. Qed.
Print Assumptions read_only_after_flush.

(* (iii-c) recv_into is started only from "waiting to read". *)
Theorem recv_into_only_from_waiting : forall (fl : flags) m b s p l s' p' a,
  step fl m b s p l = Some (s', p', a) -> In ARecv a -> (exists n, p = PRecvWait n) /\ l = LGo /\ p' = PRecving.
Proof. exact recv_only_from_recvwait. Qed.
Print Assumptions recv_into_only_from_waiting.

(* ---- non-vacuity: a full-duplex trace — handshake task 0 flushes its flight and reads; writer task 1 encrypts 3
   bytes; reader task 2 gets WANT_READ and flushes the WRITER's ciphertext before it reads; the writer then finds the
   outgoing BIO empty. *)
Definition ex_trace : list slab :=
  [ SSpawn MHandshake 0 [];
    SStep 0 (LSsl {| a_meth := MHandshake; a_arg := 0; a_out := SWantRead; a_wdelta := [7; 7]%N |});
    SStep 0 LGo; SStep 0 (LT TSent); SStep 0 LGo; SStep 0 (LT (TRcvd [9]%N));
    SStep 0 (LSsl {| a_meth := MHandshake; a_arg := 0; a_out := SOk 0; a_wdelta := [] |}); SStep 0 LGo;
    SSpawn MWrite 0 [[1; 2; 3]%N]; SSpawn MRead 10 [];
    SStep 1 (LSsl {| a_meth := MWrite; a_arg := 3; a_out := SOk 3; a_wdelta := [5; 5; 5; 5]%N |});
    SStep 2 (LSsl {| a_meth := MRead; a_arg := 10; a_out := SWantRead; a_wdelta := [] |});
    SStep 2 LGo; SStep 2 (LT TSent); SStep 1 LGo; SStep 2 LGo ].
Example ex_accepts :
  option_map (fun r => (map snd (snd r), wbio (y_sh (fst r)))) (sys_exec {| f_recheck := false; f_skiplock := false; f_close_flush := false; f_lazyread := false |} sys0 ex_trace)
  = Some ([ASend [7; 7]%N; ARecv; AFeed [9]%N; ASend [5; 5; 5; 5]%N; ARecv], []).
Proof. vm_compute. reflexivity. Qed.
Example ex_cipher_only :
  sent [ASend [7; 7]%N; ARecv; AFeed [9]%N; ASend [5; 5; 5; 5]%N; ARecv] ++ [] = produced ex_trace.
Proof. vm_compute. reflexivity. Qed.
