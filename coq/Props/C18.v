(* C18 -- server lifecycle operations are safe in every order.  Statements only; proofs in Proofs/C18_*.v.
   [reachable] = any number of serve_forever / shutdown / server_close calls, client connects and disconnects, and
   completions of awaited operations, in any interleaving (Conc/Lifecycle.v). *)
From Coq Require Import List Bool Arith.
From EN Require Import Conc.Lifecycle Proofs.C18_proofs Proofs.C18_theorems Conc.Standalone Proofs.C18_standalone Proofs.C18_threads.
From Coq Require Import ZArith.
From EN Require Lib.Bytes Lib.Sx Run.C18 Proofs.C18_runner.
Close Scope Z_scope.
Open Scope nat_scope.
Import ListNotations.

(* At most one serve_forever is ever past its entry check, and a serve_forever issued while one is running is refused
   with ServerAlreadyRunning without touching the running one. *)
Theorem second_serve_refused :
  forall s, reachable s ->
    length (serves s) <= 1 /\
    (forall s' o, serves s <> [] -> step s LCallServe = Some (s', o) ->
       o = [Ret (next_id s) OAlreadyRunning] /\ serves s' = serves s /\ ev s' = ev s /\ gen s' = gen s).
Proof. intros s R. split; [now apply serves_le_one | intros; now apply second_serve_refused_l]. Qed.
Print Assumptions second_serve_refused.

(* Closed is sticky, and serve_forever on a closed server is refused (ServerClosedError, or ServerAlreadyRunning while
   the last run is still winding down) and never becomes a running call. *)
Theorem closed_refuses :
  forall s, closed s = true ->
    (forall l s' o, step s l = Some (s', o) -> closed s' = true) /\
    (forall s' o, step s LCallServe = Some (s', o) ->
       (o = [Ret (next_id s) OClosed] \/ o = [Ret (next_id s) OAlreadyRunning]) /\ serves s' = serves s).
Proof. intros s C. split; intros; [eapply closed_sticky_l; eauto | now apply closed_refuses_l]. Qed.
Print Assumptions closed_refuses.

(* shutdown returns only after serving has fully stopped: it returns at once only if no run is active (then no
   serve_forever call, no server task, is_serving() false); otherwise it waits for the event of the run it was called
   on (g <= fin: that run has ended), and unless a later serve_forever has started a new run meanwhile, nothing is
   serving when it returns.  In every reachable state "event set" means fully stopped. *)
Theorem shutdown_returns_after_stop :
  forall s, reachable s ->
    (ev s = true -> serves s = [] /\ stask s = TNone /\ scope s = None /\ is_serving s = false /\ fin s = gen s) /\
    (forall s' o, step s LCallShutdown = Some (s', o) -> o <> [] ->
       ev s' = true /\ serves s' = [] /\ stask s' = TNone /\ is_serving s' = false) /\
    (forall id s' o, step s (LShutdownWake id) = Some (s', o) ->
       exists g rest, take id (waiters s) = Some (g, rest) /\ g <= fin s /\ o = [Ret id OOk] /\
         (ev s' = true -> serves s' = [] /\ stask s' = TNone /\ is_serving s' = false)).
Proof.
  intros s R. split; [now apply stopped_when_event_set|].
  split; intros; [eapply shutdown_immediate_l; eauto | eapply shutdown_wake_l; eauto].
Qed.
Print Assumptions shutdown_returns_after_stop.

(* A stopped server that was not closed accepts serve_forever again (the call becomes the running one). *)
Theorem can_serve_again_unless_closed :
  forall s, reachable s -> ev s = true -> closed s = false ->
    exists s' pc, step s LCallServe = Some (s', []) /\ serves s' = [(next_id s, pc)] /\ (pc = SAct \/ pc = SInit) /\ ev s' = false.
Proof. exact can_serve_again_l. Qed.
Print Assumptions can_serve_again_unless_closed.

(* When server_close returns, the listeners are closed and removed; and in every reachable state of a closed server
   in which no server_close is in progress there is no listener (so none is ever re-opened). *)
Theorem listeners_closed_after_close :
  forall s, reachable s ->
    (forall s' o, step s LCloseFinish = Some (s', o) ->
       lst s' = LEmpty /\ is_listening s' = false /\ closed s' = true /\ closer s' = None) /\
    (closed s = true -> closer s = None -> lst s = LEmpty /\ is_listening s = false /\ is_serving s = false).
Proof. intros s R. split; intros; [eapply close_finish_l; eauto | now apply closed_means_no_listener]. Qed.
Print Assumptions listeners_closed_after_close.

(* No deadlock: whenever some call is pending (a shutdown waits, a server_close holds or waits for the lock, or a
   serve_forever is anywhere but idle in its main sleep) an internal transition is enabled -- the pending calls never
   wait on each other in a cycle.  (Enabledness, not fairness: cancelled tasks and awaited operations are assumed to
   end eventually.) *)
Theorem no_deadlock :
  forall s, reachable s ->
    (waiters s <> [] \/ closer s <> None \/ cwait s <> [] \/
     exists id pc, serves s = [(id, pc)] /\ (pc <> SMain \/ scope s = Some true)) ->
    exists l, is_external l = false /\ step s l <> None.
Proof. exact no_deadlock_l. Qed.
Print Assumptions no_deadlock.

(* FINDING (faithful model of the code as it is).  Gen/ParamsC18.v (regenerated from datagram.py on every run) says
   whether the datagram server restarts a client task from the finally clause of a CANCELLED client task.
   As found it does (udp_restart_guarded = false): a shutdown while one address has a suspended handler and a queued
   datagram makes serve_forever end with an ExceptionGroup (OCrash), although shutdown itself returns normally and the
   server is stopped -- "every serve_forever ends cleanly" is refuted by a witness trace.
   With the proposed fix (udp_restart_guarded = true) no call of any trace ends that way. *)
Theorem serve_forever_clean_exit_refuted :
  Gen.ParamsC18.udp_restart_guarded = false ->
  exists s o, run_trace init udp_crash_trace = Some (s, o) /\ In (Ret 0 OCrash) o /\ In (Ret 1 OOk) o /\ ev s = true.
Proof. exact udp_crash_witness. Qed.
Print Assumptions serve_forever_clean_exit_refuted.

Theorem serve_forever_clean_exit_when_guarded :
  Gen.ParamsC18.udp_restart_guarded = true ->
  forall s l s' o id, step s l = Some (s', o) -> ~ In (Ret id OCrash) o.
Proof. exact no_crash_when_guarded. Qed.
Print Assumptions serve_forever_clean_exit_when_guarded.

(* FINDING 2 (thread-level model of the standalone wrapper, Conc/Standalone.v; parameter regenerated from
   BaseStandaloneNetworkServerImpl.shutdown): as found, shutdown() waits for the ONE shared threading.Event after it
   has released the bootstrap lock.  A shutdown() issued while the server is not running, pre-empted between the
   locked section and the wait, blocks once another thread's serve_forever() has cleared the event: a reachable state
   in which the shutdown thread waits, the server serves, nobody has asked it to stop and NO transition is enabled
   ("no call deadlocks" is refuted).  With one event per run captured under the lock (the proposed fix) the same
   schedule lets that shutdown() return while the new run keeps serving. *)
Theorem standalone_shutdown_no_deadlock_refuted :
  Gen.ParamsC18.standalone_shutdown_guarded = false ->
  exists s, treachable s /\ thr s = [(0, H2 0); (1, V4)] /\ t_shut s = false /\ astop s = false /\
            (forall id, tstep s (TStep id) = None) /\ tstep s TAsyncEnd = None.
Proof. exact lost_wakeup_witness. Qed.
Print Assumptions standalone_shutdown_no_deadlock_refuted.

Theorem standalone_shutdown_returns_when_guarded :
  Gen.ParamsC18.standalone_shutdown_guarded = true ->
  exists s s', trun tinit lost_wakeup_trace = Some s /\ tstep s (TStep 0) = Some (s', [(0, TOk)]) /\ thr s' = [(1, V4)].
Proof. exact guarded_shutdown_returns. Qed.
Print Assumptions standalone_shutdown_returns_when_guarded.

(* ---------- threaded wrapper, thread-level model (Conc/Standalone.v): any number of threads, any interleaving of
   their statement-level segments ---------- *)

(* At most one thread is ever past the entry checks of serve_forever, exactly when the threading event is cleared;
   a second serve_forever thread that gets the locks meanwhile ends with ServerAlreadyRunning and releases them. *)
Theorem standalone_second_serve_refused :
  forall s, treachable s ->
    cnt isV2 (thr s) + cnt isV4 (thr s) + cnt isV5 (thr s) = (if t_shut s then 0 else 1) /\
    (forall i j pc rest, In (j, pc) (thr s) -> (pc = V2 \/ pc = V4 \/ pc = V5) ->
       ttake i (thr s) = Some (V1, rest) -> boot_l s = None ->
       exists s', tstep s (TStep i) = Some (s', [(i, TAlreadyRunning)]) /\ close_l s' = None /\ t_shut s' = false).
Proof.
  intros s R. split; [now apply serving_threads_le_one | intros; eapply second_serve_thread_refused; eauto].
Qed.
Print Assumptions standalone_second_serve_refused.

(* Lock discipline: each lock has at most one holder and the holder is where the code says (start-up window V2 holds
   both; shutdown / server_close hold the bootstrap lock only around their portal call); with no portal and the
   bootstrap lock free the event is set -- the fact the guarded shutdown relies on. *)
Theorem standalone_lock_discipline :
  forall s, treachable s ->
    cnt isV2 (thr s) + cnt isH1 (thr s) + cnt isC2 (thr s) = held (boot_l s) /\
    cnt isV1 (thr s) + cnt isV2 (thr s) + cnt isC1 (thr s) + cnt isC2 (thr s) = held (close_l s) /\
    (boot_l s = None -> portal s = false -> t_shut s = true /\ tgen s = tfin s).
Proof.
  intros s R. destruct (lock_holders s R) as [A B]. repeat split; auto; intros; now apply no_portal_means_stopped.
Qed.
Print Assumptions standalone_lock_discipline.

(* A closed standalone server is never started again: once __is_closed is set no serve_forever thread is between its
   __is_closed test and the start of a run, and a serve_forever thread that takes its first lock is refused with
   ServerClosedError.  (Depends on the regenerated data: the test must be made under the close lock.) *)
Theorem standalone_closed_refuses :
  forall s, treachable s -> t_closed s = true ->
    cnt isV1 (thr s) + cnt isV2 (thr s) = 0 /\
    (forall i rest, ttake i (thr s) = Some (V0, rest) -> close_l s = None ->
       exists s', tstep s (TStep i) = Some (s', [(i, TClosed)])).
Proof. exact closed_refuses_threads. Qed.
Print Assumptions standalone_closed_refuses.

(* The order in which serve_forever and server_close take the close lock and the bootstrap lock is DATA regenerated from
   the source (Gen/ParamsC18.v serve_first_lock / close_first_lock / serve_closed_check_under_lock); the invariant behind
   the theorems of this section is re-proved against it on every run and does not hold for an inconsistent order. *)
(* No deadlock among the threads (with the guarded shutdown): whenever some thread exists other than the serving
   thread idling in its loop with no stop requested, some thread can take a step or the asynchronous run can end. *)
Theorem standalone_no_deadlock :
  Gen.ParamsC18.standalone_shutdown_guarded = true ->
  forall s, treachable s ->
    (exists i pc, In (i, pc) (thr s) /\ ~ (pc = V4 /\ arun s = true /\ astop s = false)) ->
    (exists id, tstep s (TStep id) <> None) \/ tstep s TAsyncEnd <> None.
Proof. exact no_deadlock_threads. Qed.
Print Assumptions standalone_no_deadlock.

(* NetworkServerThread (servers/threads_helper.py; its run() shape is regenerated into nst_sets_up_in_finally): in the
   big-step model of the standalone servers a start() call is released as soon as the thread's serve_forever has ended,
   whatever its outcome (also when it returned normally without ever having been up: shutdown during the set-up). *)
Theorem server_thread_start_released_when_thread_ended :
  forall (x : EN.Run.C18.sst) (up : bool) (si ri : nat) (l : list (nat * nat)),
    nth ri (EN.Run.C18.sstat x) 0%Z <> 0%Z ->
    EN.Run.C18.resolve_starts x up ((si, ri) :: l) =
      (EN.Run.C18.set_nth si 1%Z (fst (EN.Run.C18.resolve_starts x up l)), snd (EN.Run.C18.resolve_starts x up l)).
Proof. exact EN.Proofs.C18_runner.start_released_when_thread_ended. Qed.
Print Assumptions server_thread_start_released_when_thread_ended.

Example reachable_busy_state :
  exists s, reachable s /\ busy s /\ serves s = [(0, SWait)] /\ dying s = 1.
Proof. exact example_reachable_busy. Qed.
