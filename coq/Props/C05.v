(* C05 -- datagrams: one packet per datagram, boundaries preserved, errors isolated.
   The serializer (serialize / deserialize), the converter (to_dto / from_dto) and the transport's treatment of empty
   payloads (drop_empty) are universally quantified: the statements hold for every one-shot serializer, wrapper and
   converter.  Models: coq/IO/DgramEndpoint.v (DatagramProtocol + endpoints), coq/Frame/OneShot.v (derived one-shot interface). *)
From EN Require Import Lib.Bytes Frame.Framer Frame.ReadUntil Frame.OneShot Frame.LineOneShot Frame.StructStrOneShot IO.DgramEndpoint Gen.ParamsC05 Proofs.C05_proofs.

(* one send_packet = exactly one datagram whose payload is serialize(to_dto packet); nothing else changes.
   Side condition: the transport does not swallow empty payloads, or the payload is not empty (see the refutation below). *)
Theorem dgram_send_one :
  forall (P Q : Type) (serialize : P -> bytes) (to_dto : Q -> P) (drop_empty : bool) (t : transport) (q : Q),
    drop_empty = false \/ make_datagram serialize to_dto q <> [] ->
    outq (send_packet serialize to_dto drop_empty t q) = outq t ++ [make_datagram serialize to_dto q] /\
    inq (send_packet serialize to_dto drop_empty t q) = inq t.
Proof. intros. apply send_one; assumption. Qed.
Print Assumptions dgram_send_one.

(* ... and that datagram deserializes to the sent packet whenever the codec and the converter round-trip *)
Theorem dgram_send_roundtrip :
  forall (P Q : Type) (serialize : P -> bytes) (deserialize : bytes -> ores P) (to_dto : Q -> P) (from_dto : P -> option Q) (q : Q),
    (forall p, deserialize (serialize p) = OOk p) -> from_dto (to_dto q) = Some q ->
    build_packet_from_datagram deserialize from_dto (make_datagram serialize to_dto q) = RPacket q.
Proof. intros. apply roundtrip; assumption. Qed.
Print Assumptions dgram_send_roundtrip.

(* the code as it is on the asyncio backend of CPython < 3.13: a packet that serializes to b"" produces NO datagram *)
Theorem dgram_send_one_refuted_for_empty_payload :
  exists (serialize : bytes -> bytes) (t : transport) (q : bytes),
    outq (send_packet serialize (fun x => x) true t q) = outq t.
Proof. exists (fun x => x), {| inq := []; outq := [] |}, []. vm_compute. reflexivity. Qed.
Print Assumptions dgram_send_one_refuted_for_empty_payload.

(* receiving n queued items (datagrams, and positions of asynchronous socket errors) = map of the per-item function
   over the first n items, the rest stays queued untouched: never merged, split, skipped or carried over *)
Theorem dgram_recv_map :
  forall (P Q : Type) (deserialize : bytes -> ores P) (from_dto : P -> option Q) (bufsize : N) (n : nat) (t : transport),
    n <= length (inq t) ->
    recv_n deserialize from_dto bufsize n t =
      ({| inq := skipn n (inq t); outq := outq t |}, map (item_result deserialize from_dto bufsize) (firstn n (inq t))).
Proof. intros. apply recvn_map; assumption. Qed.
Print Assumptions dgram_recv_map.

(* the same under ANY interleaving of sends, receives (also on an empty queue), receives whose task is cancelled,
   arrivals and asynchronous socket errors on one endpoint: the outcomes that consumed something are exactly the
   per-item results of a prefix of everything that entered the queue, in order; the rest is still queued *)
Theorem dgram_recv_map_any_interleaving :
  forall (P Q : Type) (serialize : P -> bytes) (deserialize : bytes -> ores P) (to_dto : Q -> P) (from_dto : P -> option Q)
         (bufsize : N) (drop_empty : bool) (os : list op) (t : transport),
    exists k, k <= length (inq t ++ arrivals_of os) /\
      filter is_data (snd (do_ops serialize deserialize to_dto from_dto bufsize drop_empty t os)) =
        map (item_result deserialize from_dto bufsize) (firstn k (inq t ++ arrivals_of os)) /\
      inq (fst (do_ops serialize deserialize to_dto from_dto bufsize drop_empty t os)) = skipn k (inq t ++ arrivals_of os).
Proof. intros. apply ops_map. Qed.
Print Assumptions dgram_recv_map_any_interleaving.

(* errors isolated: the result for datagram i depends on datagram i only *)
Theorem dgram_errors_isolated :
  forall (P Q : Type) (deserialize : bytes -> ores P) (from_dto : P -> option Q) (bufsize : N)
         (ds ds' : list item) (o o' : list bytes) (i : nat),
    i < length ds -> i < length ds' -> nth i ds IErr = nth i ds' IErr ->
    nth i (snd (recv_n deserialize from_dto bufsize (length ds) {| inq := ds; outq := o |})) RNoData =
    nth i (snd (recv_n deserialize from_dto bufsize (length ds') {| inq := ds'; outq := o' |})) RNoData.
Proof. intros. apply isolated; assumption. Qed.
Print Assumptions dgram_errors_isolated.

(* exactly one packet or exactly one parse error per datagram -- provided the serializer's deserialize only ever returns
   a packet or raises DeserializeError (hypothesis validated by execution: the correspondence never accepts a crash) *)
Theorem dgram_packet_or_parse_error :
  forall (P Q : Type) (deserialize : bytes -> ores P) (from_dto : P -> option Q) (bufsize : N) (d : bytes),
    (forall x, deserialize x <> OCrash) ->
    (exists q, item_result deserialize from_dto bufsize (IData d) = RPacket q) \/
    (exists e, item_result deserialize from_dto bufsize (IData d) = RParseError e).
Proof. intros. apply packet_or_parse_error; assumption. Qed.
Print Assumptions dgram_packet_or_parse_error.

(* struct "<n>s" string field (NamedTupleStructSerializer): a value that fits and does not itself end with NUL survives
   pack -> unpack -> from_tuple unchanged; only TRAILING NULs are ever removed (interior and leading NULs are content) *)
Theorem struct_string_field_roundtrip :
  forall (n : nat) (v : bytes),
    length v <= n -> rstrip_nul v = v ->
    struct_s_deserialize n true (struct_s_serialize n v) = OOk v.
Proof. exact struct_s_roundtrip. Qed.
Print Assumptions struct_string_field_roundtrip.

Theorem struct_strips_trailing_nul_only :
  forall (d : bytes), exists k, d = rstrip_nul d ++ repeat 0%N k.
Proof. exact rstrip_nul_spec. Qed.
Print Assumptions struct_strips_trailing_nul_only.

(* boundaries preserved: a datagram that fits the size given to recv(2) reaches the protocol whole ... *)
Theorem dgram_not_truncated :
  forall (P Q : Type) (deserialize : bytes -> ores P) (from_dto : P -> option Q) (bufsize : N) (d : bytes),
    (N.of_nat (length d) <= bufsize)%N ->
    item_result deserialize from_dto bufsize (IData d) = build_packet_from_datagram deserialize from_dto d.
Proof. intros. apply not_truncated; assumption. Qed.
Print Assumptions dgram_not_truncated.

(* ... and the size the blocking transports use (MAX_DATAGRAM_BUFSIZE, regenerated from lowlevel/constants.py into
   Gen/ParamsC05.v on every run) covers the largest payload any UDP datagram can carry: 65527 bytes over IPv6
   (65535 - 8; IPv4: 65507).  This obligation stops compiling if the constant is lowered below that. *)
Theorem max_datagram_bufsize_covers_udp :
  forall (P Q : Type) (deserialize : bytes -> ores P) (from_dto : P -> option Q) (d : bytes),
    (N.of_nat (length d) <= 65527)%N ->
    item_result deserialize from_dto max_datagram_bufsize (IData d) = build_packet_from_datagram deserialize from_dto d.
Proof.
  intros P Q de fd d H. apply not_truncated.
  assert (Hc : (65527 <=? max_datagram_bufsize)%N = true) by (vm_compute; reflexivity).
  apply N.leb_le in Hc. eapply N.le_trans; eassumption.
Qed.
Print Assumptions max_datagram_bufsize_covers_udp.

(* StringLineSerializer used for datagrams (one-shot codec): a packet that does not itself end with the newline sequence
   (or any packet with keep_end) survives serialize -> deserialize unchanged; only WHOLE trailing separators are ever
   removed (the decoded text is the datagram minus a repetition of the separator) *)
Theorem line_oneshot_roundtrip :
  forall (sep : bytes) (keep_end ascii : bool) (p : bytes),
    (keep_end = true \/ endswithb p sep = false) ->
    (ascii = true -> forallb (fun b => N.ltb b 128) p = true) ->
    line_deserialize sep keep_end ascii (line_serialize p) = OOk p.
Proof. exact line_roundtrip. Qed.
Print Assumptions line_oneshot_roundtrip.

Theorem line_strips_whole_separators_only :
  forall (fuel : nat) (sep data : bytes), exists k, data = strip_suffixes fuel sep data ++ concat (repeat sep k).
Proof. intros. apply strip_suffixes_spec. Qed.
Print Assumptions line_strips_whole_separators_only.

(* one-shot interface derived from the incremental one, read_until framer: a frame is payload ++ sep whose first
   separator occurrence is the final one (in particular: no separator inside the payload and no overlap) *)
Theorem oneshot_of_incremental_until :
  forall (P : Type) (sep : bytes) (limit : nat) (keep_end : bool) (dec : decoder P) (payload : bytes) (p : P),
    sep <> [] -> find0 sep (payload ++ sep) = Some (length payload) -> length payload <= limit ->
    dec (if keep_end then payload ++ sep else payload) = Some p ->
    oneshot_deserialize (ru_framer sep limit keep_end dec) (oneshot_serialize (until_parts sep payload)) = OOk p /\
    (forall extra, extra <> [] ->
       oneshot_deserialize (ru_framer sep limit keep_end dec) (payload ++ sep ++ extra) = OErr EExtra) /\
    (forall x y, payload ++ sep = x ++ y -> y <> [] ->
       oneshot_deserialize (ru_framer sep limit keep_end dec) x = OErr EMissing).
Proof.
  intros P sep limit keep_end dec payload p Hs Hf Hl Hd. split; [|split].
  - apply until_ok; assumption.
  - intros. eapply until_extra; eassumption.
  - intros. eapply until_missing; eassumption.
Qed.
Print Assumptions oneshot_of_incremental_until.

(* ... and the fixed-size (read_exactly) framer *)
Theorem oneshot_of_incremental_exact :
  forall (P : Type) (size : nat) (dec : decoder P) (data : bytes) (p : P),
    0 < size -> length data = size -> dec data = Some p ->
    oneshot_deserialize (rx_framer size dec) (oneshot_serialize (exact_parts data)) = OOk p /\
    (forall extra, extra <> [] -> oneshot_deserialize (rx_framer size dec) (data ++ extra) = OErr EExtra) /\
    (forall x, length x < size -> oneshot_deserialize (rx_framer size dec) x = OErr EMissing).
Proof.
  intros P size dec data p Hs Hl Hd. split; [|split].
  - apply exact_ok; assumption.
  - intros. eapply exact_extra; eassumption.
  - intros. apply exact_missing; assumption.
Qed.
Print Assumptions oneshot_of_incremental_exact.

(* non-vacuity *)
Example c05_interior_nul_kept : struct_s_deserialize 5 true [97%N; 0%N; 98%N; 0%N; 0%N] = OOk [97%N; 0%N; 98%N].
Proof. reflexivity. Qed.
Example c05_crlf_partial_separator_kept :      (* "ab\r" over CRLF keeps its lone CR; "ab\r\n\r\n" loses both CRLF *)
  line_deserialize [13%N; 10%N] false true [97%N; 98%N; 13%N] = OOk [97%N; 98%N; 13%N] /\
  line_deserialize [13%N; 10%N] false true [97%N; 98%N; 13%N; 10%N; 13%N; 10%N] = OOk [97%N; 98%N].
Proof. split; reflexivity. Qed.
Example c05_until_hyps : find0 [13%N; 10%N] ([104%N; 105%N] ++ [13%N; 10%N]) = Some 2.
Proof. reflexivity. Qed.
Example c05_overlap_excluded : find0 [97%N; 97%N] ([97%N] ++ [97%N; 97%N]) = Some 0.   (* payload "a", separator "aa" *)
Proof. reflexivity. Qed.
Example c05_bad_then_good :
  snd (recv_n (oneshot_deserialize (rx_framer 2 (fun x => Some x))) (fun p => Some p) 100%N 3
         {| inq := [IData [1%N]; IData [1%N; 2%N]; IErr; IData [1%N; 2%N; 3%N]]; outq := [] |})
  = [RParseError EMissing; RPacket [1%N; 2%N]; RSockError].
Proof. reflexivity. Qed.
