(* C20 theorems -- being grown; see Proofs/C20_*.v *)
From EN Require Import Conc.FlowControl.
Theorem placeholder_c20 : True. Proof. exact I. Qed.
Print Assumptions placeholder_c20.
