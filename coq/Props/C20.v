(* C20 -- sending applies backpressure and never hangs on a dead connection.  Statements only; proofs in Proofs/C20_*.v. *)
From Coq Require Import List Arith Bool.
From EN Require Import Conc.FlowControl Proofs.C20_flow Proofs.C20_adapter Gen.ParamsC20 Proofs.C20_repo Proofs.C20_closed Proofs.C20_live.
Import ListNotations.

(* WriteFlowControl, every label sequence (drain / pause / resume / connection_lost / is_closing / cancel of ANY parked
   sender at ANY time / done-callbacks and wake-ups in any order).  `task s t` is the state of task t. *)

(* resume_writing completes EVERY parked sender normally (its wake-up is enabled and returns), touches nobody else,
   and leaves the deque to the done-callbacks *)
Theorem all_waiters_resumed :
  forall (n : nat) (ls : list wlabel) (s : wfc), wfc_run (wfc_init n) ls = Some s ->
    (forall t f, task s t = Some (TParked f FPending) ->
       task (wfc_resume s) t = Some (TParked f FResult) /\
       wfc_step (wfc_resume s) (WWake t) = Some (set_task t TIdle (wfc_resume s), [ODrain t ROk])) /\
    (forall t x, task s t = Some x -> (forall f, x <> TParked f FPending) -> task (wfc_resume s) t = Some x) /\
    w_deque (wfc_resume s) = w_deque s.
Proof. exact all_waiters_resumed_proof. Qed.
Print Assumptions all_waiters_resumed.

(* ... and none before: a pending waiter gets a normal result from resume_writing only (any state, any label) *)
Theorem resumed_only_by_resume :
  forall (s : wfc) (l : wlabel) (s' : wfc) (o : list wobs) (t : tid) (f : fid), wfc_step s l = Some (s', o) ->
    task s t = Some (TParked f FPending) -> task s' t = Some (TParked f FResult) -> l = WResume.
Proof. exact resumed_only_by_resume_proof. Qed.
Print Assumptions resumed_only_by_resume.

(* connection_lost(exc) fails EVERY parked sender: with the connection's exception if there is one, else with
   OSError(connection_lost_errno); afterwards nobody is parked *)
Theorem all_waiters_failed_on_loss :
  forall (n : nat) (ls : list wlabel) (s : wfc) (e : bool), wfc_run (wfc_init n) ls = Some s ->
    (forall t f, task s t = Some (TParked f FPending) ->
       task (wfc_lost e s) t = Some (TParked f (FExc e)) /\
       wfc_step (wfc_lost e s) (WWake t)
         = Some (set_task t TIdle (wfc_lost e s), [ODrain t (if e then RConnExc else RErrno)])) /\
    (forall t f, task (wfc_lost e s) t <> Some (TParked f FPending)).
Proof. exact all_waiters_failed_on_loss_proof. Qed.
Print Assumptions all_waiters_failed_on_loss.

(* cancelling one suspended sender: only that task changes (it will get CancelledError), deque and flags are
   untouched, and every other parked sender is still completed by the next resume_writing / failed by the next
   connection_lost *)
Theorem cancel_one_keeps_others :
  forall (n : nat) (ls : list wlabel) (s : wfc) (t : tid) (s' : wfc) (o : list wobs),
    wfc_run (wfc_init n) ls = Some s -> wfc_step s (WCancel t) = Some (s', o) ->
    (forall u, u <> t -> task s' u = task s u) /\
    w_deque s' = w_deque s /\ w_paused s' = w_paused s /\ w_lost s' = w_lost s /\
    (exists r, wfc_step s' (WWake t) = Some (r, [ODrain t RCancelled])) /\
    (forall u f, u <> t -> task s u = Some (TParked f FPending) ->
       task (wfc_resume s') u = Some (TParked f FResult) /\
       (forall e, task (wfc_lost e s') u = Some (TParked f (FExc e)))).
Proof. exact cancel_one_keeps_others_proof. Qed.
Print Assumptions cancel_one_keeps_others.

(* the deque has no duplicates; a pending waiter is in it (so it can be woken), only while writing is paused and the
   connection is not lost; no future is awaited by two tasks; every other entry of the deque is a finished future
   whose done-callback is enabled and removes exactly that entry: nothing leaks, nothing is stranded *)
Theorem no_waiter_leak :
  forall (n : nat) (ls : list wlabel) (s : wfc), wfc_run (wfc_init n) ls = Some s ->
    NoDup (w_deque s) /\
    (forall t f, task s t = Some (TParked f FPending) -> In f (w_deque s) /\ w_paused s = true /\ w_lost s = false) /\
    (forall t u f st st', task s t = Some (TParked f st) -> task s u = Some (TParked f st') -> t = u) /\
    (forall f, In f (w_deque s) ->
       (exists t, task s t = Some (TParked f FPending)) \/
       (exists s', wfc_step s (WCallback f) = Some (s', []) /\ w_deque s' = remove_fid f (w_deque s) /\
                   ~ In f (w_deque s') /\ w_tasks s' = w_tasks s)).
Proof. exact no_waiter_leak_proof. Qed.
Print Assumptions no_waiter_leak.

(* Adapter = asyncio transport + WriteFlowControl.  H_pause, explicit: the water marks are (0, 0) [Hc c] and every
   writelines-based send happens on a transport whose writelines() calls _maybe_pause_protocol [ok_label c].  Then, for
   every label sequence (sends of any size with any partial acceptance by the kernel, socket-writable events, transport
   death, close(), cancellation, callbacks and wake-ups in any order): whenever a send (immediately, or when the parked
   sender is resumed) returns normally, none of that sender's bytes is left in the user-space buffer. *)
Theorem send_returns_only_when_flushed :
  forall (c : tcfg) (n : nat) (ls : list alabel) (a : ad),
    Hc c -> Forall (ok_label c) ls -> ad_run (ad_init c n) ls = Some a ->
    forall (l : alabel) (a' : ad) (o : list wobs) (t : tid),
      ok_label c l -> ad_step a l = Some (a', o) -> In (ODrain t ROk) o -> bytes_of t (a_buf a') = 0.
Proof. exact send_returns_only_when_flushed_proof. Qed.
Print Assumptions send_returns_only_when_flushed.

(* Without H_pause the statement is false.  F6 (writelines() that never pauses, CPython 3.12.1): *)
Theorem send_unflushed_writelines_refuted :
  exists a' o, ad_step (ad_init (mkCfg 0 0 false) 1) (ASendIter 0 3 2) = Some (a', o) /\
               In (ODrain 0 ROk) o /\ bytes_of 0 (a_buf a') = 1.
Proof. exact send_unflushed_writelines_refuted_proof. Qed.
Print Assumptions send_unflushed_writelines_refuted.

(* F5 (a non-zero high-water mark, as kept by the datagram endpoint / listener): *)
Theorem send_unflushed_datagram_refuted :
  exists a' o, ad_step (ad_init (mkCfg 4 1 true) 1) (ASendTo 0 3 false) = Some (a', o) /\
               In (ODrain 0 ROk) o /\ bytes_of 0 (a_buf a') = 3.
Proof. exact send_unflushed_datagram_refuted_proof. Qed.
Print Assumptions send_unflushed_datagram_refuted.

(* The adapters of /repo AS THEY ARE NOW.  Gen/ParamsC20.v is regenerated from the source (fail-closed ast reader) on
   every run: whether each constructor calls transport.set_write_buffer_limits(0), whether send_all_from_iterable
   re-checks the write buffer after writelines(), whether this interpreter's writelines() pauses by itself.
   stream_cfg / dgram_endpoint_cfg / dgram_listener_cfg (Proofs/C20_repo.v) are the transport configurations these facts
   give (mark = 0 iff the limits are set to 0).  All three satisfy the pause hypothesis ... *)
Theorem repo_adapters_satisfy_H_pause :
  forall c : tcfg, In c [stream_cfg; dgram_endpoint_cfg; dgram_listener_cfg] -> Hc c /\ (forall l : alabel, ok_label c l).
Proof. exact repo_adapters_satisfy_H_pause_proof. Qed.
Print Assumptions repo_adapters_satisfy_H_pause.

(* ... hence for the stream adapter (send_all and send_all_from_iterable) and both datagram adapters, every label
   sequence: a send that returns normally has none of its bytes left in user space.  Removing either repair (F5: the
   datagram constructors' set_write_buffer_limits(0); F6: the re-check after writelines()) breaks this proof. *)
Theorem send_returns_only_when_flushed_in_repo :
  forall c : tcfg, In c [stream_cfg; dgram_endpoint_cfg; dgram_listener_cfg] ->
  forall (n : nat) (ls : list alabel) (a : ad), ad_run (ad_init c n) ls = Some a ->
  forall (l : alabel) (a' : ad) (o : list wobs) (t : tid),
    ad_step a l = Some (a', o) -> In (ODrain t ROk) o -> bytes_of t (a_buf a') = 0.
Proof. exact send_returns_only_when_flushed_in_repo_proof. Qed.
Print Assumptions send_returns_only_when_flushed_in_repo.

(* The liveness half: the send returns when flushed AND it does return once flushed.  Under H_pause, every label
   sequence: whenever the transport is alive and its buffer is empty (the kernel took everything), writing is not paused
   and NO sender is parked: every sender that was suspended has been completed by resume_writing (its wake-up is
   enabled, all_waiters_resumed).  A sender left suspended after the operating system took all its bytes is impossible. *)
Theorem send_resumes_once_flushed :
  forall (c : tcfg) (n : nat) (ls : list alabel) (a : ad),
    Hc c -> Forall (ok_label c) ls -> ad_run (ad_init c n) ls = Some a ->
    a_dead a = false -> a_buf a = [] ->
    w_paused (a_w a) = false /\ forall t f, task (a_w a) t = Some (TParked f FPending) -> False.
Proof. exact send_resumes_once_flushed_proof. Qed.
Print Assumptions send_resumes_once_flushed.

(* A send on a closed / dead adapter never suspends for ever.  ANY transport configuration, every label sequence.  Once the
   transport is dead (close() with nothing buffered, the end of a closing flush, _force_close / abort):
   - nothing is buffered any more;
   - if connection_lost has not been delivered yet, its delivery is enabled and leaves nobody parked;
   - once it has been delivered nobody is parked, and a new send (its write is dropped by the transport) yields once
     (is_closing()) and, woken up, raises the connection error at once: it is idle again, nothing was buffered. *)
Theorem closed_transport_sends_fail_fast :
  forall (c : tcfg) (n : nat) (ls : list alabel) (a : ad), ad_run (ad_init c n) ls = Some a -> a_dead a = true ->
    a_buf a = [] /\
    (w_lost (a_w a) = false ->
       forall e, exists a', ad_step a (ALost e) = Some (a', []) /\
                            forall t f, task (a_w a') t <> Some (TParked f FPending)) /\
    (w_lost (a_w a) = true ->
       (forall t f, task (a_w a) t <> Some (TParked f FPending)) /\
       forall t n k, task (a_w a) t = Some TIdle ->
         exists a1 a2 r, ad_step a (ASend t n k) = Some (a1, [OParked t]) /\
                         ad_step a1 (AWake t) = Some (a2, [ODrain t r]) /\ (r = RConnExc \/ r = RErrno) /\
                         task (a_w a2) t = Some TIdle /\ a_buf a2 = []).
Proof. exact closed_transport_sends_fail_fast_proof. Qed.
Print Assumptions closed_transport_sends_fail_fast.

(* H_pause is satisfiable and the theorem is not vacuous: a partial write parks the sender, the flush resumes it *)
Example adapter_run_example :
  exists a o, ad_run (ad_init (mkCfg 0 0 true) 1) [ASend 0 3 1; AReady 2; ACallback 0] = Some a /\
              ad_step a (AWake 0) = Some (with_w (set_task 0 TIdle (a_w a)) a, o) /\ o = [ODrain 0 ROk] /\ a_buf a = [].
Proof. eexists. eexists. split; [vm_compute; reflexivity|]. split; [vm_compute; reflexivity|]. split; reflexivity. Qed.

(* non-vacuity: two parked senders, one cancelled, the other resumed *)
Example flow_run_example :
  exists s, wfc_run (wfc_init 2) [WPause; WDrain 0; WDrain 1; WCancel 0; WResume; WCallback 0; WWake 0; WCallback 1] = Some s
            /\ w_deque s = [] /\ task s 1 = Some (TParked 1 FResult) /\ task s 0 = Some TIdle.
Proof. eexists. split; [vm_compute; reflexivity|]. repeat split. Qed.
