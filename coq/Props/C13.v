(* C13 -- theorems (statements in full; proofs are in Proofs/C13_*.v).
   Model: Conc/CancelScope.v -- one asyncio task running a program of type [prog] (scopes, timeouts, shields,
   explicit cancel / reschedule, try/except), futures, FIFO ready queue, heapq timer heap, virtual clock; the
   controller's task.cancel() comes from timers and from handles injected into any loop iteration (front or back).
   [init fx fb p timers turns k] is the initial state; fx = the repair of finding C13-F1 is present in
   CancelScope.__exit__, fb = __uncancel_task falls back on the CancelledError message (finding C13-F2); both are read
   from /repo on every run into Gen/ParamsC13.v (unrepaired tree: fx = false, fb = true); the theorems quantify over both., [step] one machine step, [run_steps fuel] iterates it. *)
From Coq Require Import ZArith List Bool Arith.
From EN Require Import Conc.CancelScope Proofs.C13_core Proofs.C13_inv.
Import ListNotations.

(* ---------------------------------------------------------------------------------------------------------------
   swallow_only_own (core).  CancelScope.__exit__ returns True (swallows the exception) only if cancel() had been
   called on that very scope and the exception it was given is a CancelledError -- for EVERY state of the model,
   reachable or not, provided the scope has not already "caught" (it is still entered). *)
Theorem swallow_only_own : forall st k exc st' sw,
  scope_exit st k exc = (st', sw) -> sw = true -> s_caught (get_scope st k) = false ->
  s_called (get_scope st k) = true /\ exists m, exc = Some (ECancel m).
Proof. exact scope_exit_true_cancelled. Qed.
Print Assumptions swallow_only_own.

(* ---------------------------------------------------------------------------------------------------------------
   timeout_iff_caught (core).  When the body of a timeout() scope finishes (normally: c = CRet, or with an exception
   e: c = CRaise e), _timeout_scope.__exit__ replaces the outcome by TimeoutError exactly when the scope's
   cancelled_caught() is True afterwards; otherwise the outcome is left untouched.  Every state. *)
Theorem timeout_iff_caught : forall st id sid k c,
  frames st = FScope id KTimeout sid :: k -> md st = MRun c -> (c = CRet \/ exists e, c = CRaise e) ->
  (s_caught (get_scope (step st) sid) = true -> md (step st) = MRun (CRaise ETimeout)) /\
  (s_caught (get_scope (step st) sid) = false -> md (step st) = MRun c).
Proof. exact timeout_exit_step. Qed.
Print Assumptions timeout_iff_caught.

(* ---------------------------------------------------------------------------------------------------------------
   uncancel_accounting (core; global invariant over ALL programs, ALL controller schedules, any number of steps).
   task.cancelling() = controller cancels delivered (g_ext)
                     + requests issued and not yet taken back by the scopes that are still active (owed_sum)
                     + requests a scope had not taken back when it exited (g_leak, incremented only in __exit__)
                     + task.uncancel() calls that found the counter already at zero (g_floor).
   g_ext / g_leak / g_floor are instrumentation counters of the model that no behaviour reads. *)
Theorem uncancel_accounting : forall fx fb p timers turns k fuel,
  let st := run_steps fuel (init fx fb p timers turns k) in
  t_cnt st = g_ext st + owed_sum (scopes st) + g_leak st + g_floor st.
Proof. exact acct_reachable. Qed.
Print Assumptions uncancel_accounting.

(* the same invariant as a one-step preservation property of arbitrary (not only reachable) states *)
Theorem uncancel_accounting_step : forall st,
  t_cnt st = g_ext st + owed_sum (scopes st) + g_leak st + g_floor st ->
  t_cnt (step st) = g_ext (step st) + owed_sum (scopes (step st)) + g_leak (step st) + g_floor (step st).
Proof. exact acct_step. Qed.
Print Assumptions uncancel_accounting_step.

(* ---------------------------------------------------------------------------------------------------------------
   no_leftover.  FULL statement wanted by the property (NOT provable -- refuted below):
     forall fx fb p timers turns k fuel, let st := run_steps fuel (init fx fb p timers turns k) in
       (forall s, In s (scopes st) -> s_host s = false) -> t_cnt st = g_ext st.
   Proved instead (partial): once no scope is active, cancelling() exceeds the controller's own requests exactly by
   what exiting scopes left behind (+ floor hits); so it equals them whenever no scope leaked. *)
Theorem no_leftover_partial : forall fx fb p timers turns k fuel,
  let st := run_steps fuel (init fx fb p timers turns k) in
  (forall s, In s (scopes st) -> s_host s = false) ->
  t_cnt st = g_ext st + g_leak st + g_floor st.
Proof. exact no_leftover_when_balanced. Qed.
Print Assumptions no_leftover_partial.

(* Refutation of the full statement (finding C13-F1, replayed on the real code by corpus/C13/leftover_*.json):
     with move_on_after(2):            # scope 1
         with timeout(1):              # scope 2
             <block the loop for 3 ticks>; await sleep(1)
   both deadlines expire in the same loop iteration, the inner one first; the CancelledError carries the inner scope's
   id, timeout() turns it into TimeoutError, the outer scope's __exit__ sees a non-cancellation exception and never
   calls task.uncancel() for the request it had issued: the program ends with TimeoutError, no scope active, nobody
   outside cancelled the task, and task.cancelling() = 1 for ever. *)
Definition leftover_witness : prog :=
  PScope 1 KMoveOn false (Some 2) (PScope 2 KTimeout false (Some 1) (PSeq (PBlock 3) (PSleep 3 1))).
Theorem no_leftover_refuted : exists p fuel,
  let st := run_steps fuel (init false true p [] [] 0) in
  md st = MDone (Some ETimeout) /\ (forall s, In s (scopes st) -> s_host s = false) /\ g_ext st = 0 /\ t_cnt st = 1.
Proof.
  exists leftover_witness, 200. vm_compute. repeat split; try reflexivity.
  intros s [<-|[<-|[]]]; reflexivity.
Qed.
Print Assumptions no_leftover_refuted.

(* With the proposed repair (meta/fixes/C13_uncancel_leftover.diff; fx = true) a cancelled scope's __exit__ leaves
   nothing behind (every state), and the witness above ends with task.cancelling() = 0. *)
Theorem repaired_exit_takes_everything_back : forall st calls st' c',
  fixF st = true -> exit_takeback st true calls = (st', c') -> c' = 0.
Proof. intros st calls st' c' F H. apply exit_takeback_acct in H. apply H; [exact F|reflexivity]. Qed.
Print Assumptions repaired_exit_takes_everything_back.
Example leftover_witness_repaired :
  let st := run_steps 200 (init true true leftover_witness [] [] 0) in
  md st = MDone (Some ETimeout) /\ t_cnt st = 0 /\ g_leak st = 0.
Proof. vm_compute. repeat split; reflexivity. Qed.

(* ---------------------------------------------------------------------------------------------------------------
   Non-vacuity. *)
(* a scope that swallows: move_on_after(1) around sleep(3) *)
Example swallow_happens :
  let st := run_steps 200 (init false true (PScope 1 KMoveOn false (Some 1) (PSleep 2 3)) [] [] 0) in
  md st = MDone None /\ t_cnt st = 0 /\
  exists t, In (EvExit 1 t true true 0 true 1) (trace st).
Proof. vm_compute. repeat split; try reflexivity. exists 1. left. reflexivity. Qed.
(* timeout() raising: *)
Example timeout_happens :
  md (run_steps 200 (init false true (PScope 1 KTimeout false (Some 1) (PSleep 2 3)) [] [] 0)) = MDone (Some ETimeout).
Proof. vm_compute. reflexivity. Qed.
(* an external cancel goes through a scope that was not cancelled, and stays counted: *)
Example external_goes_through :
  let st := run_steps 200 (init false true (PScope 1 KMoveOn false (Some 5) (PSleep 2 3)) [1] [] 0) in
  md st = MDone (Some (ECancel None)) /\ t_cnt st = 1 /\ g_ext st = 1 /\ g_leak st = 0.
Proof. vm_compute. repeat split; reflexivity. Qed.
