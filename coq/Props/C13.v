(* C13 -- theorems (statements in full; proofs are in Proofs/C13_*.v).
   Model: Conc/CancelScope.v -- one asyncio task running a program of type [prog] (scopes, timeouts, shields,
   explicit cancel / reschedule, try/except), futures, FIFO ready queue, heapq timer heap, virtual clock; the
   controller's task.cancel() comes from timers and from handles injected into any loop iteration (front or back).
   [init fx fb p timers turns k] is the initial state; fx = the repair of finding C13-F1 is present in
   CancelScope.__exit__, fb = __uncancel_task falls back on the CancelledError message (finding C13-F2); both are read
   from /repo on every run into Gen/ParamsC13.v (unrepaired tree: fx = false, fb = true); the theorems quantify over both., [step] one machine step, [run_steps fuel] iterates it. *)
From Coq Require Import ZArith List Bool Arith.
From EN Require Import Conc.CancelScope Conc.CancelScopeDomain Proofs.C13_core Proofs.C13_inv Proofs.C13_more
  Proofs.C13_bounded Proofs.C13_leak Proofs.C13_floor Proofs.C13_sf Proofs.C13_resume.
Import ListNotations.

(* ---------------------------------------------------------------------------------------------------------------
   swallow_only_own (core).  CancelScope.__exit__ returns True (swallows the exception) only if cancel() had been
   called on that very scope and the exception it was given is a CancelledError -- for EVERY state of the model,
   reachable or not, provided the scope has not already "caught" (it is still entered). *)
Theorem swallow_only_own : forall st k exc st' sw,
  scope_exit st k exc = (st', sw) -> sw = true -> s_caught (get_scope st k) = false ->
  s_called (get_scope st k) = true /\ exists m, exc = Some (ECancel m).
Proof. exact scope_exit_true_cancelled. Qed.
Print Assumptions swallow_only_own.

(* ---------------------------------------------------------------------------------------------------------------
   timeout_iff_caught (core).  When the body of a timeout() scope finishes (normally: c = CRet, or with an exception
   e: c = CRaise e), _timeout_scope.__exit__ replaces the outcome by TimeoutError exactly when the scope's
   cancelled_caught() is True afterwards; otherwise the outcome is left untouched.  Every state. *)
Theorem timeout_iff_caught : forall st id sid k c,
  frames st = FScope id KTimeout sid :: k -> md st = MRun c -> (c = CRet \/ exists e, c = CRaise e) ->
  (s_caught (get_scope (step st) sid) = true -> md (step st) = MRun (CRaise ETimeout)) /\
  (s_caught (get_scope (step st) sid) = false -> md (step st) = MRun c).
Proof. exact timeout_exit_step. Qed.
Print Assumptions timeout_iff_caught.

(* ---------------------------------------------------------------------------------------------------------------
   uncancel_accounting (core; global invariant over ALL programs, ALL controller schedules, any number of steps).
   task.cancelling() = controller cancels delivered (g_ext)
                     + requests issued and not yet taken back by the scopes that are still active (owed_sum)
                     + requests a scope had not taken back when it exited (g_leak, incremented only in __exit__)
                     + task.uncancel() calls that found the counter already at zero (g_floor).
   g_ext / g_leak / g_floor are instrumentation counters of the model that no behaviour reads. *)
Theorem uncancel_accounting : forall fx fb p timers turns k fuel,
  let st := run_steps fuel (init fx fb p timers turns k) in
  t_cnt st = g_ext st + owed_sum (scopes st) + g_leak st + g_floor st.
Proof. exact acct_reachable. Qed.
Print Assumptions uncancel_accounting.

(* the same invariant as a one-step preservation property of arbitrary (not only reachable) states *)
Theorem uncancel_accounting_step : forall st,
  t_cnt st = g_ext st + owed_sum (scopes st) + g_leak st + g_floor st ->
  t_cnt (step st) = g_ext (step st) + owed_sum (scopes (step st)) + g_leak (step st) + g_floor (step st).
Proof. exact acct_step. Qed.
Print Assumptions uncancel_accounting_step.

(* ---------------------------------------------------------------------------------------------------------------
   no_leftover.  FULL statement wanted by the property (NOT provable -- refuted below):
     forall fx fb p timers turns k fuel, let st := run_steps fuel (init fx fb p timers turns k) in
       (forall s, In s (scopes st) -> s_host s = false) -> t_cnt st = g_ext st.
   Proved instead (partial): once no scope is active, cancelling() exceeds the controller's own requests exactly by
   what exiting scopes left behind (+ floor hits); so it equals them whenever no scope leaked. *)
Theorem no_leftover_partial : forall fx fb p timers turns k fuel,
  let st := run_steps fuel (init fx fb p timers turns k) in
  (forall s, In s (scopes st) -> s_host s = false) ->
  t_cnt st = g_ext st + g_leak st + g_floor st.
Proof. exact no_leftover_when_balanced. Qed.
Print Assumptions no_leftover_partial.

(* Refutation of the full statement (finding C13-F1, replayed on the real code by corpus/C13/leftover_*.json):
     with move_on_after(2):            # scope 1
         with timeout(1):              # scope 2
             <block the loop for 3 ticks>; await sleep(1)
   both deadlines expire in the same loop iteration, the inner one first; the CancelledError carries the inner scope's
   id, timeout() turns it into TimeoutError, the outer scope's __exit__ sees a non-cancellation exception and never
   calls task.uncancel() for the request it had issued: the program ends with TimeoutError, no scope active, nobody
   outside cancelled the task, and task.cancelling() = 1 for ever. *)
Definition leftover_witness : prog :=
  PScope 1 KMoveOn false (Some 2) (PScope 2 KTimeout false (Some 1) (PSeq (PBlock 3) (PSleep 3 1))).
Theorem no_leftover_refuted : exists p fuel,
  let st := run_steps fuel (init false true p [] [] 0) in
  md st = MDone (Some ETimeout) /\ (forall s, In s (scopes st) -> s_host s = false) /\ g_ext st = 0 /\ t_cnt st = 1.
Proof.
  exists leftover_witness, 200. vm_compute. repeat split; try reflexivity.
  intros s [<-|[<-|[]]]; reflexivity.
Qed.
Print Assumptions no_leftover_refuted.

(* With the proposed repair (meta/fixes/C13_uncancel_leftover.diff; fx = true) a cancelled scope's __exit__ leaves
   nothing behind (every state), and the witness above ends with task.cancelling() = 0. *)
Theorem repaired_exit_takes_everything_back : forall st calls st' c',
  fixF st = true -> exit_takeback st true calls = (st', c') -> c' = 0.
Proof. intros st calls st' c' F H. apply exit_takeback_acct in H. apply H; [exact F|reflexivity]. Qed.
Print Assumptions repaired_exit_takes_everything_back.
Example leftover_witness_repaired :
  let st := run_steps 200 (init true true leftover_witness [] [] 0) in
  md st = MDone (Some ETimeout) /\ t_cnt st = 0 /\ g_leak st = 0.
Proof. vm_compute. repeat split; reflexivity. Qed.

(* ===============================================================================================================
   Goals beyond the core.  For each: the FULL statement (comment), what the faithful model says about it (a refutation
   with a witness replayed on the real code where it is false), a local form valid for EVERY state, and a *_bounded
   theorem: a COMPLETE enumeration (vm_compute, lifted with forallb_forall) of the finite domain of
   Conc/CancelScopeDomain.v -- 285 programs (one or two of {sleep 1, sleep 2, coro_yield, scope.cancel()} inside a
   move_on_after / timeout (deadline 1|2) / ignore_cancellation / try-except CancelledError, optionally nested in an
   outer scope, followed by sleep 1; coro_yield) x 25 controller schedules (none, or task.cancel() at the front / back of
   the ready queue of loop iteration 1..12) x the three states of the code (as found; F1 repaired; F1 and F2 repaired),
   busy-loop compression K = 2.  The instrumentation flags are set in task_step (observe_resumption):
     g_late     an await point outside every shield resumed normally although an enclosing scope had cancel_called
     g_shbroken an exception was delivered to a coroutine driven by cancel_shielded_await
     g_lost     an await point outside every shield resumed normally while a controller cancellation that had been
                accepted when the task was inside a shield / shielded yield was still owed (it is owed until a
                CancelledError without a scope id -- a foreign one -- is delivered outside a shield). *)

(* ---- interrupt_on_time.  FULL: forall reachable st, <some active scope has cancel_called> -> every later resumption of
   the host task at an await point outside a shield is by CancelledError (g_late never set).  Not proved in general
   (needs the ready-queue ordering invariant).  Local form, every state: a task marked _must_cancel resumes its
   innermost bare-yield / sleep await by CancelledError when no shield driver is on the coroutine stack; and
   Task.cancel() on a live task always leaves such a mark or a cancelled awaited future. *)
Theorem interrupt_next_resumption_partial : forall st v k w,
  t_must st = true -> frames st = FWait w :: k -> no_shield k -> (forall id, w <> WShYield id) ->
  exists m, md (task_step st v) = MRun (CRaise (ECancel m)).
Proof. exact must_cancel_interrupts. Qed.
Print Assumptions interrupt_next_resumption_partial.
Theorem cancel_always_marks : forall st m, task_done st = false ->
  t_must (task_cancel st m) = true \/
  exists f, t_waiter (task_cancel st m) = Some f /\ exists m', f_st (get_fut (task_cancel st m) f) = FCanc m'.
Proof. exact task_cancel_marks. Qed.
Print Assumptions cancel_always_marks.
Theorem interrupt_on_time_bounded : forall fx fb p pos,
  In (fx, fb) bounded_flags -> In p bounded_programs -> In pos bounded_positions ->
  finished (bounded_run fx fb p pos) = true /\ g_late (bounded_run fx fb p pos) = false.
Proof. intros fx fb p pos A B C. destruct (bounded_facts fx fb p pos A B C) as ((F & _) & L & _). split; assumption. Qed.
Print Assumptions interrupt_on_time_bounded.

(* ---- shield_runs_to_completion_then_delivers.  FULL: (a) no exception is ever delivered to a coroutine driven by
   ignore_cancellation (g_shbroken never set); (b) a cancellation swallowed by the shield is delivered at the next await
   point outside a shield (g_lost never set).  (b) is REFUTED (finding C13-F3), in every state of the code: the driver remembers
   only the LAST swallowed CancelledError (and asyncio hands over a single CancelledError when two requests land in one
   iteration), so inside an already cancelled scope the scope's re-armed cancel replaces a controller cancel, and the
   scope drops its own at __exit__. *)
Theorem shield_swallows_then_redelivers_partial : forall st id last m outer,
  delayed st = None ->
  exists st', shield_resume st id ShNone last (Some (ECancel m)) outer
              = (st', FShield id ShRun None true :: outer, RDeliver None) /\
    delayed st' = Some (nexth st, m) /\
    ready st' = ready st ++ [mkH (nexth st) (HDelayedCancel m) false; mkH (S (nexth st)) HDelayedPop false].
Proof. exact shield_swallows_then_redelivers. Qed.
Print Assumptions shield_swallows_then_redelivers_partial.
(* enumerated domain: (a) holds in all three states of the code; (b) holds once the message fallback is gone (repair
   of F2: the CancelledError carrying the cancelled scope's id is then no longer swallowed while a foreign request is
   counted) -- in the code as found (b) fails in 42 of the 7 125 runs of the domain *)
Theorem shield_runs_to_completion_then_delivers_bounded : forall fx fb p pos,
  In (fx, fb) bounded_flags -> In p bounded_programs -> In pos bounded_positions ->
  g_shbroken (bounded_run fx fb p pos) = false /\ (fb = false -> g_lost (bounded_run fx fb p pos) = false).
Proof. intros fx fb p pos A B C. destruct (bounded_facts fx fb p pos A B C) as (_ & _ & S & L & _). split; assumption. Qed.
Print Assumptions shield_runs_to_completion_then_delivers_bounded.
(* move_on_after(1){ ignore_cancellation(sleep(3)) }; sleep(2), controller cancel from a timer at tick 2 *)
Definition shield_lost_witness : prog :=
  PSeq (PScope 1 KMoveOn false (Some 1) (PShield 2 (PSleep 3 3))) (PSleep 4 2).
Theorem shield_delivers_refuted : forall fx fb,
  let st := run_steps 2000 (init fx fb shield_lost_witness [2] [] 2) in
  md st = MDone None /\ g_ext st = 1 /\ g_lost st = true /\ g_shbroken st = false /\
  In (EvDone 4 5) (trace st).
Proof. intros [] []; vm_compute; repeat split; try reflexivity; left; reflexivity. Qed.
Print Assumptions shield_delivers_refuted.

(* ---- external_cancel_propagates.  FULL: for programs without shield / shielded yield / try-except, a controller
   task.cancel() accepted while the program runs ends the task cancelled.  REFUTED for the code as found (finding
   C13-F2): when the controller's cancel lands after a scope's own cancel in the same loop iteration, one
   CancelledError (carrying the scope's id) stands for both requests, __uncancel_task's cancelling() test fails but its
   message fallback answers True: the scope swallows, the program goes on, cancelling() = 1 for ever. *)
Definition ext_lost_witness : prog := PSeq (PScope 1 KMoveOn false (Some 1) (PSleep 2 3)) (PSleep 3 1).
Theorem external_cancel_propagates_refuted : forall fx,
  let st := run_steps 2000 (init fx true ext_lost_witness [] [(3, true, 0)] 2) in
  shield_free ext_lost_witness = true /\ catch_free ext_lost_witness = true /\
  md st = MDone None /\ g_ext st = 1 /\ t_cnt st = 1 /\ In (EvDone 3 2) (trace st).
Proof. intros []; vm_compute; repeat split; try reflexivity; left; reflexivity. Qed.
Print Assumptions external_cancel_propagates_refuted.
(* what does hold on the enumerated domain: it propagates whenever no scope of the run was ever cancelled (all three
   states of the code), and ALWAYS once the message fallback is gone (fb = false, repair of F2) *)
Theorem external_cancel_propagates_bounded : forall fx fb p pos,
  In (fx, fb) bounded_flags -> In p bounded_programs -> In pos bounded_positions ->
  shield_free p = true -> catch_free p = true -> 1 <= g_ext (bounded_run fx fb p pos) ->
  (never_called (bounded_run fx fb p pos) = true \/ fb = false) ->
  cancelled_out (bounded_run fx fb p pos) = true.
Proof.
  intros fx fb p pos A B C S K E [N|F]; destruct (bounded_facts fx fb p pos A B C) as (_ & _ & _ & _ & P1 & P2 & _); auto.
Qed.
Print Assumptions external_cancel_propagates_bounded.

(* ---- no_leftover for the repaired __exit__ (fx = true; the state of /repo since commit d070f72), ALL programs, ALL
   controller schedules, any number of steps: no scope ever leaves a request behind (g_leak = 0), so once no scope is
   active task.cancelling() = the controller cancels that were accepted (+ uncancel() calls that found the counter at
   zero; these can only come from __cancel_task_unless_done and are 0 on the enumerated domain below).  The accepted
   controller cancels include the ones findings F2 / F3 fail to DELIVER: they stay counted.  The proof needs the queue
   invariant "a __deliver_cancellation handle is only ever queued for a scope whose cancel() was called", whence a
   scope without cancel_called has issued no request (second theorem; both states of the code). *)
Theorem no_leftover_repaired : forall fb p timers turns k fuel,
  let st := run_steps fuel (init true fb p timers turns k) in
  (forall s, In s (scopes st) -> s_host s = false) ->
  t_cnt st = g_ext st + g_floor st.
Proof. exact C13_leak.no_leftover_repaired. Qed.
Print Assumptions no_leftover_repaired.
Theorem repaired_never_leaks : forall fb p timers turns k fuel,
  g_leak (run_steps fuel (init true fb p timers turns k)) = 0.
Proof. exact leak_zero_reachable. Qed.
Print Assumptions repaired_never_leaks.
Theorem uncalled_scope_issued_nothing : forall fx fb p timers turns k fuel j,
  let st := run_steps fuel (init fx fb p timers turns k) in
  s_called (get_scope st j) = false -> s_calls (get_scope st j) = 0.
Proof. exact C13_leak.uncalled_scope_issued_nothing. Qed.
Print Assumptions uncalled_scope_issued_nothing.

(* ---- task.uncancel() at zero.  ALL programs, schedules, both code states, from any state satisfying the accounting
   equation: one step of the machine leaves g_floor alone unless it runs a live __cancel_task_unless_done handle while
   task.cancelling() = 0 -- in particular the loops of CancelScope.__exit__ (__uncancel_task and the take-back loop of
   the repair) never call uncancel() on a zero counter. *)
Theorem uncancel_at_zero_only_in_delayed_cancel : forall st,
  t_cnt st = g_ext st + owed_sum (scopes st) + g_leak st + g_floor st ->
  g_floor (step st) = g_floor st \/
  (md st = MLoop /\ t_cnt st = 0 /\
   exists n h rd m, todo st = S n /\ ready st = h :: rd /\ h_canc h = false /\ h_kind h = HDelayedCancel m).
Proof. exact floor_step. Qed.
Print Assumptions uncancel_at_zero_only_in_delayed_cancel.

(* ---- SHIELD-FREE programs (no ignore_cancellation, no cancel_shielded_coro_yield; everything else allowed), ALL
   controller schedules, any number of steps, both code states: uncancel() never finds the counter at zero; hence, with
   the repair of F1, the FULL no_leftover statement: once no scope is active task.cancelling() is exactly the number of
   controller cancels that were accepted. *)
Theorem floor_zero_shield_free : forall fx fb p timers turns k fuel, shield_free p = true ->
  g_floor (run_steps fuel (init fx fb p timers turns k)) = 0.
Proof. exact C13_sf.floor_zero_shield_free. Qed.
Print Assumptions floor_zero_shield_free.
Theorem no_leftover_repaired_shield_free : forall fb p timers turns k fuel, shield_free p = true ->
  let st := run_steps fuel (init true fb p timers turns k) in
  (forall s, In s (scopes st) -> s_host s = false) ->
  t_cnt st = g_ext st.
Proof.
  intros fb p timers turns k fuel Hp st H.
  pose proof (C13_leak.no_leftover_repaired fb p timers turns k fuel H) as A. fold st in A.
  unfold st in *. rewrite (C13_sf.floor_zero_shield_free true fb p timers turns k fuel Hp) in A.
  rewrite A. apply PeanoNat.Nat.add_0_r.
Qed.
Print Assumptions no_leftover_repaired_shield_free.

(* ---- delivery half of interrupt_on_time / external_cancel_propagates, SHIELD-FREE programs, ALL controller
   schedules, any number of steps, all code states: a cancellation that is on its way (the task is suspended with
   _must_cancel set, or its awaited future is cancelled -- which is what Task.cancel() always leaves behind, see
   cancel_always_marks) is never lost: every further step of the machine either keeps the task suspended with the
   cancellation still on its way, or resumes it BY CancelledError (MDead = the loop has nothing left to run).
   Rests on the resumption discipline proved in Proofs/C13_resume.v (at most one source of resumption, a step handle
   only when nothing is awaited, a wake-up handle only for the awaited future).
   What is still missing for the full interrupt_on_time: that __deliver_cancellation (which puts the cancellation on
   its way) runs before every wake-up of a task inside a cancelled scope -- the ordering invariant, proved only on
   the enumerated domain (interrupt_on_time_bounded). *)
Theorem cancellation_on_its_way_is_delivered_shield_free : forall fx fb p timers turns k fuel, shield_free p = true ->
  let st := run_steps fuel (init fx fb p timers turns k) in
  md st = MLoop ->
  (t_must st = true \/ exists f m, t_waiter st = Some f /\ f_st (get_fut st f) = FCanc m) ->
  (md (step st) = MLoop /\
   (t_must (step st) = true \/ exists f m, t_waiter (step st) = Some f /\ f_st (get_fut (step st) f) = FCanc m)) \/
  (exists m, md (step st) = MRun (CRaise (ECancel m))) \/ md (step st) = MDead.
Proof.
  intros fx fb p timers turns k fuel Hp st Hm D.
  exact (doom_step st (jinv_reachable fx fb p timers turns k fuel Hp) Hm D).
Qed.
Print Assumptions cancellation_on_its_way_is_delivered_shield_free.

(* ---- no_leftover for the repaired __exit__ (fx = true), enumerated domain: every run finishes, every scope has
   exited, no scope left a request behind, no uncancel() hit zero, hence task.cancelling() = the controller cancels that
   were accepted (which include the ones F2 / F3 fail to deliver). *)
Theorem no_leftover_bounded : forall fb p pos,
  In (true, fb) bounded_flags -> In p bounded_programs -> In pos bounded_positions ->
  finished (bounded_run true fb p pos) = true /\ no_active_scope (bounded_run true fb p pos) = true /\
  g_leak (bounded_run true fb p pos) = 0 /\ g_floor (bounded_run true fb p pos) = 0 /\
  t_cnt (bounded_run true fb p pos) = g_ext (bounded_run true fb p pos).
Proof.
  intros fb p pos A B C. destruct (bounded_facts true fb p pos A B C) as ((F & N & _) & _ & _ & _ & _ & _ & Fl & Lk).
  repeat split; auto. apply bounded_no_leftover; assumption.
Qed.
Print Assumptions no_leftover_bounded.

(* ---------------------------------------------------------------------------------------------------------------
   Non-vacuity. *)
(* a scope that swallows: move_on_after(1) around sleep(3) *)
Example swallow_happens :
  let st := run_steps 200 (init false true (PScope 1 KMoveOn false (Some 1) (PSleep 2 3)) [] [] 0) in
  md st = MDone None /\ t_cnt st = 0 /\
  exists t, In (EvExit 1 t true true 0 true 1) (trace st).
Proof. vm_compute. repeat split; try reflexivity. exists 1. left. reflexivity. Qed.
(* timeout() raising: *)
Example timeout_happens :
  md (run_steps 200 (init false true (PScope 1 KTimeout false (Some 1) (PSleep 2 3)) [] [] 0)) = MDone (Some ETimeout).
Proof. vm_compute. reflexivity. Qed.
(* an external cancel goes through a scope that was not cancelled, and stays counted: *)
Example external_goes_through :
  let st := run_steps 200 (init false true (PScope 1 KMoveOn false (Some 5) (PSleep 2 3)) [1] [] 0) in
  md st = MDone (Some (ECancel None)) /\ t_cnt st = 1 /\ g_ext st = 1 /\ g_leak st = 0.
Proof. vm_compute. repeat split; reflexivity. Qed.
