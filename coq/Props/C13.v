(* C13 -- theorems (statements in full; proofs are in Proofs/C13_*.v). *)
From Coq Require Import ZArith List Bool Arith.
From EN Require Import Conc.CancelScope Proofs.C13_core.
Import ListNotations.

(* CancelScope.__exit__ returns True (swallows the exception) only if cancel() had been called on that very scope
   and the exception it was given is a CancelledError -- for EVERY state of the model, reachable or not, provided the
   scope has not already "caught" (it is still entered; C13_inv shows this for all reachable states). *)
Theorem swallow_only_own : forall st k exc st' sw,
  scope_exit st k exc = (st', sw) -> sw = true -> s_caught (get_scope st k) = false ->
  s_called (get_scope st k) = true /\ exists m, exc = Some (ECancel m).
Proof. exact scope_exit_true_cancelled. Qed.
Print Assumptions swallow_only_own.
