(* C19 -- connection racing returns one socket and leaks none: theorem statements (proofs in Proofs/C19_*.v).
   Model: Conc/ConnRace.v.

   NOT YET PROVED (kept here so that nobody mistakes the partial results below for them):
     open_sockets_invariant : forall c tr s, NoDup (map a_id (c_addrs c)) -> c_addrs c <> [] ->
        exec c (init c) tr = Some s ->
        NoDup (r_open s) /\ forall id, In id (r_open s) <-> connecting c (r_att s) id \/ (r_winner s = Some id /\ kept s)
     result_exact : ... exec c (init c) tr = Some s ->
        (forall id, r_result s = Some (ResSock id) -> r_open s = [id]) /\
        (forall o, r_result s = Some o -> (forall id, o <> ResSock id) -> r_open s = []) /\
        (forall n, r_result s = Some (ResErrs n) -> 1 <= n)
     interleave_perm : forall l, Permutation (interleave l) l ;  first attempt is IPv6 when one exists
   The invariant record [Inv], its establishment [init_inv] and the update lemmas are in Proofs/C19_proofs.v; the
   preservation lemma over the 11 labels is missing.  The statements above are checked on every run only by
   execution (model = implementation on every case, and the driver's oracle), not by proof. *)
From Coq Require Import ZArith List Bool Arith Lia Permutation.
Import ListNotations.
From EN Require Import Gen.ParamsC19 Conc.ConnRace Proofs.C19_reorder Proofs.C19_proofs.

(* _prioritize_ipv6_over_ipv4 returns the same multiset of addresses *)
Theorem prioritize_perm : forall l : list acfg, Permutation (prioritize l) l.
Proof. exact prioritize_perm_l. Qed.
Print Assumptions prioritize_perm.

(* _create_connection_impl, from any position of any address list: when it suspends in a connect exactly that
   address's socket has been added to the open set; when it returns a socket exactly that one; on every other exit
   (all addresses failed, non-OSError exception) nothing: every socket created on the way was closed again *)
Theorem create_connection_opens_exactly_partial : forall locals l errs open,
  match cc_advance locals l errs open with
  | (CcWait cur _ _, open') => open' = a_id cur :: open
  | (CcDone (OutSock id), open') => open' = id :: open
  | (CcDone _, open') => open' = open
  end.
Proof. exact cc_advance_open. Qed.
Print Assumptions create_connection_opens_exactly_partial.

(* resuming the pending connect with any outcome (success, OSError, other exception, cancellation): its socket stays
   open only on success; on OSError the loop goes on with the remaining addresses *)
Theorem create_connection_resume_exact_partial : forall locals cur rest errs r open0, ~ In (a_id cur) open0 ->
  match cc_resume locals cur rest errs r (a_id cur :: open0) with
  | (CcWait cur' _ _, open') => open' = a_id cur' :: open0
  | (CcDone (OutSock id), open') => open' = id :: open0
  | (CcDone _, open') => open' = open0
  end.
Proof. exact cc_resume_open. Qed.
Print Assumptions create_connection_resume_exact_partial.

(* a connect attempt that succeeds while a winner exists closes its own socket and leaves the winner alone,
   in every state (not only reachable ones) *)
Theorem double_success_closes_loser : forall (c : rcfg) s i s' w a,
  r_winner s = Some w -> nth_error (c_addrs c) i = Some a -> step c s (LConnOk i) = Some s' ->
  ~ In (a_id a) (r_open s') /\ r_winner s' = Some w /\ nth_error (r_att s') i = Some TFin.
Proof. exact second_success_closes. Qed.
Print Assumptions double_success_closes_loser.

(* one address: _create_connection_impl([addr]) has exactly four shapes of outcome, and a failure always carries
   at least one error (so the final exception group is never empty) *)
Theorem single_address_outcomes : forall locals a open,
  (exists n, cc_advance locals [a] 0 open = (CcDone (OutErrs n), open) /\ 1 <= n) \/
  cc_advance locals [a] 0 open = (CcWait a [] 0, a_id a :: open) \/
  cc_advance locals [a] 0 open = (CcDone (OutSock (a_id a)), a_id a :: open) \/
  cc_advance locals [a] 0 open = (CcDone OutCrash, open).
Proof. exact cc_single. Qed.
Print Assumptions single_address_outcomes.

(* the race's initial state satisfies the invariant record (non-vacuity of its hypotheses) *)
Theorem race_invariant_initially : forall c, c_addrs c <> [] -> Inv c (init c).
Proof. exact init_inv. Qed.
Print Assumptions race_invariant_initially.

Example ex_double_success :
  let c := {| c_addrs := [ {| a_id := 0; a_fam := AF_INET6; a_create := true; a_conn := CkSuspend |};
                           {| a_id := 1; a_fam := AF_INET; a_create := true; a_conn := CkSuspend |} ];
              c_locals := None; c_delay := true |} in
  option_map (fun s => (r_open s, r_result s))
    (exec c (init c) [LHostStart; LChildStart 0; LHostNext true; LChildStart 1; LConnOk 1; LConnOk 0; LHostCancel;
                      LHostFinish true]) = Some ([1], Some (ResSock 1)).
Proof. vm_compute. reflexivity. Qed.
