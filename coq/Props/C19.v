(* C19 -- connection racing returns one socket and leaks none: theorem statements (proofs in Proofs/C19_*.v).
   Model: Conc/ConnRace.v.  [exec c (init c) tr = Some s] : s is reached from the initial state of the race over
   the (reordered) address list of c by the label sequence tr -- any interleaving of host steps, child steps,
   connect outcomes, task-group cancellation and caller cancellation; every theorem quantifies over all tr. *)
From Coq Require Import ZArith List Bool Arith Lia Permutation.
Import ListNotations.
From EN Require Import Gen.ParamsC19 Conc.ConnRace Conc.ClientConn Proofs.C19_reorder Proofs.C19_proofs Proofs.C19_client Proofs.C19_progress.

(* at every reachable state the open sockets are exactly the sockets of the attempts suspended in connect, plus the
   winner as long as the race has not ended with an exception; no socket is counted twice *)
Theorem open_sockets_invariant : forall c tr s,
  NoDup (map a_id (c_addrs c)) -> c_addrs c <> [] -> exec c (init c) tr = Some s ->
  NoDup (r_open s) /\
  forall id, In id (r_open s) <->
    (exists i a b, nth_error (r_att s) i = Some (TConn b) /\ nth_error (c_addrs c) i = Some a /\ a_id a = id) \/
    (r_winner s = Some id /\ match r_result s with None | Some (ResSock _) => True | Some _ => False end).
Proof.
  intros c tr s Hd Hne H.
  pose proof (exec_inv c Hd Hne tr (init c) s (init_inv c) H) as I.
  split; [apply (i_nodup c s I) | apply (i_open c s I)].
Qed.
Print Assumptions open_sockets_invariant.

(* normal return: exactly one socket is open and it is the returned one (the winner);
   any exceptional exit (all attempts failed, caller cancelled anywhere, non-OSError exception): no socket is open;
   a failure of all attempts is reported with at least one error *)
Theorem result_exact : forall c tr s,
  NoDup (map a_id (c_addrs c)) -> c_addrs c <> [] -> exec c (init c) tr = Some s ->
  (forall id, r_result s = Some (ResSock id) -> r_open s = [id] /\ r_winner s = Some id) /\
  (forall o, r_result s = Some o -> (forall id, o <> ResSock id) -> r_open s = []) /\
  (forall n, r_result s = Some (ResErrs n) -> 1 <= n).
Proof.
  intros c tr s Hd Hne H.
  exact (result_exact_inv c s (exec_inv c Hd Hne tr (init c) s (init_inv c) H)).
Qed.
Print Assumptions result_exact.

(* once the race has a result nothing can happen any more: the result and the open set are final *)
Theorem result_final : forall c tr s l,
  NoDup (map a_id (c_addrs c)) -> c_addrs c <> [] -> exec c (init c) tr = Some s -> r_result s <> None ->
  step c s l = None.
Proof. intros c tr s l Hd Hne. exact (result_is_final c Hd Hne tr s l). Qed.
Print Assumptions result_final.

(* ---- progress and termination of the race.  LCancelCaller (the caller is cancelled: an environment event that may
   be repeated without effect) is set apart; "every started attempt eventually completes, fails or is cancelled" is
   the assumption that the enabled labels below are eventually taken. *)

(* no deadlock: in every reachable state without a result some label other than LCancelCaller is enabled -- a step
   of the host or of a child, or the outcome (success / failure / cancellation) of a pending connect *)
Theorem race_progress : forall c tr s,
  NoDup (map a_id (c_addrs c)) -> c_addrs c <> [] -> exec c (init c) tr = Some s -> r_result s = None ->
  exists l, l <> LCancelCaller /\ step c s l <> None.
Proof.
  intros c tr s Hd Hne H Hr.
  destruct (progress c s (exec_inv c Hd Hne tr (init c) s (init_inv c) H)
                     (exec_inv2 c tr (init c) s (init_inv2 c) H) Hr) as (l & A & B).
  exists l. split; [intro E; subst; discriminate | exact B].
Qed.
Print Assumptions race_progress.

(* bounded: along any execution from a reachable state the number of labels other than LCancelCaller is at most the
   measure mu (3 per attempt not yet spawned, 2 per new, 1 per connecting, plus the host's remaining stages) *)
Theorem race_bounded : forall c tr s tr2 s2,
  NoDup (map a_id (c_addrs c)) -> c_addrs c <> [] -> exec c (init c) tr = Some s -> exec c s tr2 = Some s2 ->
  length (filter (fun l => match l with LCancelCaller => false | _ => true end) tr2) + mu c s2 <= mu c s.
Proof.
  intros c tr s tr2 s2 Hd Hne H H2.
  pose proof (bounded_steps c Hd Hne tr2 s s2 (exec_inv c Hd Hne tr (init c) s (init_inv c) H) H2) as B.
  erewrite filter_ext; [exact B|]. intros []; reflexivity.
Qed.
Print Assumptions race_bounded.

(* termination: from every reachable state a result is reached, by any schedule that keeps taking enabled labels
   other than LCancelCaller, within mu steps; with race_bounded no such schedule can go on for longer *)
Theorem race_reaches_result : forall c tr s,
  NoDup (map a_id (c_addrs c)) -> c_addrs c <> [] -> exec c (init c) tr = Some s ->
  exists tr2 s2, exec c s tr2 = Some s2 /\ r_result s2 <> None /\ length tr2 <= mu c s /\
                 Forall (fun l => l <> LCancelCaller) tr2.
Proof.
  intros c tr s Hd Hne H.
  destruct (reaches_result c Hd Hne (mu c s) s (exec_inv c Hd Hne tr (init c) s (init_inv c) H)
                           (exec_inv2 c tr (init c) s (init_inv2 c) H) (le_n _)) as (tr2 & s2 & A & B & C & D).
  exists tr2, s2. repeat split; auto. rewrite forallb_forall in D. apply Forall_forall. intros l Hl E. subst.
  specialize (D _ Hl). discriminate.
Qed.
Print Assumptions race_reaches_result.

(* prompt return: in every reachable state in which a winner has been elected (connection_scope cancelled) while other
   attempts are still in flight -- or in which the task group is already aborting -- the call reaches its result by task
   steps alone (the host takes its cancellation, every in-flight attempt takes its own and closes its socket, the
   host leaves the group): no connect outcome, no timer and no further event is needed, and at most mu steps.  With
   result_exact the losers' sockets are closed when it returns. *)
Theorem winner_returns_promptly : forall c tr s,
  NoDup (map a_id (c_addrs c)) -> c_addrs c <> [] -> exec c (init c) tr = Some s ->
  (r_scope s = true \/ r_host s = HAbort) ->
  exists tr2 s2, exec c s tr2 = Some s2 /\ r_result s2 <> None /\ length tr2 <= mu c s /\
    Forall (fun l => match l with LHostCancel | LHostFinish _ | LChildSkip _ | LConnCancel _ => True | _ => False end) tr2.
Proof.
  intros c tr s Hd Hne H Hs.
  destruct (returns_promptly c Hd Hne (mu c s) s (exec_inv c Hd Hne tr (init c) s (init_inv c) H)
              (exec_inv2 c tr (init c) s (init_inv2 c) H) (exec_inv5 c tr (init c) s (init_inv5 c) H) (le_n _) Hs)
    as (tr2 & s2 & A & B & C & D).
  exists tr2, s2. repeat split; auto. rewrite forallb_forall in D. apply Forall_forall. intros l Hl.
  specialize (D _ Hl). destruct l; simpl in D; try discriminate; exact I.
Qed.
Print Assumptions winner_returns_promptly.

(* conservation of sockets, for every label sequence and every scripted outcome of socket(), bind() (any number of
   local addresses per family, any subset failing) and connect: an open socket is always one that an attempt of this
   race created, and once the race has a result every socket it ever created is closed -- except the returned one *)
Theorem fd_conservation : forall c tr s,
  NoDup (map a_id (c_addrs c)) -> c_addrs c <> [] -> exec c (init c) tr = Some s ->
  (forall id, In id (r_open s) -> In id (r_created s)) /\
  (forall o, r_result s = Some o -> forall id, In id (r_created s) -> (In id (r_open s) <-> o = ResSock id)).
Proof.
  intros c tr s Hd Hne H. split.
  - apply (exec_inv3 c tr (init c) s); [intros id [] | exact H].
  - intros o Ho id _.
    destruct (result_exact_inv c s (exec_inv c Hd Hne tr (init c) s (init_inv c) H)) as [R1 [R2 _]].
    destruct o as [w | n | | ].
    + destruct (R1 w Ho) as [-> _]. simpl. split; [intros [-> | []]; reflexivity | intro E; inversion E; auto].
    + rewrite (R2 _ Ho) by discriminate. split; [intros [] | discriminate].
    + rewrite (R2 _ Ho) by discriminate. split; [intros [] | discriminate].
    + rewrite (R2 _ Ho) by discriminate. split; [intros [] | discriminate].
Qed.
Print Assumptions fd_conservation.

(* "every resolved address is attempted unless a winner exists": when the race reports that all attempts failed, every
   address of the attempt list -- a permutation of the resolved list (reorder_perm) -- has been attempted and has
   finished, and the report carries at least one error per address *)
Theorem all_addresses_attempted : forall c tr s n,
  NoDup (map a_id (c_addrs c)) -> c_addrs c <> [] -> exec c (init c) tr = Some s -> r_result s = Some (ResErrs n) ->
  (forall t, In t (r_att s) -> t = TFin) /\ length (r_att s) = length (c_addrs c) /\ length (c_addrs c) <= n.
Proof.
  intros c tr s n Hd Hne H Hr.
  assert (I4 : Inv4 c s).
  { apply (exec_inv4 c Hd Hne tr (init c) s (init_inv c)); [intros m Hm; discriminate | exact H]. }
  destruct (I4 n Hr) as [A B]. split; [exact A | split; [| exact B]].
  apply (i_len c s (exec_inv c Hd Hne tr (init c) s (init_inv c) H)).
Qed.
Print Assumptions all_addresses_attempted.

(* a connect attempt that succeeds while a winner exists closes its own socket and leaves the winner alone,
   in every state (not only reachable ones) *)
Theorem double_success_closes_loser : forall (c : rcfg) s i s' w a,
  r_winner s = Some w -> nth_error (c_addrs c) i = Some a -> step c s (LConnOk i) = Some s' ->
  ~ In (a_id a) (r_open s') /\ r_winner s' = Some w /\ nth_error (r_att s') i = Some TFin.
Proof. exact second_success_closes. Qed.
Print Assumptions double_success_closes_loser.

(* _create_connection_impl, from any position of any address list: when it suspends in a connect exactly that
   address's socket has been added to the open set; when it returns a socket exactly that one; on every other exit
   (all addresses failed, non-OSError exception) nothing: every socket created on the way was closed again *)
Theorem create_connection_opens_exactly : forall locals l errs open,
  match cc_advance locals l errs open with
  | (CcWait cur _ _, open') => open' = a_id cur :: open
  | (CcDone (OutSock id), open') => open' = id :: open
  | (CcDone _, open') => open' = open
  end.
Proof. exact cc_advance_open. Qed.
Print Assumptions create_connection_opens_exactly.

(* resuming the pending connect with any outcome (success, OSError, other exception, cancellation): its socket stays
   open only on success; on OSError the loop goes on with the remaining addresses *)
Theorem create_connection_resume_exact : forall locals cur rest errs r open0, ~ In (a_id cur) open0 ->
  match cc_resume locals cur rest errs r (a_id cur :: open0) with
  | (CcWait cur' _ _, open') => open' = a_id cur' :: open0
  | (CcDone (OutSock id), open') => open' = id :: open0
  | (CcDone _, open') => open' = open0
  end.
Proof. exact cc_resume_open. Qed.
Print Assumptions create_connection_resume_exact.

(* one address: four shapes of outcome, and a failure always carries at least one error *)
Theorem single_address_outcomes : forall locals a open,
  (exists n, cc_advance locals [a] 0 open = (CcDone (OutErrs n), open) /\ 1 <= n) \/
  cc_advance locals [a] 0 open = (CcWait a [] 0, a_id a :: open) \/
  cc_advance locals [a] 0 open = (CcDone (OutSock (a_id a)), a_id a :: open) \/
  cc_advance locals [a] 0 open = (CcDone OutCrash, open).
Proof. exact cc_single. Qed.
Print Assumptions single_address_outcomes.

(* the two reordering functions and their composition return the same multiset of addresses *)
Theorem prioritize_perm : forall l : list acfg, Permutation (prioritize l) l.
Proof. exact prioritize_perm_l. Qed.
Print Assumptions prioritize_perm.
Theorem interleave_perm : forall l : list acfg, Permutation (interleave l) l.
Proof. exact interleave_perm_l. Qed.
Print Assumptions interleave_perm.
Theorem reorder_perm : forall l : list acfg, Permutation (reorder l) l.
Proof. exact reorder_perm_l. Qed.
Print Assumptions reorder_perm.

(* the first attempt goes to an IPv6 address whenever the list contains one *)
Theorem first_attempt_ipv6 : forall l : list acfg, (exists a, In a l /\ a_fam a = AF_INET6) ->
  exists b t, reorder l = b :: t /\ a_fam b = AF_INET6.
Proof. exact reorder_first_ipv6. Qed.
Print Assumptions first_attempt_ipv6.

(* ---- client level (Conc/ClientConn.v): AsyncTCPNetworkClient's connector/scope logic around the race.
   [kexec c (kinit c) tr = Some s]: any sequence of wait_connected() calls, race steps, aclose() and task.cancel(). *)

(* when no wait_connected() call is in progress, the only socket of the race that can still be open is the one owned
   by the endpoint of a connected client; in particular a failed or cancelled connect leaks nothing *)
Theorem client_quiescent_sockets : forall c tr s,
  NoDup (map a_id (c_addrs c)) -> c_addrs c <> [] -> kexec c (kinit c) tr = Some s ->
  (k_w s = WIdle \/ k_w s = WNew) ->
  match k_endpoint s with
  | Some id => kopen s = (if k_sock_closed s then [] else [id])
  | None => kopen s = []
  end.
Proof.
  intros c tr s Hd Hne H Hw.
  apply (quiescent_open c s (kexec_inv c Hd Hne tr (kinit c) s (kinit_inv c) H)).
  destruct Hw as [-> | ->]; simpl; tauto.
Qed.
Print Assumptions client_quiescent_sockets.

(* after aclose(), at quiescence, no socket created by the race is open -- whenever aclose() ran: before the connect,
   while the race or the wrapping of its socket was in flight, or on a connected client *)
Theorem client_close_leaves_no_socket : forall c tr s,
  NoDup (map a_id (c_addrs c)) -> c_addrs c <> [] -> kexec c (kinit c) tr = Some s ->
  (k_w s = WIdle \/ k_w s = WNew) -> k_aclosed s = true -> kopen s = [].
Proof.
  intros c tr s Hd Hne H Hw Ha.
  apply (closed_client_no_socket c s (kexec_inv c Hd Hne tr (kinit c) s (kinit_inv c) H)); [|exact Ha].
  destruct Hw as [-> | ->]; simpl; tauto.
Qed.
Print Assumptions client_close_leaves_no_socket.

(* no wait_connected() call that ends after aclose() has run reports success *)
Theorem closed_client_never_connects : forall c tr s o,
  NoDup (map a_id (c_addrs c)) -> c_addrs c <> [] -> kexec c (kinit c) tr = Some s ->
  In (o, true) (k_outs s) -> o <> WOk.
Proof.
  intros c tr s o Hd Hne H. apply (ki_ok c s (kexec_inv c Hd Hne tr (kinit c) s (kinit_inv c) H)).
Qed.
Print Assumptions closed_client_never_connects.

(* and a wait_connected() started on a closed client reports ClientClosedError at its first step, opening nothing *)
Theorem closed_client_reports_closed : forall c tr s s',
  NoDup (map a_id (c_addrs c)) -> c_addrs c <> [] -> kexec c (kinit c) tr = Some s ->
  k_aclosed s = true -> k_w s = WNew -> k_task_cancel s = false -> kstep c s KBegin = Some s' ->
  k_w s' = WIdle /\ k_outs s' = k_outs s ++ [(WClosed, true)] /\ kopen s' = kopen s.
Proof.
  intros c tr s s' Hd Hne H. apply (closed_then_wait c s s' (kexec_inv c Hd Hne tr (kinit c) s (kinit_inv c) H)).
Qed.
Print Assumptions closed_client_reports_closed.

(* non-vacuity: a double success ends with exactly the winner's socket open; an all-failed race reports its errors *)
Example ex_double_success :
  let c := {| c_addrs := [ {| a_id := 0; a_fam := AF_INET6; a_create := true; a_conn := CkSuspend |};
                           {| a_id := 1; a_fam := AF_INET; a_create := true; a_conn := CkSuspend |} ];
              c_locals := None; c_delay := true |} in
  option_map (fun s => (r_open s, r_result s))
    (exec c (init c) [LHostStart; LChildStart 0; LHostNext true; LChildStart 1; LConnOk 1; LConnOk 0; LHostCancel;
                      LHostFinish true]) = Some ([1], Some (ResSock 1)).
Proof. vm_compute. reflexivity. Qed.
Example ex_all_failed :
  let c := {| c_addrs := [ {| a_id := 0; a_fam := AF_INET6; a_create := true; a_conn := CkSuspend |};
                           {| a_id := 1; a_fam := AF_INET; a_create := false; a_conn := CkSuspend |} ];
              c_locals := None; c_delay := false |} in
  option_map (fun s => (r_open s, r_result s))
    (exec c (init c) [LHostStart; LChildStart 0; LConnFail 0; LHostNext false; LChildStart 1; LHostNext false;
                      LHostFinish false]) = Some ([], Some (ResErrs 2)).
Proof. vm_compute. reflexivity. Qed.
Example ex_cancel_after_win :
  let c := {| c_addrs := [ {| a_id := 0; a_fam := AF_INET6; a_create := true; a_conn := CkSuspend |} ];
              c_locals := None; c_delay := true |} in
  option_map (fun s => (r_open s, r_result s))
    (exec c (init c) [LHostStart; LChildStart 0; LCancelCaller; LConnOk 0; LHostCancel; LHostFinish false])
  = Some ([], Some ResCancelled).
Proof. vm_compute. reflexivity. Qed.
Example ex_close_in_flight :
  let c := {| c_addrs := [ {| a_id := 0; a_fam := AF_INET6; a_create := true; a_conn := CkSuspend |};
                           {| a_id := 1; a_fam := AF_INET; a_create := true; a_conn := CkSuspend |} ];
              c_locals := None; c_delay := true |} in
  option_map (fun s => (kopen s, k_outs s, k_connector s))
    (kexec c (kinit c) [KWait; KBegin; KRace LHostStart; KRace (LChildStart 0); KRace (LHostNext true);
                        KRace (LChildStart 1); KAclose; KRace LHostCancel; KRace (LConnCancel 0); KRace (LConnCancel 1);
                        KRace (LHostFinish false); KRaceDone true])
  = Some ([], [(WClosed, true)], false).
Proof. vm_compute. reflexivity. Qed.
