(* C19 -- connection racing returns one socket and leaks none: theorem statements (proofs in Proofs/C19_*.v). *)
From Coq Require Import ZArith List Bool Arith Lia Permutation.
Import ListNotations.
From EN Require Import Gen.ParamsC19 Conc.ConnRace Proofs.C19_reorder.

(* _prioritize_ipv6_over_ipv4 returns the same multiset of addresses *)
Theorem prioritize_perm : forall l : list acfg, Permutation (prioritize l) l.
Proof. exact prioritize_perm_l. Qed.
Print Assumptions prioritize_perm.
