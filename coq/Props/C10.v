(* C10 — cancelling or timing out a receive never loses data.  Statements only; proofs in Proofs/C10_*.v *)
From EN Require Import Lib.Bytes Conc.SockReader Proofs.C10_refute.

(* F4 (defect of the unchanged tree): recv_into(8); read event "hello"; task.cancel(); next iteration; wake-up
   (CancelledError); read event " world"; recv(64) returns " world" -- "hello" is gone, no error is reported. *)
Theorem no_loss_refuted :
  exists ls, let '(s, os) := exec false init ls in
             lost_exc s = None /\ delivered s = hello ++ world /\ received os = world /\ parked s = [] /\ tpc s = PIdle.
Proof. exact no_loss_refuted_proof. Qed.
Print Assumptions no_loss_refuted.
