(* C10 -- cancelling or timing out a receive never loses data.  Statements only; proofs in Proofs/C10_*.v.
   Model: Conc/SockReader.v (StreamReaderBufferedProtocol + the asyncio wake-up rule + explicit ready queue);
   [step false] is the code as it is in /repo, [step true] the code with meta/fixes/C10_F4.diff applied.
   Vocabulary (Conc/SockReaderSpec.v):  parked s = extdata s ++ ibuf s  (bytes in the caller's buffer awaiting the
   wake-up, then the protocol's buffer);  received os / accepted ls os = the bytes of all receives that returned /
   of all read events, read off the observations. *)
From EN Require Import Lib.Bytes
                       Frame.Framer Frame.ReadUntil Frame.BufReadUntil Stream.Consumer Stream.SpecDecode Stream.Endpoint Stream.EndpointSpec
                       Conc.SockReader Conc.SockReaderSpec Conc.BlockRecv Conc.SockEndpoint Conc.SockFlow Conc.SockTls
                       Proofs.C10_refute Proofs.C10_inv Proofs.C10_obs Proofs.C10_queue Proofs.C10_blocking
                       Proofs.C10_endpoint Proofs.C10_endpoint_inst Proofs.C10_reexport Proofs.C10_flow Proofs.C10_tls.

(* F4 (defect of the unchanged tree): recv_into(8); read event "hello"; task.cancel(); next iteration; wake-up
   (CancelledError); read event " world"; recv(64) returns " world" -- "hello" is gone, no error is reported. *)
Theorem no_loss_refuted :
  exists ls, let '(s, os) := exec false init ls in
             lost_exc s = None /\ delivered s = hello ++ world /\ received os = world /\ parked s = [] /\ tpc s = PIdle.
Proof. exact no_loss_refuted_proof. Qed.
Print Assumptions no_loss_refuted.

(* the same with the cancellation requested before the read event of the same iteration *)
Theorem no_loss_refuted_cancel_first :
  exists ls, let '(s, os) := exec false init ls in
             lost_exc s = None /\ delivered s = hello ++ world /\ received os = world /\ parked s = [] /\ tpc s = PIdle.
Proof. exact no_loss_refuted_cancel_first_proof. Qed.
Print Assumptions no_loss_refuted_cancel_first.

(* The history fields are not free ghost state: they are what the observations say. *)
Theorem ghosts_are_observations : forall fixed ls,
  returned (run_labels fixed ls) = received (snd (exec fixed init ls)) /\
  delivered (run_labels fixed ls) = accepted ls (snd (exec fixed init ls)).
Proof. exact ghosts_are_observations_proof. Qed.
Print Assumptions ghosts_are_observations.

(* no_loss, repaired protocol: after EVERY label sequence (all orders of read events, EOF, connection loss,
   cancellation requests, wake-ups and loop iterations, recv and recv_into), the bytes returned so far followed by the
   bytes still parked are exactly the bytes delivered, in order; the only exception is a tail of the stream dropped by
   connection_lost(), and then the connection error is set (every later receive raises it, see below). *)
Theorem no_loss : forall ls,
  let s := run_labels true ls in
  exists tail, returned s ++ parked s ++ tail = delivered s /\ (tail <> [] -> lost_exc s <> None).
Proof. exact no_loss_fixed_proof. Qed.
Print Assumptions no_loss.

(* no_loss for the code as it is, largest sub-space 1: label sequences in which no step is racy, i.e. no cancellation
   is requested while the caller's buffer holds bytes its task has not been woken up for, and no read event happens
   while a cancelled recv_into has not been woken up yet (cancellation and read event never fall between the same
   suspension and wake-up of a recv_into). *)
Theorem no_loss_race_free : forall ls,
  race_free init ls ->
  let s := run_labels false ls in
  exists tail, returned s ++ parked s ++ tail = delivered s /\ (tail <> [] -> lost_exc s <> None).
Proof. exact no_loss_race_free_proof. Qed.
Print Assumptions no_loss_race_free.

(* no_loss for the code as it is, sub-space 2: the recv() path (no recv_into at all), any order of everything else. *)
Theorem no_loss_recv_path : forall ls,
  forallb (fun l => negb (has_recv_into l)) ls = true ->
  let s := run_labels false ls in
  exists tail, returned s ++ parked s ++ tail = delivered s /\ (tail <> [] -> lost_exc s <> None).
Proof. exact no_loss_recv_path_proof. Qed.
Print Assumptions no_loss_recv_path.

(* a dropped tail is never silent: the error stays set and every receive issued afterwards raises it *)
Theorem error_is_sticky : forall fixed ls s e,
  lost_exc s = Some e -> lost s = true -> lost_exc (fst (exec fixed s ls)) = Some e.
Proof. exact exec_lost_exc_sticky. Qed.
Print Assumptions error_is_sticky.

Theorem error_fails_receives : forall s o e, lost_exc s = Some e -> call s o = (s, ORes (RError e)).
Proof. exact error_fails_receives_proof. Qed.
Print Assumptions error_fails_receives.

(* "later receives deliver exactly the rest of the stream": from every reachable idle state with parked bytes and no
   connection error, a receive of k > 0 bytes (either kind) returns exactly the first k parked bytes at its wake-up in
   the next loop iteration -- together with no_loss, the next bytes of the delivered stream. *)
Theorem later_receive_returns_next_bytes : forall ls k (into : bool),
  let s := run_labels true ls in
  tpc s = PIdle -> lost_exc s = None -> ibuf s <> [] -> k <> 0 ->
  snd (exec true s [if into then LRecvInto k else LRecv k; LTurn; LWake])
  = [ONone; ONone; ORes (RBytes (firstn k (ibuf s)))].
Proof. exact later_receive_returns_next_bytes_fixed_proof. Qed.
Print Assumptions later_receive_returns_next_bytes.

Theorem later_receive_returns_next_bytes_race_free : forall ls k (into : bool),
  race_free init ls ->
  let s := run_labels false ls in
  tpc s = PIdle -> lost_exc s = None -> ibuf s <> [] -> k <> 0 ->
  snd (exec false s [if into then LRecvInto k else LRecv k; LTurn; LWake])
  = [ONone; ONone; ORes (RBytes (firstn k (ibuf s)))].
Proof. exact later_receive_returns_next_bytes_race_free_proof. Qed.
Print Assumptions later_receive_returns_next_bytes_race_free.

(* Endpoint corollary (Conc/SockEndpoint.v: the asynchronous receive loop of AsyncStreamEndpoint ([latching] = true: _eof_reached) / the
   server request receivers ([latching] = false) composed with the repaired protocol).  For ANY consumer [S] (next(None) / size to read / next(bytes)) that
   satisfies the C03/C15 interface [consumer_ok_rel] for a frame-by-frame decoding [spec] (independent of how the bytes
   are cut) and keeps a drained consumer drained when asked for its write buffer, and for EVERY sequence of
   recv_packet() calls, read events, EOF, connection loss, cancellation requests, wake-ups and loop iterations:
   the packets and parse errors handed out so far, in order, are a prefix of spec(everything delivered) -- so whatever
   was cancelled, the j-th event ever received is the j-th frame of the stream; the consumer has been fed exactly the
   bytes the transport returned; and those plus the parked bytes are the delivered stream (tail only with an error). *)
Theorem recv_packet_no_loss :
  forall (P C : Type) (S : smachine P C) (into latching : bool) (spec : bytes -> list (nres P)) (G : bytes -> Prop)
         (R : C -> bytes -> nat -> Prop) (D : C -> bytes -> Prop),
    consumer_ok_rel (to_machine S) spec G R D ->
    (forall c d c1 room, D c d -> sroom S c = Some (c1, room) -> D c1 d) ->
    forall (c0 : C) (ls : list elabel),
      R c0 [] 0 ->
      let es := erun S into latching (einit c0) ls in
      G (delivered (sk es)) ->
      (exists rest, spec (delivered (sk es)) = events es ++ rest) /\
      (einrecv es = false -> R (ec es) (returned (sk es)) (length (events es))) /\
      (exists tail, returned (sk es) ++ parked (sk es) ++ tail = delivered (sk es) /\
                    (tail <> [] -> lost_exc (sk es) <> None)).
Proof. exact (@recv_packet_no_loss_proof). Qed.
Print Assumptions recv_packet_no_loss.

(* closed instance: _DataReceiverImpl x StreamDataConsumer x read_until (AutoSeparated / line serializers), every
   stream whose frames stay within the limit *)
Theorem recv_packet_no_loss_read_until :
  forall (P : Type) (sep : bytes) (limit : nat) (keep_end : bool) (dec : decoder P) (bufsize : nat),
    sep <> [] -> 0 < bufsize ->
    forall (latching : bool) ls,
      let F := ru_framer sep limit keep_end dec in
      let es := erun (copy_smachine F bufsize) false latching (einit (cinit F)) ls in
      safe sep limit (delivered (sk es)) ->
      exists rest, fst (spec_events sep keep_end dec (delivered (sk es))) = events es ++ rest.
Proof. exact recv_packet_no_loss_read_until_proof. Qed.
Print Assumptions recv_packet_no_loss_read_until.

(* The buffer-filling receiver (_BufferedReceiverImpl / _BufferedRequestReceiver over BufferedStreamDataConsumer).  After a
   cancelled recv_into the consumer is left with its write buffer exported; [buffered_consumer_reexport]: on a state with
   nothing pending and no exported view, get_write_buffer() twice gives the same view, next(None) on the exported state
   raises StopIteration and un-exports it, get_write_buffer() then re-exports the same view, and next(None) on the
   un-exported state is a no-op -- for every buffered framer, by computation on Stream/Consumer.v. *)
Theorem buffered_consumer_reexport : forall P (F : bframer P) sizehint (c c1 : bcstate F) room,
  balready c = 0 -> bexported c = None ->
  sroom (buf_smachine F sizehint) c = Some (c1, room) ->
  sroom (buf_smachine F sizehint) c1 = Some (c1, room) /\
  exists c2, sdrain (buf_smachine F sizehint) c1 = (c2, RStop) /\
             sroom (buf_smachine F sizehint) c2 = Some (c1, room) /\
             sdrain (buf_smachine F sizehint) c2 = (c2, RStop).
Proof. exact buf_reexport. Qed.
Print Assumptions buffered_consumer_reexport.

(* hence the endpoint corollary for the buffer-filling receiver over ANY buffered framer whose consumer satisfies the
   C03 interface with drained states that have nothing pending and no exported view (C03's bru_D is of that form: closed instance below) *)
Theorem recv_packet_no_loss_buffered :
  forall P (F : bframer P) sizehint (spec : bytes -> list (nres P)) (G : bytes -> Prop)
         (R : bcstate F -> bytes -> nat -> Prop) (D : bcstate F -> bytes -> Prop),
    consumer_ok_rel (buf_machine F sizehint) spec G R D ->
    (forall c d, D c d -> balready c = 0 /\ bexported c = None) ->
    forall (latching : bool) c0 ls,
      R c0 [] 0 ->
      let es := erun (buf_smachine F sizehint) true latching (einit c0) ls in
      G (delivered (sk es)) ->
      (exists rest, spec (delivered (sk es)) = events es ++ rest) /\
      (exists tail, returned (sk es) ++ parked (sk es) ++ tail = delivered (sk es) /\
                    (tail <> [] -> lost_exc (sk es) <> None)).
Proof. exact recv_packet_no_loss_buffered_proof. Qed.
Print Assumptions recv_packet_no_loss_buffered.

(* closed instance: _BufferedReceiverImpl / _BufferedRequestReceiver x BufferedStreamDataConsumer x _buffered_readuntil,
   every stream whose frames stay within the generator's own limit (payload + separator <= limit - 1) *)
Theorem recv_packet_no_loss_buffered_read_until :
  forall (P : Type) (sep : bytes) (limit : nat) (keep_end : bool) (dec : decoder P) (sizehint : nat),
    sep <> [] -> length sep + 1 <= limit ->
    forall (latching : bool) ls,
      let F := bru_framer sep limit keep_end dec in
      let es := erun (buf_smachine F sizehint) true latching (einit (bcinit F)) ls in
      safe sep (limit - 1 - length sep) (delivered (sk es)) ->
      exists rest, fst (spec_events sep keep_end dec (delivered (sk es))) = events es ++ rest.
Proof. exact recv_packet_no_loss_buffered_read_until_proof. Qed.
Print Assumptions recv_packet_no_loss_buffered_read_until.

(* nothing stays stuck in the consumer: a complete frame among the bytes the transport has already returned comes out of
   the very next recv_packet() / receiver.next() call, however many earlier calls were cancelled (generic form) *)
Theorem pending_event_is_delivered :
  forall (P C : Type) (S : smachine P C) (into latching : bool) (spec : bytes -> list (nres P)) (G : bytes -> Prop)
         (R : C -> bytes -> nat -> Prop) (D : C -> bytes -> Prop),
    consumer_ok_rel (to_machine S) spec G R D ->
    (forall c d c1 room, D c d -> sroom S c = Some (c1, room) -> D c1 d) ->
    forall (c0 : C) (ls : list elabel),
      R c0 [] 0 ->
      let es := erun S into latching (einit c0) ls in
      G (delivered (sk es)) ->
      einrecv es = false ->
      forall r, nth_error (spec (returned (sk es))) (length (events es)) = Some r ->
        events (estep S into latching es ERecvPacket) = events es ++ [r].
Proof. exact (@pending_event_is_delivered_proof). Qed.
Print Assumptions pending_event_is_delivered.

(* The server request receivers (no EOF latch).  A request handler's `yield timeout` is backend.timeout(timeout) around
   receiver.next(): a cancellation request of the LTS, at any moment.  Closed instances: whatever was cancelled (timed
   out), the requests handed to the handler are a prefix of the frame-by-frame decoding of the delivered stream, and a
   complete request already returned by the transport is handed out by the very next next() call. *)
Theorem request_receiver_timeout_loses_no_request :
  forall (P : Type) (sep : bytes) (limit : nat) (keep_end : bool) (dec : decoder P) (bufsize : nat),
    sep <> [] -> 0 < bufsize ->
    forall ls,
      let F := ru_framer sep limit keep_end dec in
      let es := erun (copy_smachine F bufsize) false false (einit (cinit F)) ls in
      safe sep limit (delivered (sk es)) ->
      (exists rest, fst (spec_events sep keep_end dec (delivered (sk es))) = events es ++ rest) /\
      (einrecv es = false ->
       forall r, nth_error (fst (spec_events sep keep_end dec (returned (sk es)))) (length (events es)) = Some r ->
         events (estep (copy_smachine F bufsize) false false es ERecvPacket) = events es ++ [r]).
Proof. exact request_receiver_no_loss_proof. Qed.
Print Assumptions request_receiver_timeout_loses_no_request.

Theorem buffered_request_receiver_timeout_loses_no_request :
  forall (P : Type) (sep : bytes) (limit : nat) (keep_end : bool) (dec : decoder P) (sizehint : nat),
    sep <> [] -> length sep + 1 <= limit ->
    forall ls,
      let F := bru_framer sep limit keep_end dec in
      let es := erun (buf_smachine F sizehint) true false (einit (bcinit F)) ls in
      safe sep (limit - 1 - length sep) (delivered (sk es)) ->
      (exists rest, fst (spec_events sep keep_end dec (delivered (sk es))) = events es ++ rest) /\
      (einrecv es = false ->
       forall r, nth_error (fst (spec_events sep keep_end dec (returned (sk es)))) (length (events es)) = Some r ->
         events (estep (buf_smachine F sizehint) true false es ERecvPacket) = events es ++ [r]).
Proof. exact buffered_request_receiver_no_loss_proof. Qed.
Print Assumptions buffered_request_receiver_timeout_loses_no_request.

(* non-vacuity: a recv_packet cancelled in the iteration of its read event, then the packet comes out *)
Example endpoint_cancel_example :
  events (erun (copy_smachine (ru_framer [10%N] 8 false (fun b => Some b)) 4) false true
               (einit (cinit (ru_framer [10%N] 8 false (fun b => Some b))))
               [ERecvPacket; ESock (LData [97; 98]%N); ESock LCancel; ESock LTurn; ESock LWake;
                ESock (LData [10; 99; 10]%N); ERecvPacket; ESock LTurn; ESock LWake])
  = [RPkt [97; 98]%N].
Proof. vm_compute. reflexivity. Qed.

(* TLS layer (Conc/SockTls.v: the retry loop of AsyncTLSStreamTransport.recv / recv_into / the handshake over the
   repaired protocol, as the code is now: one await, transport.recv_into; no checkpoint between SSLObject.read() and the
   return).  For ANY SSL object (abstract state machine: read / BIO write / BIO eof) and every sequence of recv calls,
   read events, EOF, connection loss, cancellation requests, wake-ups and loop iterations: every ciphertext byte the
   protocol returned has been written into the read BIO, every plaintext byte SSLObject.read() gave out has been returned
   to a caller, and underneath nothing the loop delivered is lost -- a cancelled TLS receive loses nothing. *)
Theorem tls_recv_no_loss :
  forall (S : Type) (ssl_read : S -> nat -> S * sslans) (bio_write : S -> bytes -> S) (bio_eof : S -> S) (rbuf : nat)
         (ssl : S) (ls : list tlabel),
    let ts := trun ssl_read bio_write bio_eof rbuf (tinit ssl) ls in
    tfed ts = returned (tk ts) /\
    plain_out ts = ttaken ts /\
    (exists tail, returned (tk ts) ++ parked (tk ts) ++ tail = delivered (tk ts) /\
                  (tail <> [] -> lost_exc (tk ts) <> None)).
Proof. exact (@tls_recv_no_loss_proof). Qed.
Print Assumptions tls_recv_no_loss.

(* with a record decoder: if the SSL object implements a monotone decoding [plain_of] of the ciphertext fed to it (invariant
   I ssl fed taken: what read() has given out so far is a prefix of plain_of fed), then whatever was cancelled, the
   plaintext the callers got is a prefix of the decoding of everything the loop delivered *)
Theorem tls_plaintext_prefix :
  forall (S : Type) (ssl_read : S -> nat -> S * sslans) (bio_write : S -> bytes -> S) (bio_eof : S -> S) (rbuf : nat)
         (plain_of : bytes -> bytes) (I : S -> bytes -> bytes -> Prop),
    (forall f x, exists y, plain_of (f ++ x) = plain_of f ++ y) ->
    (forall s f t d, I s f t -> I (bio_write s d) (f ++ d) t) ->
    (forall s f t, I s f t -> I (bio_eof s) f t) ->
    (forall s f t n s' a, I s f t -> ssl_read s n = (s', a) ->
        match a with SOk p => I s' f (t ++ p) | _ => I s' f t end) ->
    (forall s f t, I s f t -> exists rest, plain_of f = t ++ rest) ->
    forall ssl ls, I ssl [] [] ->
      let ts := trun ssl_read bio_write bio_eof rbuf (tinit ssl) ls in
      exists rest, plain_of (delivered (tk ts)) = plain_out ts ++ rest.
Proof. exact (@tls_plaintext_prefix_proof). Qed.
Print Assumptions tls_plaintext_prefix.

(* the hypotheses are satisfiable: the identity record layer *)
Example tls_identity_layer : forall rbuf ls,
  let ts := trun id_read id_write id_eof rbuf (tinit ([], false)) ls in
  exists rest, delivered (tk ts) = plain_out ts ++ rest.
Proof. exact identity_layer_prefix. Qed.

(* Read flow control (Conc/SockFlow.v: finite buffer that the fix may grow, pause_reading() at the high-water mark,
   resume_reading() at the low-water mark, a paused transport delivers nothing), for any marks low < high <= max_size and
   every label sequence: nothing is lost under flow control either ... *)
Theorem flow_no_loss : forall (p : fparams), flo p < fhigh p -> fhigh p <= fmax p ->
  forall ls,
    let s := fs (frun true p ls) in
    exists tail, returned s ++ parked s ++ tail = delivered s /\ (tail <> [] -> lost_exc s <> None).
Proof. exact flow_no_loss_proof. Qed.
Print Assumptions flow_no_loss.

(* ... and while the connection is up: a transport that is not paused always finds room (get_buffer() is never empty:
   fill < len(buffer)); an empty buffer is never paused (the `assert not self.__read_paused` of the slow path of
   _wait_for_data holds, and a reader waiting for data is never starved by a forgotten pause); paused implies more than
   the low-water mark is parked, not paused implies less than the high-water mark. *)
Theorem flow_bounds : forall (p : fparams), flo p < fhigh p -> fhigh p <= fmax p ->
  forall ls,
    let f := frun true p ls in
    lost (fs f) = false ->
    (fpaused f = false -> length (ibuf (fs f)) < fcap f) /\
    (ibuf (fs f) = [] -> fpaused f = false) /\
    (fpaused f = true -> flo p < length (ibuf (fs f))) /\
    (fpaused f = false -> length (ibuf (fs f)) < fhigh p).
Proof. exact flow_bounds_proof. Qed.
Print Assumptions flow_bounds.

(* flow_no_deadlock: there is no reachable state in which data is available to nobody.  While the connection is up, a
   fill level at or below the low-water mark is never paused; a paused transport has bytes parked for the application;
   and when the application (idle reader) takes them with one receive that brings the fill level down to the low-water
   mark, the transport has been resumed when that receive returns. *)
Theorem flow_no_deadlock : forall (p : fparams), flo p < fhigh p -> fhigh p <= fmax p ->
  forall ls,
    let f := frun true p ls in
    lost (fs f) = false ->
    (length (ibuf (fs f)) <= flo p -> fpaused f = false) /\
    (fpaused f = true -> ibuf (fs f) <> []) /\
    (fpaused f = true -> tpc (fs f) = PIdle ->
     forall k (into : bool), k <> 0 -> length (ibuf (fs f)) - k <= flo p ->
       fpaused (fst (fexec true p f [if into then LRecvInto k else LRecv k; LTurn; LWake])) = false).
Proof. exact flow_no_deadlock_proof. Qed.
Print Assumptions flow_no_deadlock.

(* non-vacuity: with max 8 / high 6 / low 2, six parked bytes pause the transport and reading five of them resumes it *)
Example flow_pause_resume_example :
  map snd (snd (fexec true {| fmax := 8; fhigh := 6; flo := 2 |} (finit {| fmax := 8; fhigh := 6; flo := 2 |})
                      [LData [1;2;3;4;5;6]%N; LRecv 5; LTurn; LWake]))
  = [true; true; true; false].
Proof. vm_compute. reflexivity. Qed.

(* Blocking half (lowlevel/api_sync/endpoints/stream.py, Conc/BlockRecv.v).  For ANY consumer whose next(None) after a
   StopIteration is a no-op StopIteration, any transport behaviour [evs] and any kind of timeout (TimeoutError from the
   transport, or the short-read break with timeout 0): if a receive call ends with TimeoutError, then the events it
   consumed are a prefix of the oracle, the end-of-stream latch is untouched, and every later call sees exactly what a
   patient call (never timing out) would have seen had the consumed chunks still been in the transport: the result,
   the consumer state and the remaining events are equal.  Nothing the transport delivered is lost or reordered. *)
Theorem timeout_loses_nothing :
  forall (C R : Type) (next : C -> option bytes -> C * option R) (bufsize : nat),
  (forall c x c', next c x = (c', None) -> next c' None = (c', None)) ->
  forall tz c evs c1 e1 evs1,
    breceive next bufsize tz c false evs = (c1, e1, evs1, BTimedOut) ->
    exists consumed,
      evs = consumed ++ evs1 /\ e1 = false /\
      breceive next bufsize false c false (patient (bdata_of consumed) ++ evs1)
      = breceive next bufsize false c1 false evs1.
Proof. exact (@timeout_loses_nothing_proof). Qed.
Print Assumptions timeout_loses_nothing.

(* ... unconditionally for the copying StreamDataConsumer (Stream/Consumer.cnext) over any framer *)
Theorem timeout_loses_nothing_copying : forall P (F : framer P) bufsize tz c evs c1 e1 evs1,
  breceive (cnext_opt F) bufsize tz c false evs = (c1, e1, evs1, BTimedOut) ->
  exists consumed,
    evs = consumed ++ evs1 /\ e1 = false /\
    breceive (cnext_opt F) bufsize false c false (patient (bdata_of consumed) ++ evs1)
    = breceive (cnext_opt F) bufsize false c1 false evs1.
Proof. exact timeout_loses_nothing_copying_proof. Qed.
Print Assumptions timeout_loses_nothing_copying.

(* The buffer-filling blocking receiver (_BufferedReceiverImpl.receive, Conc/BlockRecv.v bloopb/breceiveb): the
   TimeoutError is raised while the consumer's write buffer is exported.  Generic form: for any consumer given by
   next(None) / get_write_buffer() / next(n) and predicates Dr ("drained") and Iv ("a call may start here") such that
   a StopIteration leaves a drained state, next(None) on a drained state is a no-op, next(None) on the exported state
   un-exports it into a drained state that re-exports the same view, the conclusion of timeout_loses_nothing holds. *)
Theorem timeout_loses_nothing_buffered :
  forall (C R : Type) (bdrain : C -> C * option R) (broom : C -> option (C * nat)) (bfeedn : C -> bytes -> C * option R)
         (Dr Iv : C -> Prop),
    (forall c c', Iv c -> bdrain c = (c', None) -> Dr c') ->
    (forall c, Dr c -> bdrain c = (c, None)) ->
    (forall c c1 room, Dr c -> broom c = Some (c1, room) ->
        exists c2, bdrain c1 = (c2, None) /\ Dr c2 /\ broom c2 = Some (c1, room)) ->
    (forall c c1 room d c', Dr c -> broom c = Some (c1, room) -> bfeedn c1 d = (c', None) -> Dr c') ->
    forall tz c evs c1 e1 evs1,
      Iv c ->
      breceiveb bdrain broom bfeedn tz c false evs = (c1, e1, evs1, BTimedOut) ->
      exists consumed,
        evs = consumed ++ evs1 /\ e1 = false /\
        breceiveb bdrain broom bfeedn false c false (patient (bdata_of consumed) ++ evs1)
        = breceiveb bdrain broom bfeedn false c1 false evs1.
Proof. exact (@timeout_loses_nothing_buffered_proof). Qed.
Print Assumptions timeout_loses_nothing_buffered.

(* ... unconditionally for BufferedStreamDataConsumer (Stream/Consumer.v: bcnext / bc_get_write_buffer / bc_fill) over
   ANY buffered framer; the side condition on the starting state (a consumer without a running generator has nothing
   pending and no exported view) holds initially and after every call *)
Theorem timeout_loses_nothing_buffered_consumer :
  forall P (F : bframer P) h tz (c : bcstate F) evs c1 e1 evs1,
    (bcons c = None -> balready c = 0 /\ bexported c = None) ->
    breceiveb (bufc_drain F h) (bufc_room F h) (bufc_feed F h) tz c false evs = (c1, e1, evs1, BTimedOut) ->
    exists consumed,
      evs = consumed ++ evs1 /\ e1 = false /\
      breceiveb (bufc_drain F h) (bufc_room F h) (bufc_feed F h) false c false (patient (bdata_of consumed) ++ evs1)
      = breceiveb (bufc_drain F h) (bufc_room F h) (bufc_feed F h) false c1 false evs1.
Proof. exact timeout_loses_nothing_buffered_consumer_proof. Qed.
Print Assumptions timeout_loses_nothing_buffered_consumer.

(* non-vacuity of the blocking theorem: a call that times out after consuming a chunk exists *)
Example blocking_timeout_example :
  breceive (fx_next 2) 4 false [] false [BData [1%N] false; BTimeout; BData [2%N] false]
  = ([1%N], false, [BData [2%N] false], BTimedOut).
Proof. reflexivity. Qed.

(* non-vacuity: race-free sequences exist that contain recv_into, a cancellation and data *)
Example race_free_example :
  race_free init [LRecvInto 4; LCancel; LTurn; LWake; LData hello; LRecvInto 4; LData world; LTurn; LWake].
Proof. vm_compute. repeat split. Qed.
(* the F4 witness is exactly not race-free *)
Example witness_is_racy : ~ race_free init witness_data_cancel.
Proof. vm_compute. intros (_ & _ & H & _). discriminate. Qed.
