(* C04 — theorems (statements in full; proofs in Proofs/C04_*.v). *)
From Coq Require Import ZArith List Bool Lia Arith.
From EN Require Import Lib.Bytes IO.Retry IO.SendAll IO.SendMsg IO.TlsWrite Proofs.C04_adjust.
Import ListNotations.

(* adjust_leftover_buffer(buffers, n): afterwards the deque represents the unsent suffix, and a deque of non-empty
   views stays free of empty views. *)
Theorem adjust_leftover_spec : forall (bufs : list bytes) (n : nat),
  (n <= length (concat bufs))%nat ->
  concat (adjust_leftover bufs n) = skipn n (concat bufs)
  /\ (Forall (fun b => b <> []) bufs -> Forall (fun b => b <> []) (adjust_leftover bufs n)).
Proof. exact adjust_leftover_spec_proof. Qed.
Print Assumptions adjust_leftover_spec.
