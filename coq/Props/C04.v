(* C04 — theorems (statements in full; proofs in Proofs/C04_*.v).
   Models: IO/Retry.v (_retry), IO/SendAll.v (send, send_all, default send_all_from_iterable),
           IO/SendMsg.v (SocketStreamTransport.send_all_from_iterable, adjust_leftover_buffer), IO/TlsWrite.v.
   Everything is quantified over all data / chunk lists (empty chunks anywhere), all scripted socket answers
   (partial writes, accept-0, EAGAIN/EINTR, errors, call costs), all selector answers, all timeouts and retry
   intervals.  `sk_wire` is the sequence of bytes the socket accepted, in order. *)
From Coq Require Import ZArith List Bool Lia Arith.
From EN Require Import Conc.FlowControl.
From EN Require Import Lib.Sx.
From EN Require Import Lib.Bytes IO.Retry IO.SendAll IO.SendMsg IO.TlsWrite IO.ClientLocks IO.AsyncAdapter Proofs.C04_adjust Proofs.C04_send Proofs.C11_locks Proofs.C04_async IO.Payload Proofs.C04_payload.
Import ListNotations.

(* adjust_leftover_buffer(buffers, n): afterwards the deque represents the unsent suffix, and a deque of non-empty
   views stays free of empty views. *)
Theorem adjust_leftover_spec : forall (bufs : list bytes) (n : nat),
  (n <= length (concat bufs))%nat ->
  concat (adjust_leftover bufs n) = skipn n (concat bufs)
  /\ (Forall (fun b => b <> []) bufs -> Forall (fun b => b <> []) (adjust_leftover bufs n)).
Proof. exact adjust_leftover_spec_proof. Qed.
Print Assumptions adjust_leftover_spec.

(* send_all(data, T): whatever happens, the socket has accepted a prefix of `data` after what was on the wire
   before (nothing duplicated, nothing reordered); if send_all returns, it has accepted exactly `data`. *)
Theorem send_all_exact :
  forall (F : nat) (ri : tmo) (fuel : nat) (data : bytes) (T : tmo) (s : sock) (sels : list selans),
    let r := send_all F ri fuel data T s sels in
    exists sent : bytes,
      sk_wire (sr_sock r) = sk_wire s ++ sent
      /\ (exists rest, data = sent ++ rest)
      /\ (sr_out r = SOk -> sent = data).
Proof. exact send_all_exact_proof. Qed.
Print Assumptions send_all_exact.

(* SocketStreamTransport.send_all_from_iterable(chunks, T) on every path (sendmsg loop with any SC_IOV_MAX, join
   path without sendmsg or with SC_IOV_MAX <= 0), repaired or not: a prefix of concat chunks on failure, exactly
   concat chunks on return. *)
Theorem sendmsg_exact :
  forall (drop_empty has_sendmsg : bool) (iov : Z) (F fuel : nat) (ri : tmo) (chunks : list bytes) (T : tmo)
         (s : sock) (sels : list selans),
    let r := send_iter drop_empty has_sendmsg iov F fuel ri chunks T s sels in
    exists sent : bytes,
      sk_wire (sr_sock r) = sk_wire s ++ sent
      /\ (exists rest, concat chunks = sent ++ rest)
      /\ (sr_out r = SOk -> sent = concat chunks).
Proof. exact send_iter_exact_proof. Qed.
Print Assumptions sendmsg_exact.

(* send_all terminates: more fuel than scripted answers is enough, whatever the answers, selector and timeout. *)
Theorem send_all_terminates :
  forall (F : nat) (ri : tmo) (fuel : nat) (data : bytes) (T : tmo) (s : sock) (sels : list selans),
    (length (sk_script s) < F)%nat -> (length (sk_script s) < fuel)%nat ->
    sr_out (send_all F ri fuel data T s sels) <> SFuel.
Proof. exact send_all_terminates_proof. Qed.
Print Assumptions send_all_terminates.

(* send_terminates (repaired send_all_from_iterable, i.e. empty views dropped when the deque is built): for ALL
   chunk lists, including empty chunks anywhere, the call finishes within
   total_bytes + #scripted answers + #chunks + 1 iterations / socket calls per _retry -- the bound the harness
   enforces on the real code. *)
Theorem send_terminates :
  forall (has_sendmsg : bool) (iov : Z) (ri : tmo) (chunks : list bytes) (T : tmo) (script : list sockans)
         (sels : list selans),
    let F := (length (concat chunks) + length script + length chunks + 1)%nat in
    sr_out (send_iter true has_sendmsg iov F F ri chunks T (mk_sock script []) sels) <> SFuel.
Proof. exact send_iter_terminates_proof. Qed.
Print Assumptions send_terminates.

(* no_spin: in the repaired loop (no empty view in the deque) every iteration that does not end the call strictly
   decreases (remaining bytes, remaining scripted answers) lexicographically. *)
Theorem no_spin :
  forall (F : nat) (ri : tmo) (iov : nat) (bufs : list bytes) (T : tmo) (s : sock) (sels : list selans)
         (sent : nat) (T1 : tmo),
    (0 < iov)%nat -> Forall (fun b => b <> []) bufs -> bufs <> [] ->
    rr_out (retry (sock_sendmsg iov bufs) F ri T s sels) = ROk sent T1 ->
    (0 < sent)%nat
    \/ (length (sk_script (rr_st (retry (sock_sendmsg iov bufs) F ri T s sels))) < length (sk_script s))%nat.
Proof. exact sendmsg_iteration_progress. Qed.
Print Assumptions no_spin.

(* Termination of the sendmsg loop itself for any deque of non-empty views. *)
Theorem sendmsg_loop_terminates_nonempty :
  forall (F : nat) (ri : tmo) (iov fuel : nat) (bufs : list bytes) (T : tmo) (s : sock) (sels : list selans),
    (0 < iov)%nat -> Forall (fun b => b <> []) bufs ->
    (length (sk_script s) < F)%nat -> (length (sk_script s) + length bufs <= fuel)%nat ->
    sr_out (sendmsg_loop F ri iov fuel bufs T s sels) <> SFuel.
Proof. exact sendmsg_loop_terminates. Qed.
Print Assumptions sendmsg_loop_terminates_nonempty.

(* F2: the loop of the unchanged tree (empty views kept) does NOT terminate on [b"abc", b""]: for every amount of
   fuel, every retry interval, every valid timeout and every selector script the model is still looping.
   (Replayed on the real code by corpus/C04/f2_trailing_empty_chunk.json.) *)
Theorem sendmsg_terminates_unfixed_refuted :
  exists chunks : list bytes,
    forall (F fuel : nat) (ri T : tmo) (sels : list selans),
      (0 < F)%nat -> (0 < fuel)%nat -> tmo_neg T = false ->
      sr_out (send_iter false true 1024 F fuel ri chunks T (mk_sock [] []) sels) = SFuel.
Proof. exists [[97%N; 98%N; 99%N]; []]. exact sendmsg_unfixed_spins_proof. Qed.
Print Assumptions sendmsg_terminates_unfixed_refuted.

(* Async TLS write backlog (__write_all_to_ssl_object under _retry_ssl_method): exact and terminating, empty
   chunks included. *)
Theorem tls_write_exact :
  forall (fuel : nat) (backlog : list bytes) (s : sock),
    let r := tls_write_loop fuel backlog s in
    exists sent : bytes,
      sk_wire (sr_sock r) = sk_wire s ++ sent
      /\ (exists rest, concat backlog = sent ++ rest)
      /\ (sr_out r = SOk -> sent = concat backlog).
Proof. exact tls_write_loop_exact. Qed.
Print Assumptions tls_write_exact.

Theorem tls_write_terminates :
  forall (fuel : nat) (backlog : list bytes) (s : sock),
    (length (sk_script s) + length backlog <= fuel)%nat ->
    sr_out (tls_write_loop fuel backlog s) <> SFuel.
Proof. exact tls_write_loop_terminates. Qed.
Print Assumptions tls_write_terminates.

(* Which readiness event a would-block waits for.  A plain socket's send()/sendmsg() only reports "would block on
   write" (BlockingIOError / InterruptedError); then EVERY selector wait of send_all / send_all_from_iterable, on every
   path, registers WRITABILITY -- so a peer that reads (and never writes) always wakes the sender up.  (For the SSL
   object the event follows the SSL answer: Props/C11.v ssl_wait_mapping.) *)
Theorem send_waits_for_writability :
  forall (drop_empty has_sendmsg : bool) (iov : Z) (F fuel : nat) (ri : tmo) (chunks : list bytes) (T : tmo)
         (s : sock) (sels : list selans),
    Forall (fun a => match a with SBlock w _ => w = true | _ => True end) (sk_script s) ->
    Forall (fun w => w_write w = true) (sr_waits (send_iter drop_empty has_sendmsg iov F fuel ri chunks T s sels)).
Proof. exact send_iter_write_waits. Qed.
Print Assumptions send_waits_for_writability.

(* A zero (or exhausted) budget means "do not wait", not "cannot complete": if no send()/sendmsg() call ever reports
   would-block, send_all / send_all_from_iterable never raise TimeoutError, whatever the timeout -- 0 included, and also
   when call costs eat the budget between two partial writes. *)
Theorem no_would_block_no_timeout :
  forall (drop_empty has_sendmsg : bool) (iov : Z) (F fuel : nat) (ri : tmo) (chunks : list bytes) (T : tmo)
         (s : sock) (sels : list selans),
    Forall (fun a => match a with SBlock _ _ => False | _ => True end) (sk_script s) ->
    sr_out (send_iter drop_empty has_sendmsg iov F fuel ri chunks T s sels) <> SExc E_TIMEOUT.
Proof. exact send_iter_never_blocks. Qed.
Print Assumptions no_would_block_no_timeout.

(* Client level (TCPNetworkClient / UDPNetworkClient.send_packet behind the send lock, IO/ClientLocks.v): whatever
   the interleaving of calls, grants, give-ups and failing bodies, once every call has ended both locks are free --
   so a later send_packet never burns its budget on a lock nobody holds -- and a send never waits on the receive lock. *)
Theorem client_locks_free_at_quiescence :
  forall s : cst,
    reachable s -> (forall c, In c (cs s) -> exists code, c_ph c = PDone code) ->
    o_send s = None /\ o_recv s = None.
Proof. exact quiescent_locks_free. Qed.
Print Assumptions client_locks_free_at_quiescence.

Theorem send_packet_never_waits_on_recv_lock :
  forall (s : cst) (k : nat) (T : tmo),
    lookup k (cs s) = None -> o_send s = None -> tmo_neg T = false ->
    exists s', step s (Start k MSend T) = Some s'
               /\ lookup k (cs s') = Some (mk_call k MSend PHold) /\ o_recv s' = o_recv s.
Proof. exact send_ignores_recv_lock. Qed.
Print Assumptions send_packet_never_waits_on_recv_lock.

(* The shortcut Run/C04.v takes for very large payloads on the real async TLS transport (no scripted fault): the
   backlog loop returns, and the chunk-wise digest is the digest of what the model puts on the wire. *)
Theorem tls_large_payload_fast_path :
  forall (fuel : nat) (chunks : list bytes),
    (length chunks <= fuel)%nat ->
    sr_out (tls_flush fuel chunks (mk_sock [] [])) = SOk
    /\ digest (sk_wire (sr_sock (tls_flush fuel chunks (mk_sock [] [])))) = digest_chunks chunks.
Proof. exact tls_flush_fast_path. Qed.
Print Assumptions tls_large_payload_fast_path.

(* ---- asyncio side (IO/AsyncAdapter.v: the byte contents carried along the flow-control transition system of
   Conc/FlowControl.v).  For every history of send_all / send_all_from_iterable calls, kernel takes, transport death,
   close, cancellations and wake-ups: *)

(* the bytes the kernel took are a prefix of the bytes handed to the transport (never duplicated, reordered or
   invented); while the transport lives the remainder is exactly its write buffer (nothing lost); and the contents
   have exactly the size the flow-control model counts (so C20's "returns only when flushed" speaks about these bytes). *)
Theorem asyncio_adapter_exact :
  forall (cfg : tcfg) (n : nat) (c : cad),
    creach cfg n c ->
    (exists rest, k_handed c = k_wire c ++ rest)
    /\ (a_dead (k_ad c) = false -> k_handed c = k_wire c ++ k_buf c)
    /\ length (k_buf c) = buf_size (a_buf (k_ad c)).
Proof. exact adapter_exact. Qed.
Print Assumptions asyncio_adapter_exact.

(* what is handed to the transport is the concatenation, in call order, of the data of the sends that found it alive:
   for send_all_from_iterable the whole `concat chunks` of the packet, contiguous, in order, exactly once
   (writelines is one synchronous call; under the client's send lock the calls follow one another). *)
Theorem asyncio_adapter_hands_concat :
  forall (ls : list clabel) (c c' : cad),
    cad_run c ls = Some c' -> k_handed c' = k_handed c ++ handed_of c ls.
Proof. exact handed_is_concat_of_sends. Qed.
Print Assumptions asyncio_adapter_hands_concat.

(* ---- non-vacuity: partial writes, a would-block answered by the selector, an empty chunk in the middle *)
Example send_iter_runs :
  let chunks := [[1%N; 2%N]; []; [3%N; 4%N; 5%N]] in
  let script := [SSent 1 0; SBlock true 0; SSent 2 0] in
  let r := send_iter true true 2 9 9 (Some 1%Z) chunks (Some 8%Z) (mk_sock script []) [{| sa_ready := true; sa_el := 1 |}] in
  sr_out r = SOk /\ sk_wire (sr_sock r) = [1%N; 2%N; 3%N; 4%N; 5%N] /\ length (sr_waits r) = 1%nat.
Proof. vm_compute. repeat split. Qed.

Example send_iter_times_out :
  let r := send_iter true true 2 9 9 None [[1%N; 2%N]] (Some 3%Z) (mk_sock [SSent 1 0; SBlock true 0] [])
                     [{| sa_ready := false; sa_el := 3 |}] in
  sr_out r = SExc E_TIMEOUT /\ sk_wire (sr_sock r) = [1%N].
Proof. vm_compute. split; reflexivity. Qed.

Example adapter_two_sends :
  match cad_run (cad_init (mkCfg 0%nat 0%nat true) 2%nat)
                [CSendIter 0%nat [[1%N; 2%N]; []; [3%N]] 1%nat; CSend 1%nat [4%N; 5%N] 9%nat; COther (AReady 4%nat)] with
  | Some c => k_handed c = [1%N; 2%N; 3%N; 4%N; 5%N] /\ k_wire c = k_handed c /\ k_buf c = []
  | None => False
  end.
Proof. vm_compute. repeat split. Qed.
