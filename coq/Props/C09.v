From EN Require Import Lib.Bytes Conc.TlsBase Conc.TlsPump Conc.TlsEof Gen.ParamsC09.
Theorem placeholder_c09 : True. Proof. exact I. Qed.
Print Assumptions placeholder_c09.
