(* C09 — TLS truncation is never reported as a clean end-of-stream.
   Statements only; proofs in Proofs/C09_proofs.v.  The models: Conc/TlsPump.v (the pump), Conc/TlsEof.v (what
   recv / recv_into / aclose / close report, asynchronous and blocking), Conc/IdealTls.v (ideal record layer),
   Gen/ParamsC09.v (except-clause tables regenerated from /repo on every run). *)
From Coq Require Import List Bool.
From EN Require Import Lib.Bytes Conc.TlsBase Conc.TlsPump Conc.TlsEof Conc.IdealTls Gen.ParamsC09 Proofs.C09_proofs.
Import ListNotations.

(* (1) A clean end-of-stream (recv -> b"", recv_into -> 0) is reported only when the pumped ssl_object.read ended
   with b"" / SSLZeroReturnError (the SSL object saw the peer's close notification) or, with standard-compatible mode
   disabled, with an SSL EOF error.  For every final outcome of the pump, both receive methods. *)
Theorem clean_eof_only_after_close_notify : forall std r,
  (recv_result std r = Ret 0 \/ recv_into_result std r = Ret 0) ->
  r = ROk 0 \/ r = RSsl EZeroReturn \/ (std = false /\ (r = RSsl ESslEof \/ r = RSsl ESslEofStr)).
Proof.
  intros std r [H | H].
  - exact (recv_with_clean_eof recv_handlers std r (or_introl eq_refl) H).
  - exact (recv_with_clean_eof recv_into_handlers std r (or_intror eq_refl) H).
Qed.
Print Assumptions clean_eof_only_after_close_notify.

(* (1') ... and the pump does not invent that outcome: for every state of the transport and every answer sequence of
   the SSL object / wrapped transport, a recv() that reports end-of-stream has either seen ssl_object.read return b""
   or consumed an answer of the SSL object that was SSLZeroReturnError (or an SSL EOF error when std = false). *)
Theorem clean_eof_comes_from_the_ssl_object : forall (fl : flags) std n st answers st' ob rest,
  run_op fl std (ORecv n) st answers = (st', ob, rest) ->
  In (ORes (Ret 0)) ob ->
  (exists s' acts, run_method fl MRead n (sh st) answers = (s', ROk 0, acts, rest)) \/
  (exists x, In (AS x) answers /\
             (a_out x = SErr EZeroReturn \/ (std = false /\ (a_out x = SErr ESslEof \/ a_out x = SErr ESslEofStr)))).
Proof. exact recv_eof_from_oracle. Qed.   (* fl: both states of the two C08 fixes, see Conc/TlsPump.v *)
Print Assumptions clean_eof_comes_from_the_ssl_object.

(* (2) Standard-compatible mode: every SSL EOF error (SSLEOFError, or the stringly-typed UNEXPECTED_EOF_WHILE_READING
   SSLError) is re-raised by recv and recv_into — never turned into an end-of-stream. *)
Theorem truncation_is_error : forall e,
  is_ssl_eof_error (XSsl e) = true ->
  recv_result true (RSsl e) = Raise (XR (XSsl e)) /\ recv_into_result true (RSsl e) = Raise (XR (XSsl e)).
Proof. exact truncation_raises. Qed.
Print Assumptions truncation_is_error.

(* (2') blocking transport: suppress_ragged_eofs = not standard_compatible, so with std = true the raw SSLEOFError of
   the C-level read survives ssl.SSLSocket.read, _try_ssl_method and recv_noblock, after any number of would-block
   rounds (WANT_READ / WANT_WRITE / SSLSyscallError). *)
Theorem truncation_is_error_blocking : forall pre rest,
  Forall sync_block pre ->
  exists waits,
    sync_retry true true MRead sync_recv_handlers (pre ++ {| s_meth := MRead; s_out := SErr ESslEof |} :: rest)
    = (waits, Raise (XR (XSsl ESslEof)), rest).
Proof. exact sync_truncation_raises. Qed.
Print Assumptions truncation_is_error_blocking.

(* (3) Standard-compatible mode disabled: an abrupt end is an end-of-stream. *)
Theorem nonstd_abrupt_is_eof : forall e,
  is_ssl_eof_error (XSsl e) = true ->
  recv_result false (RSsl e) = Ret 0 /\ recv_into_result false (RSsl e) = Ret 0.
Proof. exact nonstd_abrupt_eof. Qed.
Print Assumptions nonstd_abrupt_is_eof.

Theorem nonstd_abrupt_is_eof_blocking : forall pre rest,
  Forall sync_block pre ->
  exists waits,
    sync_retry true false MRead sync_recv_handlers (pre ++ {| s_meth := MRead; s_out := SErr ESslEof |} :: rest)
    = (waits, Ret 0, rest).
Proof. exact sync_nonstd_abrupt_eof. Qed.
Print Assumptions nonstd_abrupt_is_eof_blocking.

(* (4) Closing an open transport in standard-compatible mode: whatever the SSL object appended to the outgoing BIO on
   the first unwrap() (in the ideal layer: the close notification, see (4')) is the FIRST thing aclose() does — it is
   handed to the wrapped transport's send_all before anything else, and the wrapped transport is closed afterwards.
   For every later answer sequence (send failure, timeout, cancellation, peer silent ...).  ORes Desync can only occur
   if the answer list is not one the code can consume (e.g. too short); the driver never produces such lists. *)
Theorem close_sends_notify : forall (fl : flags) st a answers st' ob rest,
  closing st = false -> tr_closing st = false -> send_lock (sh st) = false ->
  a_meth a = MUnwrap -> a_arg a = 0 ->
  ((exists v, a_out a = SOk v) \/ a_out a = SWantRead) ->
  wbio (sh st) ++ a_wdelta a <> [] ->
  run_op fl true OClose st (AS a :: answers) = (st', ob, rest) ->
  exists ob', ob = OAct (ASend (wbio (sh st) ++ a_wdelta a)) :: ob' /\
              (In (OAct AClose) ob' \/ In (ORes Desync) ob').
Proof. exact aclose_first_action. Qed.
Print Assumptions close_sends_notify.

(* (4') ideal record layer: the first unwrap() of an established session whose incoming BIO has not hit end-of-file
   appends exactly the close notification and answers Ok or WantRead — the hypotheses of (4). *)
Theorem ideal_unwrap_emits_close_notify : forall (E D : byte -> byte) s,
  i_stage s = 2 -> i_sent_cn s = false -> i_reof s = false ->
  let '(s', o, out) := unwrap E D s in
  out = close_notify E /\ i_sent_cn s' = true /\ (o = SOk 0 \/ o = SWantRead).
Proof. exact unwrap_emits_close_notify. Qed.
Print Assumptions ideal_unwrap_emits_close_notify.

(* (4'') with standard-compatible mode disabled the closing handshake is skipped. *)
Theorem nonstd_close_skips_notify : forall (fl : flags) st answers,
  closing st = false ->
  run_op fl false OClose st answers =
    ({| sh := set_deque (sh st) []; closing := true; tr_closing := true |}, [OAct AClose; ORes (Ret 0)], answers).
Proof. exact nonstd_close_no_unwrap. Qed.
Print Assumptions nonstd_close_skips_notify.

(* (4''') blocking transport: close() of an open standard-compatible transport calls unwrap() first. *)
Theorem close_unwraps_first_blocking : forall raw a answers,
  s_meth a <> MUnwrap ->
  sync_op raw true OClose {| s_closed := false |} (a :: answers)
  = ({| s_closed := true |}, [SAct SDesync; SAct SSockClose; SRes Desync], answers).
Proof. exact sync_close_unwraps_first. Qed.
Print Assumptions close_unwraps_first_blocking.

(* (5) ideal record layer, every cut offset: a reader whose incoming BIO holds the first k bytes of
   (any data records ++ close notification), k < the whole length, followed by end-of-file, never answers read() with
   the clean end-of-stream b"": every answer is SSLEOFError, a non-empty data read, or WantRead (skipped empty record).
   Together with (2) this is "wherever the cut falls".  E/D: any byte map with D (E x) = x. *)
Theorem ideal_truncation_never_clean_eof : forall (E D : byte -> byte),
  (forall x, D (E x) = x) ->
  forall fuel recs k n s,
  n > 0 -> k < length (data_stream E recs) ->
  i_stage s = 2 -> i_got_cn s = false -> i_reof s = true -> i_rbio s = firstn k (data_stream E recs) ->
  ~ In (SOk 0) (drain D fuel s n).
Proof. intros E D DE. exact (drain_truncated_never_clean E D DE). Qed.
Print Assumptions ideal_truncation_never_clean_eof.

(* (6) regenerated tables: both default client contexts clear OP_IGNORE_UNEXPECTED_EOF; the blocking transport asks
   the stdlib to suppress ragged EOFs exactly when standard-compatible mode is disabled. *)
Theorem default_client_contexts_clear_ignore_eof : client_default_ctx_clears_ignore_eof = [true; true].
Proof. reflexivity. Qed.
Print Assumptions default_client_contexts_clear_ignore_eof.

Theorem suppress_ragged_eofs_iff_not_std : forall std, suppress_ragged_eofs std = negb std.
Proof. intros std. reflexivity. Qed.
Print Assumptions suppress_ragged_eofs_iff_not_std.

(* ---- non-vacuity *)
Definition Ex (b : byte) : byte := N.succ b.
Definition Dx (b : byte) : byte := N.pred b.

(* a complete stream ends with the clean end-of-stream, the same stream cut one byte short ends with SSLEOFError *)
Definition ex_reader (k : nat) : ideal :=
  {| i_client := true; i_stage := 2; i_rbio := firstn k (data_stream Ex [[1; 2; 3]; [4]]%N); i_reof := true;
     i_plain := []; i_got_cn := false; i_sent_cn := false |}.
Example ex_complete : drain Dx 9 (ex_reader 10) 2 = [SOk 2; SOk 1; SOk 1; SOk 0].
Proof. vm_compute. reflexivity. Qed.
Example ex_cut : drain Dx 9 (ex_reader 9) 2 = [SOk 2; SOk 1; SOk 1; SErr ESslEof].
Proof. vm_compute. reflexivity. Qed.
Example ex_cut_mid_record : drain Dx 9 (ex_reader 6) 2 = [SOk 2; SOk 1; SErr ESslEof].
Proof. vm_compute. reflexivity. Qed.
(* the hypotheses of close_sends_notify are met by the ideal layer's first unwrap; aclose then sends the notification *)
Example ex_close :
  fst (fst (run_op {| f_recheck := false; f_skiplock := false; f_close_flush := false; f_lazyread := false |} true OClose tstate0
     [AS {| a_meth := MUnwrap; a_arg := 0; a_out := SWantRead; a_wdelta := close_notify Ex |}; AT TSent; AT (TRcvd [])%N;
      AS {| a_meth := MUnwrap; a_arg := 0; a_out := SErr ESslEof; a_wdelta := [] |}]))
  = {| sh := set_feeds shared0 1; closing := true; tr_closing := true |}.
Proof. vm_compute. reflexivity. Qed.
