(* C01 — stream round-trip: packets survive any chunking of the byte stream, on both receive paths.
   Model: coq/Frame/ReadUntil.v, Frame/BufReadUntil.v, Stream/Consumer.v (hand-written from tools.py, base_stream.py,
   line.py, _stream.py; tied to /repo by harness/c01.py).  The inner one-shot codec (enc, dec) is arbitrary. *)
From Coq Require Import List Arith ZArith.
From EN Require Import Lib.Bytes Frame.Framer Frame.ReadUntil Frame.BufReadUntil Stream.Consumer Stream.SpecDecode
  Frame.Serialize Frame.Convert Frame.JsonRaw Frame.JsonGrammar Frame.ErrSites Frame.Generic
  Frame.NtStruct Proofs.NtStruct_proofs Frame.Base64 Proofs.Base64_proofs Proofs.C01_base64 Frame.Stapled Gen.ParamsC01 Proofs.C01_stapled Proofs.C07_extra Proofs.C01_generic Proofs.C01_json Proofs.C01_bufsim Proofs.C01_proofs Proofs.Convert_proofs Proofs.BufConvert_proofs Proofs.Fixed_proofs Proofs.BufFixed_proofs Proofs.Serialize_proofs.
Import ListNotations.

(* Copying consumer (StreamDataConsumer over read_until): for EVERY list of packets valid for the codec, EVERY way of
   cutting the produced byte stream into non-empty chunks, the consumer returns exactly those packets, in order, once,
   and ends holding nothing (empty buffer, no suspended generator). *)
Theorem consumer_roundtrip :
  forall (P : Type) (sep : bytes) (keep_end : bool) (enc : P -> bytes) (dec : decoder P) (limit : nat),
    sep <> [] ->
    forall (pkts : list P) (chunks : list bytes) (fuel : nat),
      Forall (valid_pkt sep keep_end enc dec limit) pkts ->
      Forall (fun ch => ch <> []) chunks ->
      concat chunks = stream sep enc pkts ->
      length (stream sep enc pkts) < fuel ->
      cdeliver (ru_framer sep limit keep_end dec) fuel (cinit _) chunks =
        (@Build_cstate P (ru_framer sep limit keep_end dec) [] None, map RPkt pkts).
Proof. intros P sep keep_end enc dec limit Hne pkts chunks fuel. exact (consumer_roundtrip_l sep keep_end enc dec Hne limit pkts chunks fuel). Qed.
Print Assumptions consumer_roundtrip.

(* Buffer-filling consumer (BufferedStreamDataConsumer over _buffered_readuntil): same statement for every sequence of
   transport deliveries [chunks] (each consumed by as many recv_into rounds as the exported view requires), every
   buffer-size hint, when payload + separator leave one spare byte in the allocated buffer. *)
Theorem bconsumer_roundtrip :
  forall (P : Type) (sep : bytes) (keep_end : bool) (enc : P -> bytes) (dec : decoder P) (limit sizehint : nat),
    sep <> [] -> length sep + 1 <= limit ->
    forall (pkts : list P) (chunks : list bytes) (fuel : nat),
      Forall (valid_pkt sep keep_end enc dec (limit - 1 - length sep)) pkts ->
      concat chunks = stream sep enc pkts ->
      length (stream sep enc pkts) < fuel ->
      exists c', bcdeliver (bru_framer sep limit keep_end dec) sizehint fuel (bcinit _) chunks = (c', map RPkt pkts) /\
                 bcons c' = None /\ balready c' = 0 /\ bexported c' = None.
Proof. intros P sep keep_end enc dec limit sizehint Hne Hl pkts chunks fuel. exact (bconsumer_roundtrip_l sep keep_end enc dec Hne limit sizehint pkts chunks fuel Hl). Qed.
Print Assumptions bconsumer_roundtrip.

(* Protocols with a converter (StreamProtocol(serializer, converter)): the converted packets survive any chunking. For
   every converter pair with from_dto (to_dto p) = Some p on the packets sent and every codec valid for their DTOs, the
   copying consumer over the protocol's generator (serializer generator + create_from_dto_packet) returns exactly the
   packets, in order, once, and ends holding nothing. (General form, any framer: Proofs/Convert_proofs.v cdeliver_conv —
   the events with a converter are the converted events without it, same remainders, PacketConversionError in place of
   the packet when the conversion fails.) *)
Theorem consumer_roundtrip_with_converter :
  forall (Q P : Type) (sep : bytes) (keep_end : bool) (enc : Q -> bytes) (dec : decoder Q)
         (to_dto : P -> Q) (from_dto : Q -> option P) (limit : nat),
    sep <> [] ->
    forall (pkts : list P) (chunks : list bytes) (fuel : nat),
      Forall (fun p => from_dto (to_dto p) = Some p) pkts ->
      Forall (valid_pkt sep keep_end enc dec limit) (map to_dto pkts) ->
      Forall (fun ch => ch <> []) chunks ->
      concat chunks = stream sep enc (map to_dto pkts) ->
      length (stream sep enc (map to_dto pkts)) < fuel ->
      let G := conv_framer from_dto (ru_framer sep limit keep_end dec) in
      snd (cdeliver G fuel (cinit _) chunks) = map RPkt pkts /\
      cbuf (fst (cdeliver G fuel (cinit _) chunks)) = [] /\ ccons (fst (cdeliver G fuel (cinit _) chunks)) = None.
Proof.
  intros Q P sep keep_end enc dec to_dto from_dto limit Hne pkts chunks fuel Hconv Hv Hch Hc Hf G.
  pose proof (cdeliver_conv from_dto (ru_framer sep limit keep_end dec) fuel chunks (cinit _)) as H.
  change (conv_st from_dto (ru_framer sep limit keep_end dec) (cinit (ru_framer sep limit keep_end dec))) with (cinit G) in H.
  fold G in H. rewrite H.
  rewrite (consumer_roundtrip_l sep keep_end enc dec Hne limit (map to_dto pkts) chunks fuel Hv Hch Hc Hf).
  cbn [fst snd cbuf ccons conv_st]. split; [|split; reflexivity].
  clear - Hconv. induction Hconv as [|p pkts Hp _ IH]; [reflexivity|].
  cbn [map conv_ev]. rewrite Hp, IH. reflexivity.
Qed.
Print Assumptions consumer_roundtrip_with_converter.

(* The same on the buffer-filling path (BufferedStreamProtocol(serializer, converter) under BufferedStreamDataConsumer):
   every delivery pattern and size hint, payload + separator < limit.  (General form, any buffered framer:
   Proofs/BufConvert_proofs.v bcdeliver_conv.) *)
Theorem bconsumer_roundtrip_with_converter :
  forall (Q P : Type) (sep : bytes) (keep_end : bool) (enc : Q -> bytes) (dec : decoder Q)
         (to_dto : P -> Q) (from_dto : Q -> option P) (limit sizehint : nat),
    sep <> [] -> length sep + 1 <= limit ->
    forall (pkts : list P) (chunks : list bytes) (fuel : nat),
      Forall (fun p => from_dto (to_dto p) = Some p) pkts ->
      Forall (valid_pkt sep keep_end enc dec (limit - 1 - length sep)) (map to_dto pkts) ->
      concat chunks = stream sep enc (map to_dto pkts) ->
      length (stream sep enc (map to_dto pkts)) < fuel ->
      let G := conv_bframer from_dto (bru_framer sep limit keep_end dec) in
      exists c', bcdeliver G sizehint fuel (bcinit _) chunks = (c', map RPkt pkts) /\
                 bcons c' = None /\ balready c' = 0 /\ bexported c' = None.
Proof.
  intros Q P sep keep_end enc dec to_dto from_dto limit sizehint Hne Hl pkts chunks fuel Hconv Hv Hc Hf G.
  pose proof (bcdeliver_conv from_dto (bru_framer sep limit keep_end dec) sizehint fuel chunks (bcinit _)) as H.
  change (bconv_st from_dto (bru_framer sep limit keep_end dec) (bcinit (bru_framer sep limit keep_end dec))) with (bcinit G) in H.
  fold G in H.
  destruct (bconsumer_roundtrip_l sep keep_end enc dec Hne limit sizehint (map to_dto pkts) chunks fuel Hl Hv Hc Hf)
    as (c' & Hd & H1 & H2 & H3).
  rewrite Hd in H. cbn [fst snd] in H.
  exists (bconv_st from_dto (bru_framer sep limit keep_end dec) c'). split; [|repeat split; assumption].
  rewrite H. f_equal. clear - Hconv. induction Hconv as [|p pkts Hp _ IH]; [reflexivity|].
  cbn [map conv_ev]. rewrite Hp, IH. reflexivity.
Qed.
Print Assumptions bconsumer_roundtrip_with_converter.

(* Sending side (incremental_serialize of StringLineSerializer and AutoSeparatedPacketSerializer, with or without the
   separator check): for every transmittable payload (non-empty; the separator first occurs in payload ++ separator at
   its very end) exactly one chunk, payload ++ separator, is produced — the frame the receiving theorems start from. *)
Theorem send_side_frames :
  forall (sep data : bytes) (check : bool),
    sep <> [] -> data <> [] -> find0 sep (data ++ sep) = Some (length data) ->
    line_iser sep data = [data ++ sep] /\ autosep_iser check sep data = Some [data ++ sep].
Proof.
  intros sep data check Hs Hd Hf. split.
  - exact (line_iser_frame sep Hs data (conj Hd Hf)).
  - exact (autosep_iser_frame sep Hs check data (conj Hd Hf)).
Qed.
Print Assumptions send_side_frames.

(* Fixed-size framing (FixedSizePacketSerializer / StructSerializer over read_exactly), copying consumer: for every
   record size >= 1, every list of packets whose encoding has exactly that size and round-trips through the one-shot
   codec, every chunking: exactly those packets, in order, once, nothing left over. *)
Theorem fixed_size_roundtrip :
  forall (P : Type) (size : nat) (enc : P -> bytes) (dec : decoder P),
    1 <= size ->
    forall (pkts : list P) (chunks : list bytes) (fuel : nat),
      Forall (fun p => length (enc p) = size /\ dec (enc p) = Some p) pkts ->
      Forall (fun ch => ch <> []) chunks ->
      concat chunks = concat (map enc pkts) ->
      length (concat (map enc pkts)) < fuel ->
      cdeliver (rx_framer size dec) fuel (cinit _) chunks =
        (@Build_cstate P (rx_framer size dec) [] None, map RPkt pkts).
Proof. intros P size enc dec Hs pkts chunks fuel. exact (fixed_roundtrip_l size dec Hs enc pkts chunks fuel). Qed.
Print Assumptions fixed_size_roundtrip.

(* Fixed-size framing, any byte stream at all (malformed records included): the events delivered for any chunking are
   those of record-by-record decoding, and the consumer keeps only the incomplete last record (< size bytes). *)
Theorem fixed_size_chunk_independent :
  forall (P : Type) (size : nat) (dec : decoder P),
    1 <= size ->
    forall (chunks : list bytes) (fuel : nat),
      Forall (fun ch => ch <> []) chunks -> length (concat chunks) < fuel ->
      exists c', cdeliver (rx_framer size dec) fuel (cinit _) chunks = (c', fst (fx_events size dec (concat chunks))) /\
                 cbuf c' = [] /\ length (snd (fx_events size dec (concat chunks))) < size.
Proof.
  intros P size dec Hs chunks fuel Hne Hf.
  destruct (xdeliver_spec size dec Hs chunks (cinit _) [] fuel (xrep_idle size dec) Hne Hf) as (c' & Hd & Hc').
  exists c'. split; [exact Hd|]. split; [inversion Hc'; reflexivity | apply fx_tail_short; exact Hs].
Qed.
Print Assumptions fixed_size_chunk_independent.

(* Fixed-size framing on the buffer-filling path (FixedSizePacketSerializer.buffered_incremental_deserialize under
   BufferedStreamDataConsumer): ANY byte stream, every sequence of recv_into fills (non-empty, fitting the exported view),
   every size hint: events = record-by-record decoding, fewer than [size] bytes kept. *)
Theorem fixed_size_buffered_chunk_independent :
  forall (P : Type) (size sizehint : nat) (dec : decoder P),
    1 <= size ->
    forall (fills : list bytes) (fuel : nat),
      length (concat fills) < fuel ->
      fills_fit (bfx_framer size dec) sizehint fuel (bcinit _) fills ->
      exists c', bcfills (bfx_framer size dec) sizehint fuel (bcinit _) fills = (c', fst (fx_events size dec (concat fills))) /\
                 length (snd (fx_events size dec (concat fills))) < size.
Proof.
  intros P size sizehint dec Hs fills fuel Hf Hfit.
  destruct (bfx_fills_spec size dec sizehint Hs fuel fills (bcinit _) []
              (frep_idle size dec sizehint None 0 I) Hfit Hf) as (c' & Hd & Hc').
  exists c'. split; [exact Hd | apply fx_tail_short; exact Hs].
Qed.
Print Assumptions fixed_size_buffered_chunk_independent.

(* ================= raw JSON (JSONSerializer(use_lines=False)) ================= *)
(* The raw-JSON scanner returns exactly at the last byte of a grammar enclosure (object, array or string of compact JSON,
   strings with backslash escapes — coq/Frame/JsonGrammar.v), whatever follows it. *)
Theorem jsonraw_split_balanced :
  forall (v rest : bytes), jvalue v -> starts_enclosure v = true -> jscan [] (v ++ rest) jcount0 = JSClosed (length v).
Proof. exact C01_json.jsonraw_split_balanced. Qed.
Print Assumptions jsonraw_split_balanced.

(* Every list of documents as sent (enclosures as they are, other values + "\n"), each at most [limit] bytes, every
   chunking: one event per document in order (packet, or decode error when dec rejects it), consumer idle, nothing left. *)
Theorem json_roundtrip :
  forall (P : Type) (limit : nat) (dec : decoder P) (docs chunks : list bytes) (fuel : nat),
    Forall (fun ch => ch <> []) chunks -> Forall (jdoc_ok limit) docs -> concat chunks = concat docs ->
    length (concat chunks) < fuel ->
    exists c', cdeliver (json_framer limit dec) fuel (cinit _) chunks = (c', map (jev dec) docs) /\
               cbuf c' = [] /\ ccons c' = None.
Proof. intros P limit dec docs chunks fuel. exact (json_roundtrip_l limit dec docs chunks fuel). Qed.
Print Assumptions json_roundtrip.

(* ================= generic framers (file based, compressors) ================= *)
(* File based: the loader is a streaming prefix-code recogniser for enc (hypotheses 2 and 3 — the contract of
   pickle/cbor/msgpack loaders, validated by execution); size band: frame <= m and m + one read <= limit. *)
Theorem generic_roundtrip_filebased :
  forall (P : Type) (limit : nat) (load : bytes -> lres P) (expected : Z -> bool) (enc : P -> bytes),
    (forall p, enc p <> []) ->
    (forall p r, load (enc p ++ r) = LDone p (length (enc p))) ->
    (forall p q x, enc p = q ++ x -> x <> [] -> load q = LEof (length q)) ->
    forall (pkts : list P) (chunks : list bytes) (m fuel : nat),
      Forall (fun ch => ch <> []) chunks -> concat chunks = concat (map enc pkts) ->
      Forall (fun p => length (enc p) <= m) pkts -> Forall (fun ch : bytes => m + length ch <= limit) chunks ->
      length (concat chunks) < fuel ->
      exists c', cdeliver (wrap_generic (fb_framer limit load expected)) fuel (cinit _) chunks = (c', map RPkt pkts) /\
                 cbuf c' = [] /\ ccons c' = None.
Proof. intros P limit load expected enc H1 H2 H3 pkts chunks m fuel. exact (fb_roundtrip_l limit load expected enc H1 H2 H3 pkts chunks m fuel). Qed.
Print Assumptions generic_roundtrip_filebased.

(* Compressors: the decompressor object is a streaming prefix-code recogniser (zlib's/bz2's contract, validated by
   execution); drep d w o = d has been fed w and has output o. *)
Theorem generic_roundtrip_compressor :
  forall (P D : Type) (dnew : D) (dd : D -> bytes -> (D * bytes) + Z) (deof : D -> bool) (dunused : D -> bytes)
         (expected : Z -> bool) (inner : bytes -> ores P) (inner_declared : Z -> bool)
         (enc payload : P -> bytes) (drep : D -> bytes -> bytes -> Prop),
    (forall p, enc p <> []) -> drep dnew [] [] ->
    (forall d w o (ch : bytes) p x, drep d w o -> ch <> [] -> enc p = (w ++ ch) ++ x -> x <> [] ->
       exists d' out, dd d ch = inl (d', out) /\ deof d' = false /\ drep d' (w ++ ch) (o ++ out)) ->
    (forall d w o (ch : bytes) p r, drep d w o -> w ++ ch = enc p ++ r -> length w < length (enc p) ->
       exists d' out, dd d ch = inl (d', out) /\ deof d' = true /\ dunused d' = r /\ o ++ out = payload p) ->
    (forall p, inner (payload p) = OOk p) ->
    forall (pkts : list P) (chunks : list bytes) (fuel : nat),
      Forall (fun ch => ch <> []) chunks -> concat chunks = concat (map enc pkts) -> length (concat chunks) < fuel ->
      exists c', cdeliver (cz_framer D dnew dd deof dunused expected inner inner_declared) fuel (cinit _) chunks
                 = (c', map RPkt pkts) /\ cbuf c' = [] /\ ccons c' = None.
Proof. intros P D dnew dd deof dunused expected inner inner_declared enc payload drep H1 H2 H3 H4 H5 pkts chunks fuel.
  exact (cz_roundtrip_l D dnew dd deof dunused expected inner inner_declared enc payload drep H1 H2 H3 H4 H5 pkts chunks fuel). Qed.
Print Assumptions generic_roundtrip_compressor.

(* Buffer-filling twin (framer level): one code word arriving over several receive rounds (buffer contents, nbytes),
   completed by the last round, with a surplus r: the generator returns the packet and r. *)
Theorem generic_buffered_word_filebased :
  forall (P : Type) (limit : nat) (load : bytes -> lres P) (expected : Z -> bool) (enc : P -> bytes),
    (forall p r, load (enc p ++ r) = LDone p (length (enc p))) ->
    (forall p q x, enc p = q ++ x -> x <> [] -> load q = LEof (length q)) ->
    forall (alloc : nat -> nat) (rounds : list (bytes * nat)) (p : P) (r : bytes),
      rounds <> [] -> Forall (fun x => firstn (snd x) (fst x) <> []) rounds ->
      concat (map (fun x => firstn (snd x) (fst x)) rounds) = enc p ++ r ->
      length (concat (removelast (map (fun x => firstn (snd x) (fst x)) rounds))) < length (enc p) ->
      length (enc p ++ r) <= limit ->
      first_bevent (fb_framer limit load expected) alloc None rounds = Some (BDone p r).
Proof. intros P limit load expected enc H1 H2 alloc rounds p r. exact (fb_buffered_word_l limit load expected enc H1 H2 alloc rounds p r). Qed.
Print Assumptions generic_buffered_word_filebased.

(* Buffer-filling consumer over the generic wrapper (file based): every sequence of fitting recv_into fills delivers what
   the copying consumer delivers (bwrap_simulates, any framer), hence the round trip. *)
Theorem generic_buffered_roundtrip_filebased :
  forall (P : Type) (limit : nat) (load : bytes -> lres P) (expected : Z -> bool) (enc : P -> bytes),
    (forall p, enc p <> []) -> (forall p r, load (enc p ++ r) = LDone p (length (enc p))) ->
    (forall p q x, enc p = q ++ x -> x <> [] -> load q = LEof (length q)) ->
    forall (pkts : list P) (fills : list bytes) (sizehint m fuel : nat),
      let B := bwrap_generic (fb_framer limit load expected) (fb_alloc limit) in
      fills_fit B sizehint fuel (bcinit B) fills -> concat fills = concat (map enc pkts) ->
      Forall (fun p => length (enc p) <= m) pkts -> Forall (fun d : bytes => m + length d <= limit) fills ->
      length (concat fills) < fuel ->
      snd (bcfills B sizehint fuel (bcinit B) fills) = map RPkt pkts /\
      (let c' := fst (bcfills B sizehint fuel (bcinit B) fills) in balready c' = 0).
Proof. intros P limit load expected enc. exact (fb_buffered_roundtrip_l limit load expected enc). Qed.
Print Assumptions generic_buffered_roundtrip_filebased.

(* Non-vacuity: a concrete codec meets valid_pkt for every packet within the bound, and a 3-packet stream cut inside
   the separator is delivered. *)
Example valid_pkt_satisfiable : forall L n, n <= L -> valid_pkt crlf false toy_enc toy_dec L n.
Proof. exact toy_valid. Qed.

Example roundtrip_cut_inside_separator :
  cdeliver (ru_framer crlf 8 false toy_dec) 40 (cinit _)
    [[65; 65; 13]; [10; 65; 13]; [10; 13]; [10]]%N
  = (@Build_cstate nat (ru_framer crlf 8 false toy_dec) [] None, [RPkt 2; RPkt 1; RPkt 0]).
Proof. vm_compute. reflexivity. Qed.

(* ---- Base64EncoderSerializer (serializers/wrapper/base64.py; model Frame/Base64.v: RFC 4648 encoder / decoder with
   padding for both alphabets, optional 32-byte checksum, framing by AutoSeparatedPacketSerializer). *)

(* The codec: decoding inverts encoding on every byte string; the token stays inside the alphabet; its length. *)
Theorem base64_codec :
  forall (url : bool) (l : bytes),
    wf_bytes l ->
    b64_dec url (b64_enc url l) = Some l
    /\ Forall (fun c => b64_out url c = true) (b64_enc url l)
    /\ length (b64_enc url l) = 4 * ((length l + 2) / 3).
Proof.
  intros url l H. split; [exact (b64_dec_enc url l H) | split; [exact (b64_enc_alphabet url l H) | exact (b64_enc_length url l)]].
Qed.
Print Assumptions base64_codec.

(* The wrapper over ANY inner serializer, both alphabets, with or without checksum (any 32-byte digest function), any
   separator that begins with a byte outside the base64 alphabet (CR, LF, every whitespace: the shipped default is CRLF):
   every list of packets the inner serializer round-trips whose tokens fit the limit, every chunking: both consumers
   return exactly the packets and end holding nothing.  No hypothesis on the tokens: that the separator cannot occur
   inside a token is proved (b64_frame_ends_at_token). *)
Theorem base64_wrapper_stream_roundtrip :
  forall (P : Type) (url : bool) (checksum : option (bytes -> bytes)) (inner_enc : P -> bytes) (inner_dec : decoder P)
         (h : N) (sep' : bytes) (limit sizehint : nat),
    (forall hf, checksum = Some hf -> forall d, length (hf d) = 32 /\ wf_bytes (hf d)) ->
    b64_out url h = false -> length (h :: sep') + 1 <= limit ->
    let sep := h :: sep' in
    let enc := b64_serialize url checksum inner_enc in
    let dec := b64_deserialize url checksum inner_dec in
    forall (pkts : list P) (chunks : list bytes) (fuel : nat),
      Forall (fun p => wf_bytes (inner_enc p) /\ inner_dec (inner_enc p) = Some p /\
                       length (enc p) <= limit - 1 - length sep) pkts ->
      Forall (fun ch => ch <> []) chunks ->
      concat chunks = stream sep enc pkts ->
      length (stream sep enc pkts) < fuel ->
      cdeliver (ru_framer sep limit false dec) fuel (cinit _) chunks =
        (@Build_cstate P (ru_framer sep limit false dec) [] None, map RPkt pkts)
      /\ exists c', bcdeliver (bru_framer sep limit false dec) sizehint fuel (bcinit _) chunks = (c', map RPkt pkts) /\
                    bcons c' = None /\ balready c' = 0 /\ bexported c' = None.
Proof. exact Proofs.C01_base64.base64_wrapper_stream_roundtrip_proof. Qed.
Print Assumptions base64_wrapper_stream_roundtrip.

(* ---- NamedTupleStructSerializer (serializers/struct.py; model Frame/NtStruct.v: a string field of n bytes padded with
   NULs by struct.pack, trailing NULs stripped by from_tuple, optional ascii decoding; one unsigned byte). *)

(* Every packet whose string field fits, does not end with a NUL when trailing NULs are stripped (is exactly n bytes long
   when they are not) and is decodable comes back unchanged from deserialize(serialize(p)) — interior NULs included —
   and therefore (fixed_size_roundtrip) survives every chunking of the stream on the copying path. *)
Theorem namedtuple_struct_roundtrip :
  forall (n : nat) (strip ascii : bool) (pkts : list (bytes * N)) (chunks : list bytes) (fuel : nat),
    Forall (fun p => length (fst p) <= n /\ (strip = true -> rstrip0 (fst p) = fst p) /\
                     (strip = false -> length (fst p) = n) /\
                     (ascii = true -> forallb (fun b => N.ltb b 128) (fst p) = true)) pkts ->
    Forall (fun ch => ch <> []) chunks ->
    let enc := fun p : bytes * N => nt_serialize n (fst p) (snd p) in
    concat chunks = concat (map enc pkts) ->
    length (concat (map enc pkts)) < fuel ->
    cdeliver (rx_framer (S n) (nt_deserialize n strip ascii)) fuel (cinit _) chunks =
      (@Build_cstate _ (rx_framer (S n) (nt_deserialize n strip ascii)) [] None, map RPkt pkts).
Proof.
  intros n strip ascii pkts chunks fuel Hv Hch enc Hc Hf.
  apply (fixed_roundtrip_l (S n) (nt_deserialize n strip ascii) (le_n_S 0 n (Nat.le_0_l n)) enc pkts chunks fuel); try assumption.
  eapply Forall_impl; [|exact Hv]. intros [name x] (H1 & H2 & H3 & H4). cbn [fst snd] in *. split.
  - exact (nt_serialize_length n name x H1).
  - exact (nt_roundtrip n strip ascii name x H1 H2 H3 H4).
Qed.
Print Assumptions namedtuple_struct_roundtrip.

(* ---- composite serializers (serializers/composite.py).  [stapled_class] is regenerated on every run as the complete
   table of the dispatch of StapledPacketSerializer.__new__ (Gen/ParamsC01.v: real constructors on every combination). *)

(* The stapled class built for a pair of serializers is decided by the RECEIVED half (and needs an incremental SENT half):
   for every capability of the two halves (0 one-shot, 1 incremental, 2 buffered) and every constructor call the
   signatures allow, rank = 0 when the sent half is one-shot, else the capability of the received half. *)
Theorem stapled_dispatch :
  forall cls s r : Z,
    (0 <= s <= 2)%Z -> (0 <= r <= 2)%Z ->
    (cls = 0 \/ (cls = 1 /\ 1 <= s /\ 1 <= r) \/ (cls = 2 /\ 1 <= s /\ r = 2))%Z ->
    Gen.ParamsC01.stapled_class cls s r = (if (s =? 0)%Z then 0 else r)%Z.
Proof. exact Proofs.C01_stapled.stapled_dispatch_proof. Qed.
Print Assumptions stapled_dispatch.

(* So StreamProtocol / BufferedStreamProtocol accept a stapled serializer for exactly the receive paths its received
   half implements (the methods they call are delegated to that half). *)
Theorem stapled_offers_paths_of_received_half :
  forall (PS X Y PR : Type) (s : Frame.Stapled.half PS X) (r : Frame.Stapled.half Y PR),
    (0 <= Frame.Stapled.h_cap s <= 2)%Z -> (0 <= Frame.Stapled.h_cap r <= 2)%Z ->
    (Frame.Stapled.offers_copying (Frame.Stapled.staple s r) = true
       <-> (1 <= Frame.Stapled.h_cap s /\ 1 <= Frame.Stapled.h_cap r)%Z) /\
    (Frame.Stapled.offers_buffered (Frame.Stapled.staple s r) = true
       <-> (1 <= Frame.Stapled.h_cap s /\ Frame.Stapled.h_cap r = 2)%Z).
Proof. exact Proofs.C01_stapled.staple_offers. Qed.
Print Assumptions stapled_offers_paths_of_received_half.

(* Two peers stapling the same two separator-framed serializers the other way round (A = Stapled(S, R) sends to
   B = Stapled(R, S)): for every list of packets valid for S and every chunking of what A's sending half produces,
   B's copying consumer returns exactly the packets and holds nothing, and so does its buffer-filling consumer when the
   protocol offers it; whatever serializer R is. *)
Theorem stapled_peers_roundtrip :
  forall (P Q : Type) (capS capR : Z) (sepS sepR : bytes) (keS keR : bool) (encS : P -> bytes) (decS : decoder P)
         (encR : Q -> bytes) (decR : decoder Q) (limS limR sizehint : nat),
    sepS <> [] -> length sepS + 1 <= limS ->
    let S := Proofs.C01_stapled.sep_half capS sepS limS keS encS decS in
    let R := Proofs.C01_stapled.sep_half capR sepR limR keR encR decR in
    let A := Frame.Stapled.staple S R in
    let B := Frame.Stapled.staple R S in
    forall (pkts : list P) (chunks : list bytes) (fuel : nat),
      Forall (valid_pkt sepS keS encS decS (limS - 1 - length sepS)) pkts ->
      Forall (fun ch => ch <> []) chunks ->
      concat chunks = concat (map (fun p => match Frame.Stapled.h_iser A p with Some l => concat l | None => [] end) pkts) ->
      length (stream sepS encS pkts) < fuel ->
      cdeliver (Frame.Stapled.h_fr B) fuel (cinit _) chunks =
        (@Build_cstate P (Frame.Stapled.h_fr B) [] None, map RPkt pkts)
      /\ exists c', bcdeliver (Frame.Stapled.h_bfr B) sizehint fuel (bcinit _) chunks = (c', map RPkt pkts) /\
                    bcons c' = None /\ balready c' = 0 /\ bexported c' = None.
Proof. exact Proofs.C01_stapled.stapled_peers_roundtrip_proof. Qed.
Print Assumptions stapled_peers_roundtrip.
