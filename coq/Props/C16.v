(* C16 -- datagram server: per-client FIFO, one active handler, nothing dropped.
   Statements over ALL label sequences of the LTS coq/Conc/DgramServer.v (arrivals from any addresses interleaved with
   any handler behaviour: suspend, yield with/without timeout, return, raise, end with the cancellation exception,
   timeouts firing, any scheduling).  [Forall ok_label ls] excludes only the label [GCancel a false] = "the generator
   ended with the cancelled exception and the task-done hook did NOT restart" -- the behaviour of the intermediate fix
   7007369, refuted at the end of this file; for the code whose hook always restarts no trace contains that label. *)
From EN Require Import Lib.Bytes Conc.DgramServer Conc.DgramListener Proofs.C16_proofs.

(* _ClientData.state is None only when its queue is empty -- at every state, hence at every scheduling point *)
Theorem state_none_implies_queue_empty :
  forall (ls : list label) (s : state) (a : addr),
    Forall ok_label ls -> steps state0 ls = Some s -> st (cl s a) = TNone -> queue (cl s a) = [].
Proof. exact state_none_implies_queue_empty_pf. Qed.
Print Assumptions state_none_implies_queue_empty.

(* never two client coroutines (hence generators) for one address; mark_pending/mark_running/mark_done never hit
   handle_inconsistent_state_error and pop_datagram_no_wait never finds an empty queue (err stays false) *)
Theorem at_most_one_active :
  forall (ls : list label) (s : state) (a : addr),
    Forall ok_label ls -> steps state0 ls = Some s ->
    err s = false /\ nactive (cl s a) <= 1 /\
    (nactive (cl s a) = 1 <-> st (cl s a) = TRunning) /\ (pc (cl s a) <> PIdle <-> st (cl s a) = TRunning).
Proof. exact at_most_one_active_pf. Qed.
Print Assumptions at_most_one_active.

(* a queued datagram always has a task responsible for it (pending or running) *)
Theorem eventually_handled :
  forall (ls : list label) (s : state) (a : addr),
    Forall ok_label ls -> steps state0 ls = Some s -> queue (cl s a) <> [] ->
    st (cl s a) = TPending \/ st (cl s a) = TRunning.
Proof. exact eventually_handled_pf. Qed.
Print Assumptions eventually_handled.

(* per address: the requests observed by its generators (concatenated over restarts) are exactly the datagrams of
   that address in arrival order, each once, minus the documented discards (hist entries flagged false: the datagram
   taken by a generator that returned/raised before its first yield -- added only by l_gfinish at PGen0); whatever has
   not been consumed yet is still there, in order: held by a starting generator, queued, or with a handler task that has
   not run yet.  Nothing is lost, duplicated or reordered. *)
Theorem fifo_exactly_once :
  forall (ls : list label) (s : state) (o : list obs) (a : addr),
    Forall ok_label ls -> trace state0 ls = Some (s, o) ->
    received a o = map fst (filter snd (hist (cl s a))) /\
    map fst (hist (cl s a)) ++ held (cl s a) ++ queue (cl s a) ++ proj a (spawned s) = arrivals a ls.
Proof. exact fifo_exactly_once_pf. Qed.
Print Assumptions fifo_exactly_once.

(* per-client conservation, counted -- for ANY number of datagrams, in particular any length of the backlog received
   before serve() (the not-yet-run handler tasks [spawned] are an unbounded FIFO): every datagram received for a client
   is handed to a handler invocation exactly once (observed request), or is the single datagram of a refused invocation
   (generator ended before its first yield), or is still held / queued / with a handler task that has not run *)
Theorem per_client_conservation :
  forall (ls : list label) (s : state) (o : list obs) (a : addr),
    Forall ok_label ls -> trace state0 ls = Some (s, o) ->
    length (arrivals a ls) =
      length (received a o) + length (discarded (cl s a)) +
      length (held (cl s a)) + length (queue (cl s a)) + length (proj a (spawned s)).
Proof. exact conservation_pf. Qed.
Print Assumptions per_client_conservation.

(* the asyncio listener across serve() restarts (coq/Conc/DgramListener.v): whatever the history of arrivals, serve()
   calls and cancellations of serve(), every datagram the transport delivered is handed to a handler task exactly once,
   in arrival order, or is still in the backlog waiting for the next serve(); while a serve() runs the backlog is empty *)
Theorem listener_conservation :
  forall (ls : list llabel) (s : lstate),
    lsteps lstate0 ls = Some s ->
    dispatched s ++ backlog s = larrivals ls /\ (serving s = true -> backlog s = []).
Proof. exact listener_conservation_pf. Qed.
Print Assumptions listener_conservation.

(* frame property: a transition about address a changes nothing of any other address b -- neither its _ClientData and
   coroutine state nor its not-yet-started handler tasks ("slow handling of one client does not block others") *)
Theorem clients_independent :
  forall (s : state) (l : label) (s' : state) (o : list obs) (a b : addr),
    step s l = Some (s', o) -> label_addr s l = Some a -> b <> a ->
    cl s' b = cl s b /\ proj b (spawned s') = proj b (spawned s).
Proof. exact clients_independent_pf. Qed.
Print Assumptions clients_independent.

(* progress ("queued datagrams are eventually handled, by it or by a fresh generator; a slow client does not block
   others"): from EVERY reachable state in which address a has unconsumed datagrams (held by a starting generator,
   queued, or with a handler task that has not run), a finite continuation hands the next one over.  The continuation
   uses only [polite a] labels: moves of a's own generator/coroutine (resume, yield, wake-up, restart task), first steps
   of handler tasks (HStart), and OTHER generators merely suspending (GSuspend b) -- no other client has to make
   progress, return or even be resumed.  (Only a handler of a itself that never yields could starve a.) *)
Theorem not_starved :
  forall (ls : list label) (s : state) (a : addr),
    Forall ok_label ls -> steps state0 ls = Some s ->
    held (cl s a) ++ queue (cl s a) ++ proj a (spawned s) <> [] ->
    exists (ls' : list label) (s' : state),
      steps s ls' = Some s' /\ Forall (polite a) ls' /\
      length (hist (cl s' a)) = S (length (hist (cl s a))).
Proof. exact not_starved_pf. Qed.
Print Assumptions not_starved.

(* the excluded behaviour really breaks the property: if the hook does not restart after a generator that ended with
   the cancelled exception (GCancel a false), a datagram stays queued with state None and no task -- and no polite
   continuation can ever consume it *)
Theorem state_none_implies_queue_empty_refuted_without_restart :
  exists (ls : list label) (s : state) (a : addr),
    steps state0 ls = Some s /\ st (cl s a) = TNone /\ queue (cl s a) <> [] /\ spawned s = [] /\ cur s = None.
Proof.
  exists [Arrive 0 [1%N]; HStart false; GYield 0 None; GSuspend 0; Arrive 0 [2%N]; HStart false; GResume 0; GCancel 0 false].
  eexists. exists 0. vm_compute. repeat split. discriminate.
Qed.
Print Assumptions state_none_implies_queue_empty_refuted_without_restart.

(* non-vacuity: a run with a suspension, queueing, a return before the first yield (discard), a restart by the
   task-done hook, and a timeout is a trace of the model *)
Example c16_witness :
  exists s o, trace state0
    [Arrive 0 [1%N]; HStart false; GSuspend 0; Arrive 0 [2%N]; Arrive 1 [9%N]; Arrive 0 [3%N]; HStart false; HStart false;
     GYield 1 None; GYield 1 (Some 5%Z); HStart true; Timeout 1; GSuspend 1; HResume 0;
     GResume 0; GReturn 0; TaskStart 0; GYield 0 None; GYield 0 None; PopWake 0; GCancel 0 true] = Some (s, o)
    /\ received 0 o = [[2%N]; [3%N]] /\ discarded (cl s 0) = [[1%N]] /\ gens (cl s 0) = 2 /\ st (cl s 0) = TNone
    /\ received 1 o = [[9%N]] /\ st (cl s 1) = TRunning.
Proof. eexists. eexists. vm_compute. repeat split. Qed.
