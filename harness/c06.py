"""C06 — malformed network input only ever surfaces as a parse error."""
from __future__ import annotations

import base64
import bz2
import hashlib
import json
import pickle
import zlib

from common import c06params, excodes, runner
from common import streamcase as sc
from common import streamcase2 as s2

PROPERTY_ID = "C06"
RUN_MODULE = "Run.C06"
PROPS_FILE = "Props/C06.v"
ALLOWED_AXIOMS = []
ANCHORS = [
    ("src/easynetwork/serializers/json.py", "JSONSerializer.deserialize"),
    ("src/easynetwork/serializers/json.py", "JSONSerializer.incremental_deserialize"),
    ("src/easynetwork/serializers/json.py", "_JSONParser.raw_parse"),
    ("src/easynetwork/serializers/json.py", "_JSONParser._escaped"),
    ("src/easynetwork/serializers/json.py", "_JSONParser._split_partial_document"),
    ("src/easynetwork/serializers/line.py", "StringLineSerializer.deserialize"),
    ("src/easynetwork/serializers/line.py", "StringLineSerializer.incremental_deserialize"),
    ("src/easynetwork/serializers/line.py", "StringLineSerializer.buffered_incremental_deserialize"),
    ("src/easynetwork/serializers/struct.py", "AbstractStructSerializer.deserialize"),
    ("src/easynetwork/serializers/struct.py", "NamedTupleStructSerializer.from_tuple"),
    ("src/easynetwork/serializers/pickle.py", "PickleSerializer.deserialize"),
    ("src/easynetwork/serializers/wrapper/base64.py", "Base64EncoderSerializer.deserialize"),
    ("src/easynetwork/serializers/wrapper/compressor.py", "AbstractCompressorSerializer.deserialize"),
    ("src/easynetwork/serializers/wrapper/compressor.py", "AbstractCompressorSerializer.__generic_incremental_deserialize"),
    ("src/easynetwork/serializers/wrapper/compressor.py", "ZlibCompressorSerializer.__init__"),
    ("src/easynetwork/serializers/wrapper/compressor.py", "BZ2CompressorSerializer.__init__"),
    ("src/easynetwork/serializers/base_stream.py", "AutoSeparatedPacketSerializer.incremental_deserialize"),
    ("src/easynetwork/serializers/base_stream.py", "AutoSeparatedPacketSerializer.buffered_incremental_deserialize"),
    ("src/easynetwork/serializers/base_stream.py", "FixedSizePacketSerializer.incremental_deserialize"),
    ("src/easynetwork/serializers/base_stream.py", "FixedSizePacketSerializer.buffered_incremental_deserialize"),
    ("src/easynetwork/serializers/base_stream.py", "FileBasedPacketSerializer.deserialize"),
    ("src/easynetwork/serializers/base_stream.py", "FileBasedPacketSerializer.__generic_incremental_deserialize"),
    ("src/easynetwork/serializers/base_stream.py", "FileBasedPacketSerializer.__check_file_buffer_limit"),
    ("src/easynetwork/serializers/base_stream.py", "FileBasedPacketSerializer.create_deserializer_buffer"),
    ("src/easynetwork/serializers/base_stream.py", "_wrap_generic_incremental_deserialize"),
    ("src/easynetwork/serializers/base_stream.py", "_wrap_generic_buffered_incremental_deserialize"),
    ("src/easynetwork/serializers/base_stream.py", "_buffered_readuntil"),
    ("src/easynetwork/serializers/tools.py", "GeneratorStreamReader.read_until"),
    ("src/easynetwork/serializers/tools.py", "GeneratorStreamReader.read_exactly"),
    ("src/easynetwork/exceptions.py", "LimitOverrunError.__init__"),
    ("src/easynetwork/protocol.py", "StreamProtocol.build_packet_from_chunks"),
    ("src/easynetwork/protocol.py", "BufferedStreamProtocol.build_packet_from_buffer"),
    ("src/easynetwork/protocol.py", "DatagramProtocol.build_packet_from_datagram"),
    ("src/easynetwork/lowlevel/_stream.py", "StreamDataConsumer.next"),
    ("src/easynetwork/lowlevel/_stream.py", "BufferedStreamDataConsumer.next"),
]
RULE = ("per serializer family (line, JSON lines, raw JSON, struct, named-tuple struct, base64 over bytes/JSON/pickle "
        "with and without checksum, pickle, zlib and bz2 over JSON/bytes/pickle, file-based test subclass in three "
        "variants) and per mode (one-shot deserialize, build_packet_from_datagram, copying consumer, buffer-filling "
        "consumer with size hints 1..1024): (a) framing correspondence: every chunking of small raw-JSON documents "
        "(escapes, nesting, whitespace, plain values, stray closers, non-value bytes) at limits around their length, "
        "every chunking of small file-based streams; (b) random bytes; (c) structured mutations of valid streams: "
        "truncation, bit flips, duplicated / dropped separators, invalid UTF-8, bad base64 length and alphabet, "
        "corrupted and truncated compressed blocks, wrong checksums; (d) structurally extreme input up to the limit: "
        "deep nesting, long digit strings, long tokens, huge declared lengths. The library answers (str(), json, "
        "struct, binascii, zlib, bz2, pickle, the test loader) are tabulated by calling the libraries and given to "
        "the model as oracle; the except-clause tables come from Gen/ParamsC06.v regenerated from the source. "
        "Non-trivial = the case contains at least one error event, an escaping exception, or a cut inside a frame.")
TRUSTED = [
    "models of raw_parse/_split_partial_document, the generic file-based/compressor deserializers, the one-shot "
    "deserialize methods and the except-clause decision tables hand-written in coq/Frame/{JsonRaw,Generic,Deserialize,"
    "ErrSites}.v; shared ReadUntil/BufReadUntil/Consumer models",
    "harness/common/c06params.py (fail-closed ast translator of the except clauses) and excodes.py (class codes)",
]
ASSUMPTIONS = [
    "H_declared (hypothesis of no_crash_if_declared): every library call answers with a value or with an exception "
    "class named by the except clause guarding it. Validated by execution on every case of this run: any case on "
    "which a non-parse-error exception leaves deserialize / consumer.next / build_packet_from_datagram is a "
    "VIOLATION unless it matches a signature of known_findings.json",
    "H_progress for the generic framers: a user loader that raises an expected error has read at least one byte "
    "(file position >= 1); decompressors report errors with remaining_data = b'' by construction",
    "the decompressor's answers depend only on the concatenation of what it has been fed (zlib, bz2: validated by "
    "the recorded transcripts; a conflict raises in the harness)",
]

BIG = 2048        # limit of the structurally extreme cases
BIG2 = 9216       # limit of the F3 shapes (nesting 1700 deep, 4301 digits)

KNOWN_SIGS = {
    "json-decode-escapes:RecursionError",
    "json-decode-escapes:ValueError:int-max-str-digits",
}

_YIELDED = []       # every case dict handed to the runner (the runner stores the implementation output in it)


def params():
    return c06params.generate()


# ------------------------------------------------------------------ configurations

def _b64(payload, checksum, alphabet=b"standard"):
    enc = base64.standard_b64encode if alphabet == b"standard" else base64.urlsafe_b64encode
    return enc(payload + (hashlib.sha256(payload).digest() if checksum else b""))


def rand_json(rng, depth=0):
    r = rng.random()
    if depth > 2 or r < 0.35:
        return rng.choice([0, 1, -7, 3.5, True, None, "a", 'q"\\', "é", "", 12345678901234567890])
    if r < 0.7:
        return [rand_json(rng, depth + 1) for _ in range(rng.randint(0, 3))]
    return {rng.choice(["a", "b", "k\"", "é"]): rand_json(rng, depth + 1) for _ in range(rng.randint(0, 2))}


def jdump(v):
    return json.dumps(v, separators=(",", ":"), ensure_ascii=False).encode("utf-8")


class Cfg:
    """one serializer configuration: how to build valid streams and which mutations make sense"""

    def __init__(self, name, family, cfg, impl, sep=None, limit=None):
        self.name, self.family, self.cfg, self.impl, self.sep, self.limit = name, family, cfg, impl, sep, limit

    def frame(self, rng):
        """one valid frame as it travels on a stream"""
        f = self.family
        if f == 0:
            n = rng.randint(0, 12)
            return bytes(rng.choice(b"abcxyz 019") for _ in range(n)) + self.sep
        if f == 1:
            return jdump(rand_json(rng)) + b"\n"
        if f == 2:
            d = jdump(rand_json(rng))
            return d if d[:1] in b'{["' else d + b"\n"
        if f == 3:
            if self.impl[0] == b"struct":
                return bytes(rng.randrange(256) for _ in range(self.cfg[0]))
            return bytes(rng.choice(b"abc") for _ in range(rng.randint(0, 5))).ljust(5, b"\0") + bytes([rng.randrange(256)])
        if f == 4:
            return _b64(self.inner_payload(rng, self.impl[3]), bool(self.impl[2]), self.impl[1]) + self.sep
        if f == 5:
            return pickle.dumps(rng.choice([1, "ab", [1, 2], {"k": (1, 2.5)}, b"\x00\xff", None]))
        if f == 6:
            p = self.inner_payload(rng, self.impl[1])
            return zlib.compress(p) if self.impl[0] == b"zlib" else bz2.compress(p)
        if f == 7:
            n = rng.randint(0, 6)
            return bytes([n]) + bytes(rng.choice(b"abcxyz") for _ in range(n))
        raise ValueError(f)

    @staticmethod
    def inner_payload(rng, inner):
        if inner == b"json":
            return jdump(rand_json(rng))
        if inner == b"line":
            return bytes(rng.choice(b"abc xyz") for _ in range(rng.randint(0, 8)))
        if inner == b"pickle":
            return pickle.dumps(rng.choice([1, "ab", [1, 2], {"k": (1, 2.5)}]))
        return bytes(rng.randrange(256) for _ in range(rng.randint(0, 10)))

    def hint(self, rng):
        return rng.choice([1, 2, 3, 5, 8, 64, 1024])

    def with_debug(self):
        """the same configuration built with debug=True (the error_info construction of every error path runs)"""
        return Cfg(self.name + "+debug", self.family, self.cfg, list(self.impl) + [b"debug"], sep=self.sep, limit=self.limit)


CONFIGS = [
    Cfg("line-ascii-LF", 0, [b"\n", 24, 0], [b"line", b"ascii"], sep=b"\n", limit=24),
    Cfg("line-utf8-CRLF-keepend", 0, [b"\r\n", 24, 1], [b"line", b"utf-8"], sep=b"\r\n", limit=24),
    Cfg("jsonl", 1, [48], [b"jsonl"], sep=b"\n", limit=48),
    Cfg("jsonraw", 2, [48], [b"jsonraw"], limit=48),
    Cfg("struct-HB", 3, [3], [b"struct", b"HB"]),
    Cfg("ntstruct-5sB", 3, [6], [b"ntstruct", b"5s"]),
    Cfg("b64-bytes", 4, [b"\r\n", 64, 9], [b"b64", b"standard", 0, b"bytes"], sep=b"\r\n", limit=64),
    Cfg("b64-url-checksum-json", 4, [b"\n", 160, 1], [b"b64", b"urlsafe", 1, b"json"], sep=b"\n", limit=160),
    Cfg("b64-pickle", 4, [b"\r\n", 160, 5], [b"b64", b"standard", 0, b"pickle"], sep=b"\r\n", limit=160),
    Cfg("b64-bytes-sep3", 4, [b"|-|", 64, 9], [b"b64", b"standard", 0, b"bytes"], sep=b"|-|", limit=64),
    Cfg("b64-json-sep5", 4, [b"~~.~~", 96, 1], [b"b64", b"urlsafe", 0, b"json"], sep=b"~~.~~", limit=96),
    Cfg("pickle", 5, [], [b"pickle"]),
    Cfg("zlib-json", 6, [0, 1], [b"zlib", b"json"]),
    Cfg("zlib-pickle", 6, [0, 5], [b"zlib", b"pickle"]),
    Cfg("bz2-bytes", 6, [1, 9], [b"bz2", b"bytes"]),
    Cfg("bz2-json", 6, [1, 1], [b"bz2", b"json"]),
    Cfg("fb-eager", 7, [16, s2.FB_EXPECTED], [b"fb", b"eager"], limit=16),
    Cfg("fb-lazy", 7, [16, s2.FB_EXPECTED], [b"fb", b"lazy"], limit=16),
    Cfg("fb-back1", 7, [16, s2.FB_EXPECTED], [b"fb", b"back1"], limit=16),
    Cfg("fb-seek1", 7, [16, s2.FB_EXPECTED], [b"fb", b"seek1"], limit=16),
]
BY_NAME = {c.name: c for c in CONFIGS}
# wrappers over a line serializer (what an empty token / an empty compressed payload reaches)
EMPTY_INNER_CONFIGS = [
    Cfg("b64-line", 4, [b"\r\n", 64, 0], [b"b64", b"standard", 0, b"line"], sep=b"\r\n", limit=64),
    Cfg("b64-checksum-line", 4, [b"\n", 160, 0], [b"b64", b"urlsafe", 1, b"line"], sep=b"\n", limit=160),
    Cfg("zlib-line", 6, [0, 0], [b"zlib", b"line"]),
    Cfg("bz2-line", 6, [1, 0], [b"bz2", b"line"]),
]
DEBUG_CONFIGS = [c.with_debug() for c in CONFIGS]      # every shipped serializer class here has a debug flag


# ------------------------------------------------------------------ mutations

def mutate(rng, c: Cfg, stream: bytes):
    """-> (mutated stream, tag)"""
    ops = ["truncate", "flip", "insert-ff", "insert-c3", "drop-byte", "dup-slice", "garbage-tail"]
    if c.sep:
        ops += ["dup-sep", "drop-sep", "split-sep"]
    if c.family == 4:
        ops += ["b64-bad-char", "b64-bad-length", "wrong-checksum"]
    if c.family == 6:
        ops += ["corrupt-middle", "corrupt-trailer", "truncate-trailer"]
    if c.family == 7:
        ops += ["huge-length", "bang", "query"]
    if c.family == 5:
        ops += ["pickle-global", "pickle-huge-len"]
    op = rng.choice(ops)
    s = bytearray(stream)
    n = len(s)
    pos = rng.randrange(n) if n else 0
    if op == "truncate":
        s = s[:pos]
    elif op == "flip" and n:
        s[pos] ^= 1 << rng.randrange(8)
    elif op == "insert-ff":
        s[pos:pos] = b"\xff"
    elif op == "insert-c3":
        s[pos:pos] = b"\xc3"
    elif op == "drop-byte" and n:
        del s[pos]
    elif op == "dup-slice" and n:
        e = min(n, pos + rng.randint(1, 6))
        s[pos:pos] = s[pos:e]
    elif op == "garbage-tail":
        s += bytes(rng.randrange(256) for _ in range(rng.randint(1, 8)))
    elif op == "dup-sep":
        i = stream.find(c.sep)
        if i >= 0:
            s[i:i] = c.sep
    elif op == "drop-sep":
        i = stream.find(c.sep)
        if i >= 0:
            del s[i:i + len(c.sep)]
    elif op == "split-sep":
        i = stream.find(c.sep)
        if i >= 0 and len(c.sep) > 1:
            s[i + 1:i + 1] = b"x"
        elif i >= 0:
            s[i:i + 1] = b"\r"
    elif op == "b64-bad-char" and n:
        s[pos] = rng.choice(b"!*~\x00\x80")
    elif op == "b64-bad-length":
        i = stream.find(c.sep)
        if i > 0:
            del s[i - 1]
    elif op == "wrong-checksum":
        i = stream.find(c.sep)
        if i > 0:
            try:
                raw = bytearray((base64.urlsafe_b64decode if c.impl[1] == b"urlsafe" else base64.standard_b64decode)(bytes(s[:i])))
                if raw:
                    raw[-1] ^= 1
                s[:i] = (base64.urlsafe_b64encode if c.impl[1] == b"urlsafe" else base64.standard_b64encode)(bytes(raw))
            except Exception:
                pass
    elif op == "corrupt-middle" and n > 4:
        s[n // 2] ^= 0x55
    elif op == "corrupt-trailer" and n > 2:
        s[-2] ^= 0xFF
    elif op == "truncate-trailer" and n > 3:
        s = s[:-rng.randint(1, 3)]
    elif op == "huge-length":
        s[0:0] = b"\xff"
    elif op == "bang":
        s[0:0] = b"\x03!ab"
    elif op == "query":
        s[0:0] = b"\x02?b"
    elif op == "pickle-global":
        s = bytearray(b"cos\nsystem\n(S'true'\ntR.")
    elif op == "pickle-huge-len":
        s = bytearray(b"\x80\x04\x8e" + (2 ** 40).to_bytes(8, "little") + b"abc.")
    return bytes(s), op


def chunkings(rng, stream: bytes, exhaustive_upto=0):
    if not stream:
        return [[]]
    if len(stream) <= exhaustive_upto:
        return list(sc.all_chunkings(stream))
    out = [[stream]]
    if len(stream) <= 96:
        out.append([stream[i:i + 1] for i in range(len(stream))])
    k = rng.randint(1, 4)
    out.append(sc.cuts_to_chunks(stream, [rng.randrange(1, len(stream)) for _ in range(k)]) if len(stream) > 1 else [stream])
    return out


def _nontrivial_from_tabs(tabs):
    def walk(o):
        if isinstance(o, list):
            if len(o) == 2 and isinstance(o[0], bytes) and isinstance(o[1], list) and o[1] and o[1][0] in (1, 2):
                return True
            return any(walk(x) for x in o)
        return False
    return walk(tabs)


def _case(c: Cfg, data, chunks, hint, tags, known=None, nontrivial=None):
    inp = s2.make_case(c.family, c.cfg, c.impl, data, chunks, hint)
    d = dict(input=inp, tags=[c.name] + tags, nontrivial=bool(nontrivial if nontrivial is not None
                                                                 else (_nontrivial_from_tabs(inp[3]) or len(chunks) > 1)))
    if known:
        d["known"] = known
    _YIELDED.append(d)
    return d


# ------------------------------------------------------------------ case generation

JSON_DOCS = [b'{}', b'[]', b'""', b'"a\\"b"', b'"\\\\"', b'{"a":"}"}', b'[[1],{"b":[2]}]', b' [1] ', b'1', b'12 ', b'true',
             b'null\n', b'-1.5\n', b'}{', b']', b'\\"', b'\x00', b'\x80ab', b'[1]  [2]', b'1 2', b'"a', b' \n',
             b'{"a":1}x', b'[1]]', b'"\\""x', b'12', b'tru', b' 1\n', b'"\\\\\\""', b'{"\\"":[]}', b'[1]\n\t [2]',
             b'\t{"a"\r:\n1 } \n', b'{]', b'["]"]', b'"\xc3\xa9"', b'"\xff"', b'[1,]', b'\x7f1', b'~', b'1\x001']


# (stream, length of its longest document)
JSON_STREAMS = [(b'{}[]', 2), (b'"}"[1]', 3), (b'1\n[2]', 3), (b'[1]2\n"a"', 3), (b'"\\""{}', 4), (b'[[]]{}""', 4),
                (b'"[{"1\n', 4), (b'{"a":"]"}', 9), (b'"a\\"b"[]', 6), (b'true\n-1\n{}', 5), (b'[""]"\\\\"', 4),
                (b'{"[":[]}1\n', 8), (b'"]"[["["]]', 7), (b'0\n0\n""[]', 2), (b'[{}]"\\"]"', 5)]


# whitespace and keep-alive bytes at parser start positions: before the first document, between documents, after a
# decode error, after a limit error (limit 3: the 5-byte document overruns)
JSON_WS_STREAMS = [b' {}', b'\r\n[1]\r\n[2]', b'{} \n []', b'\n1\n\n2\n', b' "a" ', b'[1,]\n {}', b'\t\t', b' \n1 ',
                   b'[1,2]\n{}', b'12345\n 1\n', b'}\n {}', b'"a\n"\n\n"b"']


def framing_cases(tier, rng, thorough):
    """work item (1): raw JSON and generic framers against every chunking of small inputs"""
    jraw = BY_NAME["jsonraw"]
    for d in JSON_DOCS:
        limits = sorted({100, len(d), max(1, len(d) - 1), len(d) + 1, 2}) if thorough else sorted({100, len(d), max(1, len(d) - 1)})
        for limit in limits:
            if len(d) <= (9 if thorough else 6):
                chs = list(sc.all_chunkings(d))
            else:
                chs = [[d], [d[i:i + 1] for i in range(len(d))]] + [sc.cuts_to_chunks(d, [k]) for k in range(1, len(d))]
                chs += [sc.cuts_to_chunks(d, [rng.randrange(1, len(d)), rng.randrange(1, len(d))]) for _ in range(8 if thorough else 2)]
            for ch in chs:
                inp = s2.make_simple_case(4, [limit], [b"jsonraw"], ch)
                d1 = dict(input=inp, tags=["framing", "jsonraw-kind4", "all-chunkings" if len(d) <= 6 else "cuts"],
                          nontrivial=len(ch) > 1 or limit <= len(d))
                _YIELDED.append(d1)
                yield d1
            c = Cfg("jsonraw", 2, [limit], [b"jsonraw"], limit=limit)
            for ch in chs[:: (1 if thorough else 4)]:
                yield _case(c, d, ch, 0, ["framing", "jsonraw-all-modes"])
    # multi-document raw-JSON streams (the send side of JSONSerializer(use_lines=False): enclosures as they are, plain
    # values followed by a newline): strings holding brackets / quotes / escapes, nested enclosures, plain values
    # between enclosures -- every chunking (C01 json_roundtrip is about exactly these)
    for stream, maxdoc in JSON_STREAMS:
        n = len(stream)
        if n <= 8 or thorough:
            chs = list(sc.all_chunkings(stream))
        else:
            masks = {rng.randrange(1 << (n - 1)) for _ in range(96)} | {0, (1 << (n - 1)) - 1}
            chs = [[c for c in sc.cuts_to_chunks(stream, [i + 1 for i in range(n - 1) if m >> i & 1])] for m in sorted(masks)]
        for limit in (100, maxdoc):
            for ch in chs:
                inp = s2.make_simple_case(4, [limit], [b"jsonraw"], ch)
                d1 = dict(input=inp, tags=["framing", "jsonraw-multidoc", "all-chunkings" if (n <= 8 or thorough) else "sampled-chunkings"],
                          nontrivial=len(ch) > 1)
                _YIELDED.append(d1)
                yield d1
    for stream in JSON_WS_STREAMS:
        n = len(stream)
        if n <= 7 or thorough:
            chs = list(sc.all_chunkings(stream))
        else:
            masks = {rng.randrange(1 << (n - 1)) for _ in range(48)} | {0, (1 << (n - 1)) - 1}
            chs = [sc.cuts_to_chunks(stream, [i + 1 for i in range(n - 1) if m >> i & 1]) for m in sorted(masks)]
        for limit in (100, 3):
            for ch in chs:
                inp = s2.make_simple_case(4, [limit], [b"jsonraw"], ch)
                d1 = dict(input=inp, tags=["framing", "jsonraw-whitespace"], nontrivial=True)
                _YIELDED.append(d1)
                yield d1
    streams = [b"\x02ab\x01c", b"\x03!ab\x01c", b"\x02?b\x01c", b"\x05abc", b"\x00\x00\x01a", b"\x02ab" * 3, b"\x01!\x01a", b"\x04ab",
               b"\x04!abc\x01z"]
    for variant in (b"eager", b"lazy", b"back1", b"seek1"):
        for stream in streams:
            for limit in ((100, 5, 4, 3) if thorough else (100, 4)):
                for hint in ((1, 2, 3, 8) if thorough else (rng.choice([1, 2]), rng.choice([3, 8]))):
                    chs = list(sc.all_chunkings(stream)) if len(stream) <= (6 if thorough else 5) else \
                        [[stream], [stream[i:i + 1] for i in range(len(stream))], sc.cuts_to_chunks(stream, [rng.randrange(1, len(stream))])]
                    for ch in chs:
                        for kind, cfg in ((5, [limit, s2.FB_EXPECTED]), (6, [limit, s2.FB_EXPECTED, hint])):
                            inp = s2.make_simple_case(kind, cfg, [b"fb", variant], ch)
                            d1 = dict(input=inp, tags=["framing", f"filebased-kind{kind}", variant.decode()], nontrivial=len(ch) > 1)
                            _YIELDED.append(d1)
                            yield d1
    for name, comp, klass in ((b"zlib", zlib.compress, zlib.error), (b"bz2", bz2.compress, OSError)):
        exp = excodes.caught_by([klass])
        for inner, payloads in ((b"json", [b'{"a":1}', b'[1,2']), (b"bytes", [b"hello", b""])):
            for p in payloads:
                good = comp(p)
                for st in (good, good + good, good + b"xyz", good[:-3], good[:5] + b"\x00\x00" + good[7:], b"\x00" + good):
                    hint = rng.choice([1, 3, 8, 1024])
                    for ch in chunkings(rng, st):
                        for kind, cfg in ((7, [exp]), (8, [exp, hint])):
                            inp = s2.make_simple_case(kind, cfg, [name, inner], ch)
                            d1 = dict(input=inp, tags=["framing", f"compressor-kind{kind}", name.decode()], nontrivial=len(ch) > 1 or st != good)
                            _YIELDED.append(d1)
                            yield d1


def fuzz_cases(tier, rng, thorough):
    n_rand = 80 if thorough else 30
    n_mut = 900 if thorough else 200
    for c0 in CONFIGS + EMPTY_INNER_CONFIGS:
        # (b) random bytes
        for _ in range(n_rand):
            c = c0.with_debug() if rng.random() < 0.4 else c0
            n = rng.choice([0, 1, 2, 3, 5, 8, 13, 21, 34])
            alphabet = rng.choice([None, b'{}[]",:\\ \n01e-tfn', b"\r\n\x00\xffAa=+/_-", None])
            data = bytes(rng.randrange(256) if alphabet is None else rng.choice(alphabet) for _ in range(n))
            for ch in chunkings(rng, data)[: (3 if thorough else 2)]:
                yield _case(c, data, ch, c.hint(rng), ["random"])
        # (c) mutations of valid streams
        for _ in range(n_mut):
            c = c0.with_debug() if rng.random() < 0.4 else c0
            frames = [c.frame(rng) for _ in range(rng.randint(1, 3))]
            stream = b"".join(frames)
            tag = "valid"
            if rng.random() < 0.9:
                stream, tag = mutate(rng, c, stream)
                if rng.random() < 0.2:
                    stream, tag2 = mutate(rng, c, stream)
                    tag = tag + "+" + tag2
            data = stream if rng.random() < 0.5 else frames[0]      # the one-shot input: whole stream or the first frame
            if rng.random() < 0.5:
                data, _ = mutate(rng, c, data)
            chs = chunkings(rng, stream)
            yield _case(c, data, rng.choice(chs), c.hint(rng), ["mutation", "mut:" + tag.split("+")[0]])


def extreme_inputs(c: Cfg, big):
    """(d) structurally extreme inputs up to the configured limit -> (data, tag).  The limit is BIG here (8 KiB: large
    enough for every shape that makes the libraries misbehave, small enough to be evaluated by vm_compute)."""
    f = c.family
    out = []
    if f in (1, 2):
        tail = b"\n" if f == 1 else b""
        out += [(b"[" * 900 + b"]" * 900 + tail, "deep-array-900"), (b'{"a":' * 400 + b"1" + b"}" * 400 + tail, "deep-object-400"),
                (b"1" * (big - 48) + b"\n", "digits-near-limit"), (b'"' + b"a" * (big - 100) + b'"' + tail, "long-string"),
                (b"[" * (big // 2) + tail, "unclosed-nesting-limit/2"), (b"9" * (big + 10), "digits-over-limit"),
                (b'"' + b"\\" * 999 + b'"' + tail, "backslashes"), (b"[" + b"1," * 800 + b"1]" + tail, "wide-array"),
                (b"1e" + b"9" * 1500 + b"\n", "huge-exponent"), (b"-" + b"0" * 1500 + b".5\n", "leading-zeros")]
    if f == 0:
        out += [(b"a" * (big - 1) + c.sep, "line-at-limit"), (b"a" * (big + 5), "line-over-limit-unterminated"),
                (b"\xff" * 1500 + c.sep, "long-invalid-utf8"), (c.sep * 300, "many-separators")]
    if f == 3:
        out += [(b"\xff" * 480, "many-frames-ff")]
    if f == 4:
        inner = c.impl[3]
        deep = b"[" * 400 + b"]" * 400 if inner == b"json" else bytes(900)
        out += [(_b64(deep, bool(c.impl[2]), c.impl[1]) + c.sep, "b64-deep-inner"), (b"A" * (big - 3) + c.sep, "b64-token-at-limit"),
                (b"=" * 1000 + c.sep, "b64-padding-only"), (b"A" * (big + 9), "b64-over-limit")]
    if f == 5:
        out += [(b"(" * 2000 + b".", "pickle-marks"), (b"]" * 2000 + b".", "pickle-empty-lists"),
                (b"\x80\x04\x8e" + (2 ** 62).to_bytes(8, "little") + b".", "pickle-huge-bytes8"),
                (b"\x80\x04" + b"]\x94" * 600 + b"a" * 599 + b".", "pickle-deep-append"),
                (b"I" + b"9" * 5000 + b"\n.", "pickle-long-int")]
    if f == 6:
        comp = zlib.compress if c.impl[0] == b"zlib" else bz2.compress
        inner = c.impl[1]
        payload = b"[" * 900 + b"]" * 900 if inner == b"json" else (b"]" * 2000 + b"." if inner == b"pickle" else bytes(2000))
        out += [(comp(payload), "compressed-extreme-inner"), (comp(b"ab" * 1000), "highly-compressible"), (comp(b"x")[:-1] * 20, "repeated-truncated"),
                (bytes(1500), "zeros")]
    if f == 7:
        out += [(b"\xff" + b"a" * 255, "fb-max-frame-over-limit"), (b"\x00" * 200, "fb-many-empty"), (b"\xff" * 40, "fb-declared-255")]
    return out


# F3: shapes that make CPython's json decoder raise something else than JSONDecodeError
def f3_inputs(c: Cfg):
    f = c.family
    out = []
    tail = b"\n" if f in (1,) else b""
    if f in (1, 2):
        out += [(b"[" * 1700 + b"]" * 1700 + tail, "deep-array-1700"), (b'{"":' * 1700 + b"1" + b"}" * 1700 + tail, "deep-object-1700"),
                (b"1" * 4301 + b"\n", "digits-4301"), (b"[-" + b"7" * 5000 + b"]" + tail, "digits-5000-in-array")]
    if f == 4 and c.impl[3] == b"json":
        out += [(_b64(b"[" * 1700 + b"]" * 1700, bool(c.impl[2]), c.impl[1]) + c.sep, "b64-deep-array-1700"),
                (_b64(b"1" * 4301, bool(c.impl[2]), c.impl[1]) + c.sep, "b64-digits-4301")]
    if f == 6 and c.impl[1] == b"json":
        comp = zlib.compress if c.impl[0] == b"zlib" else bz2.compress
        out += [(comp(b"[" * 1700 + b"]" * 1700), "compressed-deep-array-1700"), (comp(b"1" * 4301), "compressed-digits-4301")]
    return out


def _big(c: Cfg, big):
    """the same configuration with the limit [big]"""
    cfg = list(c.cfg)
    if c.family in (0, 4):
        cfg[1] = big
    elif c.family in (1, 2):
        cfg[0] = big
    elif c.family == 7:
        cfg[0] = 300
    return Cfg(c.name, c.family, cfg, c.impl, sep=c.sep, limit=big)


def extreme_cases(tier, rng, thorough):
    for c0 in CONFIGS + DEBUG_CONFIGS:
        c = _big(c0, BIG)
        for data, tag in extreme_inputs(c, BIG):
            hint = rng.choice([256, BIG])
            chs = [[data]] if len(data) > 6000 else [[data], sc.cuts_to_chunks(data, [len(data) // 3, 2 * len(data) // 3])]
            for ch in (chs if thorough else chs[-1:]):
                yield _case(c, data, ch, hint, ["extreme", "ext:" + tag], nontrivial=True)


def f3_cases(tier, rng, thorough):
    """inputs of the F3 family come last (see the module docstring of common/runner.py: the failure search walks the
    cases in order); exactly one case per known signature carries the `known` marker"""
    marked = set()
    pending = []
    for c0 in CONFIGS + DEBUG_CONFIGS:
        c = _big(c0, BIG2)
        for data, tag in f3_inputs(c):
            pending.append((c, data, tag))
    for c, data, tag in pending:
        yield _case(c, data, [data], BIG2, ["extreme", "f3-shape", "ext:" + tag], nontrivial=True)
    jraw = _big(BY_NAME["jsonraw"], BIG2)
    for data, sig in ((b"[" * 1700 + b"]" * 1700, "json-decode-escapes:RecursionError"),
                      (b"1" * 4301 + b"\n", "json-decode-escapes:ValueError:int-max-str-digits")):
        yield _case(jraw, data, sc.cuts_to_chunks(data, [len(data) // 2]), BIG2, ["f3-witness"], known=sig, nontrivial=True)


def boundary_cases(tier, rng, thorough):
    """separator-framed serializers at the limit boundary after earlier traffic: a frame that fills the receive buffer
    exactly (so the last buffer cells hold a separator), then an over-long frame that ends with a proper prefix of the
    separator one byte before the buffer is full, then the rest of the separator and a short frame.  What the limit
    error carries as remainder (and hence what is parsed next) must not depend on stale buffer contents."""
    for c0 in CONFIGS:
        if c0.sep is None or c0.family not in s2.HAS_BUF:
            continue
        filler = b"b" if c0.family == 0 else b"A"
        L, sep = c0.limit, c0.sep
        for c in (c0, c0.with_debug()):
            for first_len in ((L, L - 1, L - 2) if thorough else (L, L - 1)):
                frame1 = filler * (first_len - len(sep)) + sep
                for k in range(0, len(sep)):
                    for over_len in ((L - 1, L, L - 2) if thorough else (L - 1, L)):
                        over = filler * (over_len - k) + sep[:k]
                        tail = sep[k:] + filler * 2 + sep
                        stream = frame1 + over + tail
                        chunkings_ = [[frame1, over, tail], [frame1, over + tail], [frame1 + over, tail],
                                      [frame1] + [over[i:i + 1] for i in range(len(over))] + [tail]]
                        for ch in chunkings_:
                            yield _case(c, frame1, ch, rng.choice([1024, L, 7]), ["limit-boundary", f"seplen{len(sep)}", f"k{k}"],
                                        nontrivial=True)


def overrun_tail_cases(tier, rng, thorough):
    """over-limit frames whose last bytes are drawn from the separator's own alphabet (every combination for short
    separators): the limit error has to work out which suffix may still be the beginning of a separator, and must
    return; then the separator and a short frame"""
    import itertools
    for c0 in CONFIGS:
        if c0.sep is None or len(c0.sep) < 2 or c0.family not in s2.HAS_COPY:
            continue
        filler = b"b" if c0.family == 0 else b"A"
        L, sep = c0.limit, c0.sep
        alphabet = sorted(set(sep)) + [filler[0]]
        tails = [bytes(x) for x in itertools.product(alphabet, repeat=min(len(sep) - 1, 4))]
        if len(tails) > (40 if thorough else 16):
            tails = rng.sample(tails, 40 if thorough else 16)
        for tail_ in tails:
            if sep in tail_:
                continue
            over = filler * (L + 1) + tail_
            if sep in over:
                continue
            rest = sep + filler * 2 + sep
            for c in ((c0, c0.with_debug()) if thorough else (c0,)):
                for ch in ([over + rest], [over, rest], [over[i:i + 1] for i in range(len(over))] + [rest]):
                    yield _case(c, over, ch, rng.choice([1024, 7]), ["overrun-tail", f"seplen{len(sep)}"], nontrivial=True)


def short_start_cases(tier, rng, thorough):
    """separator-framed serializers whose generator starts on fewer bytes than the separator: several valid frames, reads
    cut 1 .. seplen bytes after each separator (so the bytes re-injected for the next frame, or the first read of a
    frame, are shorter than the separator), plus byte-by-byte delivery"""
    for c0 in CONFIGS:
        if c0.sep is None or c0.family not in s2.HAS_COPY:
            continue
        for c in (c0, c0.with_debug()):
            for _ in range(6 if thorough else 2):
                frames = [c.frame(rng) for _ in range(3)]
                stream = b"".join(frames)
                ends = [len(frames[0]), len(frames[0]) + len(frames[1])]
                chs = [[stream[i:i + 1] for i in range(len(stream))]] if len(stream) <= 160 else []
                for j in range(1, len(c.sep) + 1):
                    chs.append(sc.cuts_to_chunks(stream, [e + j for e in ends]))
                    chs.append(sc.cuts_to_chunks(stream, [ends[0], ends[0] + j, ends[1], ends[1] + j]))
                for ch in chs:
                    yield _case(c, frames[0], ch, c.hint(rng), ["short-start", f"seplen{len(c.sep)}"], nontrivial=True)


def empty_payload_cases(tier, rng, thorough):
    """the empty payload through every serializer and every wrapper / inner combination: empty one-shot data and empty
    datagram, an empty frame on a stream (a lone separator, an empty base64 token, a compressed empty payload)"""
    for c0 in CONFIGS + EMPTY_INNER_CONFIGS:
        for c in (c0, c0.with_debug()):
            f = c.family
            if f in (0, 1):
                streams = [c.sep, c.sep + c.sep]
            elif f == 2:
                streams = [b"\n", b'""', b"[]{}"]
            elif f == 4:
                streams = [c.sep, _b64(b"", bool(c.impl[2]), c.impl[1]) + c.sep, c.sep + _b64(b"", bool(c.impl[2]), c.impl[1]) + c.sep]
            elif f == 6:
                comp = zlib.compress if c.impl[0] == b"zlib" else bz2.compress
                streams = [comp(b""), comp(b"") + comp(b"")]
            elif f == 7:
                streams = [b"\x00", b"\x00\x00"]
            else:
                streams = [b""]
            for st in streams:
                for ch in ([[st]] if len(st) < 2 else [[st], [st[i:i + 1] for i in range(len(st))]]):
                    yield _case(c, b"", [x for x in ch if x], c.hint(rng), ["empty-payload"], nontrivial=True)


def cases(tier, rng, escalate):
    thorough = tier == "thorough" or escalate
    del _YIELDED[:]
    yield from framing_cases(tier, rng, thorough)
    yield from boundary_cases(tier, rng, thorough)
    yield from short_start_cases(tier, rng, thorough)
    yield from overrun_tail_cases(tier, rng, thorough)
    yield from empty_payload_cases(tier, rng, thorough)
    yield from fuzz_cases(tier, rng, thorough)
    yield from extreme_cases(tier, rng, thorough)
    yield from f3_cases(tier, rng, thorough)


run_impl = s2.run_impl


# ------------------------------------------------------------------ the property, stated on the implementation

def _exc_text(exc):
    root = exc
    while root.__cause__ is not None:
        root = root.__cause__
    return type(root).__name__, str(root)[:80]


class _Exempt(Exception):
    pass


def _escape(where, ser_name, exc):
    cls, msg = _exc_text(exc)
    if ser_name.startswith("fb/") and cls == "KeyError" and "what" in msg:
        # the test loader's deliberately UNdeclared error (payload starting with b"?"): a user loader raising a class
        # it did not declare is outside the property (documented behaviour of FileBasedPacketSerializer); these
        # cases exist to exercise the Crash path of the model.
        raise _Exempt()
    if ser_name.startswith("fb/seek1") and where == "BufferedStreamDataConsumer.next" and cls == "ValueError" \
            and "memoryview assignment" in msg:
        # the test loader that reports an error position far behind what it has read, with a receive buffer smaller
        # than the remainder: __save_remainder_in_buffer cannot store it (modelled: event [9, 2]).  Not reachable with
        # a loader that only moves forward (see meta/notes/C06.md); user code outside the property.
        raise _Exempt()
    return f"escape: {where} of {ser_name} raised {type(exc).__name__} (root cause {cls}: {msg})"


def oracle(inp):
    """Only a packet or a parse error leaves deserialize / build_packet_from_datagram / consumer.next, never a hang;
    every parse error of a consumer consumes at least one byte."""
    from easynetwork.exceptions import DatagramProtocolParseError, DeserializeError, StreamProtocolParseError
    from easynetwork.lowlevel._stream import BufferedStreamDataConsumer, StreamDataConsumer
    from easynetwork.protocol import BufferedStreamProtocol, DatagramProtocol, StreamProtocol

    if inp[0] == 20:
        _k, family, cfg, _tabs, data, chunks, hint, impl = inp[:8]
        modes = ["oneshot", "dgram"] + (["copy"] if family in s2.HAS_COPY else []) + (["buf"] if family in s2.HAS_BUF and hint > 0 else [])
    else:
        kind, cfg0, _tabs, chunks, impl = inp[:5]
        family, cfg, hint = s2.simple_family(kind, cfg0, impl)
        data = b"".join(chunks)
        modes = ["copy"] if kind in (4, 5, 7) else ["buf"]
    name = b"/".join(x for x in impl if isinstance(x, bytes)).decode()
    try:
        with s2.watchdog():
            if "oneshot" in modes:
                try:
                    s2.make_serializer(family, cfg, impl).deserialize(data)
                except DeserializeError:
                    pass
                except Exception as exc:
                    return _escape("deserialize", name, exc)
            if "dgram" in modes:
                try:
                    DatagramProtocol(s2.make_serializer(family, cfg, impl)).build_packet_from_datagram(data)
                except DatagramProtocolParseError:
                    pass
                except Exception as exc:
                    return _escape("build_packet_from_datagram", name, exc)
            if "copy" in modes:
                consumer = StreamDataConsumer(StreamProtocol(s2.make_serializer(family, cfg, impl)))
                before = 0          # bytes handed to the parser since its last event
                fed = b""
                for ch in chunks:
                    arg = ch
                    before += len(ch)
                    fed += ch
                    for _ in range(before + 3):
                        try:
                            consumer.next(arg)
                        except StopIteration:
                            break
                        except StreamProtocolParseError as exc:
                            after = len(consumer.get_buffer())
                            if bytes(exc.remaining_data) != bytes(consumer.get_buffer()):
                                return f"remainder: copying consumer of {name} kept a buffer different from the error's remaining_data"
                            if not fed.endswith(bytes(exc.remaining_data)):
                                return f"remainder: parse error of the copying consumer of {name} carries bytes that are not the unread end of what was received"
                            if not after < before:
                                return f"no-progress: copying consumer of {name}: parse error consumed no byte ({before} -> {after})"
                        except Exception as exc:
                            return _escape("StreamDataConsumer.next", name, exc)
                        arg = None
                        before = len(consumer.get_buffer())
                    else:
                        return f"no-progress: copying consumer of {name} keeps producing events"
                stalled = _stalled(family, cfg, fed[len(fed) - before:] if before else b"")
                if stalled:
                    return f"stall: copying consumer of {name}: {stalled}"
            if "buf" in modes:
                consumer = BufferedStreamDataConsumer(BufferedStreamProtocol(s2.make_serializer(family, cfg, impl)), hint)
                fed = b""
                pend = 0            # bytes handed to the parser since its last event
                for ch in chunks:
                    view = memoryview(ch)
                    held = 0
                    while len(view):
                        try:
                            wb = consumer.get_write_buffer()
                        except Exception as exc:
                            return _escape("BufferedStreamDataConsumer.get_write_buffer", name, exc)
                        with memoryview(wb) as mv:
                            n = min(mv.nbytes, len(view))
                            mv[:n] = view[:n]
                        del wb
                        fed += bytes(view[:n])
                        pend += n
                        view = view[n:]
                        arg = n
                        avail = None       # bytes the failing parse had at its disposal: unknown for the first event
                        for _ in range(len(ch) + 64 + 3):
                            try:
                                consumer.next(arg)
                            except StopIteration:
                                break
                            except StreamProtocolParseError as exc:
                                rem = len(exc.remaining_data)
                                if not fed.endswith(bytes(exc.remaining_data)):
                                    return (f"remainder: parse error of the buffered consumer of {name} carries bytes that are not "
                                            f"the unread end of what was received ({bytes(exc.remaining_data)[:24]!r})")
                                kept = (consumer.get_value() or b"")[:rem]
                                if rem and kept != bytes(exc.remaining_data):
                                    return (f"remainder: buffered consumer of {name} kept {kept[:24]!r} for the next parse but the "
                                            f"error carries {bytes(exc.remaining_data)[:24]!r}")
                                if avail is not None and not rem < avail:
                                    return f"no-progress: buffered consumer of {name}: parse error consumed no byte ({avail} -> {rem})"
                                avail = rem
                                pend = rem
                            except Exception as exc:
                                return _escape("BufferedStreamDataConsumer.next", name, exc)
                            else:
                                avail = s2._saved_len(consumer)
                                pend = avail
                            arg = None
                        else:
                            return f"no-progress: buffered consumer of {name} keeps producing events"
                stalled = _stalled(family, cfg, fed[len(fed) - pend:] if pend else b"")
                if stalled:
                    return f"stall: buffered consumer of {name}: {stalled}"
    except s2.WatchdogTimeout:
        return f"hang: {name} did not answer within {s2.leash(s2.WATCHDOG_S)} s (watchdog)"
    except _Exempt:
        return None
    return None


def _stalled(family, cfg, pending: bytes):
    """the bytes handed to the parser since its last event contain a complete frame, yet no event came: the receive loop
    would wait for ever (separator-framed and fixed-size families, where completeness is a property of the bytes)"""
    if family in (0, 4) and cfg[0] in pending:
        return f"{len(pending)} bytes including a separator are held without any packet or error"
    if family == 1 and b"\n" in pending:
        return f"{len(pending)} bytes including a newline are held without any packet or error"
    if family == 3 and len(pending) >= cfg[0]:
        return f"{len(pending)} bytes (frame size {cfg[0]}) are held without any packet or error"
    return None


def signature(inp, failure):
    kind = failure.split(":")[0]
    if kind == "escape":
        impl = inp[7] if inp[0] == 20 else inp[4]
        json_involved = any(x in (b"jsonl", b"jsonraw", b"json") for x in impl if isinstance(x, bytes))
        if json_involved and "root cause RecursionError" in failure:
            return "json-decode-escapes:RecursionError"
        if json_involved and "root cause ValueError" in failure and "integer string conversion" in failure:
            return "json-decode-escapes:ValueError:int-max-str-digits"
        root = failure.split("root cause ")[1].split(":")[0] if "root cause " in failure else "?"
        where = failure.split("escape: ")[1].split(" of ")[0]
        return f"escape:{impl[0].decode()}:{where}:{root}"
    return kind + ":" + (inp[7] if inp[0] == 20 else inp[4])[0].decode()


def shrink(inp):
    if inp[0] != 20:
        kind, cfg, _tabs, chunks, impl = inp[:5]
        for i in range(len(chunks) - 1):
            ch = chunks[:i] + [chunks[i] + chunks[i + 1]] + chunks[i + 2:]
            yield s2.make_simple_case(kind, cfg, impl, ch)
        return
    _k, family, cfg, _tabs, data, chunks, hint, impl = inp[:8]
    for i in range(len(chunks) - 1):
        yield s2.make_case(family, cfg, impl, data, chunks[:i] + [chunks[i] + chunks[i + 1]] + chunks[i + 2:], hint)
    if len(chunks) == 1 and len(chunks[0]) > 1:
        s = chunks[0]
        for cut in (s[: len(s) // 2], s[len(s) // 2:], s[:-1], s[1:]):
            yield s2.make_case(family, cfg, impl, data, [cut], hint)
    if len(data) > 1:
        for cut in (data[: len(data) // 2], data[len(data) // 2:], data[:-1], data[1:]):
            yield s2.make_case(family, cfg, impl, cut, chunks, hint)


# ------------------------------------------------------------------ validation of the hypothesis H_declared

def _has_escape(out):
    """a non-parse-error outcome somewhere in an implementation output"""
    def walk(o):
        if isinstance(o, list):
            if o and isinstance(o[0], int) and not isinstance(o[0], bool):
                if o[0] in (2, 7, 8, 9) and all(isinstance(x, int) for x in o) and len(o) <= 2:
                    return True
            return any(walk(x) for x in o if isinstance(x, list))
        return False
    return walk(out)


def extra(ctx):
    """H_declared / H_progress validated on every case of the run: a crash, escape, hang or stalled loop that the
    model reproduces faithfully is still a refutation of the hypotheses the theorems rest on."""
    known = {e["signature"] for e in runner.load_known(PROPERTY_ID)}
    tolerated, checked, bad = {}, 0, 0
    for c in _YIELDED:
        out = c.get("impl")
        if out is None or c.get("known"):
            continue
        checked += 1
        if not _has_escape(out):
            continue
        fail = oracle(c["input"])
        if fail is None:
            continue        # a crash marker the property does not forbid cannot exist; kept for robustness
        sig = signature(c["input"], fail)
        if sig in known:
            tolerated[sig] = tolerated.get(sig, 0) + 1
            continue
        bad += 1
        if bad >= 25:
            break           # the refutation is established; do not replay hundreds of (possibly hanging) cases
        if bad <= 3:
            ctx.problems.append(dict(kind="hypothesis", detail="H_declared/H_progress refuted by execution: " + fail,
                                     input=runner.sx.to_text(c["input"])))
    return dict(hypothesis_cases_checked=checked, hypothesis_refutations=bad,
                known_finding_hits_outside_the_witnesses=tolerated,
                buffered_remaining_data_aliasing_observed=s2.ALIASED[0],
                except_tables_obtained_by=dict(c06params.METHODS))
